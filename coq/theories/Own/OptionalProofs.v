(* Own/OptionalProofs.v — the optional model (Own/Optional.v) refines plain value semantics, never aliases,
   never leaks a cell; for ALL operation lists. *)
From Coq Require Import List Arith Bool Lia.
From Nitro Require Import Base.Bytes Own.Count Own.CountProofs Own.Optional.
Import ListNotations.
Local Open Scope list_scope.

Definition live_c (cs : list cell) (id : nat) : nat :=
  match nth_error cs id with Some x => if calive x then 1 else 0 | None => 0 end.
Definition b2n (b : bool) : nat := if b then 1 else 0.

(* every cell is referred to by exactly as many optionals as it is alive (1 or 0); and the number of live
   cells is the number of engaged optionals *)
Record oinv (st : ostate) : Prop := mkOInv {
  oinv_cnt : forall id, cnt oid id (opts st) = live_c (cells st) id;
  oinv_live : live_cells st = nsome (opts st) }.

Lemma holds_oid id o : holds oid id o = match o with Some c => if Nat.eqb c id then 1 else 0 | None => 0 end.
Proof. destruct o; reflexivity. Qed.

Lemma flen_setn {A} (f : A -> bool) l : forall k x y, nth_error l k = Some y ->
  length (filter f (setn l k x)) + b2n (f y) = length (filter f l) + b2n (f x).
Proof.
  induction l as [|z l IH]; intros [|k] x y H; simpl in *; try discriminate.
  - injection H as ->. destruct (f x), (f y); simpl; lia.
  - specialize (IH k x y H). destruct (f z); simpl; lia.
Qed.

Lemma flen_app {A} (f : A -> bool) l x : length (filter f (l ++ [x])) = length (filter f l) + b2n (f x).
Proof. rewrite filter_app, app_length. simpl. destruct (f x); simpl; lia. Qed.

Lemma live_c_app cs x id :
  live_c (cs ++ [x]) id = live_c cs id + (if Nat.eqb (length cs) id then b2n (calive x) else 0).
Proof.
  unfold live_c. destruct (Nat.lt_ge_cases id (length cs)) as [H|H].
  - rewrite nth_error_app1 by auto. destruct (Nat.eqb (length cs) id) eqn:E; [apply Nat.eqb_eq in E; lia|lia].
  - rewrite nth_error_app2 by auto. assert (E0 : nth_error cs id = None) by (apply nth_error_None; auto). rewrite E0.
    destruct (Nat.eqb (length cs) id) eqn:E.
    + apply Nat.eqb_eq in E. subst. rewrite Nat.sub_diag. simpl. destruct (calive x); reflexivity.
    + apply Nat.eqb_neq in E. destruct (id - length cs) as [|k] eqn:K; [lia|]. simpl. destruct k; reflexivity.
Qed.

Lemma live_c_range cs id : 0 < live_c cs id -> id < length cs.
Proof. unfold live_c. intros H. apply nth_error_Some. destruct (nth_error cs id); [discriminate|lia]. Qed.

Lemma free_length cs o : length (free_cell cs o) = length cs.
Proof. destruct o as [c|]; simpl; auto. destruct (nth_error cs c); auto. apply setn_length. Qed.

Lemma free_other cs o c : o <> Some c -> nth_error (free_cell cs o) c = nth_error cs c.
Proof.
  destruct o as [c'|]; simpl; auto. intros H. destruct (nth_error cs c'); auto.
  apply nth_error_setn_ne. congruence.
Qed.

Lemma free_one cs o : (forall id, holds oid id o <= live_c cs id) ->
  (forall id, live_c (free_cell cs o) id + holds oid id o = live_c cs id)
  /\ length (filter calive (free_cell cs o)) + b2n (is_some o) = length (filter calive cs).
Proof.
  intros Hb. destruct o as [c|]; simpl.
  2:{ split; [intros; rewrite holds_oid; lia | lia]. }
  specialize (Hb c) as Hc. rewrite holds_oid, Nat.eqb_refl in Hc. unfold live_c in Hc.
  destruct (nth_error cs c) as [x|] eqn:E; [|lia]. destruct (calive x) eqn:A; [|lia]. split.
  - intros id. rewrite holds_oid. unfold live_c. destruct (Nat.eqb c id) eqn:Ec.
    + apply Nat.eqb_eq in Ec. subst id. rewrite (nth_error_setn_eq _ _ _ _ E), E, A. reflexivity.
    + apply Nat.eqb_neq in Ec. rewrite nth_error_setn_ne by auto. lia.
  - pose proof (flen_setn calive cs c (mkCell (cval x) false) x E) as F. simpl in F. rewrite A in F. simpl in F. lia.
Qed.

Lemma setn_map_ext {A B} (f g : A -> B) l : forall i z,
  (forall k y, k <> i -> nth_error l k = Some y -> f y = g y) -> setn (map f l) i z = setn (map g l) i z.
Proof.
  induction l as [|a l IH]; intros [|i] z H; simpl; auto.
  - f_equal. apply map_ext_in. intros y Hy. apply In_nth_error in Hy. destruct Hy as [k Hk].
    apply (H (S k) y); auto.
  - f_equal; [apply (H 0 a); auto|]. apply IH. intros k y Hk Hy. apply (H (S k) y); auto.
Qed.

(* ---------- the two shapes every mutating operation has ---------- *)

(* slot i lets go of its old cell and takes a freshly allocated one holding v *)
Lemma replace_with_new st i old v : oinv st -> nth_error (opts st) i = Some old ->
  let st' := mkO (free_cell (cells st ++ [mkCell v true]) old) (setn (opts st) i (Some (length (cells st)))) in
  oinv st' /\ views st' = setn (views st) i (VVal v).
Proof.
  intros [Hc Hl] Hi. destruct st as [cs os]. simpl in *.
  set (n := length cs). set (cs1 := cs ++ [mkCell v true]).
  assert (Hold : forall id, holds oid id old <= live_c cs id).
  { intros id. rewrite <- Hc. eapply cnt_nth; eauto. }
  assert (Hold1 : forall id, holds oid id old <= live_c cs1 id).
  { intros id. unfold cs1. rewrite live_c_app. specialize (Hold id). lia. }
  destruct (free_one cs1 old Hold1) as [F1 F2].
  assert (Hon : old <> Some n).
  { intros ->. specialize (Hold n). rewrite holds_oid, Nat.eqb_refl in Hold.
    assert (n < length cs) by (apply live_c_range; lia). unfold n in *. lia. }
  split; [constructor; simpl|].
  - intros id. pose proof (cnt_setn oid id os i (Some n) old Hi) as P. specialize (F1 id).
    unfold cs1 in F1. rewrite live_c_app in F1. simpl in F1. rewrite (holds_oid id (Some n)) in P. specialize (Hc id).
    fold cs1 in F1. fold n in F1. lia.
  - unfold live_cells in *. simpl in *. unfold nsome.
    pose proof (flen_setn is_some os i (Some n) old Hi) as P. simpl in P.
    unfold cs1 in F2. rewrite flen_app in F2. simpl in F2. fold cs1 in F2. unfold nsome in Hl. lia.
  - unfold views. simpl. rewrite map_setn.
    assert (Vn : view_of (free_cell cs1 old) (Some n) = VVal v).
    { simpl. rewrite free_other by auto. unfold cs1, n. rewrite nth_error_app2, Nat.sub_diag by auto. reflexivity. }
    rewrite Vn. apply setn_map_ext. intros k y Hk Hy. destruct y as [c|]; simpl; auto.
    assert (Hyc : live_c cs c = 1).
    { pose proof (cnt_nth oid c os k (Some c) Hy) as C. rewrite holds_oid, Nat.eqb_refl, Hc in C.
      unfold live_c in *. destruct (nth_error cs c) as [x|]; [destruct (calive x)|]; lia. }
    assert (old <> Some c).
    { intros ->. pose proof (cnt_two oid c os k i (Some c) (Some c) Hk Hy Hi) as C.
      rewrite holds_oid, Nat.eqb_refl, Hc in C. lia. }
    rewrite free_other by auto. unfold cs1. rewrite nth_error_app1; auto. apply live_c_range. lia.
Qed.

(* slot i lets go of its old cell and becomes empty *)
Lemma replace_with_none st i old : oinv st -> nth_error (opts st) i = Some old ->
  let st' := mkO (free_cell (cells st) old) (setn (opts st) i None) in
  oinv st' /\ views st' = setn (views st) i VEmpty.
Proof.
  intros [Hc Hl] Hi. destruct st as [cs os]. simpl in *.
  assert (Hold : forall id, holds oid id old <= live_c cs id).
  { intros id. rewrite <- Hc. eapply cnt_nth; eauto. }
  destruct (free_one cs old Hold) as [F1 F2].
  split; [constructor; simpl|].
  - intros id. pose proof (cnt_setn oid id os i None old Hi) as P. specialize (F1 id). specialize (Hc id).
    rewrite (holds_oid id None) in P. lia.
  - unfold live_cells in *. simpl in *. unfold nsome.
    pose proof (flen_setn is_some os i None old Hi) as P. simpl in P. unfold nsome in Hl. lia.
  - unfold views. simpl. rewrite map_setn. simpl.
    apply setn_map_ext. intros k y Hk Hy. destruct y as [c|]; simpl; auto.
    assert (old <> Some c).
    { intros ->. pose proof (cnt_two oid c os k i (Some c) (Some c) Hk Hy Hi) as C.
      rewrite holds_oid, Nat.eqb_refl, Hc in C.
      unfold live_c in C. destruct (nth_error cs c) as [x|]; [destruct (calive x)|]; lia. }
    rewrite free_other by auto. reflexivity.
Qed.

(* an engaged optional refers to a live cell *)
Lemma engaged_view st k c : oinv st -> nth_error (opts st) k = Some (Some c) ->
  view_of (cells st) (Some c) = VVal (deref (cells st) c).
Proof.
  intros [Hc _] Hk. pose proof (cnt_nth oid c _ k _ Hk) as C. rewrite holds_oid, Nat.eqb_refl, Hc in C.
  unfold live_c in C. simpl. unfold deref. destruct (nth_error (cells st) c) as [x|]; [|lia].
  destruct (calive x); [reflexivity|lia].
Qed.

Lemma nth_views st k : nth_error (views st) k = option_map (view_of (cells st)) (nth_error (opts st) k).
Proof. unfold views. rewrite nth_error_map. reflexivity. Qed.

Lemma setn_out_len {A} (l : list A) i x : nth_error l i = None -> setn l i x = l.
Proof. apply setn_out. Qed.

(* ---------- refinement: one operation on the cell model = one operation on plain values ---------- *)
Lemma o_step_refines st o : oinv st -> oinv (o_step st o) /\ views (o_step st o) = o_spec_step (views st) o.
Proof.
  intros I. destruct o as [i v|i v|i j|i j|i|i|i]; simpl.
  - destruct (nth_error (opts st) i) as [self|] eqn:Ei.
    + apply (replace_with_new st i self v I Ei).
    + split; auto. rewrite setn_out; auto. rewrite nth_views, Ei. reflexivity.
  - destruct (nth_error (opts st) i) as [self|] eqn:Ei.
    + apply (replace_with_new st i self v I Ei).
    + split; auto. rewrite setn_out; auto. rewrite nth_views, Ei. reflexivity.
  - rewrite nth_views. destruct (nth_error (opts st) j) as [other|] eqn:Ej; simpl.
    2:{ destruct (nth_error (opts st) i); auto. }
    destruct (nth_error (opts st) i) as [self|] eqn:Ei.
    2:{ split; auto. rewrite setn_out; auto. rewrite nth_views, Ei. reflexivity. }
    destruct other as [c|]; simpl.
    + pose proof (engaged_view st j c I Ej) as EV. simpl in EV. rewrite EV.
      apply (replace_with_new st i self (deref (cells st) c) I Ei).
    + apply (replace_with_none st i self I Ei).
  - rewrite nth_views. destruct (nth_error (opts st) j) as [other|] eqn:Ej; simpl.
    2:{ destruct (nth_error (opts st) i); auto. }
    destruct (nth_error (opts st) i) as [self|] eqn:Ei.
    2:{ split; auto. rewrite setn_out; auto. rewrite nth_views, Ei. reflexivity. }
    destruct other as [c|]; simpl.
    + pose proof (engaged_view st j c I Ej) as EV. simpl in EV. rewrite EV.
      apply (replace_with_new st i self (deref (cells st) c) I Ei).
    + apply (replace_with_none st i self I Ei).
  - destruct (nth_error (opts st) i) as [self|] eqn:Ei; simpl.
    + apply (replace_with_none st i self I Ei).
    + split; auto. rewrite setn_out; auto. rewrite nth_views, Ei. reflexivity.
  - destruct (nth_error (opts st) i) as [self|] eqn:Ei; simpl.
    + apply (replace_with_none st i self I Ei).
    + split; auto. rewrite setn_out; auto. rewrite nth_views, Ei. reflexivity.
  - auto.
Qed.

Lemma oinv_init n : oinv (o_init n).
Proof.
  constructor; simpl.
  - intros id. rewrite cnt_all_none.
    + unfold live_c. destruct id; reflexivity.
    + intros a Ha. apply repeat_spec in Ha. subst. reflexivity.
  - unfold live_cells, nsome. simpl. induction n; simpl; auto.
Qed.

Lemma o_run_refines ops : forall st, oinv st ->
  oinv (o_run st ops) /\ views (o_run st ops) = fold_left o_spec_step ops (views st).
Proof.
  induction ops as [|o ops IH]; intros st I; simpl; auto.
  destruct (o_step_refines st o I) as [I' V]. destruct (IH _ I') as [I'' V'']. split; auto. rewrite V''. f_equal. exact V.
Qed.

Lemma views_init n : views (o_init n) = repeat VEmpty n.
Proof. unfold views. simpl. induction n; simpl; auto. f_equal; auto. Qed.

Lemma oinv_reach n ops : oinv (o_run (o_init n) ops).
Proof. apply o_run_refines, oinv_init. Qed.

(* ---------- theorems ---------- *)

(* the whole history: what is visible through the optionals is what the same operations do to plain values *)
Theorem optional_is_a_value n ops :
  views (o_run (o_init n) ops) = fold_left o_spec_step ops (repeat VEmpty n).
Proof. rewrite <- views_init. apply o_run_refines, oinv_init. Qed.

(* reading agrees with the view: raises exactly on an empty optional *)
Theorem read_is_view st i : opt_read st i = o_spec_read (views st) i.
Proof.
  unfold opt_read, o_spec_read. rewrite nth_views. destruct (nth_error (opts st) i) as [[c|]|]; simpl; auto.
  destruct (nth_error (cells st) c) as [x|]; auto. destruct (calive x); auto.
Qed.

Theorem read_empty_raises st i : opt_bool st i = false -> opt_read st i = RRaise.
Proof. unfold opt_bool, opt_read. destruct (nth_error (opts st) i) as [[c|]|]; auto; discriminate. Qed.

Theorem read_engaged_returns n ops i : let st := o_run (o_init n) ops in
  opt_bool st i = true -> exists v, opt_read st i = RVal v.
Proof.
  intros st. unfold opt_bool, opt_read. destruct (nth_error (opts st) i) as [[c|]|] eqn:E; try discriminate.
  intros _. rewrite (engaged_view st i c (oinv_reach n ops) E). eauto.
Qed.

(* distinct optionals never share a cell *)
Theorem no_alias n ops i j c c' : let st := o_run (o_init n) ops in
  i <> j -> nth_error (opts st) i = Some (Some c) -> nth_error (opts st) j = Some (Some c') -> c <> c'.
Proof.
  intros st Hne Hi Hj ->. pose proof (cnt_two oid c' _ i j _ _ Hne Hi Hj) as C.
  rewrite holds_oid, Nat.eqb_refl in C. rewrite (oinv_cnt _ (oinv_reach n ops)) in C.
  unfold live_c in C. destruct (nth_error _ c') as [x|]; [destruct (calive x)|]; lia.
Qed.

(* a cell is alive iff exactly one optional owns it (no leak, no premature free); live cells = engaged optionals *)
Theorem cells_balanced n ops : let st := o_run (o_init n) ops in
  (forall id x, nth_error (cells st) id = Some x -> cnt oid id (opts st) = if calive x then 1 else 0)
  /\ live_cells st = nsome (opts st).
Proof.
  intros st. subst st. pose proof (oinv_reach n ops) as [Hc Hl]. split; auto.
  intros id x Hx. rewrite Hc. unfold live_c. rewrite Hx. reflexivity.
Qed.

(* writing through one optional never changes what another one holds *)
Theorem write_leaves_others n ops o i j : let st := o_run (o_init n) ops in
  o_target o = Some i -> j <> i -> opt_read (o_step st o) j = opt_read st j.
Proof.
  intros st Ht Hne. rewrite !read_is_view. destruct (o_step_refines st o (oinv_reach n ops)) as [_ V]. rewrite V.
  unfold o_spec_read.
  assert (E : nth_error (o_spec_step (views st) o) j = nth_error (views st) j).
  { destruct o as [a v|a v|a b|a b|a|a|a]; simpl in *; try discriminate; injection Ht as ->;
      try (apply nth_error_setn_ne; auto).
    - destruct (nth_error (views st) b); auto. apply nth_error_setn_ne; auto.
    - destruct (nth_error (views st) b); auto. apply nth_error_setn_ne; auto. }
  rewrite E. reflexivity.
Qed.

(* assigning (or copy-constructing from) an empty optional empties the target *)
Theorem assign_empty_empties n ops i j : let st := o_run (o_init n) ops in
  i < length (opts st) -> nth_error (opts st) j = Some None ->
  opt_read (o_step st (OAssign i j)) i = RRaise /\ opt_bool (o_step st (OAssign i j)) i = false
  /\ opt_read (o_step st (OCopyCtor i j)) i = RRaise /\ opt_read (o_step st (OAssignEmpty i)) i = RRaise.
Proof.
  intros st Hi Hj. apply nth_error_Some in Hi. destruct (nth_error (opts st) i) as [self|] eqn:Ei; [|congruence].
  assert (Hs : nth_error (setn (opts st) i (@None nat)) i = Some None) by (eapply nth_error_setn_eq; eauto).
  unfold opt_read, opt_bool. simpl. rewrite Ei, Hj. simpl. rewrite Hs. auto.
Qed.

(* copying preserves the value, and the source keeps it *)
Theorem value_preserved n ops i j v : let st := o_run (o_init n) ops in
  i < length (opts st) -> opt_read st j = RVal v ->
  opt_read (o_step st (OAssign i j)) i = RVal v /\ opt_read (o_step st (OAssign i j)) j = RVal v /\
  opt_read (o_step st (OCopyCtor i j)) i = RVal v /\ opt_read (o_step st (OCopyCtor i j)) j = RVal v.
Proof.
  intros st Hi Hj. pose proof (oinv_reach n ops) as I. fold st in I.
  rewrite !read_is_view in *.
  destruct (o_step_refines st (OAssign i j) I) as [_ V1]. destruct (o_step_refines st (OCopyCtor i j) I) as [_ V2].
  rewrite V1, V2. simpl. unfold o_spec_read in *.
  assert (Li : i < length (views st)) by (unfold views; rewrite map_length; auto).
  apply nth_error_Some in Li. destruct (nth_error (views st) i) as [vi|] eqn:Ei; [|congruence].
  destruct (nth_error (views st) j) as [vj|] eqn:Ej; [|discriminate].
  rewrite (nth_error_setn_eq _ _ vj _ Ei).
  destruct (Nat.eq_dec i j) as [->|Hne].
  - rewrite (nth_error_setn_eq _ _ vj _ Ei). auto.
  - rewrite nth_error_setn_ne, Ej by auto. auto.
Qed.

(* assigning a value is read back *)
Theorem value_assigned_is_read n ops i v : let st := o_run (o_init n) ops in
  i < length (opts st) -> opt_read (o_step st (OValAssign i v)) i = RVal v /\ opt_read (o_step st (OValCtor i v)) i = RVal v.
Proof.
  intros st Hi. pose proof (oinv_reach n ops) as I. fold st in I. rewrite !read_is_view.
  destruct (o_step_refines st (OValAssign i v) I) as [_ V1]. destruct (o_step_refines st (OValCtor i v) I) as [_ V2].
  rewrite V1, V2. simpl. unfold o_spec_read.
  assert (Li : i < length (views st)) by (unfold views; rewrite map_length; auto).
  apply nth_error_Some in Li. destruct (nth_error (views st) i) as [vi|] eqn:Ei; [|congruence].
  rewrite (nth_error_setn_eq _ _ (VVal v) _ Ei). auto.
Qed.

(* after every optional is destroyed no cell is left alive *)
Lemma free_all_ok l : forall cs, (forall id, cnt oid id l <= live_c cs id) ->
  forall id, live_c (free_all cs l) id + cnt oid id l = live_c cs id.
Proof.
  induction l as [|o l IH]; intros cs Hb id; simpl; [lia|].
  destruct (free_one cs o) as [F _].
  { intros k. specialize (Hb k). simpl in Hb. lia. }
  rewrite <- (F id). rewrite <- (IH (free_cell cs o)); [lia|].
  intros k. specialize (Hb k). specialize (F k). simpl in Hb. lia.
Qed.

Theorem finish_frees_everything n ops x : In x (cells (o_finish (o_run (o_init n) ops))) -> calive x = false.
Proof.
  intros Hx. apply In_nth_error in Hx. destruct Hx as [id Hid]. simpl in Hid.
  pose proof (oinv_reach n ops) as [Hc _].
  pose proof (free_all_ok _ _ (fun k => eq_ind _ (fun z => z <= _) (le_n _) _ (eq_sym (Hc k))) id) as F.
  rewrite Hc in F. unfold live_c at 1 in F. rewrite Hid in F. destruct (calive x); auto; lia.
Qed.

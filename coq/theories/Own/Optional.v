(* Own/Optional.v — executable model of nitro::lang::optional<T> (include/nitro/lang/optional.hpp), C18.

   optional<T> holds a std::unique_ptr<T> data_.  The model keeps a heap of cells (one per T object made by
   std::make_unique, identity = index, fresh for every allocation) and a pool of optionals, each either
   empty (None) or engaged with a cell id.  Whether two optionals can ever share a cell, and whether a
   cell is freed exactly when its optional lets go of it, are theorems (OptionalProofs.v), not built in.
   T is modelled as a byte string (the drivers use std::string and an instance-counting wrapper of one);
   the two overloads taking const T& and T&& are one model function each (same value semantics).
   std::unique_ptr / std::make_unique are assumed to behave as specified.
   Definitions only. *)
From Coq Require Import List Arith Bool.
From Nitro Require Import Base.Bytes Own.Count.
Import ListNotations.
Local Open Scope list_scope.

Record cell := mkCell { cval : str; calive : bool }.
Record ostate := mkO { cells : list cell; opts : list (option nat) }.

Definition o_init (n : nat) : ostate := mkO [] (repeat None n).

(* std::make_unique<T>(v): a fresh cell *)
Definition new_cell (cs : list cell) (v : str) : list cell * nat := (cs ++ [mkCell v true], length cs).

(* the unique_ptr lets go of its pointee (destructor, reset(), or being assigned over) *)
Definition free_cell (cs : list cell) (c : option nat) : list cell :=
  match c with
  | Some id => match nth_error cs id with Some x => setn cs id (mkCell (cval x) false) | None => cs end
  | None => cs
  end.

(* what one sees through an optional *)
Inductive view := VEmpty | VVal (v : str) | VDangling.
Definition view_of (cs : list cell) (o : option nat) : view :=
  match o with
  | None => VEmpty
  | Some c => match nth_error cs c with Some x => if calive x then VVal (cval x) else VDangling | None => VDangling end
  end.

(* explicit operator bool *)
Definition opt_bool (st : ostate) (i : nat) : bool :=
  match nth_error (opts st) i with Some (Some _) => true | _ => false end.

(* operator*:  if (data_) return *data_;  raise("No value set"); *)
Inductive rd := RRaise | RVal (v : str) | RDangling.
Definition opt_read (st : ostate) (i : nat) : rd :=
  match nth_error (opts st) i with
  | Some (Some c) => match view_of (cells st) (Some c) with VVal v => RVal v | _ => RDangling end
  | _ => RRaise
  end.

(* the bytes *other yields (the stored value; stale bytes if the cell were already freed) *)
Definition deref (cs : list cell) (c : nat) : str := match nth_error cs c with Some x => cval x | None => [] end.

(* optional(const optional& other) { if (other) data_ = std::make_unique<T>( *other); } *)
Definition ctor_copy (cs : list cell) (other : option nat) : list cell * option nat :=
  match other with
  | Some c => let '(cs', id) := new_cell cs (deref cs c) in (cs', Some id)
  | None => (cs, None)
  end.

(* optional(const T& data) / optional(T&& data) : data_(std::make_unique<T>(data)) *)
Definition ctor_val (cs : list cell) (v : str) : list cell * option nat :=
  let '(cs', id) := new_cell cs v in (cs', Some id).

(* operator=(const optional& other):
     if (other) data_ = std::make_unique<T>( *other); else data_.reset();      (the else branch is repair D10) *)
Definition assign_opt (cs : list cell) (self other : option nat) : list cell * option nat :=
  match other with
  | Some c => let '(cs', id) := new_cell cs (deref cs c) in (free_cell cs' self, Some id)
  | None => (free_cell cs self, None)
  end.

(* operator=(const T&) / operator=(T&&):  data_ = std::make_unique<T>(data) *)
Definition assign_val (cs : list cell) (self : option nat) (v : str) : list cell * option nat :=
  let '(cs', id) := new_cell cs v in (free_cell cs' self, Some id).

Inductive oop :=
| OValAssign (i : nat) (v : str)     (* o[i] = v *)
| OValCtor (i : nat) (v : str)       (* slot i is replaced by a new optional(v); the old optional is destroyed afterwards *)
| OAssign (i j : nat)                (* o[i] = o[j] *)
| OCopyCtor (i j : nat)              (* slot i is replaced by a new optional(o[j]); the old one is destroyed afterwards *)
| OAssignEmpty (i : nat)             (* o[i] = optional<T>() *)
| ODefaultCtor (i : nat)             (* slot i is replaced by a new optional(); the old one is destroyed afterwards *)
| ORead (i : nat).                   (* *o[i]  (no state change) *)

Definition o_target (o : oop) : option nat :=
  match o with
  | OValAssign i _ | OValCtor i _ | OAssign i _ | OCopyCtor i _ | OAssignEmpty i | ODefaultCtor i => Some i
  | ORead _ => None
  end.

Definition o_step (st : ostate) (o : oop) : ostate :=
  match o with
  | OValAssign i v =>
      match nth_error (opts st) i with
      | Some self => let '(cs, d) := assign_val (cells st) self v in mkO cs (setn (opts st) i d)
      | None => st end
  | OValCtor i v =>
      match nth_error (opts st) i with
      | Some old => let '(cs, d) := ctor_val (cells st) v in mkO (free_cell cs old) (setn (opts st) i d)
      | None => st end
  | OAssign i j =>
      match nth_error (opts st) i, nth_error (opts st) j with
      | Some self, Some other => let '(cs, d) := assign_opt (cells st) self other in mkO cs (setn (opts st) i d)
      | _, _ => st end
  | OCopyCtor i j =>
      match nth_error (opts st) i, nth_error (opts st) j with
      | Some old, Some other => let '(cs, d) := ctor_copy (cells st) other in mkO (free_cell cs old) (setn (opts st) i d)
      | _, _ => st end
  | OAssignEmpty i =>
      match nth_error (opts st) i with
      | Some self => let '(cs, d) := assign_opt (cells st) self None in mkO cs (setn (opts st) i d)
      | None => st end
  | ODefaultCtor i =>
      match nth_error (opts st) i with
      | Some old => mkO (free_cell (cells st) old) (setn (opts st) i None)
      | None => st end
  | ORead _ => st
  end.

Definition o_run (st : ostate) (ops : list oop) : ostate := fold_left o_step ops st.

Fixpoint free_all (cs : list cell) (l : list (option nat)) : list cell :=
  match l with [] => cs | c :: r => free_all (free_cell cs c) r end.

(* every optional of the pool is destroyed *)
Definition o_finish (st : ostate) : ostate := mkO (free_all (cells st) (opts st)) (map (fun _ => None) (opts st)).

Definition views (st : ostate) : list view := map (view_of (cells st)) (opts st).
Definition live_cells (st : ostate) : nat := length (filter calive (cells st)).

(* ---- spec: optional<T> is a VALUE: a pool of optionals behaves like a list of independent
        "nothing or a T" values under assignment and copying ---- *)
Definition o_spec_step (l : list view) (o : oop) : list view :=
  match o with
  | OValAssign i v | OValCtor i v => setn l i (VVal v)
  | OAssign i j | OCopyCtor i j => match nth_error l j with Some x => setn l i x | None => l end
  | OAssignEmpty i | ODefaultCtor i => setn l i VEmpty
  | ORead _ => l
  end.

(* the outcome of reading, in terms of the value view *)
Definition o_spec_read (l : list view) (i : nat) : rd :=
  match nth_error l i with Some (VVal v) => RVal v | Some VDangling => RDangling | _ => RRaise end.

(* identity of the cell an optional refers to (for counting owners), and the number of engaged optionals *)
Definition oid (o : option nat) : option nat := o.
Definition is_some {A} (o : option A) : bool := match o with Some _ => true | None => false end.
Definition nsome {A} (l : list (option A)) : nat := length (filter is_some l).

Definition view_is_value (v : view) : bool := match v with VDangling => false | _ => true end.
Definition engaged_count (l : list view) : nat := length (filter (fun v => match v with VVal _ => true | _ => false end) l).

(* Usage/UsageSpec.v — what the usage text has to satisfy, in terms that do not mention the wrapping
   loop: lines, words, layout-free token sequences, and the line-width rule.  Everything that the
   test oracle evaluates on the IMPLEMENTATION's text is a boolean function of this file. *)
From Coq Require Import List Arith Bool ZArith.
From Coq Require Import Init.Byte Strings.Byte.
From Nitro Require Import Base.Bytes Str.StrModel Usage.UsageModel.
Import ListNotations.
Local Open Scope list_scope.

(* ------------------------------------------------------------------ cutting a text at separator bytes *)

(* the maximal runs between the bytes satisfying p (always at least one, possibly empty, run) *)
Fixpoint splitp (p : byte -> bool) (s : str) : list str :=
  match s with
  | [] => [[]]
  | c :: r =>
    if p c then [] :: splitp p r
    else match splitp p r with
         | l :: ls => (c :: l) :: ls
         | [] => [[c]]
         end
  end.

Definition lines (s : str) : list str := splitp (beq nl) s.          (* the lines of a text *)
Definition words (s : str) : list str := splitp (beq sp) s.          (* what split(text, " ") yields *)

Definition is_layout (c : byte) : bool := beq c sp || beq c tab || beq c nl.
(* the words of a text whatever its layout: maximal runs free of blank, tab and line break *)
Definition tokens (s : str) : list str := filter nonempty (splitp is_layout s).

Definition no_nl (s : str) : bool := forallb (fun c => negb (beq c nl)) s.

(* a tab inside a word becomes a blank *)
Definition detab_spec (w : str) : str := map (fun c => if beq c tab then sp else c) w.

(* ------------------------------------------------------------------ words_preserved *)

Definition blanks (k : nat) : str := repeat sp k.

(* what may stand in front of a word: blanks, or a line break followed by the padding *)
Inductive layout : str -> Prop :=
| layout_blanks k : 1 <= k -> layout (blanks k)
| layout_break k : 1 <= k -> layout (nl :: blanks k).

Fixpoint interleave (seps ws : list str) : str :=
  match seps, ws with
  | s :: ss, w :: r => s ++ w ++ interleave ss r
  | _, _ => []
  end.

(* ------------------------------------------------------------------ width *)

(* a word that cannot be placed: even alone behind the left column it passes max_width *)
Definition long_word (lp mw : nat) (w : str) : bool := mw - lp <? length w + 1.

(* the unbreakable words of a text wrapped behind column lp *)
Definition long_words_of (lp mw : nat) (text : str) : list str :=
  filter (long_word lp mw) (map detab_spec (words text)).

Definition has_long (L : list str) (l : str) : bool := existsb (fun w => contains w l) L.

(* the width rule for one line, weak form: it keeps to max_width or contains an unbreakable word *)
Definition line_ok (mw : nat) (L : list str) (l : str) : bool := (length l <=? mw) || has_long L l.

(* the width rule, strict form ("no line exceeds max_width unless a single unbreakable word forces it"):
   the line is an admissible beginning `b` (one that keeps to max_width; for the first line behind a wide
   left column: that column) followed by nothing but unbreakable words, each behind one blank.  Hence a line
   that exceeds max_width ENDS with an unbreakable word, and so does what remains when that word and its blank
   are taken away, down to the admissible beginning.  (Several unbreakable words in a row stay on one line:
   format_padded never breaks in front of such a word.) *)
Definition fits (mw : nat) (l : str) : bool := length l <=? mw.

Definition wide_line (base : str -> bool) (L : list str) (l : str) : Prop :=
  exists b ws, l = b ++ flat_map (fun w => sp :: w) ws /\ base b = true /\ Forall (fun w => In w L) ws.

(* the same, executable: judge the line by its LAST word and by the line without it *)
Definition strip_suffix (s l : str) : option str :=
  if length s <=? length l then
    let k := length l - length s in
    if seq_eqb (skipn k l) s then Some (firstn k l) else None
  else None.

Fixpoint strip_ok (fuel : nat) (base : str -> bool) (L : list str) (l : str) : bool :=
  base l ||
  match fuel with
  | 0 => false
  | S f => existsb (fun w => match strip_suffix (sp :: w) l with
                             | Some l' => strip_ok f base L l'
                             | None => false
                             end) L
  end.

Definition line_strict (mw : nat) (L : list str) (l : str) : bool := strip_ok (length l) (fits mw) L l.

(* ------------------------------------------------------------------ the whole usage text *)

(* layout-free content of one option block: spelling and placeholder, then the description, the
   environment hint when an environment variable is declared, the default when one is declared *)
Definition block_tokens (o : odecl) : list str :=
  tokens (block_head o) ++ tokens (b_descr (o_base o)) ++ concat (map tokens (env_hint o)) ++ tokens (format_default o).

Definition group_tokens (g : group) : list str :=
  match g_opts g with
  | [] => []
  | _ => tokens (g_name g ++ Lit.colon) ++ tokens (g_descr g) ++ concat (map block_tokens (g_opts g))
  end.

(* groups in creation order (the default group first), inside a group the options in declaration order *)
Definition body_tokens (d : decl) : list str :=
  tokens (d_about d) ++ concat (map group_tokens (all_groups d)).

Definition bundle (d : decl) : str :=
  match short_letters d with
  | [] => []
  | l => Lit.open_dash ++ sort_by char_ltb l ++ Lit.rbr
  end.

Definition positional_hint (d : decl) : str :=
  if d_positionals d then Lit.sp_open ++ d_posname d ++ Lit.dots_close else [].

Definition syn_tokens (d : decl) (lt : list odecl) : list str :=
  tokens (Lit.usage_colon ++ d_app d) ++ tokens (bundle d) ++
  concat (map (fun o => tokens (format_synopsis o)) lt) ++
  concat (map (fun o => tokens (format_synopsis o)) (sorted_options d)) ++
  concat (map (fun o => tokens (format_synopsis o)) (sorted_multis d)) ++
  tokens (positional_hint d).

(* l occurs as a contiguous part of m *)
Definition infix {A} (l m : list A) : Prop := exists a b, m = a ++ l ++ b.

(* how the synopsis mentions a declaration: a toggle with a letter through that letter in the bundle
   "[-abc]" (and additionally in long form when it is reversible), everything else in long form *)
Definition mentioned (d : decl) (toks : list str) (o : odecl) : Prop :=
  match o with
  | DToggle b rev _ =>
    match b_short b with
    | Some c => In c (sort_by char_ltb (short_letters d)) /\ infix (tokens (bundle d)) toks
                /\ (rev = true -> infix (tokens (format_synopsis o)) toks)
    | None => infix (tokens (format_synopsis o)) toks
    end
  | _ => infix (tokens (format_synopsis o)) toks
  end.

(* lines that are written as the developer supplied them (known finding K2 for the first two):
   the lines of the about text and of the group descriptions, the "name:" line of a group, and the
   spelling column of an option when it is wider than the description column *)
Definition group_dev_lines (g : group) : list str :=
  match g_opts g with
  | [] => []
  | _ => lines (g_name g ++ Lit.colon) ++ lines (g_descr g) ++ map block_head (g_opts g)
  end.
Definition dev_lines (d : decl) : list str :=
  lines (d_about d) ++ flat_map group_dev_lines (all_groups d).

(* the unbreakable words of the whole text: those of the synopsis behind column 8 + |app| and those of
   every option text behind column 40 *)
Definition synopsis_text (d : decl) (lt : list odecl) : str := tl (synopsis_raw d lt).
Definition usage_long_words (d : decl) (lt : list odecl) : list str :=
  long_words_of (8 + length (d_app d)) 80 (synopsis_text d lt) ++
  flat_map (fun o => long_words_of 40 80 (block_text o)) (all_decls d).

(* the precondition of the width rule: what is wrapped is one line of text *)
Definition one_line_inputs (d : decl) (lt : list odecl) : bool :=
  no_nl (d_app d) && no_nl (synopsis_text d lt) &&
  forallb (fun o => no_nl (block_head o) && no_nl (block_text o)) (all_decls d).

(* an admissible beginning of a line of the usage text: it keeps to 80 columns, or it is a line the developer supplied *)
Definition usage_base (d : decl) (b : str) : bool := fits 80 b || existsb (seq_eqb b) (dev_lines d).
Definition usage_line_ok (d : decl) (lt : list odecl) (l : str) : bool :=
  strip_ok (length l) (usage_base d) (usage_long_words d lt) l.

(* ------------------------------------------------------------------ the oracle, on any text t *)

Definition list_eqb (a b : list str) : bool :=
  (length a =? length b) && forallb (fun xy => seq_eqb (fst xy) (snd xy)) (combine a b).

(* (2)+(3): content, order and completeness, whatever the layout; lt = the order in which the text
   lists the long toggles *)
Definition check_tokens (d : decl) (lt : list odecl) (t : str) : bool :=
  list_eqb (tokens t) (syn_tokens d lt ++ body_tokens d).

(* (4): the width rule (claimed only under its precondition) *)
Definition check_width (d : decl) (lt : list odecl) (t : str) : bool :=
  if one_line_inputs d lt && (length (d_app d) <? 72)
  then forallb (usage_line_ok d lt) (lines t) else true.

(* the same two checks for a direct call of format_padded on a stream whose current line is `pre` *)
Definition check_fp_tokens (text out : str) : bool := list_eqb (tokens out) (tokens text).
Definition check_fp_width (pre text : str) (lp mw : nat) (out : str) : bool :=
  if no_nl pre && no_nl text && (lp <? mw)
  then match lines (pre ++ out) with
       | first :: rest =>
         strip_ok (length first) (fun b => if lp <? length pre then seq_eqb b pre else fits mw b) (long_words_of lp mw text) first
         && forallb (line_strict mw (long_words_of lp mw text)) rest
       | [] => false
       end
  else true.

(* Usage/UsageProofs.v — the usage text as a whole: content and order (token equation), the synopsis mentions
   every declaration, the width rule, independence of the target stream. *)
From Coq Require Import List Arith Lia Bool ZArith Permutation.
From Coq Require Import Init.Byte Strings.Byte.
From Nitro Require Import Base.Bytes Base.ListX Str.StrModel Str.StrSpec Str.StrProofs
  Usage.UsageModel Usage.UsageSpec Usage.UsageSplit Usage.UsageWrap.
Import ListNotations.
Local Open Scope list_scope.

(* ------------------------------------------------------------------ one option block *)

Lemma block_head_starts o : starts_layout (block_head o).
Proof. reflexivity. Qed.

Lemma block_starts o : starts_layout (block o).
Proof. reflexivity. Qed.

Lemma tokens_block_text o :
  tokens (block_text o) = tokens (b_descr (o_base o)) ++ concat (map tokens (env_hint o)) ++ tokens (format_default o).
Proof.
  unfold block_text. rewrite tokens_join_sp, !map_app, !concat_app. cbn [map concat]. now rewrite !app_nil_r.
Qed.

Theorem tokens_block o : tokens (block o) = block_tokens o.
Proof.
  unfold block, block_tokens. rewrite <- tokens_block_text.
  destruct (block_text o) as [|c t] eqn:E.
  - cbn [nonempty app]. rewrite tokens_snoc_layout by reflexivity. now rewrite tokens_nil, app_nil_r.
  - cbn [nonempty]. rewrite tokens_app_starts.
    + rewrite tokens_snoc_layout by reflexivity. now rewrite tokens_format_padded.
    + apply starts_layout_app; [apply format_padded_starts | reflexivity].
Qed.

Lemma blocks_starts l rest : starts_layout rest -> starts_layout (concat (map block l) ++ rest).
Proof. destruct l; simpl; auto. Qed.

Lemma tokens_blocks l : forall rest, starts_layout rest ->
  tokens (concat (map block l) ++ rest) = concat (map block_tokens l) ++ tokens rest.
Proof.
  induction l as [|o l IH]; intros rest Hr; [reflexivity|].
  cbn [map concat]. rewrite <- !app_assoc. rewrite tokens_app_starts by now apply blocks_starts.
  now rewrite IH, tokens_block.
Qed.

(* ------------------------------------------------------------------ groups *)

(* "\n" descr "\n\n" when there is a description; text "\n\n" when there is an about text *)
Definition descr_part (s : str) : str := if nonempty s then nl :: s ++ [nl; nl] else [].
Definition about_part (s : str) : str := if nonempty s then s ++ [nl; nl] else [].

Lemma descr_part_eq c t Y : descr_part (c :: t) ++ Y = nl :: (c :: t) ++ nl :: nl :: Y.
Proof. unfold descr_part. cbn [nonempty]. cbn [app]. rewrite <- app_assoc. reflexivity. Qed.

Lemma about_part_eq c t Y : about_part (c :: t) ++ Y = (c :: t) ++ nl :: nl :: Y.
Proof. unfold about_part. cbn [nonempty]. rewrite <- app_assoc. reflexivity. Qed.

Lemma tokens_descr_part s Y : tokens (descr_part s ++ Y) = tokens s ++ tokens Y.
Proof.
  destruct s as [|c t]; [reflexivity|]. rewrite descr_part_eq.
  rewrite tokens_cons_layout by reflexivity. rewrite tokens_app_sep by reflexivity.
  now rewrite (tokens_cons_layout nl Y) by reflexivity.
Qed.

Lemma tokens_about_part s Y : tokens (about_part s ++ Y) = tokens s ++ tokens Y.
Proof.
  destruct s as [|c t]; [reflexivity|]. rewrite about_part_eq.
  rewrite tokens_app_sep by reflexivity. now rewrite (tokens_cons_layout nl Y) by reflexivity.
Qed.

Lemma lines_descr_part s Y :
  lines (descr_part s ++ Y) = if nonempty s then [] :: lines s ++ [] :: lines Y else lines Y.
Proof.
  destruct s as [|c t]; [reflexivity|]. rewrite descr_part_eq. cbn [nonempty].
  now rewrite lines_cons_nl, lines_app_nl, lines_cons_nl.
Qed.

Lemma lines_about_part s Y :
  lines (about_part s ++ Y) = if nonempty s then lines s ++ [] :: lines Y else lines Y.
Proof.
  destruct s as [|c t]; [reflexivity|]. rewrite about_part_eq. cbn [nonempty].
  now rewrite lines_app_nl, lines_cons_nl.
Qed.

Lemma group_usage_unfold g o l : g_opts g = o :: l ->
  group_usage g = nl :: (g_name g ++ Lit.colon) ++ nl :: descr_part (g_descr g) ++ concat (map block (g_opts g)).
Proof.
  intros E. unfold group_usage, descr_part. rewrite E. cbn [app]. rewrite <- !app_assoc. reflexivity.
Qed.

Lemma group_usage_starts g : starts_layout (group_usage g).
Proof. unfold group_usage. destruct (g_opts g); reflexivity. Qed.

Lemma groups_starts gs : starts_layout (concat (map group_usage gs)).
Proof. induction gs as [|g gs IH]; [exact I|]. simpl. apply starts_layout_app; [apply group_usage_starts | exact IH]. Qed.

Lemma tokens_group g rest : starts_layout rest ->
  tokens (group_usage g ++ rest) = group_tokens g ++ tokens rest.
Proof.
  intros Hr. unfold group_tokens. destruct (g_opts g) as [|o l] eqn:E.
  - unfold group_usage. now rewrite E.
  - rewrite (group_usage_unfold g o l E). rewrite <- E.
    cbn [app]. rewrite tokens_cons_layout by reflexivity.
    rewrite <- app_assoc. cbn [app]. rewrite tokens_app_sep by reflexivity.
    rewrite <- !app_assoc. f_equal.
    rewrite tokens_descr_part. f_equal. now apply tokens_blocks.
Qed.

Lemma tokens_groups gs : tokens (concat (map group_usage gs)) = concat (map group_tokens gs).
Proof.
  induction gs as [|g gs IH]; [reflexivity|]. cbn [map concat].
  rewrite tokens_group by apply groups_starts. now rewrite IH.
Qed.

(* ------------------------------------------------------------------ the synopsis *)

Lemma flat_map_sp_starts {A} (f : A -> str) l rest : starts_layout rest ->
  starts_layout (flat_map (fun o => sp :: f o) l ++ rest).
Proof. destruct l; simpl; auto. Qed.

Lemma tokens_flat_map_sp {A} (f : A -> str) l : forall rest, starts_layout rest ->
  tokens (flat_map (fun o => sp :: f o) l ++ rest) = concat (map (fun o => tokens (f o)) l) ++ tokens rest.
Proof.
  induction l as [|o l IH]; intros rest Hr; [reflexivity|].
  cbn [flat_map map concat app]. rewrite <- !app_assoc. cbn [app].
  rewrite tokens_cons_layout by reflexivity.
  rewrite tokens_app_starts by now apply flat_map_sp_starts. now rewrite IH.
Qed.

Lemma synopsis_raw_eq d lt :
  synopsis_raw d lt = bundle d ++ flat_map (fun o => sp :: format_synopsis o) lt ++
                      flat_map (fun o => sp :: format_synopsis o) (sorted_options d) ++
                      flat_map (fun o => sp :: format_synopsis o) (sorted_multis d) ++ positional_hint d.
Proof. reflexivity. Qed.

Lemma bundle_starts d : starts_layout (bundle d).
Proof. unfold bundle. destruct (short_letters d); reflexivity. Qed.

Lemma positional_hint_starts d : starts_layout (positional_hint d).
Proof. unfold positional_hint. destruct (d_positionals d); reflexivity. Qed.

Lemma synopsis_raw_starts d lt : starts_layout (synopsis_raw d lt).
Proof.
  rewrite synopsis_raw_eq. apply starts_layout_app; [apply bundle_starts|].
  repeat apply flat_map_sp_starts. apply positional_hint_starts.
Qed.

Lemma tokens_synopsis_raw d lt :
  tokens (synopsis_raw d lt) =
  tokens (bundle d) ++ concat (map (fun o => tokens (format_synopsis o)) lt) ++
  concat (map (fun o => tokens (format_synopsis o)) (sorted_options d)) ++
  concat (map (fun o => tokens (format_synopsis o)) (sorted_multis d)) ++ tokens (positional_hint d).
Proof.
  rewrite synopsis_raw_eq.
  rewrite tokens_app_starts by (repeat apply flat_map_sp_starts; apply positional_hint_starts).
  rewrite tokens_flat_map_sp by (repeat apply flat_map_sp_starts; apply positional_hint_starts).
  rewrite tokens_flat_map_sp by (repeat apply flat_map_sp_starts; apply positional_hint_starts).
  rewrite tokens_flat_map_sp by apply positional_hint_starts.
  reflexivity.
Qed.

Lemma tokens_synopsis_line d lt :
  tokens (synopsis_line d lt) = tokens (Lit.usage_colon ++ d_app d) ++ tokens (synopsis_raw d lt).
Proof.
  unfold synopsis_line. pose proof (synopsis_raw_starts d lt) as Hs.
  destruct (synopsis_raw d lt) as [|c out].
  - now rewrite !app_nil_r.
  - simpl in Hs. rewrite tokens_app_starts by apply format_padded_starts.
    now rewrite tokens_format_padded, (tokens_cons_layout c out Hs).
Qed.

(* ------------------------------------------------------------------ the whole text: content and order *)

Lemma usage_eq d lt :
  usage d lt = synopsis_line d lt ++ nl :: nl :: about_part (d_about d) ++ concat (map group_usage (all_groups d)).
Proof. reflexivity. Qed.

Theorem usage_tokens d lt : tokens (usage d lt) = syn_tokens d lt ++ body_tokens d.
Proof.
  rewrite usage_eq. unfold syn_tokens, body_tokens.
  rewrite tokens_app_sep by reflexivity. rewrite tokens_cons_layout by reflexivity.
  rewrite tokens_synopsis_line, tokens_synopsis_raw. rewrite <- !app_assoc. do 6 f_equal.
  rewrite tokens_about_part. f_equal. apply tokens_groups.
Qed.

Theorem usage_check_tokens d lt : check_tokens d lt (usage d lt) = true.
Proof. unfold check_tokens. rewrite usage_tokens. apply list_eqb_refl. Qed.

(* ------------------------------------------------------------------ the synopsis mentions every declaration *)

Lemma infix_app_l {A} (l m a : list A) : infix l m -> infix l (a ++ m).
Proof. intros (x & y & ->). exists (a ++ x), y. now rewrite <- app_assoc. Qed.

Lemma infix_app_r {A} (l m b : list A) : infix l m -> infix l (m ++ b).
Proof. intros (x & y & ->). exists x, (y ++ b). now rewrite <- !app_assoc. Qed.

Lemma infix_refl {A} (l : list A) : infix l l.
Proof. exists [], []. now rewrite app_nil_r. Qed.

Lemma infix_concat_map {A B} (f : A -> list B) x l : In x l -> infix (f x) (concat (map f l)).
Proof.
  intros H. apply in_split in H as (l1 & l2 & ->). exists (concat (map f l1)), (concat (map f l2)).
  now rewrite map_app, concat_app.
Qed.

Lemma in_sorted_options d o : In o (all_decls d) -> is_option o = true -> In o (sorted_options d).
Proof. intros H1 H2. apply sort_by_in, filter_In. auto. Qed.
Lemma in_sorted_multis d o : In o (all_decls d) -> is_multi o = true -> In o (sorted_multis d).
Proof. intros H1 H2. apply sort_by_in, filter_In. auto. Qed.
Lemma in_sorted_toggles d o : In o (all_decls d) -> is_toggle o = true -> In o (sorted_toggles d).
Proof. intros H1 H2. apply sort_by_in, filter_In. auto. Qed.

Theorem synopsis_mentions_all d lt o :
  Permutation lt (long_toggles d) -> In o (all_decls d) -> mentioned d (syn_tokens d lt) o.
Proof.
  intros Hp Hin.
  assert (Hlong : is_long_toggle o = true -> infix (tokens (format_synopsis o)) (syn_tokens d lt)).
  { intros Hl. unfold syn_tokens. do 2 apply infix_app_l. apply infix_app_r.
    apply (infix_concat_map (fun o => tokens (format_synopsis o))).
    apply (Permutation_in _ (Permutation_sym Hp)). apply filter_In. split; [|exact Hl].
    apply in_sorted_toggles; [exact Hin|]. unfold is_long_toggle in Hl. now apply andb_true_iff in Hl. }
  destruct o as [b dflt opt | b dflt opt | b rev dflt]; cbn [mentioned].
  - unfold syn_tokens. do 3 apply infix_app_l. apply infix_app_r.
    apply (infix_concat_map (fun o => tokens (format_synopsis o))). now apply in_sorted_options.
  - unfold syn_tokens. do 4 apply infix_app_l. apply infix_app_r.
    apply (infix_concat_map (fun o => tokens (format_synopsis o))). now apply in_sorted_multis.
  - destruct (b_short b) as [c|] eqn:Es.
    + split; [|split].
      * apply sort_by_in. unfold short_letters. apply in_flat_map. exists (DToggle b rev dflt).
        split; [now apply in_sorted_toggles|]. cbn [o_base]. rewrite Es. now left.
      * unfold syn_tokens. apply infix_app_l, infix_app_r, infix_refl.
      * intros ->. apply Hlong. unfold is_long_toggle. cbn. now rewrite orb_true_r.
    + apply Hlong. unfold is_long_toggle, has_short. cbn. now rewrite Es.
Qed.

(* ------------------------------------------------------------------ the width rule for the whole text *)

Section UsageWidth.
Variable d : decl.
Variable lt : list odecl.
Hypothesis Hone : one_line_inputs d lt = true.
Hypothesis Happ : length (d_app d) < 72.

(* a line of the usage text: an admissible beginning (80 columns, or a line the developer supplied), then nothing
   but unbreakable words *)
Let P (l : str) : Prop := wide_line (usage_base d) (usage_long_words d lt) l.

Lemma P_nil : P [].
Proof. apply wide_line_base. reflexivity. Qed.

Lemma usage_base_dev l : In l (dev_lines d) -> usage_base d l = true.
Proof.
  intros H. unfold usage_base. apply orb_true_iff. right. apply existsb_exists. exists l. split; [exact H | apply seq_eqb_refl].
Qed.

Lemma P_dev l : In l (dev_lines d) -> P l.
Proof. intros H. apply wide_line_base. now apply usage_base_dev. Qed.

Lemma P_ok L l : incl L (usage_long_words d lt) -> wide_line (fits 80) L l -> P l.
Proof.
  intros Hi H. eapply wide_line_mono; [|exact Hi|exact H]. intros b Hb. unfold usage_base. now rewrite Hb.
Qed.

Lemma P_lines_dev s : incl (lines s) (dev_lines d) -> Forall P (lines s).
Proof. intros H. apply Forall_forall. intros l Hl. apply P_dev. now apply H. Qed.

Lemma in_all_decls g o : In g (all_groups d) -> In o (g_opts g) -> In o (all_decls d).
Proof. intros Hg Ho. unfold all_decls. apply in_concat. exists (g_opts g). split; [now apply in_map | exact Ho]. Qed.

Lemma one_line_block o : In o (all_decls d) -> no_nl (block_head o) = true /\ no_nl (block_text o) = true.
Proof.
  intros Ho. unfold one_line_inputs in Hone. apply andb_true_iff in Hone as [_ H].
  rewrite forallb_forall in H. specialize (H o Ho). now apply andb_true_iff in H.
Qed.

Lemma group_dev_incl g : In g (all_groups d) -> incl (group_dev_lines g) (dev_lines d).
Proof. intros Hg l Hl. unfold dev_lines. apply in_or_app. right. apply in_flat_map. eauto. Qed.

Lemma block_lines_ok g o rest : In g (all_groups d) -> In o (g_opts g) ->
  Forall P (lines rest) -> Forall P (lines (block o ++ rest)).
Proof.
  intros Hg Ho Hrest.
  assert (Hd : In o (all_decls d)) by (eapply in_all_decls; eauto).
  destruct (one_line_block o Hd) as [Hh Ht].
  assert (Hheadin : In (block_head o) (dev_lines d)).
  { apply (group_dev_incl g Hg). unfold group_dev_lines.
    destruct (g_opts g) as [|o1 l1] eqn:E; [destruct Ho|]. rewrite <- E. apply in_or_app. right. apply in_or_app. right.
    apply in_map. now rewrite E. }
  assert (Hincl : incl (long_words_of 40 80 (block_text o)) (usage_long_words d lt)).
  { intros w Hw. unfold usage_long_words. apply in_or_app. right. apply in_flat_map. eauto. }
  unfold block. rewrite <- !app_assoc. cbn [app]. rewrite app_assoc, lines_app_nl. apply Forall_app. split; [|exact Hrest].
  destruct (block_text o) as [|c t] eqn:E; cbn [nonempty].
  - rewrite app_nil_r, lines_one by exact Hh. constructor; [now apply P_dev | constructor].
  - rewrite <- E in *. destruct (le_lt_dec (length (block_head o)) 40) as [Hle|Hgt].
    + eapply Forall_impl; [|apply (format_padded_width_narrow_strict _ _ 40 80 Hh Ht Hle); lia].
      intros l. now apply P_ok.
    + destruct (format_padded_width_wide_strict _ _ 40 80 Hh Ht Hgt) as (first & more & -> & Hf & Hm); [lia|].
      constructor.
      * eapply wide_line_mono; [|exact Hincl|exact Hf]. intros b Hb. apply seq_eqb_true in Hb. subst b.
        now apply usage_base_dev.
      * eapply Forall_impl; [|exact Hm]. intros l. now apply P_ok.
Qed.

Lemma blocks_lines_ok g l rest : In g (all_groups d) -> incl l (g_opts g) ->
  Forall P (lines rest) -> Forall P (lines (concat (map block l) ++ rest)).
Proof.
  intros Hg. induction l as [|o l IH]; intros Hi Hrest; [exact Hrest|].
  cbn [map concat]. rewrite <- app_assoc. apply (block_lines_ok g); auto.
  - apply Hi. now left.
  - apply IH; auto. intros x Hx. apply Hi. now right.
Qed.

Lemma group_lines_ok g rest : In g (all_groups d) ->
  Forall P (lines rest) -> Forall P (lines (group_usage g ++ rest)).
Proof.
  intros Hg Hrest. destruct (g_opts g) as [|o l] eqn:E.
  - unfold group_usage. now rewrite E.
  - rewrite (group_usage_unfold g o l E).
    pose proof (group_dev_incl g Hg) as Hdev. unfold group_dev_lines in Hdev. rewrite E in Hdev.
    cbn [app]. rewrite lines_cons_nl. constructor; [apply P_nil|].
    rewrite <- app_assoc. cbn [app]. rewrite lines_app_nl. apply Forall_app. split.
    + apply P_lines_dev. intros x Hx. apply Hdev. apply in_or_app. now left.
    + assert (Hb : Forall P (lines (concat (map block (g_opts g)) ++ rest)))
        by (apply (blocks_lines_ok g); auto; apply incl_refl).
      rewrite <- app_assoc, lines_descr_part. destruct (nonempty (g_descr g)); [|exact Hb].
      constructor; [apply P_nil|]. apply Forall_app. split.
      * apply P_lines_dev. intros x Hx. apply Hdev. apply in_or_app. right. apply in_or_app. now left.
      * constructor; [apply P_nil | exact Hb].
Qed.

Lemma groups_lines_ok gs : incl gs (all_groups d) -> Forall P (lines (concat (map group_usage gs))).
Proof.
  induction gs as [|g gs IH]; intros Hi.
  - simpl. constructor; [apply P_nil | constructor].
  - cbn [map concat]. apply group_lines_ok; [apply Hi; now left|]. apply IH. intros x Hx. apply Hi. now right.
Qed.

Lemma synopsis_lines_ok : Forall P (lines (synopsis_line d lt)).
Proof.
  unfold one_line_inputs in Hone. apply andb_true_iff in Hone as [H _]. apply andb_true_iff in H as [Hnapp Hsyn].
  unfold synopsis_line, synopsis_text in *.
  assert (Hhead : no_nl (Lit.usage_colon ++ d_app d) = true) by (rewrite no_nl_app, Hnapp; reflexivity).
  assert (Hlen : length (Lit.usage_colon ++ d_app d) = 7 + length (d_app d)) by (rewrite app_length; reflexivity).
  destruct (synopsis_raw d lt) as [|c out] eqn:Eraw.
  - rewrite app_nil_r, lines_one by exact Hhead. constructor; [|constructor].
    apply (P_ok []); [intros x []|]. apply wide_line_base. unfold fits. apply Nat.leb_le. lia.
  - simpl in Hsyn. eapply Forall_impl; [|apply (format_padded_width_narrow_strict _ _ (8 + length (d_app d)) 80 Hhead Hsyn); lia].
    intros l. apply P_ok. intros w Hw. unfold usage_long_words, synopsis_text. rewrite Eraw. apply in_or_app. now left.
Qed.

Theorem usage_lines_ok : Forall P (lines (usage d lt)).
Proof.
  rewrite usage_eq. rewrite lines_app_nl. apply Forall_app. split; [apply synopsis_lines_ok|].
  rewrite lines_cons_nl. constructor; [apply P_nil|].
  rewrite lines_about_part.
  assert (Hg : Forall P (lines (concat (map group_usage (all_groups d))))) by apply groups_lines_ok, incl_refl.
  destruct (nonempty (d_about d)); [|exact Hg].
  apply Forall_app. split.
  - apply P_lines_dev. intros x Hx. unfold dev_lines. apply in_or_app. now left.
  - constructor; [apply P_nil | exact Hg].
Qed.

End UsageWidth.

(* the form the oracle evaluates (strict rule): holds for every declaration and every order of the long toggles *)
Theorem usage_check_width d lt : check_width d lt (usage d lt) = true.
Proof.
  unfold check_width. destruct (one_line_inputs d lt) eqn:H1; [|reflexivity].
  destruct (length (d_app d) <? 72) eqn:H2; [|reflexivity]. apply Nat.ltb_lt in H2. cbn [andb].
  apply forallb_forall. intros l Hl. pose proof (usage_lines_ok d lt H1 H2) as H. rewrite Forall_forall in H.
  unfold usage_line_ok. apply wide_line_strip; [now apply H | lia].
Qed.

(* the readable strict form, with the hypothesis of known finding K2: when the lines the developer supplies verbatim
   (about text, group descriptions, group names, spelling columns) keep to 80 columns, every line of the usage
   text is a beginning of at most 80 columns followed by nothing but unbreakable words (each behind one blank) *)
Theorem usage_width_strict d lt :
  one_line_inputs d lt = true -> length (d_app d) < 72 ->
  (forall l, In l (dev_lines d) -> length l <= 80) ->
  Forall (wide_line (fits 80) (usage_long_words d lt)) (lines (usage d lt)).
Proof.
  intros H1 H2 H3. eapply Forall_impl; [|apply (usage_lines_ok d lt H1 H2)].
  intros l Hl. eapply wide_line_mono; [|apply incl_refl|exact Hl].
  intros b Hb. unfold usage_base in Hb. apply orb_true_iff in Hb as [Hb|Hb]; [exact Hb|].
  apply existsb_exists in Hb as (x & Hx & He). apply seq_eqb_true in He. subst x.
  unfold fits. apply Nat.leb_le. now apply H3.
Qed.

(* the weak form follows: every line keeps to 80 columns or contains an unbreakable word *)
Theorem usage_width d lt :
  one_line_inputs d lt = true -> length (d_app d) < 72 ->
  (forall l, In l (dev_lines d) -> length l <= 80) ->
  Forall (fun l => length l <= 80 \/ exists w, In w (usage_long_words d lt) /\ contains w l = true) (lines (usage d lt)).
Proof.
  intros H1 H2 H3. eapply Forall_impl; [|apply (usage_width_strict d lt H1 H2 H3)].
  intros l Hl. apply wide_line_line_ok in Hl. unfold line_ok, has_long in Hl.
  rewrite orb_true_iff in Hl. destruct Hl as [Hl|Hl].
  - left. now apply Nat.leb_le.
  - right. now apply existsb_exists.
Qed.

(* ------------------------------------------------------------------ structure of the option section *)

Theorem option_section_groups_in_order d :
  option_section d = concat (map group_usage (d_default d :: d_groups d)).
Proof. reflexivity. Qed.

Theorem group_usage_empty g : g_opts g = [] -> group_usage g = [].
Proof. intros E. unfold group_usage. now rewrite E. Qed.

Theorem group_usage_blocks_in_order g : g_opts g <> [] ->
  group_usage g = nl :: (g_name g ++ Lit.colon) ++ nl ::
                  (if nonempty (g_descr g) then nl :: g_descr g ++ [nl; nl] else []) ++
                  concat (map block (g_opts g)).
Proof.
  intros H. destruct (g_opts g) as [|o l] eqn:E; [congruence|]. rewrite (group_usage_unfold g o l E), E. reflexivity.
Qed.

Theorem block_shape o :
  exists wrapped, block o = block_head o ++ wrapped ++ [nl] /\
    tokens wrapped = tokens (b_descr (o_base o)) ++ concat (map tokens (env_hint o)) ++ tokens (format_default o).
Proof.
  unfold block. eexists. split; [reflexivity|]. rewrite <- tokens_block_text.
  destruct (block_text o) eqn:E; cbn [nonempty]; [reflexivity|]. apply tokens_format_padded.
Qed.

(* ------------------------------------------------------------------ independence of the target stream *)

Theorem usage_stream_independent t1 t2 d lt : usage_to t1 d lt = usage_to t2 d lt.
Proof. reflexivity. Qed.

(* the code before the repair "usage synopsis no longer depends on the target stream's write position" did
   depend on it: the same declaration, a fresh string stream (position 0), one holding 5 characters, and a
   non-seekable stream (position -1) gave three different head lines *)
Module Witness.
Import Strings.String.
Definition b (n : String.string) : base := mkBase (B n) None [] [] (B "ARG").
Definition d1 : decl :=
  mkDecl (B "app") [] (mkGroup (B "arguments") [] [DOption (b "first-option") None false; DOption (b "second") None false])
         [] false (B "args").
(* known finding K2: an about text that is one line of twenty short words *)
Definition d2 : decl :=
  mkDecl (B "app") (List.concat (repeat (B "word ") 20)) (mkGroup (B "arguments") [] [DToggle (b "t") false false]) [] false (B "args").
Definition t2 : odecl := DToggle (b "t") false false.
Definition about2 : str := List.concat (repeat (B "word ") 20).
End Witness.

Theorem before_repair_depended_on_stream :
  exists d lt,
    synopsis_line_before_repair 0 d lt <> synopsis_line_before_repair 5 d lt /\
    synopsis_line_before_repair 0 d lt <> synopsis_line_before_repair (-1) d lt /\
    synopsis_line_before_repair 0 d lt = synopsis_line d lt.
Proof. exists Witness.d1, []. repeat split; vm_compute; congruence. Qed.

Theorem width_needs_K2_hypothesis :
  exists d lt, one_line_inputs d lt = true /\ length (d_app d) < 72 /\
    exists l, In l (lines (usage d lt)) /\ 80 < length l /\ has_long (usage_long_words d lt) l = false.
Proof.
  exists Witness.d2, [Witness.t2]. split; [reflexivity|]. split; [vm_compute; lia|].
  exists Witness.about2. split; [vm_compute; tauto|]. split; [vm_compute; lia | reflexivity].
Qed.

(* Usage/UsageSplit.v — facts about cutting texts (splitp, lines, words, tokens), about substring search,
   and the link between the fuel-based string functions used by the model (split " ", replace_all "\t" " ")
   and their structural descriptions (words, detab_spec). *)
From Coq Require Import List Arith Lia Bool ZArith Permutation.
From Coq Require Import Init.Byte Strings.Byte.
From Nitro Require Import Base.Bytes Base.ListX Str.StrModel Str.StrSpec Str.StrProofs Usage.UsageModel Usage.UsageSpec.
Import ListNotations.
Local Open Scope list_scope.

(* ------------------------------------------------------------------ splitp *)

Lemma splitp_nonnil p s : splitp p s <> [].
Proof. destruct s as [|c r]; simpl; [discriminate|]. destruct (p c); [discriminate|]. destruct (splitp p r); discriminate. Qed.

Lemma splitp_cons_sep p c r : p c = true -> splitp p (c :: r) = [] :: splitp p r.
Proof. intros H. simpl. now rewrite H. Qed.

Lemma splitp_app_sep p a c b : p c = true -> splitp p (a ++ c :: b) = splitp p a ++ splitp p b.
Proof.
  intros Hc. induction a as [|x a IH]; simpl.
  - now rewrite Hc.
  - destruct (p x); [now rewrite IH|]. rewrite IH.
    destruct (splitp p a) as [|l ls] eqn:E; [now apply splitp_nonnil in E|]. reflexivity.
Qed.

Definition free (p : byte -> bool) (s : str) : bool := forallb (fun c => negb (p c)) s.

Lemma splitp_free p a : free p a = true -> splitp p a = [a].
Proof.
  induction a as [|x a IH]; simpl; [reflexivity|]. rewrite andb_true_iff, negb_true_iff. intros [Hx Ha].
  rewrite Hx, (IH Ha). reflexivity.
Qed.

Lemma splitp_pieces_free p s : Forall (fun l => free p l = true) (splitp p s).
Proof.
  induction s as [|c r IH]; simpl; [repeat constructor|].
  destruct (p c) eqn:E; [constructor; [reflexivity | exact IH]|].
  destruct (splitp p r) as [|l ls]; [repeat constructor; simpl; now rewrite E|].
  inversion IH; subst. constructor; [simpl; rewrite E; simpl; assumption | assumption].
Qed.

Lemma splitp_intercalate p c ls : p c = true -> ls <> [] -> Forall (fun l => free p l = true) ls ->
  splitp p (intercalate [c] ls) = ls.
Proof.
  intros Hc. induction ls as [|l ls IH]; [congruence|]. intros _ HF. inversion HF; subst.
  destruct ls as [|l2 ls]; [simpl; now apply splitp_free|].
  rewrite intercalate_cons. change ([c] ++ ?x) with (c :: x). rewrite splitp_app_sep by exact Hc.
  rewrite IH by (congruence || assumption). now rewrite splitp_free.
Qed.

Lemma splitp_lossless c s : intercalate [c] (splitp (beq c) s) = s.
Proof.
  induction s as [|x r IH]; [reflexivity|]. cbn [splitp].
  destruct (splitp (beq c) r) as [|l ls] eqn:F; [now apply splitp_nonnil in F|].
  destruct (beq c x) eqn:E.
  - apply beq_true in E. subst x. rewrite intercalate_cons. rewrite IH. reflexivity.
  - destruct ls as [|l2 ls].
    + simpl in *. now rewrite IH.
    + rewrite intercalate_cons. rewrite intercalate_cons in IH. rewrite <- IH. reflexivity.
Qed.

(* ------------------------------------------------------------------ lines *)

Lemma lines_app_nl a b : lines (a ++ nl :: b) = lines a ++ lines b.
Proof. apply splitp_app_sep. apply beq_refl. Qed.

Lemma lines_cons_nl b : lines (nl :: b) = [] :: lines b.
Proof. apply splitp_cons_sep. apply beq_refl. Qed.

Lemma no_nl_free s : no_nl s = free (beq nl) s.
Proof. unfold no_nl, free. induction s as [|c s IH]; simpl; [reflexivity|]. now rewrite IH, (beq_sym c nl). Qed.

Lemma lines_one s : no_nl s = true -> lines s = [s].
Proof. rewrite no_nl_free. apply splitp_free. Qed.

Lemma lines_intercalate ls : ls <> [] -> Forall (fun l => no_nl l = true) ls -> lines (intercalate [nl] ls) = ls.
Proof.
  intros H1 H2. apply splitp_intercalate; [apply beq_refl | exact H1|].
  eapply Forall_impl; [|exact H2]. intros l. now rewrite no_nl_free.
Qed.

Lemma no_nl_app a b : no_nl (a ++ b) = no_nl a && no_nl b.
Proof. apply forallb_app. Qed.

Lemma no_nl_blanks k : no_nl (blanks k) = true.
Proof. induction k; simpl; auto. Qed.

Lemma no_nl_detab w : no_nl (detab_spec w) = no_nl w.
Proof.
  induction w as [|c w IH]; simpl; [reflexivity|]. rewrite IH. f_equal.
  destruct (beq c tab) eqn:E; [|reflexivity]. apply beq_true in E. subst c. reflexivity.
Qed.

(* ------------------------------------------------------------------ words = split " " ; detab = replace_all "\t" " " *)

Lemma clean_single c p : clean [c] p -> free (beq c) p = true.
Proof.
  induction p as [|x p IH]; intros H; simpl; [reflexivity|].
  pose proof (H 0) as H0. simpl in H0. rewrite andb_true_r in H0. rewrite H0. simpl.
  apply IH. intros j. exact (H (S j)).
Qed.

Lemma split_single c s : split [c] s = Some (splitp (beq c) s).
Proof.
  destruct (split_lossless [c] s) as (l & Hl & Hj); [discriminate|].
  pose proof (split_pieces_clean _ _ _ Hl) as Hc.
  assert (Hne : l <> []).
  { unfold split in Hl. apply split_f_join in Hl. tauto. }
  rewrite Hl. f_equal. rewrite <- Hj. symmetry. apply splitp_intercalate; [apply beq_refl | exact Hne|].
  eapply Forall_impl; [|exact Hc]. intros p. apply clean_single.
Qed.

Lemma split_blank_words text : split_blank text = words text.
Proof. unfold split_blank, words. now rewrite split_single. Qed.

Lemma replace_scan_single a b w : replace_scan [a] [b] w 0 = map (fun c => if beq c a then b else c) w.
Proof.
  induction w as [|c w IH]; [reflexivity|].
  cbn [replace_scan map prefixb length Nat.sub]. rewrite andb_true_r, (beq_sym a c).
  destruct (beq c a); simpl; now rewrite IH.
Qed.

Lemma detab_correct w : detab w = detab_spec w.
Proof. unfold detab. rewrite replace_all_spec. unfold spec_replace. apply replace_scan_single. Qed.

Lemma detab_length w : length (detab_spec w) = length w.
Proof. apply map_length. Qed.

Lemma words_nonnil s : words s <> [].
Proof. apply splitp_nonnil. Qed.

(* ------------------------------------------------------------------ tokens *)

Definition starts_layout (s : str) : Prop := match s with [] => True | c :: _ => is_layout c = true end.

Lemma tokens_nil : tokens [] = [].
Proof. reflexivity. Qed.

Lemma tokens_cons_layout c s : is_layout c = true -> tokens (c :: s) = tokens s.
Proof. intros H. unfold tokens. rewrite splitp_cons_sep by exact H. reflexivity. Qed.

Lemma tokens_app_sep a c b : is_layout c = true -> tokens (a ++ c :: b) = tokens a ++ tokens b.
Proof. intros H. unfold tokens. rewrite splitp_app_sep by exact H. apply filter_app. Qed.

Lemma tokens_app_starts a b : starts_layout b -> tokens (a ++ b) = tokens a ++ tokens b.
Proof.
  destruct b as [|c b]; simpl; intros H.
  - now rewrite !app_nil_r.
  - rewrite tokens_app_sep by exact H. now rewrite (tokens_cons_layout c b H).
Qed.

Lemma tokens_snoc_layout a c : is_layout c = true -> tokens (a ++ [c]) = tokens a.
Proof. intros H. rewrite tokens_app_sep by exact H. now rewrite app_nil_r. Qed.

Lemma tokens_blanks_app k s : tokens (blanks k ++ s) = tokens s.
Proof. induction k as [|k IH]; simpl; [reflexivity|]. now rewrite tokens_cons_layout. Qed.

Lemma starts_layout_app a b : starts_layout a -> starts_layout b -> starts_layout (a ++ b).
Proof. destruct a; simpl; auto. Qed.

Lemma splitp_layout_detab w : splitp is_layout (detab_spec w) = splitp is_layout w.
Proof.
  induction w as [|c w IH]; [reflexivity|]. cbn [detab_spec map splitp]. fold (detab_spec w). rewrite IH.
  destruct (beq c tab) eqn:E.
  - apply beq_true in E. subst c. reflexivity.
  - reflexivity.
Qed.

Lemma tokens_detab w : tokens (detab_spec w) = tokens w.
Proof. unfold tokens. now rewrite splitp_layout_detab. Qed.

Lemma tokens_intercalate_sp l : tokens (intercalate [sp] l) = concat (map tokens l).
Proof.
  induction l as [|x l IH]; [reflexivity|]. destruct l as [|y l].
  - simpl. now rewrite app_nil_r.
  - rewrite intercalate_cons. change ([sp] ++ ?x) with (sp :: x). rewrite tokens_app_sep by reflexivity. rewrite IH. reflexivity.
Qed.

Lemma tokens_words text : concat (map tokens (words text)) = tokens text.
Proof. rewrite <- tokens_intercalate_sp. unfold words. now rewrite splitp_lossless. Qed.

Lemma tokens_filter_nonempty l : concat (map tokens (filter nonempty l)) = concat (map tokens l).
Proof. induction l as [|x l IH]; [reflexivity|]. destruct x; simpl; now rewrite IH. Qed.

Lemma tokens_join_sp l : tokens (join [sp] l) = concat (map tokens l).
Proof. rewrite join_spec. unfold spec_join. rewrite tokens_intercalate_sp. apply tokens_filter_nonempty. Qed.

(* ------------------------------------------------------------------ substring search *)

Lemma contains_iff w s : contains w s = true <-> exists a b, s = a ++ w ++ b.
Proof.
  unfold contains. destruct (find w s) as [i|] eqn:F.
  - split; [intros _|reflexivity]. apply find_some in F as (H & _). eauto.
  - split; [discriminate|]. intros (a & b & ->).
    pose proof (find_none _ _ F (length a)) as H. rewrite skipn_app_exact in H.
    now rewrite prefixb_app in H.
Qed.

Lemma contains_app_r w a b : contains w a = true -> contains w (a ++ b) = true.
Proof. rewrite !contains_iff. intros (x & y & ->). exists x, (y ++ b). now rewrite <- !app_assoc. Qed.

Lemma contains_mid w a b : contains w (a ++ w ++ b) = true.
Proof. apply contains_iff. eauto. Qed.

Lemma has_long_app_r L a b : has_long L a = true -> has_long L (a ++ b) = true.
Proof.
  unfold has_long. rewrite !existsb_exists. intros (w & Hw & Hc). exists w. split; [exact Hw | now apply contains_app_r].
Qed.

Lemma has_long_incl L L' l : incl L L' -> has_long L l = true -> has_long L' l = true.
Proof. unfold has_long. rewrite !existsb_exists. intros H (w & Hw & Hc). exists w. auto. Qed.

Lemma line_ok_incl mw L L' l : incl L L' -> line_ok mw L l = true -> line_ok mw L' l = true.
Proof. unfold line_ok. rewrite !orb_true_iff. intros H [H1|H1]; [now left | right; eapply has_long_incl; eauto]. Qed.

(* ------------------------------------------------------------------ list_eqb, sorting *)

Lemma list_eqb_refl a : list_eqb a a = true.
Proof.
  unfold list_eqb. rewrite Nat.eqb_refl. simpl. induction a as [|x a IH]; simpl; [reflexivity|].
  now rewrite seq_eqb_refl, IH.
Qed.

Lemma list_eqb_true a b : list_eqb a b = true -> a = b.
Proof.
  unfold list_eqb. rewrite andb_true_iff, Nat.eqb_eq. revert b; induction a as [|x a IH]; intros [|y b]; simpl; try (intros [? ?]; (reflexivity || discriminate)).
  rewrite andb_true_iff, seq_eqb_true. intros [L [-> H]]. f_equal. apply IH. split; [lia | exact H].
Qed.

Lemma insert_by_perm {A} (lt : A -> A -> bool) x l : Permutation (insert_by lt x l) (x :: l).
Proof.
  induction l as [|y r IH]; simpl; [reflexivity|]. destruct (lt x y); [reflexivity|].
  rewrite IH. apply perm_swap.
Qed.

Lemma sort_by_perm {A} (lt : A -> A -> bool) l : Permutation (sort_by lt l) l.
Proof. induction l as [|x l IH]; simpl; [reflexivity|]. rewrite insert_by_perm. now constructor. Qed.

Lemma sort_by_in {A} (lt : A -> A -> bool) l x : In x (sort_by lt l) <-> In x l.
Proof. split; apply Permutation_in; [|symmetry]; apply sort_by_perm. Qed.

(* ------------------------------------------------------------------ the strict width rule *)

Lemma strip_suffix_app s l : strip_suffix s (l ++ s) = Some l.
Proof.
  unfold strip_suffix. rewrite app_length.
  replace (length s <=? length l + length s) with true by (symmetry; apply Nat.leb_le; lia).
  replace (length l + length s - length s) with (length l) by lia.
  now rewrite skipn_app_exact, seq_eqb_refl, firstn_app_exact.
Qed.

Lemma wide_line_base base L b : base b = true -> wide_line base L b.
Proof. intros H. exists b, []. simpl. rewrite app_nil_r. auto. Qed.

Lemma wide_line_step base L l w : wide_line base L l -> In w L -> wide_line base L (l ++ sp :: w).
Proof.
  intros (b & ws & -> & Hb & Hws) Hw. exists b, (ws ++ [w]). repeat split; auto.
  - rewrite flat_map_app. simpl. now rewrite app_nil_r, <- app_assoc.
  - apply Forall_app. auto.
Qed.

Lemma wide_line_mono (base1 base2 : str -> bool) L1 L2 l :
  (forall b, base1 b = true -> base2 b = true) -> incl L1 L2 -> wide_line base1 L1 l -> wide_line base2 L2 l.
Proof.
  intros Hb Hi (b & ws & -> & H1 & H2). exists b, ws. repeat split; auto.
  eapply Forall_impl; [|exact H2]. intros w. apply Hi.
Qed.

Lemma wide_line_strip base L l : wide_line base L l -> forall fuel, length l <= fuel -> strip_ok fuel base L l = true.
Proof.
  intros (b & ws & -> & Hb & Hws). induction ws as [|w ws IH] using rev_ind; intros fuel Hf.
  - simpl. rewrite app_nil_r. destruct fuel; simpl; now rewrite Hb.
  - apply Forall_app in Hws as [Hws Hw]. inversion Hw; subst.
    rewrite flat_map_app in *. simpl in *. rewrite app_nil_r in *. rewrite app_assoc in *.
    rewrite app_length in Hf. simpl in Hf.
    destruct fuel as [|f]; [lia|]. cbn [strip_ok]. apply orb_true_iff. right.
    apply existsb_exists. exists w. split; [assumption|]. rewrite strip_suffix_app. apply IH; [exact Hws | lia].
Qed.

Lemma wide_line_line_ok mw L l : wide_line (fits mw) L l -> line_ok mw L l = true.
Proof.
  intros (b & ws & -> & Hb & Hws). unfold line_ok. apply orb_true_iff.
  induction ws as [|w0 ws0 _] using rev_ind; [left; simpl; now rewrite app_nil_r|].
  right. apply Forall_app in Hws as [_ Hw]. inversion Hw; subst.
  unfold has_long. apply existsb_exists. exists w0. split; [assumption|].
  rewrite flat_map_app. simpl. rewrite app_nil_r, app_assoc. apply contains_iff.
  eexists. exists []. rewrite app_nil_r. change (sp :: w0) with ([sp] ++ w0). rewrite app_assoc. reflexivity.
Qed.

Lemma wide_line_pre_or_long pre L l : wide_line (fun b => seq_eqb b pre) L l -> l = pre \/ has_long L l = true.
Proof.
  intros (b & ws & -> & Hb & Hws). apply seq_eqb_true in Hb. subst b.
  induction ws as [|w0 ws0 _] using rev_ind; [left; simpl; now rewrite app_nil_r|].
  right. apply Forall_app in Hws as [_ Hw]. inversion Hw; subst.
  unfold has_long. apply existsb_exists. exists w0. split; [assumption|].
  rewrite flat_map_app. simpl. rewrite app_nil_r, app_assoc. apply contains_iff.
  eexists. exists []. rewrite app_nil_r. change (sp :: w0) with ([sp] ++ w0). rewrite app_assoc. reflexivity.
Qed.

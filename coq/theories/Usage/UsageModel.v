(* Usage/UsageModel.v — executable model of the usage text of nitro::options::parser:
     include/nitro/io/terminal.hpp      format_padded
     include/nitro/options/option/base.hpp   base::format (one option block)
     src/options/option.cpp, multi_option.cpp, toggle.cpp   format_name / format_value / format_synopsis / format_default
     src/options/group.cpp              group::usage
     src/options/parser.cpp             parser::usage
   following the C++ statement by statement.  No proofs here.

   Conventions: a std::ostream is modelled by the text appended to it; where the C++ asks the stream
   for its write position (tellp) the position is an explicit argument (Z, because a non-seekable
   stream answers -1).  `nitro::format("(default: {})") % x` and
   `nitro::format("Can be set using the environment variable '{}'.") % x` are modelled directly as
   the concatenation prefix ++ x ++ suffix (format.hpp never rescans the inserted argument; the
   Fmt/ cluster models nitro::format itself, this file does not depend on it).
   lang::split / lang::replace_all / lang::join are the proved models of Str/StrModel.v. *)
From Coq Require Import List Arith Bool ZArith.
From Coq Require Import Init.Byte Strings.Byte.
From Coq Require Strings.String.
From Nitro Require Import Base.Bytes Str.StrModel.
Import ListNotations.
Local Open Scope list_scope.

Definition sp : byte := x20.   (* ' '  *)
Definition tab : byte := x09.  (* '\t' *)
Definition nl : byte := x0a.   (* '\n' (std::endl; the flush is not modelled) *)

(* string literals of the C++ sources *)
Module Lit.
Import Strings.String.
Definition usage_colon : str := Eval compute in B "usage: ".
Definition dashdash : str := Eval compute in B "--".
Definition dashdash_no : str := Eval compute in B "--[no-]".
Definition comma_sp : str := Eval compute in B ", ".
Definition two_blanks : str := Eval compute in B "  ".
Definition tab_lt : str := Eval compute in [tab] ++ B "<".         (* "\t<" *)
Definition gt_bar : str := Eval compute in B "> | ".
Definition gt_close : str := Eval compute in B ">]".
Definition open_dash : str := Eval compute in B " [-".
Definition dots_close : str := Eval compute in B " ...]".
Definition sp_open : str := Eval compute in B " [".
Definition default_open : str := Eval compute in B "(default: ".
Definition default_close : str := Eval compute in B ")".
Definition env_open : str := Eval compute in B "Can be set using the environment variable '".
Definition env_close : str := Eval compute in B "'.".
Definition enabled : str := Eval compute in B "enabled".
Definition disabled : str := Eval compute in B "disabled".
Definition lbr : str := Eval compute in B "[".
Definition rbr : str := Eval compute in B "]".
Definition dash : str := Eval compute in B "-".
Definition colon : str := Eval compute in B ":".
End Lit.

(* ------------------------------------------------------------------ declarations, as far as usage() reads them *)

Record base := mkBase {
  b_name : str;             (* name_ *)
  b_short : option byte;    (* short_ : "" or exactly one character (crtp_base::short_name enforces size 1) *)
  b_descr : str;            (* description_ *)
  b_env : str;              (* env_ ; has_env() = not empty *)
  b_metavar : str           (* metavar_ (default "ARG", never empty) *)
}.

Inductive odecl :=
| DOption (b : base) (dflt : option str) (is_optional : bool)
| DMulti  (b : base) (dflt : option (list str)) (is_optional : bool)
| DToggle (b : base) (reversible : bool) (default_on : bool).   (* default_ != 0 *)

Definition o_base (o : odecl) : base :=
  match o with DOption b _ _ => b | DMulti b _ _ => b | DToggle b _ _ => b end.
Definition is_option (o : odecl) : bool := match o with DOption _ _ _ => true | _ => false end.
Definition is_multi (o : odecl) : bool := match o with DMulti _ _ _ => true | _ => false end.
Definition is_toggle (o : odecl) : bool := match o with DToggle _ _ _ => true | _ => false end.
Definition is_reversible (o : odecl) : bool := match o with DToggle _ r _ => r | _ => false end.
Definition has_short (o : odecl) : bool := match b_short (o_base o) with Some _ => true | None => false end.

(* a group: name_, description_ and order_ (the options, multi-options and toggles of the group in the
   order of their first declaration — group::usage iterates order_, not the three name-sorted maps) *)
Record group := mkGroup { g_name : str; g_descr : str; g_opts : list odecl }.

Record decl := mkDecl {
  d_app : str;                 (* app_name_ *)
  d_about : str;               (* about_ *)
  d_default : group;           (* groups_.at("__default"): its name is the constructor's third argument, its description is "" *)
  d_groups : list group;       (* group_order_ : the named groups in creation order *)
  d_positionals : bool;        (* allowed_positionals_ != 0 *)
  d_posname : str              (* positional_name_ *)
}.

Definition all_groups (d : decl) : list group := d_default d :: d_groups d.
Definition all_decls (d : decl) : list odecl := concat (map g_opts (all_groups d)).

(* ------------------------------------------------------------------ io::terminal::format_padded *)

(* nitro::lang::split(in, " ") — never raises, the needle is not empty *)
Definition split_blank (text : str) : list str :=
  match split [sp] text with Some l => l | None => [] end.

(* nitro::lang::replace_all(word, "\t", " ") — always returns *)
Definition detab (w : str) : str :=
  match replace_all [tab] [sp] w with Some x => x | None => w end.

(* s << std::setw(w) << ' '  : the blank is padded (with the fill character ' ') to w columns; the
   width applies to this one insertion and is reset to 0 by it *)
Definition setw_blank (w : nat) : str := repeat sp (Nat.max w 1).

(* word.size() + 1 > static_cast<std::size_t>(max_width - left_pad): for max_width < left_pad the
   cast wraps around to a number no string length reaches *)
Definition fp_long (lp mw : nat) (w : str) : bool :=
  if mw <? lp then false else mw - lp <? length w + 1.

(* the loop over the words; `space` is the C++ int, `width` the stream's pending field width *)
Fixpoint fp_words (lp mw : nat) (ws : list str) (space : Z) (width : nat) : str :=
  match ws with
  | [] => []
  | w0 :: rest =>
    let w := detab w0 in
    let n := Z.of_nat (length w + 1) in
    if fp_long lp mw w || (n <=? space)%Z
    then setw_blank width ++ w ++ fp_words lp mw rest (space - n)%Z 0
    else nl :: setw_blank lp ++ w ++ fp_words lp mw rest (Z.of_nat mw - Z.of_nat lp - n)%Z 0
  end.

(* the text format_padded appends to a stream whose tellp() is `indent` (and whose field width is 0) *)
Definition format_padded (indent : Z) (text : str) (lp mw : nat) : str :=
  if (indent <=? Z.of_nat lp)%Z
  then fp_words lp mw (split_blank text) (Z.of_nat mw - Z.of_nat lp)%Z (Z.to_nat (Z.of_nat lp - indent))
  else fp_words lp mw (split_blank text) 0%Z 0.

(* ------------------------------------------------------------------ the three option kinds *)

Definition format_name (o : odecl) : str :=
  match o with
  | DToggle b true _ => Lit.dashdash_no ++ b_name b
  | _ => Lit.dashdash ++ b_name (o_base o)
  end.

Definition format_value (o : odecl) : str :=
  match o with
  | DToggle _ _ _ => []
  | _ => sp :: b_metavar (o_base o)
  end.

Definition format_synopsis (o : odecl) : str :=
  match o with
  | DToggle _ _ _ => Lit.lbr ++ format_name o ++ Lit.rbr
  | _ =>
    let b := o_base o in
    Lit.lbr ++ (match b_short b with
              | Some c => Lit.dash ++ [c] ++ Lit.tab_lt ++ b_metavar b ++ Lit.gt_bar
              | None => []
              end)
          ++ format_name o ++ Lit.tab_lt ++ b_metavar b ++ Lit.gt_close
  end.

Definition format_default (o : odecl) : str :=
  match o with
  | DOption _ (Some x) _ => Lit.default_open ++ x ++ Lit.default_close
  | DOption _ None _ => []
  | DMulti _ (Some l) _ => Lit.default_open ++ join Lit.comma_sp l ++ Lit.default_close
  | DMulti _ None _ => []
  | DToggle _ true dflt => Lit.default_open ++ (if dflt then Lit.enabled else Lit.disabled) ++ Lit.default_close
  | DToggle _ false _ => []
  end.

(* base::format: the part written before format_padded is called ("  -x, --name ARG") *)
Definition block_head (o : odecl) : str :=
  Lit.two_blanks ++
  (match b_short (o_base o) with
   | Some c => Lit.dash ++ [c] ++ Lit.comma_sp ++ format_name o
   | None => format_name o
   end) ++ format_value o.

Definition env_hint (o : odecl) : list str :=
  match b_env (o_base o) with
  | [] => []
  | e => [Lit.env_open ++ e ++ Lit.env_close]
  end.

(* join(description) with the default infix " " *)
Definition block_text (o : odecl) : str :=
  join [sp] ([b_descr (o_base o)] ++ env_hint o ++ [format_default o]).

(* base::format: everything goes through a private stringstream, so tellp() is the length of the head *)
Definition block (o : odecl) : str :=
  let h := block_head o in
  let text := block_text o in
  h ++ (if nonempty text then format_padded (Z.of_nat (length h)) text 40 80 else []) ++ [nl].

(* ------------------------------------------------------------------ group::usage *)

Definition group_usage (g : group) : str :=
  match g_opts g with
  | [] => []
  | _ =>
    [nl] ++ g_name g ++ Lit.colon ++ [nl] ++
    (if nonempty (g_descr g) then [nl] ++ g_descr g ++ [nl; nl] else []) ++
    concat (map block (g_opts g))
  end.

(* ------------------------------------------------------------------ parser::usage *)

(* std::map<std::string, …> order: lexicographic on unsigned bytes, a proper prefix first *)
Fixpoint str_ltb (a b : str) : bool :=
  match a, b with
  | _, [] => false
  | [], _ :: _ => true
  | x :: a', y :: b' =>
    if Byte.to_nat x <? Byte.to_nat y then true
    else if Byte.to_nat y <? Byte.to_nat x then false
    else str_ltb a' b'
  end.

Fixpoint insert_by {A} (lt : A -> A -> bool) (x : A) (l : list A) : list A :=
  match l with
  | [] => [x]
  | y :: r => if lt x y then x :: l else y :: insert_by lt x r
  end.
Definition sort_by {A} (lt : A -> A -> bool) (l : list A) : list A := fold_right (insert_by lt) [] l.

(* get_all_options / get_all_multi_options / get_all_toggles: a std::map keyed by name over all groups.
   Names are unique in a parser (the declaration functions raise otherwise), so the map order is the
   sorted order of the names *)
Definition name_ltb (a b : odecl) : bool := str_ltb (b_name (o_base a)) (b_name (o_base b)).
Definition by_name (l : list odecl) : list odecl := sort_by name_ltb l.
Definition sorted_options (d : decl) : list odecl := by_name (filter is_option (all_decls d)).
Definition sorted_multis (d : decl) : list odecl := by_name (filter is_multi (all_decls d)).
Definition sorted_toggles (d : decl) : list odecl := by_name (filter is_toggle (all_decls d)).

(* std::sort on the characters of a std::string: plain char is signed on the supported targets *)
Definition schar (c : byte) : nat :=
  let n := Byte.to_nat c in if n <? 128 then n + 128 else n - 128.
Definition char_ltb (a b : byte) : bool := schar a <? schar b.

(* short_list before sorting: the letters of the toggles that have one, in name order *)
Definition short_letters (d : decl) : str :=
  flat_map (fun o => match b_short (o_base o) with Some c => [c] | None => [] end) (sorted_toggles d).

(* the toggles printed in long form: those without a letter, and the reversible ones *)
Definition is_long_toggle (o : odecl) : bool := is_toggle o && (negb (has_short o) || is_reversible o).
Definition long_toggles (d : decl) : list odecl := filter is_long_toggle (sorted_toggles d).

(* the synopsis before wrapping (usage.str()).  `lt` is the iteration order of the
   std::set<options::toggle*> long_toggles — the order of the objects' addresses, which the
   declaration does not determine; every theorem quantifies over all permutations *)
Definition synopsis_raw (d : decl) (lt : list odecl) : str :=
  (match short_letters d with
   | [] => []
   | l => Lit.open_dash ++ sort_by char_ltb l ++ Lit.rbr
   end) ++
  flat_map (fun o => sp :: format_synopsis o) lt ++
  flat_map (fun o => sp :: format_synopsis o) (sorted_options d) ++
  flat_map (fun o => sp :: format_synopsis o) (sorted_multis d) ++
  (if d_positionals d then Lit.sp_open ++ d_posname d ++ Lit.dots_close else []).

(* the head line: built in the private stringstream `head`, whose tellp() is its length *)
Definition synopsis_line (d : decl) (lt : list odecl) : str :=
  let head := Lit.usage_colon ++ d_app d in
  head ++ (match synopsis_raw d lt with
           | [] => []
           | _ :: out => format_padded (Z.of_nat (length head)) out (8 + length (d_app d)) 80
           end).

Definition option_section (d : decl) : str := concat (map group_usage (all_groups d)).

Definition usage (d : decl) (lt : list odecl) : str :=
  synopsis_line d lt ++ [nl; nl] ++
  (if nonempty (d_about d) then d_about d ++ [nl; nl] else []) ++
  option_section d.

(* what the write position of the TARGET stream contributes: nothing (it is not an argument of anything
   above).  usage_to exists so that this can be said as a theorem and compared with the code before the
   repair "usage synopsis no longer depends on the target stream's write position" *)
Definition usage_to (target_tellp : Z) (d : decl) (lt : list odecl) : str := usage d lt.

(* the head line as it was before that repair: written straight to the target stream, whose tellp()
   after "usage: " << app_name_ is target_tellp + 7 + |app| for a seekable stream and stays -1 otherwise *)
Definition synopsis_line_before_repair (target_tellp : Z) (d : decl) (lt : list odecl) : str :=
  let head := Lit.usage_colon ++ d_app d in
  let pos := if (target_tellp <? 0)%Z then (-1)%Z else (target_tellp + Z.of_nat (length head))%Z in
  head ++ (match synopsis_raw d lt with
           | [] => []
           | _ :: out => format_padded pos out (8 + length (d_app d)) 80
           end).

(* Usage/UsageWrap.v — format_padded: nothing is lost or reordered (as separators + words, and as token
   sequence), and the line-width rule, for ALL texts, columns and widths. *)
From Coq Require Import List Arith Lia Bool ZArith.
From Coq Require Import Init.Byte Strings.Byte.
From Nitro Require Import Base.Bytes Base.ListX Str.StrModel Str.StrSpec Str.StrProofs
  Usage.UsageModel Usage.UsageSpec Usage.UsageSplit.
Import ListNotations.
Local Open Scope list_scope.

Lemma setw_blank_blanks w : setw_blank w = blanks (Nat.max w 1).
Proof. reflexivity. Qed.

Lemma setw_blank_cons w : setw_blank w = sp :: blanks (Nat.max w 1 - 1).
Proof. unfold setw_blank, blanks. destruct (Nat.max w 1) eqn:E; [lia|]. simpl. now rewrite Nat.sub_0_r. Qed.

Lemma contains_end w a b : contains w (a ++ b ++ w) = true.
Proof. apply contains_iff. exists (a ++ b), []. now rewrite app_nil_r, <- app_assoc. Qed.

(* ------------------------------------------------------------------ words_preserved *)

Lemma fp_words_interleave lp mw ws : forall space width,
  exists seps, length seps = length ws /\ Forall layout seps /\
    fp_words lp mw ws space width = interleave seps (map detab_spec ws).
Proof.
  induction ws as [|w0 ws IH]; intros space width.
  - exists []. repeat split; constructor.
  - cbn [fp_words]. rewrite detab_correct.
    destruct (fp_long lp mw (detab_spec w0) || (Z.of_nat (length (detab_spec w0) + 1) <=? space)%Z).
    + destruct (IH (space - Z.of_nat (length (detab_spec w0) + 1))%Z 0) as (seps & H1 & H2 & H3).
      exists (setw_blank width :: seps). repeat split.
      * simpl. now rewrite H1.
      * constructor; [|exact H2]. rewrite setw_blank_blanks. constructor. lia.
      * simpl. now rewrite H3.
    + destruct (IH (Z.of_nat mw - Z.of_nat lp - Z.of_nat (length (detab_spec w0) + 1))%Z 0) as (seps & H1 & H2 & H3).
      exists ((nl :: setw_blank lp) :: seps). repeat split.
      * simpl. now rewrite H1.
      * constructor; [|exact H2]. rewrite setw_blank_blanks. constructor. lia.
      * simpl. now rewrite H3.
Qed.

Theorem format_padded_words_preserved indent text lp mw :
  exists seps, length seps = length (words text) /\ Forall layout seps /\
    format_padded indent text lp mw = interleave seps (map detab_spec (words text)).
Proof.
  unfold format_padded. rewrite split_blank_words.
  destruct (indent <=? Z.of_nat lp)%Z; apply fp_words_interleave.
Qed.

(* ------------------------------------------------------------------ the token sequence is the text's *)

Lemma fp_words_starts lp mw ws space width : starts_layout (fp_words lp mw ws space width).
Proof.
  destruct ws as [|w0 ws]; [exact I|]. cbn [fp_words].
  destruct (_ || _); [rewrite setw_blank_cons|]; reflexivity.
Qed.

Lemma tokens_fp_words lp mw ws : forall space width,
  tokens (fp_words lp mw ws space width) = concat (map tokens ws).
Proof.
  induction ws as [|w0 ws IH]; intros space width; [reflexivity|].
  cbn [fp_words map concat]. rewrite detab_correct.
  destruct (_ || _).
  - rewrite setw_blank_blanks, tokens_blanks_app.
    rewrite tokens_app_starts by apply fp_words_starts. now rewrite tokens_detab, IH.
  - rewrite tokens_cons_layout by reflexivity. rewrite setw_blank_blanks, tokens_blanks_app.
    rewrite tokens_app_starts by apply fp_words_starts. now rewrite tokens_detab, IH.
Qed.

Theorem tokens_format_padded indent text lp mw : tokens (format_padded indent text lp mw) = tokens text.
Proof.
  unfold format_padded. rewrite split_blank_words.
  destruct (indent <=? Z.of_nat lp)%Z; rewrite tokens_fp_words; apply tokens_words.
Qed.

Lemma format_padded_starts indent text lp mw : starts_layout (format_padded indent text lp mw).
Proof. unfold format_padded. destruct (_ <=? _)%Z; apply fp_words_starts. Qed.

(* ------------------------------------------------------------------ the width rule *)

Section Width.
Variables lp mw : nat.
Hypothesis Hlp : lp < mw.
Variable L : list str.

Lemma fp_long_long w : fp_long lp mw w = long_word lp mw w.
Proof. unfold fp_long, long_word. destruct (mw <? lp) eqn:E; [apply Nat.ltb_lt in E; lia | reflexivity]. Qed.

(* the state of the loop: the current line `cur`, `space`, the pending field width.
   Either an unbreakable word has been placed on the current line: then space is negative (so that only
   further unbreakable words can follow on this line) and the line is an admissible beginning followed by
   unbreakable words; or no such word has been placed: then the line still keeps to max_width with `space` to spare *)
Definition wrap_inv (base : str -> bool) (cur : str) (space : Z) (width : nat) : Prop :=
  (wide_line base L cur /\ (space < 0)%Z /\ width = 0) \/
  ((forall l, fits mw l = true -> base l = true) /\
   (0 <= space <= Z.of_nat mw - Z.of_nat lp)%Z /\
   (Z.of_nat (length cur) + Z.of_nat (Nat.max width 1) - 1 + space <= Z.of_nat mw)%Z).

Lemma wrap_inv_done base cur space width : wrap_inv base cur space width -> wide_line base L cur.
Proof.
  intros [[H _]|(HB & H1 & H2)]; [exact H|]. apply wide_line_base, HB. unfold fits. apply Nat.leb_le. lia.
Qed.

Lemma fp_words_lines ws : forall base cur space width,
  no_nl cur = true -> Forall (fun w => no_nl w = true) ws ->
  (forall w, In w ws -> long_word lp mw (detab_spec w) = true -> In (detab_spec w) L) ->
  wrap_inv base cur space width ->
  exists l1 rest, cur ++ fp_words lp mw ws space width = intercalate [nl] (l1 :: rest) /\
             (exists t, l1 = cur ++ t) /\
             Forall (fun l => no_nl l = true) (l1 :: rest) /\
             wide_line base L l1 /\ Forall (wide_line (fits mw) L) rest.
Proof.
  induction ws as [|w0 ws IH]; intros base cur space width Hcur Hws HL Hinv.
  - exists cur, []. simpl. rewrite app_nil_r. repeat split; [exists []; now rewrite app_nil_r | repeat constructor; assumption | | constructor].
    eapply wrap_inv_done; eauto.
  - inversion Hws as [|? ? Hw0 Hws']; subst.
    assert (HL' : forall w, In w ws -> long_word lp mw (detab_spec w) = true -> In (detab_spec w) L)
      by (intros w Hw; apply HL; now right).
    cbn [fp_words]. rewrite detab_correct, fp_long_long.
    set (w := detab_spec w0). set (n := Z.of_nat (length w + 1)).
    assert (Hw : no_nl w = true) by (unfold w; now rewrite no_nl_detab).
    destruct (long_word lp mw w) eqn:Elong; [|destruct (n <=? space)%Z eqn:Efit]; cbn [orb].
    + (* an unbreakable word stays on the current line, and from now on space is negative *)
      assert (HwL : In w L) by (apply HL; [now left | exact Elong]).
      pose proof Elong as Elong'. unfold long_word in Elong'. apply Nat.ltb_lt in Elong'.
      destruct (IH base (cur ++ setw_blank width ++ w) (space - n)%Z 0) as (l1 & rest & H1 & [t Ht] & H3 & H4 & H5); auto.
      * now rewrite !no_nl_app, Hcur, setw_blank_blanks, no_nl_blanks, Hw.
      * left. split; [|split; [|reflexivity]].
        -- destruct Hinv as [(Hwl & Hs & ->)|(HB & Hs & Hb)].
           ++ change (setw_blank 0 ++ w) with (sp :: w). now apply wide_line_step.
           ++ rewrite setw_blank_blanks. unfold blanks.
              replace (repeat sp (Nat.max width 1)) with (repeat sp (Nat.max width 1 - 1) ++ [sp]).
              2:{ destruct (Nat.max width 1) eqn:Em; [lia|]. simpl. rewrite Nat.sub_0_r. symmetry. apply repeat_cons. }
              rewrite <- app_assoc, app_assoc. change ([sp] ++ w) with (sp :: w).
              apply wide_line_step; [|exact HwL]. apply wide_line_base, HB. unfold fits. apply Nat.leb_le.
              rewrite app_length, repeat_length. lia.
        -- destruct Hinv as [(_ & Hs & _)|(_ & Hs & _)]; unfold n; lia.
      * exists l1, rest. rewrite <- H1, <- !app_assoc. repeat split; auto.
        exists (setw_blank width ++ w ++ t). now rewrite Ht, <- !app_assoc.
    + (* the word fits: no unbreakable word can be on the line *)
      apply Z.leb_le in Efit.
      destruct Hinv as [(_ & Hs & _)|(HB & Hs & Hb)]; [unfold n in Efit; lia|].
      destruct (IH base (cur ++ setw_blank width ++ w) (space - n)%Z 0) as (l1 & rest & H1 & [t Ht] & H3 & H4 & H5); auto.
      * now rewrite !no_nl_app, Hcur, setw_blank_blanks, no_nl_blanks, Hw.
      * right. split; [exact HB|]. rewrite !app_length, setw_blank_blanks. unfold blanks. rewrite repeat_length. unfold n in *. lia.
      * exists l1, rest. rewrite <- H1, <- !app_assoc. repeat split; auto.
        exists (setw_blank width ++ w ++ t). now rewrite Ht, <- !app_assoc.
    + (* line break *)
      apply Z.leb_gt in Efit. unfold long_word in Elong. apply Nat.ltb_ge in Elong.
      destruct (IH (fits mw) (setw_blank lp ++ w) (Z.of_nat mw - Z.of_nat lp - n)%Z 0) as (l1 & rest & H1 & [t Ht] & H3 & H4 & H5); auto.
      * now rewrite !no_nl_app, setw_blank_blanks, no_nl_blanks, Hw.
      * right. split; [auto|]. rewrite !app_length, setw_blank_blanks. unfold blanks. rewrite repeat_length. unfold n in *. lia.
      * exists cur, (l1 :: rest). repeat split.
        -- rewrite intercalate_cons, <- H1, <- !app_assoc. reflexivity.
        -- exists []. now rewrite app_nil_r.
        -- constructor; assumption.
        -- eapply wrap_inv_done; eauto.
        -- constructor; assumption.
Qed.

End Width.

Lemma words_no_nl text : no_nl text = true -> Forall (fun w => no_nl w = true) (words text).
Proof.
  intros H. rewrite <- (splitp_lossless sp text) in H. fold (words text) in H.
  induction (words text) as [|x l IH]; [constructor|]. destruct l as [|y l].
  - simpl in H. repeat constructor. exact H.
  - rewrite intercalate_cons, !no_nl_app, !andb_true_iff in H. destruct H as (H1 & _ & H3). constructor; auto.
Qed.

Lemma long_words_of_in lp mw text w :
  In w (words text) -> long_word lp mw (detab_spec w) = true -> In (detab_spec w) (long_words_of lp mw text).
Proof. intros H1 H2. unfold long_words_of. apply filter_In. split; [now apply in_map | exact H2]. Qed.

Lemma long_words_of_long lp mw text w : In w (long_words_of lp mw text) -> long_word lp mw w = true.
Proof. unfold long_words_of. intros H. now apply filter_In in H. Qed.

(* the stream's current line is `pre` (so tellp() = |pre|), not wider than the left column: every line is a
   beginning that keeps to max_width, followed by nothing but unbreakable words *)
Theorem format_padded_width_narrow_strict pre text lp mw :
  no_nl pre = true -> no_nl text = true -> length pre <= lp -> lp < mw ->
  Forall (wide_line (fits mw) (long_words_of lp mw text))
         (lines (pre ++ format_padded (Z.of_nat (length pre)) text lp mw)).
Proof.
  intros Hpre Htext Hle Hlp. unfold format_padded. rewrite split_blank_words.
  replace (Z.of_nat (length pre) <=? Z.of_nat lp)%Z with true by (symmetry; apply Z.leb_le; lia).
  destruct (fp_words_lines lp mw Hlp (long_words_of lp mw text) (words text) (fits mw) pre
              (Z.of_nat mw - Z.of_nat lp)%Z (Z.to_nat (Z.of_nat lp - Z.of_nat (length pre))))
    as (l1 & rest & H1 & _ & H3 & H4 & H5); auto.
  - now apply words_no_nl.
  - intros w. apply long_words_of_in.
  - right. split; [auto|]. lia.
  - rewrite H1, lines_intercalate; [now constructor | discriminate | exact H3].
Qed.

(* the current line is already wider than the left column: the first line is that column, followed by nothing
   but unbreakable words (none, when the first word of the text can be broken off) *)
Theorem format_padded_width_wide_strict pre text lp mw :
  no_nl pre = true -> no_nl text = true -> lp < length pre -> lp < mw ->
  exists first rest, lines (pre ++ format_padded (Z.of_nat (length pre)) text lp mw) = first :: rest /\
    wide_line (fun b => seq_eqb b pre) (long_words_of lp mw text) first /\
    Forall (wide_line (fits mw) (long_words_of lp mw text)) rest.
Proof.
  intros Hpre Htext Hgt Hlp. unfold format_padded. rewrite split_blank_words.
  replace (Z.of_nat (length pre) <=? Z.of_nat lp)%Z with false by (symmetry; apply Z.leb_gt; lia).
  pose proof (words_no_nl text Htext) as Hws.
  pose proof (long_words_of_in lp mw text) as HL.
  set (L := long_words_of lp mw text) in *.
  destruct (words text) as [|w0 ws] eqn:Ew; [now apply words_nonnil in Ew|].
  inversion Hws as [|? ? Hw0 Hws']; subst.
  cbn [fp_words]. rewrite detab_correct, (fp_long_long lp mw Hlp).
  set (w := detab_spec w0). set (n := Z.of_nat (length w + 1)).
  assert (Hw : no_nl w = true) by (unfold w; now rewrite no_nl_detab).
  assert (HL' : forall x, In x ws -> long_word lp mw (detab_spec x) = true -> In (detab_spec x) L)
    by (intros x Hx; apply HL; now right).
  assert (Hbase : wide_line (fun b => seq_eqb b pre) L pre) by (apply wide_line_base, seq_eqb_refl).
  destruct (long_word lp mw w) eqn:Elong; cbn [orb].
  - assert (HwL : In w L) by (apply HL; [now left | exact Elong]).
    destruct (fp_words_lines lp mw Hlp L ws (fun b => seq_eqb b pre) (pre ++ setw_blank 0 ++ w) (0 - n)%Z 0)
      as (l1 & rest & H1 & _ & H3 & H4 & H5); auto.
    + now rewrite !no_nl_app, Hpre, Hw.
    + left. split; [|split; [unfold n; lia | reflexivity]].
      change (setw_blank 0 ++ w) with (sp :: w). now apply wide_line_step.
    + exists l1, rest. rewrite <- !app_assoc in H1. rewrite H1, lines_intercalate by (discriminate || assumption). auto.
  - replace (n <=? 0)%Z with false by (symmetry; apply Z.leb_gt; unfold n; lia).
    unfold long_word in Elong. apply Nat.ltb_ge in Elong.
    destruct (fp_words_lines lp mw Hlp L ws (fits mw) (setw_blank lp ++ w) (Z.of_nat mw - Z.of_nat lp - n)%Z 0)
      as (l1 & rest & H1 & _ & H3 & H4 & H5); auto.
    + now rewrite !no_nl_app, setw_blank_blanks, no_nl_blanks, Hw.
    + right. split; [auto|]. rewrite !app_length, setw_blank_blanks. unfold blanks. rewrite repeat_length. unfold n in *. lia.
    + exists pre, (l1 :: rest). split; [|split; [exact Hbase | constructor; assumption]].
      assert (E : pre ++ nl :: setw_blank lp ++ w ++ fp_words lp mw ws (Z.of_nat mw - Z.of_nat lp - n)%Z 0
                  = intercalate [nl] (pre :: l1 :: rest)).
      { rewrite intercalate_cons, <- H1, <- !app_assoc. reflexivity. }
      rewrite E. apply lines_intercalate; [discriminate | constructor; assumption].
Qed.

(* the weak forms (a line keeps to max_width or contains an unbreakable word) follow *)
Theorem format_padded_width_narrow pre text lp mw :
  no_nl pre = true -> no_nl text = true -> length pre <= lp -> lp < mw ->
  Forall (fun l => line_ok mw (long_words_of lp mw text) l = true)
         (lines (pre ++ format_padded (Z.of_nat (length pre)) text lp mw)).
Proof.
  intros H1 H2 H3 H4. eapply Forall_impl; [|apply format_padded_width_narrow_strict; assumption].
  intros l. apply wide_line_line_ok.
Qed.

Theorem format_padded_width_wide pre text lp mw :
  no_nl pre = true -> no_nl text = true -> lp < length pre -> lp < mw ->
  exists first rest, lines (pre ++ format_padded (Z.of_nat (length pre)) text lp mw) = first :: rest /\
    (first = pre \/ has_long (long_words_of lp mw text) first = true) /\
    Forall (fun l => line_ok mw (long_words_of lp mw text) l = true) rest.
Proof.
  intros H1 H2 H3 H4. destruct (format_padded_width_wide_strict pre text lp mw H1 H2 H3 H4) as (first & rest & E & Hf & Hr).
  exists first, rest. repeat split; [exact E | now apply wide_line_pre_or_long in Hf|].
  eapply Forall_impl; [|exact Hr]. intros l. apply wide_line_line_ok.
Qed.

(* both cases, as the boolean check the oracle evaluates (strict rule) *)
Theorem format_padded_check_width pre text lp mw :
  check_fp_width pre text lp mw (format_padded (Z.of_nat (length pre)) text lp mw) = true.
Proof.
  unfold check_fp_width.
  destruct (no_nl pre) eqn:Hpre; [|reflexivity]. destruct (no_nl text) eqn:Htext; [|reflexivity].
  destruct (lp <? mw) eqn:Hlp; [|reflexivity]. apply Nat.ltb_lt in Hlp. cbn [andb].
  assert (Hrest : forall rest, Forall (wide_line (fits mw) (long_words_of lp mw text)) rest ->
                  forallb (line_strict mw (long_words_of lp mw text)) rest = true).
  { intros rest H. apply forallb_forall. intros l Hl. rewrite Forall_forall in H.
    unfold line_strict. apply wide_line_strip; [now apply H | lia]. }
  destruct (le_lt_dec (length pre) lp) as [Hle|Hgt].
  - pose proof (format_padded_width_narrow_strict pre text lp mw Hpre Htext Hle Hlp) as H.
    destruct (lines _) as [|first rest] eqn:E; [now apply splitp_nonnil in E|].
    inversion H; subst. apply andb_true_iff. split; [|now apply Hrest].
    replace (lp <? length pre) with false by (symmetry; apply Nat.ltb_ge; lia).
    apply wide_line_strip; [assumption | lia].
  - destruct (format_padded_width_wide_strict pre text lp mw Hpre Htext Hgt Hlp) as (first & rest & -> & Hf & Hr).
    apply andb_true_iff. split; [|now apply Hrest].
    replace (lp <? length pre) with true by (symmetry; apply Nat.ltb_lt; lia).
    apply wide_line_strip; [assumption | lia].
Qed.

(* Usage/UsageWrap.v — format_padded: nothing is lost or reordered (as separators + words, and as token
   sequence), and the line-width rule, for ALL texts, columns and widths. *)
From Coq Require Import List Arith Lia Bool ZArith.
From Coq Require Import Init.Byte Strings.Byte.
From Nitro Require Import Base.Bytes Base.ListX Str.StrModel Str.StrSpec Str.StrProofs
  Usage.UsageModel Usage.UsageSpec Usage.UsageSplit.
Import ListNotations.
Local Open Scope list_scope.

Lemma setw_blank_blanks w : setw_blank w = blanks (Nat.max w 1).
Proof. reflexivity. Qed.

Lemma setw_blank_cons w : setw_blank w = sp :: blanks (Nat.max w 1 - 1).
Proof. unfold setw_blank, blanks. destruct (Nat.max w 1) eqn:E; [lia|]. simpl. now rewrite Nat.sub_0_r. Qed.

Lemma contains_end w a b : contains w (a ++ b ++ w) = true.
Proof. apply contains_iff. exists (a ++ b), []. now rewrite app_nil_r, <- app_assoc. Qed.

(* ------------------------------------------------------------------ words_preserved *)

Lemma fp_words_interleave lp mw ws : forall space width,
  exists seps, length seps = length ws /\ Forall layout seps /\
    fp_words lp mw ws space width = interleave seps (map detab_spec ws).
Proof.
  induction ws as [|w0 ws IH]; intros space width.
  - exists []. repeat split; constructor.
  - cbn [fp_words]. rewrite detab_correct.
    destruct (fp_long lp mw (detab_spec w0) || (Z.of_nat (length (detab_spec w0) + 1) <=? space)%Z).
    + destruct (IH (space - Z.of_nat (length (detab_spec w0) + 1))%Z 0) as (seps & H1 & H2 & H3).
      exists (setw_blank width :: seps). repeat split.
      * simpl. now rewrite H1.
      * constructor; [|exact H2]. rewrite setw_blank_blanks. constructor. lia.
      * simpl. now rewrite H3.
    + destruct (IH (Z.of_nat mw - Z.of_nat lp - Z.of_nat (length (detab_spec w0) + 1))%Z 0) as (seps & H1 & H2 & H3).
      exists ((nl :: setw_blank lp) :: seps). repeat split.
      * simpl. now rewrite H1.
      * constructor; [|exact H2]. rewrite setw_blank_blanks. constructor. lia.
      * simpl. now rewrite H3.
Qed.

Theorem format_padded_words_preserved indent text lp mw :
  exists seps, length seps = length (words text) /\ Forall layout seps /\
    format_padded indent text lp mw = interleave seps (map detab_spec (words text)).
Proof.
  unfold format_padded. rewrite split_blank_words.
  destruct (indent <=? Z.of_nat lp)%Z; apply fp_words_interleave.
Qed.

(* ------------------------------------------------------------------ the token sequence is the text's *)

Lemma fp_words_starts lp mw ws space width : starts_layout (fp_words lp mw ws space width).
Proof.
  destruct ws as [|w0 ws]; [exact I|]. cbn [fp_words].
  destruct (_ || _); [rewrite setw_blank_cons|]; reflexivity.
Qed.

Lemma tokens_fp_words lp mw ws : forall space width,
  tokens (fp_words lp mw ws space width) = concat (map tokens ws).
Proof.
  induction ws as [|w0 ws IH]; intros space width; [reflexivity|].
  cbn [fp_words map concat]. rewrite detab_correct.
  destruct (_ || _).
  - rewrite setw_blank_blanks, tokens_blanks_app.
    rewrite tokens_app_starts by apply fp_words_starts. now rewrite tokens_detab, IH.
  - rewrite tokens_cons_layout by reflexivity. rewrite setw_blank_blanks, tokens_blanks_app.
    rewrite tokens_app_starts by apply fp_words_starts. now rewrite tokens_detab, IH.
Qed.

Theorem tokens_format_padded indent text lp mw : tokens (format_padded indent text lp mw) = tokens text.
Proof.
  unfold format_padded. rewrite split_blank_words.
  destruct (indent <=? Z.of_nat lp)%Z; rewrite tokens_fp_words; apply tokens_words.
Qed.

Lemma format_padded_starts indent text lp mw : starts_layout (format_padded indent text lp mw).
Proof. unfold format_padded. destruct (_ <=? _)%Z; apply fp_words_starts. Qed.

(* ------------------------------------------------------------------ the width rule *)

Section Width.
Variables lp mw : nat.
Hypothesis Hlp : lp < mw.
Variable L : list str.

Lemma fp_long_long w : fp_long lp mw w = long_word lp mw w.
Proof. unfold fp_long, long_word. destruct (mw <? lp) eqn:E; [apply Nat.ltb_lt in E; lia | reflexivity]. Qed.

(* the state of the loop: the current line `cur`, `space`, the pending field width *)
Definition wrap_inv (cur : str) (space : Z) (width : nat) : Prop :=
  has_long L cur = true \/
  ((0 <= space)%Z /\ (Z.of_nat (length cur) + Z.of_nat (Nat.max width 1) - 1 + space <= Z.of_nat mw)%Z).

Lemma wrap_inv_line_ok cur space width : wrap_inv cur space width -> line_ok mw L cur = true.
Proof.
  unfold wrap_inv, line_ok. intros [H|[H1 H2]]; apply orb_true_iff; [now right | left].
  apply Nat.leb_le. lia.
Qed.

Lemma fp_words_lines ws : forall cur space width,
  no_nl cur = true -> Forall (fun w => no_nl w = true) ws ->
  (forall w, In w ws -> long_word lp mw (detab_spec w) = true -> In (detab_spec w) L) ->
  wrap_inv cur space width ->
  exists ls, cur ++ fp_words lp mw ws space width = intercalate [nl] ls /\ ls <> [] /\ (exists t, hd [] ls = cur ++ t) /\
             Forall (fun l => no_nl l = true) ls /\ Forall (fun l => line_ok mw L l = true) ls.
Proof.
  induction ws as [|w0 ws IH]; intros cur space width Hcur Hws HL Hinv.
  - exists [cur]. simpl. rewrite app_nil_r. repeat split; [discriminate | exists []; now rewrite app_nil_r | repeat constructor; assumption|].
    repeat constructor. eapply wrap_inv_line_ok; eauto.
  - inversion Hws as [|? ? Hw0 Hws']; subst.
    assert (HL' : forall w, In w ws -> long_word lp mw (detab_spec w) = true -> In (detab_spec w) L)
      by (intros w Hw; apply HL; now right).
    cbn [fp_words]. rewrite detab_correct, fp_long_long.
    set (w := detab_spec w0). set (n := Z.of_nat (length w + 1)).
    assert (Hw : no_nl w = true) by (unfold w; now rewrite no_nl_detab).
    destruct (long_word lp mw w) eqn:Elong; [|destruct (n <=? space)%Z eqn:Efit]; cbn [orb].
    + (* an unbreakable word stays on the current line *)
      destruct (IH (cur ++ setw_blank width ++ w) (space - n)%Z 0) as (ls & H1 & Hne & H2 & H3 & H4); auto.
      * now rewrite !no_nl_app, Hcur, setw_blank_blanks, no_nl_blanks, Hw.
      * left. unfold has_long. apply existsb_exists. exists w. split; [apply HL; [now left | exact Elong]|].
        apply contains_end.
      * exists ls. rewrite <- H1, <- !app_assoc. repeat split; auto.
        destruct H2 as [t Ht]. exists (setw_blank width ++ w ++ t). now rewrite Ht, <- !app_assoc.
    + (* the word fits *)
      apply Z.leb_le in Efit.
      destruct (IH (cur ++ setw_blank width ++ w) (space - n)%Z 0) as (ls & H1 & Hne & H2 & H3 & H4); auto.
      * now rewrite !no_nl_app, Hcur, setw_blank_blanks, no_nl_blanks, Hw.
      * destruct Hinv as [Hl|[Hs Hb]]; [left; now apply has_long_app_r|right].
        rewrite !app_length, setw_blank_blanks. unfold blanks. rewrite repeat_length. unfold n in *. lia.
      * exists ls. rewrite <- H1, <- !app_assoc. repeat split; auto.
        destruct H2 as [t Ht]. exists (setw_blank width ++ w ++ t). now rewrite Ht, <- !app_assoc.
    + (* line break *)
      apply Z.leb_gt in Efit. unfold long_word in Elong. apply Nat.ltb_ge in Elong.
      destruct (IH (setw_blank lp ++ w) (Z.of_nat mw - Z.of_nat lp - n)%Z 0) as (ls & H1 & Hne & H2 & H3 & H4); auto.
      * now rewrite !no_nl_app, setw_blank_blanks, no_nl_blanks, Hw.
      * right. rewrite !app_length, setw_blank_blanks. unfold blanks. rewrite repeat_length. unfold n in *. lia.
      * exists (cur :: ls). destruct ls as [|l1 ls]; [congruence|].
        repeat split.
        -- rewrite intercalate_cons, <- H1, <- !app_assoc. reflexivity.
        -- discriminate.
        -- exists []. simpl. now rewrite app_nil_r.
        -- constructor; assumption.
        -- constructor; [eapply wrap_inv_line_ok; eauto | assumption].
Qed.

End Width.

Lemma words_no_nl text : no_nl text = true -> Forall (fun w => no_nl w = true) (words text).
Proof.
  intros H. rewrite <- (splitp_lossless sp text) in H. fold (words text) in H.
  induction (words text) as [|x l IH]; [constructor|]. destruct l as [|y l].
  - simpl in H. repeat constructor. exact H.
  - rewrite intercalate_cons, !no_nl_app, !andb_true_iff in H. destruct H as (H1 & _ & H3). constructor; auto.
Qed.

Lemma long_words_of_in lp mw text w :
  In w (words text) -> long_word lp mw (detab_spec w) = true -> In (detab_spec w) (long_words_of lp mw text).
Proof. intros H1 H2. unfold long_words_of. apply filter_In. split; [now apply in_map | exact H2]. Qed.

(* the stream's current line is `pre` (so tellp() = |pre|), not wider than the left column *)
Theorem format_padded_width_narrow pre text lp mw :
  no_nl pre = true -> no_nl text = true -> length pre <= lp -> lp < mw ->
  Forall (fun l => line_ok mw (long_words_of lp mw text) l = true)
         (lines (pre ++ format_padded (Z.of_nat (length pre)) text lp mw)).
Proof.
  intros Hpre Htext Hle Hlp. unfold format_padded. rewrite split_blank_words.
  replace (Z.of_nat (length pre) <=? Z.of_nat lp)%Z with true by (symmetry; apply Z.leb_le; lia).
  destruct (fp_words_lines lp mw Hlp (long_words_of lp mw text) (words text) pre
              (Z.of_nat mw - Z.of_nat lp)%Z (Z.to_nat (Z.of_nat lp - Z.of_nat (length pre))))
    as (ls & H1 & Hne & [t Ht] & H3 & H4); auto.
  - now apply words_no_nl.
  - intros w. apply long_words_of_in.
  - right. lia.
  - rewrite H1, lines_intercalate; [exact H4 | exact Hne | exact H3].
Qed.

(* the current line is already wider than the left column: it stays alone, unless an unbreakable word follows *)
Theorem format_padded_width_wide pre text lp mw :
  no_nl pre = true -> no_nl text = true -> lp < length pre -> lp < mw ->
  exists first rest, lines (pre ++ format_padded (Z.of_nat (length pre)) text lp mw) = first :: rest /\
    (first = pre \/ has_long (long_words_of lp mw text) first = true) /\
    Forall (fun l => line_ok mw (long_words_of lp mw text) l = true) rest.
Proof.
  intros Hpre Htext Hgt Hlp. unfold format_padded. rewrite split_blank_words.
  replace (Z.of_nat (length pre) <=? Z.of_nat lp)%Z with false by (symmetry; apply Z.leb_gt; lia).
  pose proof (words_no_nl text Htext) as Hws.
  pose proof (long_words_of_in lp mw text) as HL.
  set (L := long_words_of lp mw text) in *.
  destruct (words text) as [|w0 ws] eqn:Ew; [now apply words_nonnil in Ew|].
  inversion Hws as [|? ? Hw0 Hws']; subst.
  cbn [fp_words]. rewrite detab_correct, (fp_long_long lp mw Hlp).
  set (w := detab_spec w0). set (n := Z.of_nat (length w + 1)).
  assert (Hw : no_nl w = true) by (unfold w; now rewrite no_nl_detab).
  assert (HL' : forall x, In x ws -> long_word lp mw (detab_spec x) = true -> In (detab_spec x) L)
    by (intros x Hx; apply HL; now right).
  destruct (long_word lp mw w) eqn:Elong; cbn [orb].
  - assert (Hlong : has_long L (pre ++ setw_blank 0 ++ w) = true).
    { unfold has_long. apply existsb_exists. exists w. split; [apply HL; [now left | exact Elong]|].
      apply contains_end. }
    destruct (fp_words_lines lp mw Hlp L ws (pre ++ setw_blank 0 ++ w) (0 - n)%Z 0) as (ls & H1 & Hne & [t Ht] & H3 & H4); auto.
    + now rewrite !no_nl_app, Hpre, Hw.
    + now left.
    + destruct ls as [|l1 ls]; [congruence|]. exists l1, ls.
      rewrite <- !app_assoc in H1. rewrite H1, lines_intercalate by (congruence || assumption).
      inversion H4; subst. repeat split; auto.
      right. simpl in Ht. rewrite Ht. now apply has_long_app_r.
  - replace (n <=? 0)%Z with false by (symmetry; apply Z.leb_gt; unfold n; lia).
    unfold long_word in Elong. apply Nat.ltb_ge in Elong.
    destruct (fp_words_lines lp mw Hlp L ws (setw_blank lp ++ w) (Z.of_nat mw - Z.of_nat lp - n)%Z 0) as (ls & H1 & Hne & [t Ht] & H3 & H4); auto.
    + now rewrite !no_nl_app, setw_blank_blanks, no_nl_blanks, Hw.
    + right. rewrite !app_length, setw_blank_blanks. unfold blanks. rewrite repeat_length. unfold n in *. lia.
    + exists pre, ls. repeat split; auto.
      assert (E : pre ++ nl :: setw_blank lp ++ w ++ fp_words lp mw ws (Z.of_nat mw - Z.of_nat lp - n)%Z 0
                  = intercalate [nl] (pre :: ls)).
      { destruct ls as [|l1 ls]; [congruence|].
        rewrite intercalate_cons, <- H1, <- !app_assoc. reflexivity. }
      rewrite E. apply lines_intercalate; [discriminate | constructor; assumption].
Qed.

(* both cases, as the boolean check the oracle evaluates *)
Theorem format_padded_check_width pre text lp mw :
  check_fp_width pre text lp mw (format_padded (Z.of_nat (length pre)) text lp mw) = true.
Proof.
  unfold check_fp_width.
  destruct (no_nl pre) eqn:Hpre; [|reflexivity]. destruct (no_nl text) eqn:Htext; [|reflexivity].
  destruct (lp <? mw) eqn:Hlp; [|reflexivity]. apply Nat.ltb_lt in Hlp. cbn [andb].
  destruct (le_lt_dec (length pre) lp) as [Hle|Hgt].
  - pose proof (format_padded_width_narrow pre text lp mw Hpre Htext Hle Hlp) as H.
    destruct (lines _) as [|first rest] eqn:E; [now apply splitp_nonnil in E|].
    inversion H; subst. apply andb_true_iff. split; [apply orb_true_iff; now left | now apply forallb_forall, Forall_forall].
  - destruct (format_padded_width_wide pre text lp mw Hpre Htext Hgt Hlp) as (first & rest & -> & Hf & Hr).
    apply andb_true_iff. split; [|now apply forallb_forall, Forall_forall].
    apply orb_true_iff. destruct Hf as [->|Hf].
    + right. apply andb_true_iff. split; [now apply Nat.ltb_lt | apply seq_eqb_refl].
    + left. unfold line_ok. apply orb_true_iff. now right.
Qed.

(* Property C01 — statements follow. *)
From Nitro Require Import Opt.Run.

(* Property C01 — the option parser never silently ignores a command-line argument.
   Only statements; every proof is `exact <lemma>`.  `parse` is the extracted model (Opt/ParserModel.parse_g with the
   documented vocabulary); `render`, `wf_items`, `assign` are the specification (Opt/ParserSpec.v). *)
From Coq Require Import List Arith Bool ZArith.
From Nitro Require Import Base.Bytes Base.Res Opt.Token Opt.Decl Opt.ParserModel Opt.ParserCore Opt.ParserSpec Opt.Vocab Opt.Run
  Opt.Corollaries Opt.Sample.
Import ListNotations.

(* A successful parse accounts for EVERY token: the argument vector is exactly the spelling (render) of a legal item list
   (options with their values, bundles of declared toggle letters, long toggles, negations, positionals, the tail after `--`)
   and the result is the assignment those items spell — nothing in the vector is outside the items, no item is dropped. *)
Theorem C01_parse_accounts_for_every_token : forall d e st args r,
  wf_decl d = true -> no_clash d = true -> aligned d st ->
  snd (parse d e st args) = Ok r ->
  exists items tail, wf_items d items tail = true /\ render d items tail = args /\ assign d e items tail = Ok r.
Proof. exact (accounts_for_every_token truthy falsy). Qed.
Print Assumptions C01_parse_accounts_for_every_token.

(* every letter of a bundled short token is a declared toggle that carries that letter *)
Theorem C01_bundle_is_declared_toggles : forall d items tail ts,
  wf_items d items tail = true -> In (ItBundle ts) items ->
  ts <> [] /\ forall t, In t ts -> exists td c, nth_error (d_toggles d) t = Some td /\ t_short td = Some c.
Proof. exact bundle_is_declared_toggles. Qed.
Print Assumptions C01_bundle_is_declared_toggles.

(* ... and it was counted: the reported count of a toggle that occurs is its number of occurrences (each letter, each long spelling) *)
Theorem C01_result_reports_the_items : forall d e items tail r,
  assign d e items tail = Ok r ->
  (forall i o, nth_error (d_opts d) i = Some o ->
     nth_error (r_opts r) i = Some (o_name o, src_val (opt_source e o (opt_values i items)))
     /\ src_bad (opt_source e o (opt_values i items)) = false) /\
  (forall i o, nth_error (d_multis d) i = Some o ->
     nth_error (r_multis r) i = Some (m_name o, match src_val (multi_source e o (multi_values i items)) with Some l => l | None => [] end)
     /\ src_bad (multi_source e o (multi_values i items)) = false) /\
  (forall j t, nth_error (d_toggles d) j = Some t ->
     nth_error (r_toggles r) j = Some (t_name t, match src_val (toggle_source truthy falsy e t (occurrences j items) (negations j items)) with Some z => z | None => 0%Z end)
     /\ src_bad (toggle_source truthy falsy e t (occurrences j items) (negations j items)) = false) /\
  r_pos r = inline_pos items ++ match tail with Some ps => ps | None => [] end.
Proof. exact (assignment_reports truthy falsy). Qed.
Print Assumptions C01_result_reports_the_items.

(* anything else is the user-input error or (inconsistent declaration only) the developer error — never a third outcome *)
Theorem C01_otherwise_user_error : forall d e st args,
  wf_decl d = true -> no_clash d = true -> aligned d st ->
  (exists r, snd (parse d e st args) = Ok r) \/ snd (parse d e st args) = Err UserError
  \/ (snd (parse d e st args) = Err DevError /\ consistent d = false).
Proof. exact (outcome_trichotomy truthy falsy). Qed.
Print Assumptions C01_otherwise_user_error.

Module Examples.
Import Strings.String.
Local Open Scope string_scope.
(* the hypotheses are satisfiable and the conclusion is not trivial: a 10-token vector *)
Example C01_ex_hyps : wf_decl sample_decl = true /\ no_clash sample_decl = true /\ consistent sample_decl = true
                      /\ aligned sample_decl (init_st sample_decl).
Proof. repeat split; vm_compute; reflexivity. Qed.
Example C01_ex_parse : exists r, snd (parse sample_decl sample_env (init_st sample_decl) sample_args) = Ok r
                                 /\ List.length sample_args = 10 /\ map snd (r_toggles r) = [1%Z; 3%Z].
Proof. eexists. vm_compute. repeat split. Qed.
(* -vz with z undeclared, and -vo with an option letter in the bundle, are rejected (pre-repair they were accepted) *)
Example C01_ex_unknown_letter : snd (parse sample_decl sample_env (init_st sample_decl) [B "--out=x"; B "-vz"]) = Err UserError.
Proof. vm_compute. reflexivity. Qed.
Example C01_ex_option_letter_in_bundle : snd (parse sample_decl sample_env (init_st sample_decl) [B "-vo"; B "file"]) = Err UserError.
Proof. vm_compute. reflexivity. Qed.
End Examples.

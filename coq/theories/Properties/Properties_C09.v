(* Property C09 — thread-safe sinks emit each concurrent record once and contiguously.
   Only statements here; every proof is `exact <lemma>` into Sched/SchedProofs.v.

   Reading guide.  `body` is the statement sequence of a sink's `sink` function (Sched/SchedModel.v: sink_body);
   `ths : list (nat * list str)` gives, per thread, the sink instance (logger type) it logs through and its
   records in program order; `sched : list nat` is ANY schedule (a list of thread ids, one scheduling slot
   each: a blocked or finished thread wastes its slot); `run body ths sched` is the state after the schedule.
   The stream buffer of the model is not thread-safe: `st_corrupt` records that two threads were inside it at
   once.  The theorems hold for every number of threads, every record list, every schedule.  That the two real
   sinks satisfy the hypotheses `well_locked` / `body_ok` / `solo` is Tie/Tie_C09.v (over the translator's
   reading of /repo, redone on every run), where the theorems are also instantiated for them. *)
From Coq Require Import List Arith Bool.
From Coq Require Import Init.Byte.
From Nitro Require Import Base.Bytes Sched.SchedModel Sched.SchedSpec Sched.SchedProofs.
Import ListNotations.
Local Open Scope list_scope.

(* mutual exclusion: if a guard on a mutex shared by all instances is alive at every insertion and flush,
   no schedule ever brings two threads into the (unsynchronised) stream buffer *)
Theorem C09_never_corrupt : forall body, well_locked body = true ->
  forall ths sched, st_corrupt (run body ths sched) = false.
Proof. exact corrupt_free. Qed.
Print Assumptions C09_never_corrupt.

(* the thread inside the buffer is the one holder of that mutex *)
Theorem C09_inside_is_lock_holder : forall body, well_locked body = true ->
  forall ths sched, exists m, In m (static_guards body) /\
    forall t, st_inside (run body ths sched) = Some t ->
      holdsb (st_held (run body ths sched)) (LGlobal m) t = true /\
      forall t', holdsb (st_held (run body ths sched)) (LGlobal m) t' = true -> t' = t.
Proof. exact inside_is_holder. Qed.
Print Assumptions C09_inside_is_lock_holder.

(* at ANY moment of ANY schedule the output is: whole records of completed insertions, then at most a prefix
   of the next record of the thread that is inside (the lock holder); and what each thread has contributed
   so far is an initial segment of its program (nothing twice, nothing swapped, nothing foreign) *)
Theorem C09_output_any_moment : forall body, body_ok body = true ->
  forall ths sched, valid_partial_output (map snd ths) (st_out (run body ths sched)).
Proof. exact partial_output. Qed.
Print Assumptions C09_output_any_moment.

(* when all threads are done: there is an order of (thread, record) such that the output is the
   concatenation of those whole records, and for every thread the records of that thread in the order are
   exactly its program — each once, none lost, in program order *)
Theorem C09_complete_output : forall body, body_ok body = true ->
  forall ths sched, finished (run body ths sched) = true ->
    explains (st_order (run body ths sched)) (st_out (run body ths sched)) /\
    exactly_once_in_program_order (map snd ths) (st_order (run body ths sched)).
Proof. exact complete_output. Qed.
Print Assumptions C09_complete_output.

Theorem C09_complete_valid_output : forall body, body_ok body = true ->
  forall ths sched, finished (run body ths sched) = true ->
    valid_output (map snd ths) (st_out (run body ths sched)).
Proof. exact complete_valid_output. Qed.
Print Assumptions C09_complete_valid_output.

(* every schedule can be continued to completion (no deadlock, so no record is lost by a thread that
   never returns) — needs only that a thread never waits for a mutex while holding one *)
Theorem C09_no_deadlock : forall body, solo false body = true ->
  forall ths sched, exists more, finished (run body ths (sched ++ more)) = true.
Proof. exact no_deadlock. Qed.
Print Assumptions C09_no_deadlock.

(* the executable checker the oracle runs on the order observed from the real threads is the spec *)
Theorem C09_order_checker_is_spec : forall recs order,
  valid_orderb recs order = true <-> exactly_once_in_program_order recs order.
Proof. exact valid_orderb_iff. Qed.
Print Assumptions C09_order_checker_is_spec.

(* the shape of design section 3.2: the checker accepts what the model produces *)
Theorem C09_model_accepted : forall body, body_ok body = true ->
  forall ths sched, finished (run body ths sched) = true ->
    valid_orderb (map snd ths) (st_order (run body ths sched)) = true /\
    st_out (run body ths sched) = concat (map snd (st_order (run body ths sched))).
Proof. exact model_accepted. Qed.
Print Assumptions C09_model_accepted.

(* without the protection the model does go wrong (finite witnesses): no guard; guard declared after the
   insertion; guard whose scope has ended; per-instance mutex with two logger types; interleaved bytes *)
Theorem C09_unlocked_refuted :
  exists ths sched, st_corrupt (run (SInsert (SFlush SEnd)) ths sched) = true.
Proof. exact unlocked_refuted. Qed.
Print Assumptions C09_unlocked_refuted.

Theorem C09_lock_after_insert_refuted :
  exists ths sched, st_corrupt (run (SInsert (SLockGuard (MStatic 0) (SFlush SEnd))) ths sched) = true.
Proof. exact lock_after_insert_refuted. Qed.
Print Assumptions C09_lock_after_insert_refuted.

Theorem C09_ended_guard_refuted :
  exists ths sched, st_corrupt (run (SBlock (SLockGuard (MStatic 0) SEnd) (SInsert SEnd)) ths sched) = true.
Proof. exact ended_guard_refuted. Qed.
Print Assumptions C09_ended_guard_refuted.

Theorem C09_member_mutex_refuted :
  exists ths sched, st_corrupt (run (SLockGuard (MMember 0) (SInsert SEnd)) ths sched) = true.
Proof. exact member_mutex_refuted. Qed.
Print Assumptions C09_member_mutex_refuted.

Theorem C09_unlocked_interleaves :
  exists ths sched, finished (run (SInsert SEnd) ths sched) = true /\
    st_out (run (SInsert SEnd) ths sched) = [x61; x63; x62; x64].
Proof. exact unlocked_interleaves. Qed.
Print Assumptions C09_unlocked_interleaves.

(* non-vacuity: the hand-written reading of today's bodies satisfies every hypothesis, and a concrete
   adversarial schedule of two threads on two sink instances finishes with whole records *)
Module Examples.
Example C09_ex_stdout_hyps :
  well_locked stdout_mt_body = true /\ body_ok stdout_mt_body = true /\ solo false stdout_mt_body = true.
Proof. vm_compute. repeat split. Qed.
Example C09_ex_stderr_hyps :
  well_locked stderr_mt_body = true /\ body_ok stderr_mt_body = true /\ solo false stderr_mt_body = true.
Proof. vm_compute. repeat split. Qed.
Example C09_ex_braces_and_other_guard_types_ok :
  body_ok (SLockGuard (MStatic 0) (SBlock (SInsert (SBlock (SFlush SEnd) SEnd)) SEnd)) = true.
Proof. vm_compute. reflexivity. Qed.
Example C09_ex_run :
  let st := run stdout_mt_body two_threads (adversary stdout_mt_body) in
  finished st = true /\ st_corrupt st = false /\ st_out st = [x61; x62; x63; x64] /\
  st_order st = [(0, [x61; x62]); (1, [x63; x64])].
Proof. vm_compute. repeat split. Qed.
Example C09_ex_expand :
  expand 7 (SLockGuard (MMember 2) (SBlock (SLockGuard (MStatic 0) (SInsert SEnd)) (SFlush SEnd))) =
  [OAcquire (LInst 7 2); OAcquire (LGlobal 0); OInsert; ORelease (LGlobal 0); OFlush; ORelease (LInst 7 2)].
Proof. reflexivity. Qed.
Example C09_ex_checker_rejects_swap :
  valid_orderb [[[x61]; [x62]]] [(0, [x62]); (0, [x61])] = false.
Proof. reflexivity. Qed.
End Examples.

(* Property C13 — declarations stay unambiguous: one meaning per long name and per letter.
   Only statements here; every proof is `exact <lemma>` into Decl/DeclApiProofs.v.
   `state_after ops` is the model parser after ANY list of operations (declarations on the parser or on named
   groups, group(), setters, moves, parses) applied to a fresh parser; `declared p i` says object i = (group key,
   kind, long name) exists in p; `lookup p i` are its settings. *)
From Coq Require Import List Arith Bool.
From Coq Require Import Init.Byte.
From Coq Require Strings.String.
From Nitro Require Import Base.Bytes Decl.DeclApiModel Decl.DeclApiSpec Decl.DeclApiProofs.
Import ListNotations.
Local Open Scope list_scope.

(* a long name denotes at most one object across all groups and kinds *)
Theorem C13_names_unique : forall ops i j,
  declared (state_after ops) i -> declared (state_after ops) j -> id_name i = id_name j -> i = j.
Proof. exact names_unique_model. Qed.
Print Assumptions C13_names_unique.

(* same name, same kind, same group again: the identical object, and nothing changes (any parser state) *)
Theorem C13_redeclare_same : forall p g k n,
  declared p (gkey g, k, n) -> step p (ODecl g k n) = (p, ROk (gkey g, k, n)).
Proof. exact redeclare_same. Qed.
Print Assumptions C13_redeclare_same.

(* the name exists with another kind or in another group: developer error; no declaration is added or altered
   (the only possible change is that parser.group(g) created the still empty group g before the call failed) *)
Theorem C13_redeclare_other_rejected : forall ops g k n j,
  let p := state_after ops in
  declared p j -> id_name j = n -> j <> (gkey g, k, n) ->
  step p (ODecl g k n) = (fst (select p g), RDev) /\ forall i, lookup (fst (select p g)) i = lookup p i.
Proof. exact redeclare_other_rejected. Qed.
Print Assumptions C13_redeclare_other_rejected.

(* a name not declared anywhere is accepted, creates exactly that object with fresh settings, touches no other *)
Theorem C13_fresh_accepted : forall ops g k n,
  let p := state_after ops in
  (forall j, declared p j -> id_name j <> n) ->
  exists p', step p (ODecl g k n) = (p', ROk (gkey g, k, n)) /\ lookup p' (gkey g, k, n) = Some new_obj /\
             forall j, j <> (gkey g, k, n) -> lookup p' j = lookup p j.
Proof. exact fresh_accepted. Qed.
Print Assumptions C13_fresh_accepted.

(* short_name(s) on an existing object: accepted iff s is one character and the object has no letter yet or the
   same one; then exactly that object's letter becomes s; otherwise developer error and nothing changes *)
Theorem C13_short_name_rules : forall p g k n s ob,
  let i := (gkey g, k, n) in
  lookup p i = Some ob ->
  let ob' := mkObj s (o_env ob) (o_metavar ob) (o_default ob) (o_optional ob) in
  (length s = 1 /\ (o_short ob = [] \/ o_short ob = s) ->
     step p (OSet g k n (SShort s)) = (store p i ob', ROk i) /\ lookup (store p i ob') i = Some ob' /\
     forall j, j <> i -> lookup (store p i ob') j = lookup p j) /\
  (~ (length s = 1 /\ (o_short ob = [] \/ o_short ob = s)) -> step p (OSet g k n (SShort s)) = (p, RDevSet i)).
Proof. exact short_name_rules. Qed.
Print Assumptions C13_short_name_rules.

(* parse refuses with the developer error exactly when two different objects (any kinds, any groups) share a letter *)
Theorem C13_parse_refuses_shared_letter : forall ops,
  let p := state_after ops in
  parse_empty p = PDev <->
  exists i j o o', lookup p i = Some o /\ lookup p j = Some o' /\ i <> j /\ o_short o = o_short o' /\ o_short o <> [].
Proof. exact parse_refuses_shared_letter. Qed.
Print Assumptions C13_parse_refuses_shared_letter.

(* a token --n reaches at most one object, namely the one declared n; in a parser that parses, a token -c reaches
   at most one object, namely the one carrying the letter c *)
Theorem C13_resolution_unique : forall ops,
  let p := state_after ops in
  (forall n, length (resolve_name p n) <= 1 /\ forall i, In i (resolve_name p n) <-> declared p i /\ id_name i = n) /\
  (parse_empty p <> PDev ->
   forall c, length (resolve_letter p c) <= 1 /\
             forall i, In i (resolve_letter p c) <-> c <> [] /\ exists o, lookup p i = Some o /\ o_short o = c).
Proof. exact resolution_unique. Qed.
Print Assumptions C13_resolution_unique.

(* moving the parser object between any two operations changes no outcome and not the final state.
   (In the model a move is the identity by definition; that the C++ move operations deserve this is exercised
   by the driver under AddressSanitizer, not proved.) *)
Theorem C13_move_identity : forall a b,
  exists p o1 o2, length o1 = length a /\ run (a ++ b) = (p, o1 ++ o2) /\ run (a ++ OMove :: b) = (p, o1 ++ RMoved :: o2).
Proof. exact move_identity. Qed.
Print Assumptions C13_move_identity.

(* everything a driver can observe of the model (per-call outcomes and identities, final parse, probes per name
   and letter, usage order, settings read back) equals the flat one-list specification of DeclApiSpec.v: grouping,
   kinds of containers and declaration order cannot be observed beyond what the specification says *)
Theorem C13_model_refines_spec : forall ops names letters,
  model_observe ops names letters = spec_observe ops names letters.
Proof. exact model_refines_spec. Qed.
Print Assumptions C13_model_refines_spec.

(* references held by the caller are just names: an operation through an option&/group& obtained earlier is the
   same operation addressed by name, whatever happened in between (parses, moves, other declarations); together with
   the theorems above, which hold after ANY operation list including held-handle operations, the parse verdict
   depends on the current declarations only *)
Theorem C13_held_object_is_name : forall p gn k n x,
  declared p (gn, k, n) -> step p (OHSet (gn, k, n) x) = step p (OSet (GNamed gn) k n x).
Proof. exact held_object_is_name. Qed.
Print Assumptions C13_held_object_is_name.

Theorem C13_held_group_is_name : forall p g k n,
  gfind p g <> None ->
  step p (OHDecl g k n None) = step p (ODecl (GNamed g) k n) /\
  forall x, step p (OHDecl g k n (Some x)) = step p (OSet (GNamed g) k n x).
Proof. exact held_group_is_name. Qed.
Print Assumptions C13_held_group_is_name.

(* non-vacuity: concrete instances *)
Module Examples.
Import Strings.String.
Local Open Scope string_scope.
Definition a := B "a". Definition b := B "b". Definition g1 := B "g1". Definition x := B "x".
(* the same name as a toggle in another group is rejected, the identical re-declaration is accepted *)
Example C13_ex_redeclare :
  snd (run [ODecl GDirect KOpt a; ODecl (GNamed g1) KToggle a; ODecl (GNamed g1) KOpt a; OMove; ODecl GDirect KOpt a])
  = [ROk (default_key, KOpt, a); RDev; RDev; RMoved; ROk (default_key, KOpt, a)].
Proof. vm_compute. reflexivity. Qed.
(* one letter on an option and on a toggle of another group: every call is accepted, parse refuses *)
Example C13_ex_shared_letter :
  snd (run [OSet GDirect KOpt a (SShort x); OSet (GNamed g1) KToggle b (SShort x); OParse])
  = [ROk (default_key, KOpt, a); ROk (g1, KToggle, b); RParse PDev].
Proof. vm_compute. reflexivity. Qed.
(* changing a letter, a two-character letter *)
Example C13_ex_short_rules :
  snd (run [OSet GDirect KOpt a (SShort x); OSet GDirect KOpt a (SShort b); OSet GDirect KOpt a (SShort x);
            OSet GDirect KToggle b (SShort (B "ab"))])
  = [ROk (default_key, KOpt, a); RDevSet (default_key, KOpt, a); ROk (default_key, KOpt, a); RDevSet (default_key, KToggle, b)].
Proof. vm_compute. reflexivity. Qed.
Example C13_ex_resolve :
  let p := state_after [OSet (GNamed g1) KMulti a (SShort x); OSet GDirect KToggle b (SShort b); OSet (GNamed g1) KMulti a SDefault] in
  parse_empty p = POk /\ resolve_name p a = [(g1, KMulti, a)] /\ resolve_letter p b = [(default_key, KToggle, b)]
  /\ resolve_letter p a = [].
Proof. vm_compute. repeat split. Qed.
(* known finding K1 is about tokens, not declarations: a toggle a next to an option no-a is accepted *)
Example C13_ex_k1_accepted :
  let p := state_after [ODecl GDirect KToggle a; OSet GDirect KOpt (B "no-a") SDefault] in
  parse_empty p = POk /\ k1_name p (B "no-a") = true /\ declared p (default_key, KOpt, B "no-a").
Proof. vm_compute. repeat split. discriminate. Qed.
(* parse accepts, then a clash is introduced through held references, then parse refuses (also across a move) *)
Example C13_ex_held_clash :
  snd (run [OSet GDirect KToggle a (SShort x); OSet GDirect KToggle b SDefault; OParse; OMove;
            OHSet (default_key, KToggle, b) (SShort x); OParse])
  = [ROk (default_key, KToggle, a); ROk (default_key, KToggle, b); RParse POk; RMoved; ROk (default_key, KToggle, b); RParse PDev]
  /\ snd (run [OGroup g1; OSet GDirect KToggle a (SShort x); OParse; OHDecl g1 KToggle b (Some (SShort x)); OParse;
               OHSet (g1, KOpt, a) SDefault])
  = [RGroup g1; ROk (default_key, KToggle, a); RParse POk; ROk (g1, KToggle, b); RParse PDev; RNoHandle].
Proof. vm_compute. split; reflexivity. Qed.
End Examples.

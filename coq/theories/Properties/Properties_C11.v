(* Property C11 — a toggle counts its occurrences; reversal and env words follow fixed rules.  Only statements. *)
From Coq Require Import List Arith Bool ZArith.
From Coq Require Import Init.Byte.
From Nitro Require Import Base.Bytes Base.Res Opt.Token Opt.Decl Opt.ParserModel Opt.ParserCore Opt.ParserSpec Opt.Vocab Opt.Run
  Opt.RefineDefs Opt.Corollaries Opt.CoreEq Opt.History Opt.Positional Opt.Lexical Opt.Refine5 Opt.Sample.
Import ListNotations.

(* the count reported for a toggle (through C01/C03: the result is the value of the toggle's source) *)
Theorem C11_toggle_rank : forall e t occ neg,
  toggle_source truthy falsy e t occ neg =
  if 0 <? occ then FromCmd (Z.of_nat occ)
  else if 0 <? neg then FromCmd 0%Z
  else if nonempty (env_get e (t_env t))
       then match env_word (env_get e (t_env t)) with Some true => FromEnv 1%Z | Some false => FromEnv 0%Z | None => BadEnv end
       else FromDefault (t_def t).
Proof. exact (toggle_rank truthy falsy). Qed.
Print Assumptions C11_toggle_rank.
(* occurrences = each long spelling and each occurrence of the letter in short tokens *)
Theorem C11_occurrences_definition : forall t items,
  occurrences t items = list_sum (map (fun it => match it with
                                                 | ItBundle ts => length (filter (Nat.eqb t) ts)
                                                 | ItLong u => if u =? t then 1 else 0
                                                 | _ => 0 end) items).
Proof. reflexivity. Qed.
Print Assumptions C11_occurrences_definition.
(* --no-<name> only for toggles declared reversible *)
Theorem C11_reversal_needs_permission : forall d items tail t, wf_items d items tail = true -> In (ItNo t) items ->
  exists td, nth_error (d_toggles d) t = Some td /\ t_rev td = true.
Proof. exact wf_items_reversal_needs_permission. Qed.
Print Assumptions C11_reversal_needs_permission.
(* both polarities, in either order and at any distance, are rejected *)
Theorem C11_both_polarities_rejected : forall d items tail j, wf_items d items tail = true -> j < length (d_toggles d) ->
  ~ (0 < occurrences j items /\ 0 < negations j items).
Proof. exact wf_items_polarity. Qed.
Print Assumptions C11_both_polarities_rejected.
(* the environment vocabulary is closed: a word is accepted iff it is one of the 15 truthy / 15 falsy documented words *)
Theorem C11_env_word_closed : forall w b, env_word w = Some b <-> In w (if b then truthy else falsy).
Proof. exact (fun w b => env_word_closed truthy falsy w b vocab_disjoint). Qed.
Print Assumptions C11_env_word_closed.
(* every other word is a user-input error, not guessed *)
Theorem C11_bad_env_word_iff : forall e t occ neg,
  src_bad (toggle_source truthy falsy e t occ neg) = true <->
  occ = 0 /\ neg = 0 /\ nonempty (env_get e (t_env t)) = true /\ env_word (env_get e (t_env t)) = None.
Proof. exact (toggle_badenv_iff truthy falsy). Qed.
Print Assumptions C11_bad_env_word_iff.
(* transfer to the parser *)
Theorem C11_parse_is_spec : forall d e st args,
  wf_decl d = true -> no_clash d = true -> aligned d st -> snd (parse d e st args) = spec d e args.
Proof. exact (parse_refines truthy falsy). Qed.
Print Assumptions C11_parse_is_spec.

Module Examples.
Import Strings.String.
Local Open Scope string_scope.
Example C11_ex_counts : exists r, snd (parse sample_decl sample_env (init_st sample_decl) [B "--out=1"; B "-vav"; B "--verbose"; B "-a"]) = Ok r
   /\ map snd (r_toggles r) = [2%Z; 3%Z].
Proof. eexists. vm_compute. split; reflexivity. Qed.
Example C11_ex_env_yes : exists r, snd (parse sample_decl sample_env (init_st sample_decl) [B "--out=1"]) = Ok r /\ map snd (r_toggles r) = [1%Z; 0%Z].
Proof. eexists. vm_compute. split; reflexivity. Qed.
Example C11_ex_polarity : snd (parse sample_decl sample_env (init_st sample_decl) [B "--out=1"; B "--no-all"; B "-v"; B "-a"]) = Err UserError
  /\ snd (parse sample_decl sample_env (init_st sample_decl) [B "--out=1"; B "--no-verbose"]) = Err UserError.
Proof. vm_compute. split; reflexivity. Qed.
End Examples.

(* Property C11 — statements follow. *)
From Nitro Require Import Opt.Run.

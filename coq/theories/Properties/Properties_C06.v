(* Property C06 — fixed_vector stays inside its storage and never exposes unfilled slots.
   Only statements here; every proof is `exact <lemma>` into Vec/VecTheorems.v.
   Vocabulary (Vec/FixedVecModel.v, Vec/VecBase.v, Vec/VecPool.v):
     fv = {cap; size; slots}, slot = Filled v | Fresh | Moved;  abs st = firstn (size st) (slots st);
     Inv st  = size <= cap /\ length slots = cap /\ every slot of abs st is Filled (a caller-given element);
     WInv st = the same with "is not Fresh" (a moved-from element may be visible);
     pstep p o P = one operation o of the public API on a pool P of objects under fault plan p
                   (Some k: the k-th element assignment of the operation throws);  prun = a whole history;
     outcome OutOfStorage = the code touched memory outside data_;  quiet = no throw inside positional emplace / erase.
   NOT proved here, only exercised by the C++ driver (instance-counting element type, ASan + LSan):
   "element objects are neither leaked nor destroyed twice". *)
From Coq Require Import List Arith Bool.
From Nitro Require Import Base.ListX Vec.FixedVecModel Vec.VecBase Vec.BoundedListSpec Vec.VecInv Vec.VecPool Vec.VecTheorems.
Import ListNotations.
Local Open Scope list_scope.

(* EVERY operation, with every argument and every fault plan, keeps the (weak) invariant of every object of the pool
   and never leaves the storage *)
Theorem C06_every_operation_keeps_WInv : forall p o P P' r, PAll WInv P -> pstep p o P = (P', r) ->
  PAll WInv P' /\ r <> OutOfStorage /\ length P' = length P.
Proof. exact step_keeps_WInv. Qed.
Print Assumptions C06_every_operation_keeps_WInv.

(* ... and the strong invariant (only caller-given elements are visible), unless an element assignment threw in the
   middle of a positional emplace or an erase *)
Theorem C06_every_operation_keeps_Inv : forall p o P P' r, PAll Inv P -> pstep p o P = (P', r) ->
  (positional o = true -> r <> Faulted) -> PAll Inv P'.
Proof. exact step_keeps_Inv. Qed.
Print Assumptions C06_every_operation_keeps_Inv.

(* hence for every finite history from nothing (n object slots, any operations, any arguments, any fault plans) *)
Theorem C06_inv_every_history : forall n ops, quiet ops (snd (prun ops (empty_pool n))) -> PAll Inv (fst (prun ops (empty_pool n))).
Proof. exact history_Inv. Qed.
Print Assumptions C06_inv_every_history.

Theorem C06_inv_every_history_without_throwing_elements : forall n ops, PAll Inv (fst (prun (plain ops) (empty_pool n))).
Proof. exact history_Inv_no_faults. Qed.
Print Assumptions C06_inv_every_history_without_throwing_elements.

Theorem C06_winv_every_history_every_fault : forall n ops, PAll WInv (fst (prun ops (empty_pool n))).
Proof. exact history_WInv. Qed.
Print Assumptions C06_winv_every_history_every_fault.

Theorem C06_never_out_of_storage : forall n ops, ~ In OutOfStorage (snd (prun ops (empty_pool n))).
Proof. exact history_never_out_of_storage. Qed.
Print Assumptions C06_never_out_of_storage.

(* the observers: iteration, reverse iteration, at(), operator[] below size, front/back of a non-empty container *)
Theorem C06_reads_inside_storage : forall st, WInv st ->
  iterate st = Some (abs st) /\ riterate st = Some (rev (abs st)) /\
  (forall k, at_ st k <> AOut) /\
  (forall k, k < size st -> exists s, index st k = Val s /\ at_ st k = Val s /\ nth_error (abs st) k = Some s) /\
  (0 < size st -> front st <> AOut /\ back st <> AOut).
Proof. exact reads_inside_storage. Qed.
Print Assumptions C06_reads_inside_storage.

(* capacity: an operation changes the capacity of no object except the one it creates / assigns as a whole / destroys *)
Theorem C06_capacity_fixed : forall p o P P' r, PAll WInv P -> pstep p o P = (P', r) ->
  forall k st st', target o <> Some k -> pget P k = Some st -> pget P' k = Some st' -> cap st' = cap st.
Proof. exact capacity_fixed. Qed.
Print Assumptions C06_capacity_fixed.

(* NOTE the last clause: assignment from an initializer list sets the capacity to the LENGTH OF THE LIST *)
Theorem C06_capacity_of_whole_container_ops :
  (forall c, cap (make c) = c) /\
  (forall p c xs st o, make_from p c xs = (st, o) -> cap st = c) /\
  (forall p src st o, WInv src -> copy_ctor p src = (st, o) -> cap st = cap src) /\
  (forall src, cap (fst (move_ctor src)) = cap src /\ cap (snd (move_ctor src)) = cap src) /\
  (forall p dst src st o, WInv dst -> WInv src -> copy_assign p dst src = (st, o) -> o = Done -> cap st = cap src) /\
  (forall p dst xs st o, list_assign p dst (map Filled xs) = (st, o) -> o = Done -> cap st = length xs).
Proof. exact capacity_of_whole_container_ops. Qed.
Print Assumptions C06_capacity_of_whole_container_ops.

(* append when full, emplace when full or beyond size, pop when empty, erase / at / std::get at an index not below
   size, range insert beyond size, range that does not fit: all raise *)
Theorem C06_unsatisfiable_operations_raise :
  (forall p v st, cap st <= size st -> append p v st = (st, Raised)) /\
  (forall p key v st, cap st <= size st -> emplace p key v st = (st, Raised)) /\
  (forall p key v st, size st < key -> emplace p key v st = (st, Raised)) /\
  (forall st, size st = 0 -> pop_back st = (st, Raised)) /\
  (forall p key st, size st <= key -> erase p key st = (st, Raised)) /\
  (forall st k, size st <= k -> at_ st k = ARaised /\ get_I st k = ARaised) /\
  (forall p key xs st, size st < key -> insert_range p key xs st = (st, Raised)) /\
  (forall key xs st, Inv st -> key <= size st -> cap st - key < length xs -> snd (insert_range None key xs st) = Raised) /\
  (forall c xs, c < length xs -> snd (make_from None c xs) = Raised).
Proof. exact refused_operations_raise. Qed.
Print Assumptions C06_unsatisfiable_operations_raise.

(* erase / emplace / range insert at a position BEFORE begin() (index -1, -2, ...; also end()-d on a vector with fewer
   than d elements): the index is outside [0,size) resp. [0,size], the operation raises and changes nothing.  In the model
   these are the operations OEraseBefore / OEmplaceBefore / OInsertRangeBefore of `op`, covered by every theorem above *)
Theorem C06_positions_before_begin_raise : forall st,
  erase_before st = (st, Raised) /\ emplace_before st = (st, Raised) /\ insert_range_before st = (st, Raised).
Proof. exact positions_before_begin_raise. Qed.
Print Assumptions C06_positions_before_begin_raise.

(* the public constructor fixed_vector(capacity, range) with a range longer than the capacity raises and no object
   exists afterwards (the same holds with another fixed_vector as the range: operation OConstructFrom) *)
Theorem C06_constructor_that_does_not_fit_leaves_no_object : forall P i c xs, i < length P -> c < length xs ->
  pstep None (ONewFrom i c xs) P = (pset P i None, Raised).
Proof. exact constructor_that_does_not_fit. Qed.
Print Assumptions C06_constructor_that_does_not_fit_leaves_no_object.

Theorem C06_failed_single_op_unchanged : forall st, WInv st ->
  (forall p v st', nonfresh v -> append p v st = (st', Raised) -> st' = st) /\
  (forall p key v st', nonfresh v -> emplace p key v st = (st', Raised) -> st' = st) /\
  (forall st', pop_back st = (st', Raised) -> st' = st) /\
  (forall p key st', erase p key st = (st', Raised) -> st' = st).
Proof. exact failed_single_op_unchanged. Qed.
Print Assumptions C06_failed_single_op_unchanged.

(* an element assignment throws at any position *)
Theorem C06_throw_leaves_valid_container : forall st, WInv st ->
  (forall p v st', nonfresh v -> append p v st = (st', Faulted) -> st' = st) /\
  (forall p src st', WInv src -> copy_assign p st src = (st', Faulted) -> st' = st) /\
  (forall p xs st', list_assign p st (map Filled xs) = (st', Faulted) -> st' = st) /\
  (forall p key v st', nonfresh v -> emplace p key v st = (st', Faulted) -> WInv st' /\ size st' = size st /\ cap st' = cap st) /\
  (forall p key st', erase p key st = (st', Faulted) -> WInv st' /\ size st' = size st /\ cap st' = cap st) /\
  (forall p key xs st', Forall nonfresh xs -> insert_range p key xs st = (st', Faulted) -> WInv st' /\ size st <= size st' /\ cap st' = cap st).
Proof. exact throw_leaves_valid_container. Qed.
Print Assumptions C06_throw_leaves_valid_container.

(* the element constructor invoked with the arguments of emplace_back / emplace throws (operations OEmplaceBackCtorThrows,
   OEmplaceCtorThrows of `op`, covered by all theorems above): the container is exactly as before.  That every element
   object is still alive and destroyed exactly once afterwards is exercised by the driver only (live set + trap) *)
Theorem C06_constructor_throw_leaves_container_unchanged : forall st key,
  fst (emplace_back_ctor_throws st) = st /\ fst (emplace_ctor_throws key st) = st /\
  (size st < cap st -> snd (emplace_back_ctor_throws st) = Faulted) /\
  (size st < cap st -> key <= size st -> snd (emplace_ctor_throws key st) = Faulted).
Proof. exact ctor_throw_unchanged. Qed.
Print Assumptions C06_constructor_throw_leaves_container_unchanged.

(* "Inv after a throw at ANY position" is false of the faithful model when element moves really move:
   a throw after the first move of the shifting loop leaves a moved-from element inside the live range *)
Theorem C06_inv_after_throw_refuted :
  (exists st p key v st', Inv st /\ emplace p key (Filled v) st = (st', Faulted) /\ ~ Inv st') /\
  (exists st p key st', Inv st /\ erase p key st = (st', Faulted) /\ ~ Inv st').
Proof. exact throw_in_positional_op_exposes_moved_from. Qed.
Print Assumptions C06_inv_after_throw_refuted.

(* non-vacuity: concrete instances *)
Module Examples.
Definition h1 : list (op * plan) :=
  [(ONew 0 2, None); (OEmplaceBack 0 1, None); (OEmplace 0 0 2, None); (OPushBack 0 3, None);
   (OCopy 1 0, None); (OErase 1 0, None); (OMove 2 1, None); (OAt 2 1, None); (OPop 0, None); (OPop 0, None); (OPop 0, None)].
Example C06_ex_history :
  prun h1 (empty_pool 3) =
  ([Some (mkfv 2 0 [Filled 2; Filled 1]); Some (mkfv 2 0 [Fresh; Fresh]); Some (mkfv 2 1 [Filled 1; Moved])],
   [Done; Done; Done; Raised; Done; Done; Done; Raised; Done; Done; Raised]).
Proof. reflexivity. Qed.
Example C06_ex_quiet : quiet h1 (snd (prun h1 (empty_pool 3))).
Proof. simpl. repeat split; discriminate. Qed.
Example C06_ex_fault_history :
  prun [(ONewFrom 0 3 [1; 2], None); (OEmplace 0 0 9, Some 1); (OAt 0 1, None)] (empty_pool 1) =
  ([Some (mkfv 3 2 [Filled 1; Moved; Filled 2])], [Done; Faulted; Done]).
Proof. reflexivity. Qed.
Example C06_ex_range_partial : insert_range None 1 [Filled 7; Filled 8; Filled 9] (mkfv 3 2 [Filled 1; Filled 2; Fresh]) =
  (mkfv 3 3 [Filled 1; Filled 7; Filled 8], Raised).
Proof. reflexivity. Qed.
End Examples.

(* Property C05 — a log statement reaches the sink exactly once iff it is enabled, unaltered.
   Only statements here; every proof is `exact <lemma>` into Log/LogProofs.v.
   Vocabulary: Log/LogModel.v (the stream objects of stream.hpp as code: exec_one, exec_prog, filt, …) and
   Log/LogSpec.v (enabled, spec_stmt, spec_seq, arrivals, message, tag_text, …). *)
From Coq Require Import List Arith Bool ZArith NArith.
From Coq Require Import Init.Byte.
From Coq Require Strings.String.
From Nitro Require Import Base.Bytes Log.LogModel Log.LogSpec Log.LogProofs.
Import ListNotations.
Local Open Scope list_scope.

(* the one-expression statement  L::sv(tag) << its…;  — for ALL minima, thresholds, filter expressions, severities,
   tags, item lists and sink counts: the trace is [calls in streaming order; one Format; one Sink per member in
   declaration order] carrying {sv; tag; concatenation of the items} iff enabled, and [] otherwise *)
Theorem C05_one_expression : forall cfg th lg sv tag its,
  exec_one cfg th lg sv tag its = spec_stmt cfg th lg sv tag its.
Proof. exact exec_one_spec. Qed.
Print Assumptions C05_one_expression.

(* the named stream object  auto v = L::sv(tag); v << i1; …; v << ik; }  in any world where v is free *)
Theorem C05_named_object : forall cfg w v lg sv tag its,
  w_slots w v = None ->
  exists w', exec_prog cfg w (named_ops v lg sv tag its) = (w', spec_stmt cfg (w_th w) lg sv tag its)
             /\ w_slots w' v = None /\ w_th w' = w_th w.
Proof. exact named_spec. Qed.
Print Assumptions C05_named_object.

(* it makes no difference which of the two forms is used *)
Theorem C05_forms_agree : forall cfg w v c lg sv tag its,
  w_slots w v = None ->
  snd (exec_prog cfg w (named_ops v lg sv tag its)) = snd (exec_prog cfg w [OOne c lg sv tag its]).
Proof. exact forms_agree. Qed.
Print Assumptions C05_forms_agree.

(* a statement is a statement: executed in straight-line code, inside a destructor that runs during stack unwinding, inside
   a catch handler or inside a destructor on normal scope exit, as one expression or as a named local — the same trace *)
Theorem C05_context_irrelevant : forall cfg w c c' lg sv tag its,
  exec_op cfg w (OOne c lg sv tag its) = exec_op cfg w (OOne c' lg sv tag its)
  /\ exec_op cfg w (ONamed c lg sv tag its) = exec_op cfg w (ONamed c' lg sv tag its)
  /\ exec_op cfg w (ONamed c lg sv tag its) = exec_op cfg w (OOne c' lg sv tag its)
  /\ snd (exec_op cfg w (OOne c lg sv tag its)) = spec_stmt cfg (w_th w) lg sv tag its.
Proof. exact context_irrelevant. Qed.
Print Assumptions C05_context_irrelevant.

(* a named stream object moved into another variable half-way (auto t = std::move(s);) is still the same statement *)
Theorem C05_named_stream_moved : forall cfg th lg sv tag pre post,
  exec_named_moved cfg th lg sv tag pre post = spec_stmt cfg th lg sv tag (pre ++ post).
Proof. exact named_moved_same. Qed.
Print Assumptions C05_named_stream_moved.

(* the declaration form of a named stream does not matter: `auto s = L::sv(tag) << pre…;` and `auto&& s = L::sv(tag) << pre…;`
   followed by `s << post…;` deliver once, at the end of the scope, with all items *)
Theorem C05_named_stream_from_chain : forall cfg th lg sv tag pre post,
  exec_named_from_chain cfg th lg sv tag pre post = spec_stmt cfg th lg sv tag (pre ++ post).
Proof. exact named_from_chain_same. Qed.
Print Assumptions C05_named_stream_from_chain.

(* the message is the concatenation, in order, of everything streamed — as long as no item makes the statement's
   std::stringstream fail (a null const char*, a null streambuf*, a user operator<< setting failbit); after such an item the
   standard stream writes nothing more (modelled as the code behaves; not part of the property's claim) *)
Theorem C05_message_is_concatenation : forall its,
  (forall it, In it its -> is_fail it = false) -> message its = concat (map item_text its).
Proof. exact message_plain. Qed.
Print Assumptions C05_message_is_concatenation.

Theorem C05_message_until_stream_failure : forall pre k post,
  (forall it, In it pre -> is_fail it = false) -> message (pre ++ IFail k :: post) = concat (map item_text pre).
Proof. exact message_until_fail. Qed.
Print Assumptions C05_message_until_stream_failure.

(* a streamed object (also one of a derived class passed through a base reference, a non-copyable one, one whose copies
   would look different) contributes exactly what its own operator<< writes *)
Theorem C05_object_item_as_string : forall k s x, ss_put x (IObj k s) = ss_put x (IStr s).
Proof. exact object_item_as_string. Qed.
Print Assumptions C05_object_item_as_string.

(* exactly once iff enabled: member i of the sequence gets the record once iff (sv >= minimum and the filter accepts) *)
Theorem C05_sink_exactly_once_iff_enabled : forall cfg th lg sv tag its i,
  count (is_sink_of i) (exec_one cfg th lg sv tag its)
  = if enabled (c_min cfg) th lg sv tag && (i <? lg_sinks lg) then 1 else 0.
Proof. exact one_sink_exactly_once. Qed.
Print Assumptions C05_sink_exactly_once_iff_enabled.

Theorem C05_format_exactly_once_iff_enabled : forall cfg th lg sv tag its,
  count is_format (exec_one cfg th lg sv tag its) = if enabled (c_min cfg) th lg sv tag then 1 else 0.
Proof. exact one_format_exactly_once. Qed.
Print Assumptions C05_format_exactly_once_iff_enabled.

(* a sequence sink forwards once to each member, in declaration order *)
Theorem C05_sequence_in_declaration_order : forall cfg th lg sv tag its,
  sink_members (exec_one cfg th lg sv tag its) = if enabled (c_min cfg) th lg sv tag then seq 0 (lg_sinks lg) else [].
Proof. exact one_sink_order. Qed.
Print Assumptions C05_sequence_in_declaration_order.

(* nesting flattens: sequence<A, sequence<B, C>>, sequence<sequence<A, B>, C> and sequence<A, B, C> hand the same text to
   the same leaves in the same order, whatever way a leaf takes its argument (lg_sinks lg above is the number of leaves) *)
Theorem C05_nested_sequence_flattens : forall s text t n,
  sink_tree t s text n = sink_tree (seq_flatten t) s text n.
Proof. exact nested_sequence_flattens. Qed.
Print Assumptions C05_nested_sequence_flattens.

Theorem C05_sequence_same_text_to_every_leaf : forall s text t n,
  sink_tree t s text n = (map (fun i => Sink i s text) (seq n (nleaves t)), n + nleaves t).
Proof. exact sink_tree_flat. Qed.
Print Assumptions C05_sequence_same_text_to_every_leaf.

(* what is delivered: severity and tag of the statement, message = concatenation in order of everything streamed;
   no null dereference *)
Theorem C05_delivered_unaltered : forall cfg th lg sv tag its e,
  In e (exec_one cfg th lg sv tag its) ->
  match e with
  | Call id => In id (calls_of its)
  | Format r => r = mkRecord sv (rec_tag lg tag) (message its)
  | Sink i s t => i < lg_sinks lg /\ s = sv /\ t = c_fmt cfg (mkRecord sv (rec_tag lg tag) (message its))
  | Fault => False
  end.
Proof. exact one_delivered_content. Qed.
Print Assumptions C05_delivered_unaltered.

(* the tag is carried as given (string_ref is a C string: a tag without NUL bytes is carried whole) when the logger's record
   type has a tag attribute *)
Theorem C05_tag_carried : forall lg t, lg_tagged lg = true -> ~ In x00 t -> rec_tag lg (Some t) = t.
Proof. exact tag_text_plain. Qed.
Print Assumptions C05_tag_carried.

(* runtime thresholds belong to ONE logger configuration: severity_filter<Record,k> is keyed by the record type and k.
   Setting the threshold of record type rc changes no statement, no stream and no enabledness of a logger over another
   record type, and no other getter *)
Theorem C05_thresholds_independent : forall cfg th rc k s lg sv tag its,
  lg_rec lg <> rc ->
  exec_one cfg (set_threshold th rc k s) lg sv tag its = exec_one cfg th lg sv tag its.
Proof. exact thresholds_independent_one. Qed.
Print Assumptions C05_thresholds_independent.

Theorem C05_thresholds_independent_named : forall cfg th rc k s lg sv tag,
  lg_rec lg <> rc ->
  make_stream cfg (set_threshold th rc k s) lg sv tag = make_stream cfg th lg sv tag.
Proof. exact thresholds_independent_named. Qed.
Print Assumptions C05_thresholds_independent_named.

Theorem C05_min_severity_after_set : forall th rc k s rc' k',
  min_severity (set_threshold th rc k s) rc' k' = if (rc' =? rc) && (k' =? k) then s else min_severity th rc' k'.
Proof. exact min_severity_after_set. Qed.
Print Assumptions C05_min_severity_after_set.

(* every program over named streams, one-expression statements and threshold changes: the stream objects
   (ownership, moves, null streams) behave as the logical streams of LogSpec.spec_op *)
Theorem C05_program_refines_spec : forall cfg ops, run cfg ops = spec_run cfg ops.
Proof. exact run_refines_spec. Qed.
Print Assumptions C05_program_refines_spec.

(* no program dereferences a null buffer (~smart_stream reads s->str() only when it owns a record, and then it owns a buffer) *)
Theorem C05_no_null_dereference : forall cfg ops, ~ In Fault (run cfg ops).
Proof. exact run_no_fault. Qed.
Print Assumptions C05_no_null_dereference.

(* traces compose in program order *)
Theorem C05_program_order : forall cfg ops1 w ops2,
  exec_prog cfg w (ops1 ++ ops2)
  = let '(w1, e1) := exec_prog cfg w ops1 in
    let '(w2, e2) := exec_prog cfg w1 ops2 in (w2, e1 ++ e2).
Proof. exact exec_prog_app. Qed.
Print Assumptions C05_program_order.

(* a sequence of statements in either form, with threshold changes in between: the trace is the concatenation of the
   statements' traces, each under the thresholds then in force *)
Theorem C05_statement_sequence : forall cfg l, run cfg (flat_map sitem_ops l) = spec_seq cfg init_thresholds l.
Proof. exact run_seq_spec. Qed.
Print Assumptions C05_statement_sequence.

(* records of one thread arrive in program order: the formatter sees, and each sink member receives, exactly the
   records of the enabled statements, in the order of the statements *)
Theorem C05_arrivals_in_program_order : forall cfg l,
  formatted (run cfg (flat_map sitem_ops l)) = map snd (arrivals (c_min cfg) init_thresholds l)
  /\ forall i, received i (run cfg (flat_map sitem_ops l))
               = map (fun p => (r_sev (snd p), c_fmt cfg (snd p)))
                     (filter (fun p => i <? lg_sinks (fst p)) (arrivals (c_min cfg) init_thresholds l)).
Proof. exact run_arrivals. Qed.
Print Assumptions C05_arrivals_in_program_order.

(* the filter combinators are the boolean connectives over "threshold k <= severity" *)
Theorem C05_filter_is_formula : forall th f r, filt th f r = holds th f (r_sev r) (r_tag r).
Proof. exact filt_holds. Qed.
Print Assumptions C05_filter_is_formula.

Theorem C05_filter_algebra : forall th r,
  filt th FNull r = true
  /\ (forall k, filt th (FThr k) r = (rank (th k) <=? rank (r_sev r)))
  /\ (forall a b, filt th (FAnd a b) r = filt th a r && filt th b r)
  /\ (forall a b, filt th (FOr a b) r = filt th a r || filt th b r)
  /\ (forall a, filt th (FNot a) r = negb (filt th a r))
  /\ (forall a, filt th (FNot (FNot a)) r = filt th a r).
Proof. exact filter_algebra. Qed.
Print Assumptions C05_filter_algebra.

(* the runtime gate is evaluated once, at construction: threshold changes while a named stream is being filled
   do not matter *)
Theorem C05_filter_consulted_at_construction : forall cfg w v lg sv tag mid,
  w_slots w v = None -> forallb (mid_ok v) mid = true ->
  exists w', exec_prog cfg w (OOpen v lg sv tag :: mid ++ [OClose v])
             = (w', spec_stmt cfg (w_th w) lg sv tag (items_of mid))
             /\ w_slots w' v = None.
Proof. exact named_with_mid. Qed.
Print Assumptions C05_filter_consulted_at_construction.

(* the modelled decimal rendering of numbers denotes the number (the fuel of dec_digits is never exhausted) *)
Theorem C05_number_text_denotes : forall n, dec_value (dec_of_N n) = n.
Proof. exact dec_of_N_value. Qed.
Print Assumptions C05_number_text_denotes.

(* the filter expression decides about the record that is delivered: enabled = the gate is open and the filter code accepts
   the record carrying the statement's severity AND ITS TAG (a user-written filter may read the tag) *)
Theorem C05_enabled_iff_filter_accepts_delivered_record : forall min th lg sv tag its,
  enabled min th lg sv tag = gate_open min sv && filt (th (lg_rec lg)) (lg_filter lg) (delivered lg sv tag its).
Proof. exact enabled_iff_filter_accepts_delivered. Qed.
Print Assumptions C05_enabled_iff_filter_accepts_delivered_record.

(* a tower of n not_filters over ANY filter (threshold, null, tag filter, compound) negates iff n is odd *)
Theorem C05_not_tower : forall th f r n,
  filt th (Nat.iter n FNot f) r = if Nat.even n then filt th f r else negb (filt th f r).
Proof. exact filt_not_tower. Qed.
Print Assumptions C05_not_tower.

(* non-vacuity: concrete instances *)
Module Examples.
Import Strings.String.
Local Open Scope string_scope.
Definition cfg_info := mkConfig Info harness_fmt.
Definition th_dw : thresholds := set_threshold (set_threshold init_thresholds 0 0 Debug) 0 1 Error.
(* band filter  T0 <= sev < T1  with a two-member sequence *)
Definition lg_band := mkLogger 0 true (FAnd (FThr 0) (FNot (FThr 1))) (SSeq [SLeaf MByValue; SLeaf MConstRef]).
(* the same filter type over another record type, one without a tag attribute *)
Definition lg_band_b := mkLogger 1 false (FAnd (FThr 0) (FNot (FThr 1))) (flat_sinks 2).
Example C05_ex_enabled :
  exec_one cfg_info th_dw lg_band Warn (Some (B "tg")) [IStr (B "a"); INum 42; ICall KLambda 7 (B "x")]
  = [Call 7; Format (mkRecord Warn (B "tg") (B "a42x")); Sink 0 Warn (B "3|tg|a42x"); Sink 1 Warn (B "3|tg|a42x")].
Proof. reflexivity. Qed.
Example C05_ex_filtered :
  exec_one cfg_info th_dw lg_band Error None [ICall KStdFunL 7 (B "x")] = [].
Proof. reflexivity. Qed.
Example C05_ex_below_minimum :
  exec_one cfg_info th_dw lg_band Debug None [ICall KFunPtr 7 (B "x")] = [].
Proof. reflexivity. Qed.
Example C05_ex_named_interleaved :
  run cfg_info [OSet 0 1 Fatal; OOpen 0 lg_band Warn None; OPut 0 (ICall KFunctor 1 (B "p")); OSet 0 0 Fatal;
                OOne CUnwinding lg_band Error None [IStr (B "q")]; OPut 0 (INum (-5)); OClose 0]
  = [Call 1; Format (mkRecord Warn (B "") (B "p-5")); Sink 0 Warn (B "3||p-5"); Sink 1 Warn (B "3||p-5")].
Proof. reflexivity. Qed.
Example C05_ex_other_record_type :
  run cfg_info [OSet 1 0 Warn; OSet 1 1 Fatal; OSet 0 0 Fatal; ONamed CUnwinding lg_band_b Error (Some (B "tg")) [IStr (B "q")]; OOne CCatch lg_band Error None [IStr (B "r")]]
  = [Format (mkRecord Error (B "") (B "q")); Sink 0 Error (B "4||q"); Sink 1 Error (B "4||q")].
Proof. reflexivity. Qed.
Example C05_ex_nested :
  exec_one cfg_info init_thresholds (mkLogger 0 true FNull (SSeq [SSeq [SLeaf MByValue; SLeaf MConstRef]; SLeaf MRvalue])) Warn None [IStr (B "n")]
  = [Format (mkRecord Warn (B "") (B "n")); Sink 0 Warn (B "3||n"); Sink 1 Warn (B "3||n"); Sink 2 Warn (B "3||n")].
Proof. reflexivity. Qed.
Example C05_ex_enabled_hyp : enabled Info th_dw lg_band Warn None = true.
Proof. reflexivity. Qed.
(* a filter that mutes the tag "noisy": the tagged statement is dropped, the untagged one and another tag pass;
   asked about the record WITHOUT its tag the filter would have accepted *)
Definition lg_mute := mkLogger 0 true (FAnd (FThr 0) (FTag false (B "noisy"))) (flat_sinks 1).
Example C05_ex_tag_muted :
  exec_one cfg_info init_thresholds lg_mute Error (Some (B "noisy")) [ICall KLambda 1 (B "x")] = []
  /\ exec_one cfg_info init_thresholds lg_mute Error (Some (B "calm")) [ICall KLambda 1 (B "x")]
     = [Call 1; Format (mkRecord Error (B "calm") (B "x")); Sink 0 Error (B "4|calm|x")]
  /\ filt (init_thresholds 0) (lg_filter lg_mute) (mkRecord Error (B "") (B "")) = true
  /\ filt (init_thresholds 0) (lg_filter lg_mute) (mkRecord Error (B "noisy") (B "")) = false.
Proof. repeat split; reflexivity. Qed.
Example C05_ex_not_tower :
  map (fun n => filt (init_thresholds 0) (Nat.iter n FNot (FTag true (B "tg"))) (mkRecord Warn (B "tg") (B ""))) [0; 1; 2; 3]
  = [true; false; true; false].
Proof. reflexivity. Qed.
End Examples.

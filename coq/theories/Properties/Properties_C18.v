(* Property C18 — owning wrappers destroy exactly once and copy deeply.
   Only statements here; every proof is `exact <lemma>` into Own/QuaintProofs.v and Own/OptionalProofs.v.
   quaint_ptr part: q_init n = a pool of n pointer variables (none constructed yet) and an empty std::vector<quaint_ptr>;
   q_run st ops = the state after ANY list of operations (create / default-construct / move-construct / move-assign / reset /
   assign nullptr (also to a vector element) / std::swap / destroy / push into the vector / reallocate / pop_back / clear /
   move out of the vector), inapplicable ones being no-ops.
   optional part: o_init n = n empty optionals; o_run = any list of value/copy/empty assignments, constructions, reads. *)
From Coq Require Import List Arith Bool.
From Coq Require Import Init.Byte.
From Coq Require Strings.String.
From Nitro Require Import Base.Bytes Own.Count Own.Quaint Own.QuaintProofs Own.Optional Own.OptionalProofs.
Import ListNotations.
Local Open Scope list_scope.

(* ---------------- quaint_ptr ---------------- *)

(* no object is ever destroyed twice *)
Theorem C18_destroyed_at_most_once : forall n ops o,
  In o (heap (q_run (q_init n) ops)) -> length (destroyed_by o) <= 1.
Proof. exact destroyed_at_most_once. Qed.
Print Assumptions C18_destroyed_at_most_once.

(* and only by the destructor of the type it was created with *)
Theorem C18_right_destructor : forall n ops o t,
  In o (heap (q_run (q_init n) ops)) -> In t (destroyed_by o) -> t = otype o.
Proof. exact right_destructor. Qed.
Print Assumptions C18_right_destructor.

(* an object is dead exactly when its (one, rightly typed) destruction has happened *)
Theorem C18_dead_iff_destroyed : forall n ops o,
  In o (heap (q_run (q_init n) ops)) ->
  (alive o = false <-> destroyed_by o = [otype o]) /\ (alive o = true <-> destroyed_by o = []).
Proof. exact dead_iff_destroyed. Qed.
Print Assumptions C18_dead_iff_destroyed.

(* live iff owned by exactly one pointer (pool variable or vector element), dead iff owned by none:
   destruction happens exactly when the last (only) owner lets go — at reset, when overwritten by move assignment,
   when the owner is destroyed, when the vector is cleared *)
Theorem C18_live_iff_owned : forall n ops id o,
  let st := q_run (q_init n) ops in
  nth_error (heap st) id = Some o -> cnt pid id (ptrs st) = (if alive o then 1 else 0).
Proof. exact live_iff_owned. Qed.
Print Assumptions C18_live_iff_owned.

Theorem C18_no_shared_owner : forall n ops k1 k2 id t1 t2,
  let st := q_run (q_init n) ops in
  k1 <> k2 -> nth_error (ptrs st) k1 = Some (Some (id, t1)) -> nth_error (ptrs st) k2 = Some (Some (id, t2)) -> False.
Proof. exact no_shared_owner. Qed.
Print Assumptions C18_no_shared_owner.

(* every non-empty pointer refers to a live object whose creation type is the type its deleter will cast to *)
Theorem C18_owner_points_to_live_of_its_type : forall n ops k id t,
  let st := q_run (q_init n) ops in
  nth_error (ptrs st) k = Some (Some (id, t)) ->
  exists o, nth_error (heap st) id = Some o /\ alive o = true /\ otype o = t.
Proof. exact owner_points_to_live_of_its_type. Qed.
Print Assumptions C18_owner_points_to_live_of_its_type.

(* a moved-from pointer (move construction, move assignment, push_back(std::move)) and a reset pointer are empty *)
Theorem C18_moved_from_and_reset_empty : forall st o j,
  q_applicable st o = true -> must_be_empty o = Some j -> slot_is_null (q_step st o) j = true.
Proof. exact moved_from_and_reset_empty. Qed.
Print Assumptions C18_moved_from_and_reset_empty.

(* a vector element that was moved out of, or assigned nullptr, is empty afterwards *)
Theorem C18_vec_element_emptied : forall st o k,
  q_applicable st o = true -> vec_must_be_null o = Some k -> vec_is_null (q_step st o) k = true.
Proof. exact vec_element_emptied. Qed.
Print Assumptions C18_vec_element_emptied.

(* std::swap exchanges what two pointers own and destroys nothing *)
Theorem C18_swap_exchanges : forall st i j pi pj,
  is_live (nth_error (pool st) i) = Some pi -> is_live (nth_error (pool st) j) = Some pj ->
  heap (q_step st (Swap i j)) = heap st /\
  (i <> j -> nth_error (pool (q_step st (Swap i j))) i = Some (Live pj) /\ nth_error (pool (q_step st (Swap i j))) j = Some (Live pi)).
Proof. exact swap_exchanges. Qed.
Print Assumptions C18_swap_exchanges.

(* a make_quaint<T> whose T constructor throws creates nothing and destroys nothing; the history goes on unchanged *)
Theorem C18_failed_make_changes_nothing : forall st i t, q_step st (MakeThrows i t) = st.
Proof. exact failed_make_changes_nothing. Qed.
Print Assumptions C18_failed_make_changes_nothing.

(* ... and the target owns what the source owned *)
Theorem C18_move_transfers : forall st i j p,
  i <> j -> is_live (nth_error (pool st) j) = Some p ->
  (nth_error (pool st) i = Some Gone -> nth_error (pool (q_step st (MoveCtor i j))) i = Some (Live p)) /\
  (forall pi, is_live (nth_error (pool st) i) = Some pi -> nth_error (pool (q_step st (MoveAssign i j))) i = Some (Live p)).
Proof. exact move_transfers. Qed.
Print Assumptions C18_move_transfers.

(* complete-history balance: when the vector and every pool pointer are gone, every object ever created has been
   destroyed exactly once by the destructor of its creation type, and no object was forgotten *)
Theorem C18_complete_history_balances : forall n ops,
  let st := q_run (q_init n) ops in
  (forall o, In o (heap (q_finish st)) -> alive o = false /\ destroyed_by o = [otype o])
  /\ map otype (heap (q_finish st)) = map otype (heap st).
Proof. exact complete_history_balances. Qed.
Print Assumptions C18_complete_history_balances.

(* reallocation of the vector (move-construct all, destroy all sources) destroys nothing and keeps every element *)
Theorem C18_vector_reallocation_is_identity : forall st, vec_realloc st = st.
Proof. exact vec_realloc_id. Qed.
Print Assumptions C18_vector_reallocation_is_identity.

(* the checks the oracle runs on the IMPLEMENTATION's observations hold of every reachable model state *)
Theorem C18_oracle_accepts_model_states : forall n ops, q_state_ok (q_run (q_init n) ops) = true.
Proof. exact q_state_ok_reach. Qed.
Print Assumptions C18_oracle_accepts_model_states.

Theorem C18_oracle_accepts_model_final : forall n ops, all_destroyed_once (q_finish (q_run (q_init n) ops)) = true.
Proof. exact all_destroyed_once_finish. Qed.
Print Assumptions C18_oracle_accepts_model_final.

Theorem C18_oracle_accepts_model_steps : forall st o, heap_extends (heap st) (heap (q_step st o)) = true.
Proof. exact heap_extends_step. Qed.
Print Assumptions C18_oracle_accepts_model_steps.

(* re-entrant payloads: a payload whose destructor calls reset() on / assigns nullptr to / moves from / move-assigns an
   empty pointer onto the very pointer that owns it.  reset() forgets the pointee BEFORE the deleter runs ... *)
Theorem C18_pointer_empty_while_deleter_runs : forall st i p,
  is_live (nth_error (pool st) i) = Some p -> slot_is_null (forget st i) i = true.
Proof. exact pointer_empty_while_deleter_runs. Qed.
Print Assumptions C18_pointer_empty_while_deleter_runs.

(* ... so whatever list of such actions the destructor performs, the reset is the plain Reset step: every theorem above
   about histories holds unchanged with re-entrant payloads *)
Theorem C18_reentrant_reset_is_reset : forall st i acts, reset_reentrant st i acts = q_step st (Reset i).
Proof. exact reentrant_reset_is_reset. Qed.
Print Assumptions C18_reentrant_reset_is_reset.

(* in particular the object is destroyed exactly once (q_state_ok: at most once, by its own type, dead iff destroyed,
   alive iff exactly one owner) and the reset pointer is empty *)
Theorem C18_reentrant_reset_state_ok : forall n ops i acts,
  q_state_ok (reset_reentrant (q_run (q_init n) ops) i acts) = true
  /\ slot_is_null (reset_reentrant (q_run (q_init n) ops) i acts) i
     = match is_live (nth_error (pool (q_run (q_init n) ops)) i) with Some _ => true | None => slot_is_null (q_run (q_init n) ops) i end.
Proof. exact reentrant_reset_state_ok. Qed.
Print Assumptions C18_reentrant_reset_state_ok.

(* ---------------- optional ---------------- *)

(* optional<T> is a value: what is visible through a pool of optionals after any history is what the same
   operations do to a list of independent "nothing or a T" values (hence: a copy is deep, assigning an empty optional
   empties the target, writing one never changes another, nothing dangles) *)
Theorem C18_optional_is_a_value : forall n ops,
  views (o_run (o_init n) ops) = fold_left o_spec_step ops (repeat VEmpty n).
Proof. exact optional_is_a_value. Qed.
Print Assumptions C18_optional_is_a_value.

Theorem C18_optional_read_is_view : forall st i, opt_read st i = o_spec_read (views st) i.
Proof. exact read_is_view. Qed.
Print Assumptions C18_optional_read_is_view.

(* reading an empty optional raises *)
Theorem C18_optional_read_empty_raises : forall st i, opt_bool st i = false -> opt_read st i = RRaise.
Proof. exact read_empty_raises. Qed.
Print Assumptions C18_optional_read_empty_raises.

Theorem C18_optional_read_engaged_returns : forall n ops i,
  let st := o_run (o_init n) ops in opt_bool st i = true -> exists v, opt_read st i = RVal v.
Proof. exact read_engaged_returns. Qed.
Print Assumptions C18_optional_read_engaged_returns.

(* copying or assigning never aliases: distinct optionals never share a cell *)
Theorem C18_optional_no_alias : forall n ops i j c c',
  let st := o_run (o_init n) ops in
  i <> j -> nth_error (opts st) i = Some (Some c) -> nth_error (opts st) j = Some (Some c') -> c <> c'.
Proof. exact no_alias. Qed.
Print Assumptions C18_optional_no_alias.

(* each T made by an optional is alive iff exactly one optional owns it; live Ts = engaged optionals *)
Theorem C18_optional_cells_balanced : forall n ops,
  let st := o_run (o_init n) ops in
  (forall id x, nth_error (cells st) id = Some x -> cnt oid id (opts st) = if calive x then 1 else 0)
  /\ live_cells st = nsome (opts st).
Proof. exact cells_balanced. Qed.
Print Assumptions C18_optional_cells_balanced.

Theorem C18_optional_write_leaves_others : forall n ops o i j,
  let st := o_run (o_init n) ops in
  o_target o = Some i -> j <> i -> opt_read (o_step st o) j = opt_read st j.
Proof. exact write_leaves_others. Qed.
Print Assumptions C18_optional_write_leaves_others.

(* assigning an empty optional empties the target (repair D10) *)
Theorem C18_optional_assign_empty_empties : forall n ops i j,
  let st := o_run (o_init n) ops in
  i < length (opts st) -> nth_error (opts st) j = Some None ->
  opt_read (o_step st (OAssign i j)) i = RRaise /\ opt_bool (o_step st (OAssign i j)) i = false
  /\ opt_read (o_step st (OCopyCtor i j)) i = RRaise /\ opt_read (o_step st (OAssignEmpty i)) i = RRaise.
Proof. exact assign_empty_empties. Qed.
Print Assumptions C18_optional_assign_empty_empties.

Theorem C18_optional_value_preserved : forall n ops i j v,
  let st := o_run (o_init n) ops in
  i < length (opts st) -> opt_read st j = RVal v ->
  opt_read (o_step st (OAssign i j)) i = RVal v /\ opt_read (o_step st (OAssign i j)) j = RVal v /\
  opt_read (o_step st (OCopyCtor i j)) i = RVal v /\ opt_read (o_step st (OCopyCtor i j)) j = RVal v.
Proof. exact value_preserved. Qed.
Print Assumptions C18_optional_value_preserved.

Theorem C18_optional_value_assigned_is_read : forall n ops i v,
  let st := o_run (o_init n) ops in
  i < length (opts st) -> opt_read (o_step st (OValAssign i v)) i = RVal v /\ opt_read (o_step st (OValCtor i v)) i = RVal v.
Proof. exact value_assigned_is_read. Qed.
Print Assumptions C18_optional_value_assigned_is_read.

Theorem C18_optional_finish_frees_everything : forall n ops x,
  In x (cells (o_finish (o_run (o_init n) ops))) -> calive x = false.
Proof. exact finish_frees_everything. Qed.
Print Assumptions C18_optional_finish_frees_everything.

(* non-vacuity: concrete histories *)
Module Examples.
Import Strings.String.
Local Open Scope string_scope.
Example C18_ex_reentrant_reset :
  map (fun o => (otype o, alive o, destroyed_by o)) (heap (reset_reentrant (q_run (q_init 2) [Make 0 1; Make 1 0]) 0 [ReReset; ReMoveFrom; ReAssignNull; ReMoveAssignEmpty]))
  = [(1, false, [1]); (0, true, [])].
Proof. reflexivity. Qed.
Definition h1 := [Make 0 0; Make 1 1; MoveAssign 0 1; VecPush 0; VecGrow; MoveCtor 2 0; Make 0 2; Reset 0; VecTake 1 0; VecClear; Drop 1].
Example C18_ex_history : map (fun o => (otype o, alive o, destroyed_by o)) (heap (q_run (q_init 3) h1))
  = [(0, false, [0]); (1, false, [1]); (2, false, [2])].
Proof. reflexivity. Qed.
Example C18_ex_mid : let st := q_run (q_init 3) (firstn 4 h1) in
  (pool st, vec st, map alive (heap st)) = ([Live None; Live None; Gone], [Some (1, 1)], [false; true]).
Proof. reflexivity. Qed.
Example C18_ex_finish : map destroyed_by (heap (q_finish (q_run (q_init 3) [Make 0 0; Make 1 1; VecPush 1; Make 1 2]))) = [[0]; [1]; [2]].
Proof. reflexivity. Qed.
(* p = nullptr destroys the pointee exactly once, by its own type, also for a vector element *)
Example C18_ex_assign_null : let st := q_run (q_init 2) [Make 0 1; AssignNull 0; Make 1 2; VecPush 1; VecAssignNull 0] in
  (map destroyed_by (heap st), pool st, vec st) = ([[1]; [2]], [Live None; Live None], [None]).
Proof. reflexivity. Qed.
Example C18_ex_optional : views (o_run (o_init 3) [OValAssign 0 (B "ab"); OAssign 1 0; OAssignEmpty 0; OCopyCtor 2 1; OAssign 1 0])
  = [VEmpty; VEmpty; VVal (B "ab")].
Proof. reflexivity. Qed.
Example C18_ex_optional_read : opt_read (o_run (o_init 2) [OValAssign 0 (B "x"); OAssign 0 1]) 0 = RRaise.
Proof. reflexivity. Qed.
End Examples.

(* Property C08 — format substitutes placeholders positionally, verbatim, with exact arity; the message
   of a raised library exception is the concatenation of its rendered arguments.
   Only statements here; every proof is `exact <lemma>` into Fmt/FormatProofs.v. *)
From Coq Require Import List Arith Bool ZArith.
From Coq Require Import Init.Byte.
From Coq Require Strings.String.
From Nitro Require Import Base.Bytes Str.StrModel Str.StrSpec Fmt.FormatModel Fmt.FormatSpec Fmt.FormatProofs.
Import ListNotations.
Local Open Scope list_scope.

(* the iterator loop of formatter::str() equals the split-based formula: with as many arguments as
   there are left-to-right non-overlapping "{}" in the format, the pieces of the format cut at "{}"
   with the arguments in between; otherwise it raises *)
Theorem C08_format_spec : forall fmt args,
  format_str fmt args =
  if length args =? count_nonoverlapping ph fmt
  then Ok (interleave (pieces fmt) args)
  else Raise (if length args <? count_nonoverlapping ph fmt then LessArgs else MoreArgs).
Proof. exact format_spec. Qed.
Print Assumptions C08_format_spec.

(* the pieces are the format: gluing them with "{}" gives the format back, none of them contains "{}",
   and there is one more than placeholders — so everything outside the placeholders (lone, nested,
   unbalanced braces included) is in the result unchanged and in place *)
Theorem C08_pieces_lossless : forall fmt, intercalate ph (pieces fmt) = fmt.
Proof. exact pieces_lossless. Qed.
Print Assumptions C08_pieces_lossless.

Theorem C08_pieces_clean : forall fmt, Forall (clean ph) (pieces fmt).
Proof. exact pieces_clean. Qed.
Print Assumptions C08_pieces_clean.

Theorem C08_pieces_count : forall fmt, length (pieces fmt) = S (count_nonoverlapping ph fmt).
Proof. exact pieces_count. Qed.
Print Assumptions C08_pieces_count.

Theorem C08_format_outside_preserved : forall fmt args r, format_str fmt args = Ok r ->
  exists ps, length ps = S (length args) /\ intercalate ph ps = fmt /\ Forall (clean ph) ps
             /\ r = interleave ps args.
Proof. exact format_outside_preserved. Qed.
Print Assumptions C08_format_outside_preserved.

(* substituting "{}" for every placeholder returns the format string itself *)
Theorem C08_format_identity : forall fmt,
  format_str fmt (repeat ph (count_nonoverlapping ph fmt)) = Ok fmt.
Proof. exact format_identity. Qed.
Print Assumptions C08_format_identity.

(* a text is produced exactly when the number of arguments is the number of placeholders ... *)
Theorem C08_format_arity : forall fmt args,
  (exists r, format_str fmt args = Ok r) <-> length args = count_nonoverlapping ph fmt.
Proof. exact format_arity. Qed.
Print Assumptions C08_format_arity.

(* ... and otherwise the call raises (the result type has no partial output) *)
Theorem C08_format_less_args : forall fmt args,
  length args < count_nonoverlapping ph fmt -> format_str fmt args = Raise LessArgs.
Proof. exact format_less_args. Qed.
Print Assumptions C08_format_less_args.

Theorem C08_format_more_args : forall fmt args,
  count_nonoverlapping ph fmt < length args -> format_str fmt args = Raise MoreArgs.
Proof. exact format_more_args. Qed.
Print Assumptions C08_format_more_args.

(* arguments are inserted verbatim and never rescanned: the result is a template computed from the
   format alone (placeholder i replaced by the opaque marker Arg i, i = 0,1,2,... left to right) into
   which the arguments are substituted afterwards, whatever bytes they contain *)
Theorem C08_args_verbatim : forall fmt args, length args = count_nonoverlapping ph fmt ->
  format_str fmt args = Ok (subst (template fmt) args).
Proof. exact args_verbatim. Qed.
Print Assumptions C08_args_verbatim.

Theorem C08_template_markers : forall fmt, markers (template fmt) = seq 0 (count_nonoverlapping ph fmt).
Proof. exact template_markers. Qed.
Print Assumptions C08_template_markers.

(* one-step form of the same fact: the first argument lands unchanged where the first placeholder of
   the format was, and the rest is the format of the remaining format string with the remaining arguments *)
Theorem C08_format_cons : forall fmt a args,
  format_str fmt (a :: args) =
  match find ph fmt with
  | None => Raise MoreArgs
  | Some i => match format_str (skipn (i + 2) fmt) args with
              | Ok r => Ok (firstn i fmt ++ a ++ r)
              | Raise e => Raise e
              end
  end.
Proof. exact format_cons. Qed.
Print Assumptions C08_format_cons.

Theorem C08_format_nil : forall fmt,
  format_str fmt [] = if contains ph fmt then Raise LessArgs else Ok fmt.
Proof. exact format_nil. Qed.
Print Assumptions C08_format_nil.

(* operator% and args(...) — in any mixture — supply the same argument list in the order written *)
Theorem C08_percent_and_args_agree : forall fmt ops,
  format_chain fmt ops = format_str fmt (map render (flatten_ops ops)).
Proof. exact percent_and_args_agree. Qed.
Print Assumptions C08_percent_and_args_agree.

Theorem C08_args_is_percent_chain : forall fmt l, format_chain fmt [Args l] = format_chain fmt (map Pct l).
Proof. exact args_is_percent_chain. Qed.
Print Assumptions C08_args_is_percent_chain.

(* each argument is rendered on its own: marker i of the template receives render (argument i), a
   function of that argument alone — independent of its neighbours and of how they were supplied *)
Theorem C08_args_independent : forall fmt ops, length (flatten_ops ops) = count_nonoverlapping ph fmt ->
  format_chain fmt ops = Ok (subst_fn (template fmt) (fun i => render (nth i (flatten_ops ops) (AStr [])))).
Proof. exact args_independent. Qed.
Print Assumptions C08_args_independent.

Theorem C08_arg_text_alone : forall l1 l2 i, nth_error l1 i = nth_error l2 i ->
  nth_error (map render l1) i = nth_error (map render l2) i.
Proof. exact arg_text_alone. Qed.
Print Assumptions C08_arg_text_alone.

(* a stream manipulator passed as an argument renders as the empty text (and, by the two theorems
   above, changes nothing else) *)
Theorem C08_manip_renders_empty : forall m, render (AManip m) = [].
Proof. exact manip_renders_empty. Qed.
Print Assumptions C08_manip_renders_empty.

(* no history: the k-th of several formatters used one after the other gives what it gives alone *)
Theorem C08_format_seq_independent : forall l k f ops, nth_error l k = Some (f, ops) ->
  nth_error (format_seq l) k = Some (format_chain f ops).
Proof. exact format_seq_independent. Qed.
Print Assumptions C08_format_seq_independent.

(* the formatter object is a value: copying / moving / relocating it between two groups of arguments
   changes nothing (the target formats as if all arguments had been given to one object) *)
Theorem C08_reloc_chain_value : forall fmt pre post, reloc_chain fmt pre post = format_chain fmt (pre ++ post).
Proof. exact reloc_chain_value. Qed.
Print Assumptions C08_reloc_chain_value.

Theorem C08_reloc_chain_spec : forall fmt pre post,
  reloc_chain fmt pre post = spec_format fmt (map render (flatten_ops (pre ++ post))).
Proof. exact reloc_chain_spec. Qed.
Print Assumptions C08_reloc_chain_spec.

(* operator<< to the caller's stream is all or nothing: when str() raises (wrong number of arguments) the
   stream is exactly as it was — nothing appended, a pending width still pending *)
Theorem C08_stream_out_raise_unchanged : forall o f e, str_of f = Raise e -> stream_out o f = (o, Some e).
Proof. exact stream_out_raise_unchanged. Qed.
Print Assumptions C08_stream_out_raise_unchanged.

Theorem C08_stream_out_wrong_arity : forall o fmt ops,
  length (flatten_ops ops) <> count_nonoverlapping ph fmt -> fst (stream_out o (apply_ops (mk fmt) ops)) = o.
Proof. exact stream_out_wrong_arity. Qed.
Print Assumptions C08_stream_out_wrong_arity.

(* and otherwise the text is inserted as ONE item: padded as a whole to the pending width, which is then consumed *)
Theorem C08_stream_out_ok : forall o f text, str_of f = Ok text ->
  stream_out o f = (insert_str o text, None)
  /\ content (insert_str o text) = content o ++ pad (width o) (fill o) (adjust_left o) text
  /\ width (insert_str o text) = 0.
Proof. exact stream_out_ok. Qed.
Print Assumptions C08_stream_out_ok.

Theorem C08_pad_length : forall w c left text, length (pad w c left text) = Nat.max w (length text).
Proof. exact pad_length. Qed.
Print Assumptions C08_pad_length.

Theorem C08_pad_narrow : forall w c left text, w <= length text -> pad w c left text = text.
Proof. exact pad_narrow. Qed.
Print Assumptions C08_pad_narrow.

(* what a stream holding `pre`, with pending width w / fill c / adjustment, contains after  os << chain  and a
   sentinel item: the specification (split-based text as one padded item, or nothing but the padded sentinel) *)
Theorem C08_stream_chain_spec : forall pre w c left fmt ops sentinel,
  stream_chain {| content := pre; width := w; fill := c; adjust_left := left |} fmt ops sentinel
  = spec_stream pre w c left fmt (map render (flatten_ops ops)) sentinel.
Proof. exact stream_chain_spec. Qed.
Print Assumptions C08_stream_chain_spec.

(* the message of a raised exception is the concatenation of the rendered arguments.  The hypothesis
   is the scope of the model: make_string uses ONE stream for all arguments, so an argument that
   changes the stream's formatting state does influence the arguments after it (see FormatModel.v) *)
Theorem C08_exception_message_concat : forall args, forallb stateless args = true ->
  exception_what args = concat (map render args).
Proof. exact exception_message_concat. Qed.
Print Assumptions C08_exception_message_concat.

(* an argument may ALSO be convertible to a string (std::filesystem::path, a type with operator std::string(),
   a string_view, ...): the message is made of the STREAM texts only — it is a function of them, for any number of
   arguments; the conversion text of an argument (ADual shown conv) can be dropped or replaced, at every
   position of a message of every length, without changing the message; a single argument gives its stream
   text, which is what it gives after an empty first argument (raise(x) = raise("", x)) *)
Theorem C08_message_by_stream_text : forall args1 args2, map render args1 = map render args2 ->
  exception_what args1 = exception_what args2.
Proof. exact message_by_stream_text. Qed.
Print Assumptions C08_message_by_stream_text.

Theorem C08_message_ignores_conversion : forall args, exception_what (map forget_conv args) = exception_what args.
Proof. exact message_ignores_conversion. Qed.
Print Assumptions C08_message_ignores_conversion.

Theorem C08_message_conversion_irrelevant_at : forall pre shown c1 c2 post,
  exception_what (pre ++ ADual shown c1 :: post) = exception_what (pre ++ ADual shown c2 :: post).
Proof. exact message_conversion_irrelevant_at. Qed.
Print Assumptions C08_message_conversion_irrelevant_at.

Theorem C08_message_single_dual : forall shown conv, exception_what [ADual shown conv] = shown.
Proof. exact message_single_dual. Qed.
Print Assumptions C08_message_single_dual.

Theorem C08_message_single_is_pair : forall a, exception_what [a] = exception_what [AStr []; a].
Proof. exact message_single_is_pair. Qed.
Print Assumptions C08_message_single_is_pair.

(* the same for the formatter: the text does not depend on the conversion texts of the arguments *)
Theorem C08_format_ignores_conversion : forall fmt ops,
  format_chain fmt (map (map_op forget_conv) ops) = format_chain fmt ops.
Proof. exact format_ignores_conversion. Qed.
Print Assumptions C08_format_ignores_conversion.

Theorem C08_format_conversion_irrelevant : forall fmt ops c,
  format_chain fmt (map (map_op (with_conv c)) ops) = format_chain fmt ops.
Proof. exact format_conversion_irrelevant. Qed.
Print Assumptions C08_format_conversion_irrelevant.

(* the decimal printer used to render integer arguments in the model reads back to the number *)
Theorem C08_print_dec_roundtrip : forall z, read_dec (print_dec z) = Some z.
Proof. exact print_dec_roundtrip. Qed.
Print Assumptions C08_print_dec_roundtrip.

(* the grouped numerals of the `loc` cases are the plain numerals with separators inserted *)
Theorem C08_group3_ungroup : forall digits, filter not_sep (group3 digits) = filter not_sep digits.
Proof. exact group3_ungroup. Qed.
Print Assumptions C08_group3_ungroup.

(* non-vacuity: concrete instances *)
Module Examples.
Import Strings.String.
Local Open Scope string_scope.
Example C08_ex_nested : format_str (B "{}{{}}a{") [B "x"; B "{}"] = Ok (B "x{{}}a{").
Proof. reflexivity. Qed.
Example C08_ex_pieces : pieces (B "{}{{}}a{") = [B ""; B "{"; B "}a{"].
Proof. reflexivity. Qed.
Example C08_ex_arg_not_rescanned : format_str (B "{}-{}") [B "{}"; B "y"] = Ok (B "{}-y").
Proof. reflexivity. Qed.
Example C08_ex_less : format_str (B "a{}b{}") [B "x"] = Raise LessArgs.
Proof. reflexivity. Qed.
Example C08_ex_more : format_str (B "a{}b") [B "x"; B "y"] = Raise MoreArgs.
Proof. reflexivity. Qed.
Example C08_ex_template : template (B "a{}b{}") = [Lit (B "a"); Arg 0; Lit (B "b"); Arg 1; Lit (B "")].
Proof. reflexivity. Qed.
Example C08_ex_chain : format_chain (B "{} {} {}") [Pct (AStr (B "a")); Args [AInt (-120); ADbl 7]] = Ok (B "a -120 7").
Proof. reflexivity. Qed.
Example C08_ex_what : exception_what [AStr (B "got "); AInt 42; AStr (B " items")] = B "got 42 items".
Proof. reflexivity. Qed.
Example C08_ex_sticky : format_chain (B "{}{}|{}|{}|{}|{}|{}")
    [Pct (AHexer 255); Pct (AManip MHex); Args [AInt 16; AManip (MSetprecision 2); AHalf 0; ABoolAlpha true]; Pct (ABool true)]
  = Ok (B "ff|16||0.5|true|1").
Proof. reflexivity. Qed.
Example C08_ex_sticky2 : format_chain (B "{} {} {} {}") [Args [AFixer 12; APadder (-7); AHalf (-2); ADbl 3]]
  = Ok (B "12.00 -7**** -1.5 3").
Proof. reflexivity. Qed.
Example C08_ex_stream_less : stream_chain {| content := B "pre:"; width := 6; fill := x2a; adjust_left := false |}
    (B "a {} b {} c") [Pct (AInt 1)] (B "!") = (B "pre:*****!", false).
Proof. reflexivity. Qed.
Example C08_ex_stream_ok : stream_chain {| content := B "pre:"; width := 6; fill := x2a; adjust_left := true |}
    (B "<{}>") [Pct (AInt 1)] (B "!") = (B "pre:<1>***!", true).
Proof. reflexivity. Qed.
Example C08_ex_grouped : render_loc (AInt (-1234567)) = B "-1,234,567" /\ render_loc (AInt 999) = B "999"
  /\ render_loc (AHalf 1234) = B "1,234;5" /\ render_loc (ADbl 100000) = B "100,000" /\ render_loc (AHalf (-1)) = B "-0;5".
Proof. repeat split; reflexivity. Qed.
Example C08_ex_dual : exception_what [dual KPath (B "/var/my ""app"".log")] = B """/var/my \""app\"".log"""
  /\ conv_text (dual KPath (B "/var/log")) = Some (B "/var/log")
  /\ exception_what [dual KTagged (B "x")] = B "<x>" /\ exception_what [AStr (B ""); dual KTagged (B "x")] = B "<x>"
  /\ exception_what [dual KCstr (B "a"); dual KExplicit (B "b"); dual KStreamOnly (B "c")] = B "[a](b)#c"
  /\ format_chain (B "{}|{}") [Pct (dual KTagged (B "x")); Args [dual KView (B "y")]] = Ok (B "<x>|y").
Proof. repeat split; reflexivity. Qed.
Example C08_ex_print_dec : print_dec 0 = B "0" /\ print_dec (-9223372036854775808) = B "-9223372036854775808".
Proof. split; reflexivity. Qed.
End Examples.

(* Property C19 — environment and dlopen wrappers report faithfully and keep libraries mapped.
   Only statements here; every proof is `exact <lemma>` into Own/EnvProofs.v and Own/DlProofs.v.
   env part: getenv is ANY function from names to "unset" or a value.
   dl part: w is ANY world (which files and symbols exist); d_init n = a pool of n empty owner variables;
   d_run w st ops = the state after ANY list of open / load / get / copy-construct / move-construct / copy-assign /
   move-assign / swap / destroy / call operations (and of unrelated code leaving a loader error pending), failed opens
   and failed look-ups included. An owner object whose shared_ptr was moved from stays in the pool as a null owner. *)
From Coq Require Import List Arith Bool.
From Coq Require Import Init.Byte.
From Coq Require Strings.String.
From Nitro Require Import Base.Bytes Own.Count Own.Env Own.EnvProofs Own.Dl Own.DlProofs.
Import ListNotations.
Local Open Scope list_scope.

(* ---------------- nitro::env::get ---------------- *)

(* set: the exact value, with either overload, whatever the default *)
Theorem C19_get_set_returns_value : forall getenv name v,
  getenv name = Some v ->
  (forall d, env_get_default getenv name d = v) /\ env_get_nodefault getenv name = EOk v.
Proof. exact get_set_returns_value. Qed.
Print Assumptions C19_get_set_returns_value.

(* ... also when set to the empty string: "" is returned, not the default *)
Theorem C19_get_set_empty_returns_empty : forall getenv name,
  getenv name = Some [] -> (forall d, env_get_default getenv name d = []) /\ env_get_nodefault getenv name = EOk [].
Proof. exact get_set_empty_returns_empty. Qed.
Print Assumptions C19_get_set_empty_returns_empty.

(* unset: the supplied default *)
Theorem C19_get_unset_returns_default : forall getenv name d,
  getenv name = None -> env_get_default getenv name d = d.
Proof. exact get_unset_returns_default. Qed.
Print Assumptions C19_get_unset_returns_default.

(* unset, no-default form: raises — and it raises in no other case *)
Theorem C19_get_unset_nodefault_raises : forall getenv name,
  getenv name = None -> env_get_nodefault getenv name = ERaise.
Proof. exact get_unset_nodefault_raises. Qed.
Print Assumptions C19_get_unset_nodefault_raises.

Theorem C19_get_raises_only_when_unset : forall getenv name,
  env_get_nodefault getenv name = ERaise -> getenv name = None.
Proof. exact get_raises_only_when_unset. Qed.
Print Assumptions C19_get_raises_only_when_unset.

(* the oracle's clause accepts every get of the model *)
Theorem C19_env_oracle_accepts_model : forall e n,
  (forall d, env_spec_ok (env_lookup e n) (Some d) (EOk (env_get_default (env_lookup e) n d)) = true)
  /\ env_spec_ok (env_lookup e n) None (env_get_nodefault (env_lookup e) n) = true.
Proof. exact env_spec_ok_model. Qed.
Print Assumptions C19_env_oracle_accepts_model.

(* the result of get is a VALUE (its own string object): what a get returned — the variable's value at that moment, the
   default, or the raise — is what a read of that result finds at once and after ANY further history: later gets of the
   same or other variables through either overload, setenv / unsetenv of the same variable, other reads.
   h_run / h_step: histories over { setenv, unsetenv, the three gets, read result k } that keep every result ever produced *)
Theorem C19_get_result_is_value : forall st o r more,
  env_res (henv st) o = Some r ->
  snd (h_step (h_run (fst (h_step st (HOp o))) more) (HRead (length (hres st)))) = Some r.
Proof. exact get_result_is_value. Qed.
Print Assumptions C19_get_result_is_value.

Theorem C19_held_result_stable : forall st ops k r,
  nth_error (hres st) k = Some r -> nth_error (hres (h_run st ops)) k = Some r.
Proof. exact held_result_stable. Qed.
Print Assumptions C19_held_result_stable.

(* two results held at the same time (f(get(a), get(b)), two reference bindings) each keep their own outcome *)
Theorem C19_two_held_results_independent : forall st o1 o2 r1 r2 mid more,
  env_res (henv st) o1 = Some r1 ->
  let st1 := h_run (fst (h_step st (HOp o1))) mid in
  env_res (henv st1) o2 = Some r2 ->
  let st2 := h_run (fst (h_step st1 (HOp o2))) more in
  snd (h_step st2 (HRead (length (hres st)))) = Some r1 /\ snd (h_step st2 (HRead (length (hres st1)))) = Some r2.
Proof. exact two_held_results_independent. Qed.
Print Assumptions C19_two_held_results_independent.

(* ... and that outcome is the one the three clauses demand for the environment of the moment of the get *)
Theorem C19_result_obeys_clauses : forall e o r,
  env_res e o = Some r ->
  match o with
  | EGet n d => env_spec_ok (env_lookup e n) (Some d) r = true
  | EGetDefaulted n => env_spec_ok (env_lookup e n) (Some []) r = true
  | EGetNoDefault n => env_spec_ok (env_lookup e n) None r = true
  | _ => False
  end.
Proof. exact env_res_spec_ok. Qed.
Print Assumptions C19_result_obeys_clauses.

(* ---------------- nitro::dl ---------------- *)

(* dlclose is called at most once on every handle *)
Theorem C19_closed_at_most_once : forall w n ops r,
  In r (hs (d_run w (d_init n) ops)) -> closes r <= 1.
Proof. exact closed_at_most_once. Qed.
Print Assumptions C19_closed_at_most_once.

(* a library is closed exactly when no owner is left: it stays mapped while the library object, any symbol obtained
   from it, a raw handle, or any copy of either is alive — in whatever order they are created and destroyed *)
Theorem C19_closed_iff_unowned : forall w n ops h r,
  let st := d_run w (d_init n) ops in
  nth_error (hs st) h = Some r -> closes r = (if Nat.eqb (cnt okey h (slots st)) 0 then 1 else 0).
Proof. exact closed_iff_unowned. Qed.
Print Assumptions C19_closed_iff_unowned.

(* dlclose(NULL) is never called (a failed open does not close anything) *)
Theorem C19_null_never_closed : forall w n ops, null_closes (d_run w (d_init n) ops) = 0.
Proof. exact null_never_closed. Qed.
Print Assumptions C19_null_never_closed.

(* a symbol object that owns a library — however it got its contents: load, copy, move, ASSIGNMENT, swap — holds a
   function of exactly that library, and a call through it finds the library mapped (also after the library object
   and every other owner is gone) *)
Theorem C19_call_while_mapped : forall w n ops i x,
  let st := d_run w (d_init n) ops in
  snd (d_step w st (DCall i x)) <> DUnmapped /\
  (forall h fh s, slot_owner st i = Some (OSym (Some h) fh s) ->
     fh = h /\ exists r, nth_error (hs st) h = Some r /\ closes r = 0
                       /\ snd (d_step w st (DCall i x)) = DCallOk (hlib r) s x).
Proof. exact call_while_mapped. Qed.
Print Assumptions C19_call_while_mapped.

(* assignment between two existing objects of the same kind: the target holds what the source holds (handle and, for a
   symbol, function); a moved-from source keeps nothing; swap exchanges — in every state. With C19_closed_iff_unowned:
   the target's previous library is closed exactly if the target was its last owner, the new one stays mapped *)
Theorem C19_assign_transfers : forall w st i j a b,
  slot_owner st i = Some a -> slot_owner st j = Some b -> same_kind a b = true ->
  slot_owner (fst (d_step w st (DAssign i j))) i = Some b /\
  (i <> j -> slot_owner (fst (d_step w st (DMoveAssign i j))) i = Some b /\
             slot_owner (fst (d_step w st (DMoveAssign i j))) j = Some (with_h b None)) /\
  (i <> j -> slot_owner (fst (d_step w st (DSwap i j))) i = Some b /\
             slot_owner (fst (d_step w st (DSwap i j))) j = Some a).
Proof. exact assign_transfers. Qed.
Print Assumptions C19_assign_transfers.

(* opening a missing library raises the dl exception carrying the loader's diagnostic of this very failure and
   creates / closes nothing — in every state, whatever error was pending before *)
Theorem C19_failed_open_creates_nothing : forall w st i f,
  slot_empty st i = true -> lib_exists w f = false ->
  d_step w st (DOpen i f) = (mkD (hs st) (slots st) None (null_closes st), DRaise (Some (DgOpen f))).
Proof. exact failed_open_creates_nothing. Qed.
Print Assumptions C19_failed_open_creates_nothing.

Theorem C19_open_creates_one : forall w st i f,
  slot_empty st i = true -> lib_exists w f = true ->
  d_step w st (DOpen i f) =
    (mkD (hs st ++ [mkH f 1 0]) (setn (slots st) i (Some (OLib (Some (length (hs st)))))) (pend st) (null_closes st), DOk).
Proof. exact open_creates_one. Qed.
Print Assumptions C19_open_creates_one.

(* looking up a missing symbol raises the dl exception carrying the loader's diagnostic and leaves the library
   (every handle, every owner) exactly as it was *)
Theorem C19_failed_load_keeps_library : forall w n ops i j h s r,
  let st := d_run w (d_init n) ops in
  slot_empty st i = true -> slot_owner st j = Some (OLib (Some h)) -> nth_error (hs st) h = Some r ->
  sym_exists w (hlib r) s = false ->
  d_step w st (DLoad i j s) = (mkD (hs st) (slots st) None (null_closes st), DRaise (Some (DgSym (hlib r) s))).
Proof. exact failed_load_keeps_library. Qed.
Print Assumptions C19_failed_load_keeps_library.

(* a look-up of an existing symbol succeeds whatever loader error unrelated code left pending (dlerror() is cleared first) *)
Theorem C19_load_ignores_stale_error : forall w n ops i j h s r,
  let st := d_run w (d_init n) ops in
  slot_empty st i = true -> slot_owner st j = Some (OLib (Some h)) -> nth_error (hs st) h = Some r ->
  sym_exists w (hlib r) s = true ->
  snd (d_step w st (DLoad i j s)) = DOk /\ slot_owner (fst (d_step w st (DLoad i j s))) i = Some (OSym (Some h) h s).
Proof. exact load_ignores_stale_error. Qed.
Print Assumptions C19_load_ignores_stale_error.

(* the dl exception CARRIES the diagnostic: the exception caught from a failed open / look-up returns the diagnostic of that
   very failure when read at once and whenever it is read later, whatever loader operations happen in between *)
Theorem C19_caught_exception_carries_its_diagnostic : forall w n ops o dle,
  let xs := x_run w (x_init n) ops in
  snd (d_step w (xd xs) o) = DRaise dle ->
  let xs' := fst (x_step w xs (XOp o)) in
  snd (x_step w xs' (XRead (length (xlog xs)))) = XDiag (Some dle) /\
  forall more, snd (x_step w (x_run w xs' more) (XRead (length (xlog xs)))) = XDiag (Some dle).
Proof. exact caught_exception_carries_its_diagnostic. Qed.
Print Assumptions C19_caught_exception_carries_its_diagnostic.

Theorem C19_exception_diagnostic_stable : forall w xs ops k d,
  snd (x_step w xs (XRead k)) = XDiag (Some d) ->
  snd (x_step w (x_run w xs ops) (XRead k)) = XDiag (Some d).
Proof. exact exception_diagnostic_stable. Qed.
Print Assumptions C19_exception_diagnostic_stable.

(* complete histories: after the last owner is destroyed every library ever opened has been closed exactly once *)
Theorem C19_complete_history_closes_once : forall w n ops r,
  In r (hs (d_finish (d_run w (d_init n) ops))) -> closes r = 1.
Proof. exact complete_history_closes_once. Qed.
Print Assumptions C19_complete_history_closes_once.

Theorem C19_finish_keeps_handles : forall w n ops,
  let st := d_run w (d_init n) ops in length (hs (d_finish st)) = length (hs st).
Proof. exact finish_keeps_handles. Qed.
Print Assumptions C19_finish_keeps_handles.

(* the checks the oracle runs on the IMPLEMENTATION's observations hold of every reachable model state *)
Theorem C19_dl_oracle_accepts_model_states : forall w n ops, d_state_ok (d_run w (d_init n) ops) = true.
Proof. exact d_state_ok_reach. Qed.
Print Assumptions C19_dl_oracle_accepts_model_states.

Theorem C19_dl_oracle_accepts_model_final : forall w n ops, all_closed_once (d_finish (d_run w (d_init n) ops)) = true.
Proof. exact all_closed_once_finish. Qed.
Print Assumptions C19_dl_oracle_accepts_model_final.

(* non-vacuity *)
Module Examples.
Import Strings.String.
Local Open Scope string_scope.
Definition w0 := mkWorld (fun f => Nat.ltb f 2) (fun lib s => Nat.ltb s 2).
(* the symbol outlives the library object and a copy of the symbol outlives the symbol *)
Definition h1 := [DOpen 0 0; DLoad 1 0 0; DCopy 2 1; DDrop 0; DDrop 1].
Example C19_ex_symbol_outlives : map closes (hs (d_run w0 (d_init 3) h1)) = [0] /\ snd (d_step w0 (d_run w0 (d_init 3) h1) (DCall 2 5)) = DCallOk 0 0 5.
Proof. split; reflexivity. Qed.
Example C19_ex_last_owner_closes : map closes (hs (d_run w0 (d_init 3) (h1 ++ [DDrop 2]))) = [1].
Proof. reflexivity. Qed.
(* assignment between symbols of different libraries: the target lets go of library a (closed, it was the last owner)
   and keeps library b mapped after b's library object and original symbol are gone *)
Definition h2 := [DOpen 0 0; DOpen 1 1; DLoad 2 0 0; DLoad 3 1 0; DDrop 0; DAssign 2 3; DDrop 1; DDrop 3].
Example C19_ex_assign_keeps_mapped : map closes (hs (d_run w0 (d_init 4) h2)) = [1; 0]
  /\ snd (d_step w0 (d_run w0 (d_init 4) h2) (DCall 2 5)) = DCallOk 1 0 5.
Proof. split; reflexivity. Qed.
Example C19_ex_move_assign_source_null :
  slots (d_run w0 (d_init 4) [DOpen 0 0; DOpen 1 1; DLoad 2 0 0; DLoad 3 1 1; DMoveAssign 2 3])
  = [Some (OLib (Some 0)); Some (OLib (Some 1)); Some (OSym (Some 1) 1 1); Some (OSym None 1 1)].
Proof. reflexivity. Qed.
Example C19_ex_failed_open : d_step w0 (d_run w0 (d_init 3) [DStale 7]) (DOpen 0 5) = (mkD [] [None; None; None] None 0, DRaise (Some (DgOpen 5))).
Proof. reflexivity. Qed.
Example C19_ex_failed_load : snd (d_step w0 (d_run w0 (d_init 3) [DOpen 0 1]) (DLoad 1 0 9)) = DRaise (Some (DgSym 1 9)).
Proof. reflexivity. Qed.
Example C19_ex_late_read : snd (x_step w0 (x_run w0 (x_init 3) [XOp (DOpen 0 5); XOp (DOpen 0 6); XOp (DOpen 0 0); XOp (DLoad 1 0 9); XOp (DDrop 0)]) (XRead 0))
  = XDiag (Some (Some (DgOpen 5))).
Proof. reflexivity. Qed.
Example C19_ex_env_empty : env_run [] [ESet (B "X") (B ""); EGet (B "X") (B "dflt"); EGetNoDefault (B "X"); EUnset (B "X"); EGet (B "X") (B "dflt"); EGetNoDefault (B "X")]
  = [EOk (B ""); EOk (B ""); EOk (B "dflt"); ERaise].
Proof. reflexivity. Qed.
Example C19_ex_held_results :
  h_obs (h_init []) [HOp (ESet (B "A") (B "alpha")); HOp (ESet (B "B") (B "beta")); HOp (EGetNoDefault (B "A")); HOp (EGet (B "U") (B "dflt"));
                     HOp (EGetDefaulted (B "B")); HOp (ESet (B "A") (B "changed")); HOp (EUnset (B "B")); HOp (EGetNoDefault (B "B")); HRead 0; HRead 1; HRead 2; HRead 3]
  = [Some (EOk (B "alpha")); Some (EOk (B "dflt")); Some (EOk (B "beta")); Some ERaise].
Proof. reflexivity. Qed.
End Examples.

(* Property C03 — value sources are ranked: command line, then environment, then default.  Only statements. *)
From Coq Require Import List Arith Bool ZArith.
From Coq Require Import Init.Byte.
From Nitro Require Import Base.Bytes Base.Res Opt.Token Opt.Decl Opt.ParserModel Opt.ParserCore Opt.ParserSpec Opt.Vocab Opt.Run
  Opt.RefineDefs Opt.Getlines Opt.Corollaries Opt.CoreEq Opt.History Opt.Positional Opt.Lexical Opt.Refine5 Opt.Sample.
Import ListNotations.

(* The result of a successful parse reports, for every declared option / multi-option / toggle, the value of its SOURCE,
   where the source is defined by the ranking below (C03_opt_rank, C03_multi_rank, C03_toggle_rank).  Together with
   C01_parse_accounts_for_every_token (the result of parse IS the assignment of the items on the command line). *)
Theorem C03_result_is_first_available_source : forall d e items tail r,
  assign d e items tail = Ok r ->
  (forall i o, nth_error (d_opts d) i = Some o ->
     nth_error (r_opts r) i = Some (o_name o, src_val (opt_source e o (opt_values i items)))
     /\ src_bad (opt_source e o (opt_values i items)) = false) /\
  (forall i o, nth_error (d_multis d) i = Some o ->
     nth_error (r_multis r) i = Some (m_name o, match src_val (multi_source e o (multi_values i items)) with Some l => l | None => [] end)
     /\ src_bad (multi_source e o (multi_values i items)) = false) /\
  (forall j t, nth_error (d_toggles d) j = Some t ->
     nth_error (r_toggles r) j = Some (t_name t, match src_val (toggle_source truthy falsy e t (occurrences j items) (negations j items)) with Some z => z | None => 0%Z end)
     /\ src_bad (toggle_source truthy falsy e t (occurrences j items) (negations j items)) = false) /\
  r_pos r = inline_pos items ++ match tail with Some ps => ps | None => [] end.
Proof. exact (assignment_reports truthy falsy). Qed.
Print Assumptions C03_result_is_first_available_source.

(* the ranking for a single-valued option: first value on the command line; else the bound environment variable when set
   to a non-empty string, VERBATIM; else the default; else absent (optional) or missing (required) *)
Theorem C03_opt_rank : forall e o given,
  opt_source e o given =
  match given with
  | v :: _ => FromCmd v
  | [] => if nonempty (env_get e (o_env o)) then FromEnv (env_get e (o_env o))
          else match o_def o with Some dv => FromDefault dv | None => if o_opt o then Absent else Missing end
  end.
Proof. exact opt_rank. Qed.
Print Assumptions C03_opt_rank.
Theorem C03_multi_rank : forall e o given,
  multi_source e o given =
  match given with
  | _ :: _ => FromCmd given
  | [] => if nonempty (env_get e (m_env o)) then FromEnv (getlines ";"%byte (env_get e (m_env o)) [] false)
          else match m_def o with Some dv => FromDefault dv | None => if m_opt o then Absent else Missing end
  end.
Proof. reflexivity. Qed.
Print Assumptions C03_multi_rank.
Theorem C03_toggle_rank : forall e t occ neg,
  toggle_source truthy falsy e t occ neg =
  if 0 <? occ then FromCmd (Z.of_nat occ)
  else if 0 <? neg then FromCmd 0%Z
  else if nonempty (env_get e (t_env t))
       then match env_word (env_get e (t_env t)) with Some true => FromEnv 1%Z | Some false => FromEnv 0%Z | None => BadEnv end
       else FromDefault (t_def t).
Proof. exact (toggle_rank truthy falsy). Qed.
Print Assumptions C03_toggle_rank.

(* "for multi-options: split at `;`": the getline loop is the structural split at ';' with one empty last piece dropped
   ("a;b;" = "a;b", "" = no element); the pieces glue back to the value and none contains ';' *)
Theorem C03_multi_env_split : forall sep s, getlines sep s [] false = drop_last_empty (split1 sep s).
Proof. exact getlines_spec. Qed.
Print Assumptions C03_multi_env_split.
Theorem C03_split_lossless : forall sep s, intercalate [sep] (split1 sep s) = s.
Proof. exact split1_intercalate. Qed.
Print Assumptions C03_split_lossless.
Theorem C03_split_pieces_clean : forall sep s, Forall (fun p => ~ In sep p) (split1 sep s).
Proof. exact split1_clean. Qed.
Print Assumptions C03_split_pieces_clean.

(* parsing fails for a required option without any source (and only then, as far as sources go) *)
Theorem C03_required_missing_fails : forall d e items tail,
  assign d e items tail = Err UserError <->
  (exists i o, nth_error (d_opts d) i = Some o /\ src_bad (opt_source e o (opt_values i items)) = true) \/
  (exists i o, nth_error (d_multis d) i = Some o /\ src_bad (multi_source e o (multi_values i items)) = true) \/
  (exists j t, nth_error (d_toggles d) j = Some t /\ src_bad (toggle_source truthy falsy e t (occurrences j items) (negations j items)) = true).
Proof. exact (assignment_fails_iff truthy falsy). Qed.
Print Assumptions C03_required_missing_fails.
Theorem C03_opt_missing_iff : forall e o given,
  src_bad (opt_source e o given) = true <-> given = [] /\ nonempty (env_get e (o_env o)) = false /\ o_def o = None /\ o_opt o = false.
Proof. exact opt_missing_iff. Qed.
Print Assumptions C03_opt_missing_iff.
Theorem C03_multi_missing_iff : forall e o given,
  src_bad (multi_source e o given) = true <-> given = [] /\ nonempty (env_get e (m_env o)) = false /\ m_def o = None /\ m_opt o = false.
Proof. exact multi_missing_iff. Qed.
Print Assumptions C03_multi_missing_iff.

(* provided exactly when the value came from the command line or the environment *)
Theorem C03_provided_iff_cmdline_or_env : forall d e items tail r,
  assign d e items tail = Ok r ->
  r_provided r =
     map fst (filter (fun p => src_provided (snd p)) (mapi (fun i o => (o_name o, opt_source e o (opt_values i items))) 0 (d_opts d)))
  ++ map fst (filter (fun p => src_provided (snd p)) (mapi (fun i o => (m_name o, multi_source e o (multi_values i items))) 0 (d_multis d)))
  ++ map fst (filter (fun p => src_provided (snd p)) (mapi (fun i t => (t_name t, toggle_source truthy falsy e t (occurrences i items) (negations i items))) 0 (d_toggles d))).
Proof. exact (assignment_provided truthy falsy). Qed.
Print Assumptions C03_provided_iff_cmdline_or_env.

(* the model's parse computes exactly this (the transfer from the spec to the parser) *)
Theorem C03_parse_is_spec : forall d e st args,
  wf_decl d = true -> no_clash d = true -> aligned d st -> snd (parse d e st args) = spec d e args.
Proof. exact (parse_refines truthy falsy). Qed.
Print Assumptions C03_parse_is_spec.

Module Examples.
Import Strings.String.
Local Open Scope string_scope.
(* environment value delivered verbatim although it looks like an option: --a=b (pre-repair: re-read as a token, giving b) *)
Example C03_ex_env_verbatim :
  opt_source (fun _ => Some (B "--a=b")) {| o_name := B "out"; o_short := None; o_env := Some (B "N_X"); o_def := Some (B "d"); o_opt := false |} []
  = FromEnv (B "--a=b").
Proof. reflexivity. Qed.
Example C03_ex_env_empty_falls_to_default :
  opt_source (fun _ => Some []) {| o_name := B "out"; o_short := None; o_env := Some (B "N_X"); o_def := Some (B "d"); o_opt := false |} []
  = FromDefault (B "d").
Proof. reflexivity. Qed.
Example C03_ex_multi_env_split :
  multi_source (fun _ => Some (B "a;;-5;")) {| m_name := B "inc"; m_short := None; m_env := Some (B "N_X"); m_def := None; m_opt := false |} []
  = FromEnv [B "a"; []; B "-5"].
Proof. reflexivity. Qed.
End Examples.

(* Property C03 — statements follow. *)
From Nitro Require Import Opt.Run.

(* Property C16 — hashing agrees with equality, and comparison with the member tuple.
   Only statements here; every proof is `exact <lemma>` into Misc/HashProofs.v.

   The five constants of the code (hp: magic number and shift amounts of hash_combine_impl, initial seeds of
   hash(tuple) / hash(variant)) are universally quantified too: every clause holds for ALL admissible constants
   (`hp_ok`: 64-bit words, shifts below 64 — only the two seed bounds are ever used); the instance the check runs
   with is built from the regenerated Gen/GenHash.v (Misc/HashInst.v), and Tie_C16 shows it is admissible.
   The leaf type, std::hash on leaves (h), == and < on leaves (leqb, lltb) are universally quantified; what is
   assumed about them is the premise `leaf_ok` (== is an equivalence, exactly one of <, ==, > holds, < is
   transitive, equal leaves hash equal).  `cmp_shape x y` says that x and y are two values of one C++ type whose
   operators compare values (same shape, no smart pointer inside). *)
From Coq Require Import List Bool Arith NArith.
From Nitro Require Import Misc.Hash Misc.HashSpec Misc.TupleOrder Misc.HashProofs Misc.HashInst.
Import ListNotations.
Local Open Scope list_scope.

(* equal values hash equal — tuples, pairs, variants, pointers, tuple_operators types, in every nesting *)
Theorem C16_hash_respects_eq : forall (leaf : Type) (hp : hparams) (h : leaf -> N) (leqb lltb : leaf -> leaf -> bool),
  leaf_ok leaf h leqb lltb ->
  forall x y : value leaf, veqb leaf leqb x y = true -> hash leaf hp h x = hash leaf hp h y.
Proof. exact hash_respects_eq. Qed.
Print Assumptions C16_hash_respects_eq.

(* the hash (and ==) of a value does not depend on the OWNERSHIP FORM of the smart pointers in it: made by make_shared /
   make_unique, a copy of another shared_ptr, adopted from new, a non-owning alias (aliasing constructor with an empty
   owner: non-null, use_count() == 0), an owning alias, converted from a unique_ptr, moved — at any depth, any number
   of pointers at once (f maps every old form to any new one).  No premise at all *)
Theorem C16_hash_does_not_depend_on_ownership_form : forall (leaf : Type) (hp : hparams) (h : leaf -> N) (f : own -> own) (x : value leaf),
  hash leaf hp h (retag f x) = hash leaf hp h x /\
  forall (leqb : leaf -> leaf -> bool) (y : value leaf), veqb leaf leqb (retag f x) y = veqb leaf leqb x y.
Proof. intros leaf hp h f x. split; [exact (hash_retag leaf hp h f x) | intros leqb y; exact (veqb_retag_l leaf leqb f x y)]. Qed.
Print Assumptions C16_hash_does_not_depend_on_ownership_form.

(* two values that are the same once all ownership forms are forgotten (each pointer may differ independently) hash equal *)
Theorem C16_hash_same_up_to_ownership : forall (leaf : Type) (hp : hparams) (h : leaf -> N) (x y : value leaf),
  erase_own x = erase_own y -> hash leaf hp h x = hash leaf hp h y.
Proof. exact hash_same_up_to_ownership. Qed.
Print Assumptions C16_hash_same_up_to_ownership.

(* every hash is a 64-bit word: the model's explicit `mod 2^64` arithmetic never leaves std::size_t *)
Theorem C16_hash_is_word : forall (leaf : Type) (hp : hparams) (h : leaf -> N), hp_ok hp = true ->
  forall x : value leaf, (hash leaf hp h x < 2 ^ 64)%N.
Proof. exact hash_lt_W. Qed.
Print Assumptions C16_hash_is_word.

(* hash_combine with a fixed seed is injective in the combined value, for ANY magic number and shift amounts *)
Theorem C16_combine_injective_in_value : forall c a b seed v1 v2 : N,
  (v1 < 2 ^ 64)%N -> (v2 < 2 ^ 64)%N -> combine_with c a b seed v1 = combine_with c a b seed v2 -> v1 = v2.
Proof. exact combine_with_injective. Qed.
Print Assumptions C16_combine_injective_in_value.

(* hence: changing the LAST component of a tuple / member tuple to one with another hash changes the hash *)
Theorem C16_last_component_sensitive : forall (leaf : Type) (hp : hparams) (h : leaf -> N), hp_ok hp = true ->
  forall (l : list (value leaf)) (x y : value leaf),
  hash leaf hp h x <> hash leaf hp h y ->
  hash leaf hp h (VTuple (l ++ [x])) <> hash leaf hp h (VTuple (l ++ [y])) /\
  hash leaf hp h (VObj (l ++ [x])) <> hash leaf hp h (VObj (l ++ [y])).
Proof. exact last_component_sensitive. Qed.
Print Assumptions C16_last_component_sensitive.

Theorem C16_pair_second_sensitive : forall (leaf : Type) (hp : hparams) (h : leaf -> N), hp_ok hp = true -> forall a x y : value leaf,
  hash leaf hp h x <> hash leaf hp h y -> hash leaf hp h (VPair a x) <> hash leaf hp h (VPair a y).
Proof. exact pair_second_sensitive. Qed.
Print Assumptions C16_pair_second_sensitive.

Theorem C16_variant_value_sensitive : forall (leaf : Type) (hp : hparams) (h : leaf -> N), hp_ok hp = true -> forall (k : nat) (x y : value leaf),
  hash leaf hp h x <> hash leaf hp h y -> hash leaf hp h (VVariant k x) <> hash leaf hp h (VVariant k y).
Proof. exact variant_value_sensitive. Qed.
Print Assumptions C16_variant_value_sensitive.

(* and for a component at ANY position: the running seed after that position differs, and both hashes are the
   same fold of the remaining components started from these two different seeds.  (Full statement of the
   property text, "changing or swapping components changes the hash", holds only "up to rare collisions" and is
   not a theorem: that the two folds stay different is NOT claimed; the correspondence run checks it on the grid.) *)
Theorem C16_component_changes_running_seed_partial :
  forall (leaf : Type) (hp : hparams) (h : leaf -> N), hp_ok hp = true ->
  forall (l : list (value leaf)) (x y : value leaf) (r : list (value leaf)),
  hash leaf hp h x <> hash leaf hp h y ->
  exists s1 s2 : N, s1 <> s2 /\
    hash leaf hp h (VTuple (l ++ x :: r)) = fold_seed leaf hp h s1 r /\ hash leaf hp h (VTuple (l ++ y :: r)) = fold_seed leaf hp h s2 r /\
    hash leaf hp h (VObj (l ++ x :: r)) = fold_seed leaf hp h s1 r /\ hash leaf hp h (VObj (l ++ y :: r)) = fold_seed leaf hp h s2 r.
Proof. exact component_changes_running_seed. Qed.
Print Assumptions C16_component_changes_running_seed_partial.

(* the hash has no history: the object carries only its members, t.hash() is recomputed from the current member
   tuple on every call.  (a) hashes taken along the way (directly or by a container) do not change the object;
   (b) the hash asked for after ANY history of hash requests, in-place member assignments and whole-object
   assignments is the hash of a freshly built object with the members the object has now *)
Theorem C16_hash_has_no_history : forall (leaf : Type) (hp : hparams) (h : leaf -> N) (ops : list (hop leaf)) (l : list (value leaf)),
  (forall seen seen', fst (hrun leaf hp h ops l seen) = fst (hrun leaf hp h (filter (is_mutation leaf) ops) l seen')) /\
  fst (hrun leaf hp h (ops ++ [HHash]) l []) = fst (hrun leaf hp h ops l []) /\
  snd (hrun leaf hp h (ops ++ [HHash]) l []) = snd (hrun leaf hp h ops l []) ++ [hash leaf hp h (VObj (fst (hrun leaf hp h ops l [])))].
Proof.
  intros leaf hp h ops l. split; [intros seen seen'; exact (hrun_members_ignore_hashes leaf hp h ops l seen seen') | exact (hash_after_history leaf hp h ops l)].
Qed.
Print Assumptions C16_hash_has_no_history.

(* so "equal values hash equal" holds for values however they came to be: a mutated object hashes like every
   value equal to its current state *)
Theorem C16_hash_after_history_respects_eq : forall (leaf : Type) (hp : hparams) (h : leaf -> N) (leqb lltb : leaf -> leaf -> bool),
  leaf_ok leaf h leqb lltb ->
  forall (ops : list (hop leaf)) (l : list (value leaf)) (y : value leaf),
  veqb leaf leqb (VObj (fst (hrun leaf hp h ops l []))) y = true ->
  snd (hrun leaf hp h (ops ++ [HHash]) l []) = snd (hrun leaf hp h ops l []) ++ [hash leaf hp h y].
Proof. exact hash_after_history_eq. Qed.
Print Assumptions C16_hash_after_history_respects_eq.

(* the six friend operators of tuple_operators<T> are the lexicographic predicates on the member lists *)
Theorem C16_six_operators_lexicographic : forall (leaf : Type) (h : leaf -> N) (leqb lltb : leaf -> leaf -> bool),
  leaf_ok leaf h leqb lltb ->
  forall l m : list (value leaf), cmp_shape leaf (VObj l) (VObj m) = true ->
  (op_lt leaf lltb (VObj l) (VObj m) = true <-> spec_lt leaf leqb lltb l m) /\
  (op_le leaf lltb (VObj l) (VObj m) = true <-> spec_lt leaf leqb lltb l m \/ spec_eq leaf leqb l m) /\
  (op_gt leaf lltb (VObj l) (VObj m) = true <-> spec_lt leaf leqb lltb m l) /\
  (op_ge leaf lltb (VObj l) (VObj m) = true <-> spec_lt leaf leqb lltb m l \/ spec_eq leaf leqb l m) /\
  (op_eq leaf leqb (VObj l) (VObj m) = true <-> spec_eq leaf leqb l m) /\
  (op_ne leaf leqb (VObj l) (VObj m) = true <-> ~ spec_eq leaf leqb l m).
Proof. exact six_operators_lexicographic. Qed.
Print Assumptions C16_six_operators_lexicographic.

(* exactly one of <, ==, > *)
Theorem C16_trichotomy : forall (leaf : Type) (h : leaf -> N) (leqb lltb : leaf -> leaf -> bool),
  leaf_ok leaf h leqb lltb ->
  forall l m : list (value leaf), cmp_shape leaf (VObj l) (VObj m) = true ->
  exactly_one (op_lt leaf lltb (VObj l) (VObj m)) (op_eq leaf leqb (VObj l) (VObj m)) (op_gt leaf lltb (VObj l) (VObj m)).
Proof. exact op_trichotomy. Qed.
Print Assumptions C16_trichotomy.

(* the same for any two comparable values (members that are tuples, pairs, variants, nested objects) *)
Theorem C16_trichotomy_values : forall (leaf : Type) (h : leaf -> N) (leqb lltb : leaf -> leaf -> bool),
  leaf_ok leaf h leqb lltb ->
  forall x y : value leaf, cmp_shape leaf x y = true ->
  exactly_one (vltb leaf lltb x y) (veqb leaf leqb x y) (vltb leaf lltb y x).
Proof. exact trichotomy. Qed.
Print Assumptions C16_trichotomy_values.

(* < is transitive *)
Theorem C16_lt_transitive : forall (leaf : Type) (h : leaf -> N) (leqb lltb : leaf -> leaf -> bool),
  leaf_ok leaf h leqb lltb ->
  forall l m n : list (value leaf),
  cmp_shape leaf (VObj l) (VObj m) = true -> cmp_shape leaf (VObj m) (VObj n) = true -> cmp_shape leaf (VObj l) (VObj n) = true ->
  op_lt leaf lltb (VObj l) (VObj m) = true -> op_lt leaf lltb (VObj m) (VObj n) = true -> op_lt leaf lltb (VObj l) (VObj n) = true.
Proof. exact op_lt_transitive. Qed.
Print Assumptions C16_lt_transitive.

Theorem C16_lt_transitive_values : forall (leaf : Type) (h : leaf -> N) (leqb lltb : leaf -> leaf -> bool),
  leaf_ok leaf h leqb lltb ->
  forall x y z : value leaf,
  cmp_shape leaf x y = true -> cmp_shape leaf y z = true -> cmp_shape leaf x z = true ->
  vltb leaf lltb x y = true -> vltb leaf lltb y z = true -> vltb leaf lltb x z = true.
Proof. exact lt_transitive. Qed.
Print Assumptions C16_lt_transitive_values.

(* <= is < or == *)
Theorem C16_le_iff_lt_or_eq : forall (leaf : Type) (h : leaf -> N) (leqb lltb : leaf -> leaf -> bool),
  leaf_ok leaf h leqb lltb ->
  forall l m : list (value leaf), cmp_shape leaf (VObj l) (VObj m) = true ->
  op_le leaf lltb (VObj l) (VObj m) = op_lt leaf lltb (VObj l) (VObj m) || op_eq leaf leqb (VObj l) (VObj m).
Proof. exact le_iff_lt_or_eq. Qed.
Print Assumptions C16_le_iff_lt_or_eq.

(* a hash container that compares a stored key with the probe only when their hash words agree finds exactly the
   payload of the first inserted key equal to the probe, and nothing when no inserted key is equal *)
Theorem C16_unordered_lookup : forall (leaf : Type) (hp : hparams) (h : leaf -> N) (leqb lltb : leaf -> leaf -> bool),
  leaf_ok leaf h leqb lltb ->
  forall (kvs : list (value leaf * nat)) (y : value leaf),
  tfind leaf hp h leqb (tbuild leaf hp h leqb kvs) y = spec_lookup leaf leqb kvs y.
Proof. exact table_lookup. Qed.
Print Assumptions C16_unordered_lookup.

Theorem C16_unordered_found_iff_inserted : forall (leaf : Type) (hp : hparams) (h : leaf -> N) (leqb lltb : leaf -> leaf -> bool),
  leaf_ok leaf h leqb lltb ->
  forall (kvs : list (value leaf * nat)) (y : value leaf),
  tfind leaf hp h leqb (tbuild leaf hp h leqb kvs) y <> None <-> (exists k p, In (k, p) kvs /\ veqb leaf leqb k y = true).
Proof. exact table_found_iff_inserted. Qed.
Print Assumptions C16_unordered_found_iff_inserted.

(* the decidable lexicographic test the oracle runs on the implementation's answers is the specification *)
Theorem C16_oracle_is_spec : forall (leaf : Type) (leqb lltb : leaf -> leaf -> bool) (l m : list (value leaf)),
  (spec_ltb leaf leqb lltb l m = true <-> spec_lt leaf leqb lltb l m) /\
  (spec_eqb leaf leqb l m = true <-> spec_eq leaf leqb l m).
Proof. intros leaf leqb lltb l m. split; [exact (spec_ltb_iff leaf leqb lltb l m) | exact (spec_eqb_iff leaf leqb l m)]. Qed.
Print Assumptions C16_oracle_is_spec.

(* non-vacuity: leaves = 64-bit numbers with std::hash<int> (the identity), == and < of N *)
Module Examples.
Local Open Scope N_scope.
Definition nh (a : N) : N := a.
(* the constants of the pinned tree (boost's hash_combine), for the examples that quote real hash words *)
Definition boost : hparams := {| hp_magic := 2654435769; hp_shl := 6; hp_shr := 2; hp_tuple_seed := 0; hp_variant_seed := 0 |}.
Example C16_ex_boost_admissible : hp_ok boost = true.
Proof. reflexivity. Qed.
Example n_leaf_ok : leaf_ok N nh N.eqb N.ltb.
Proof.
  constructor.
  - intros a. apply N.eqb_refl.
  - intros a b H. apply N.eqb_eq in H. subst. apply N.eqb_refl.
  - intros a b c H1 H2. apply N.eqb_eq in H1. apply N.eqb_eq in H2. subst. apply N.eqb_refl.
  - intros a b. unfold exactly_one.
    destruct (N.compare_spec a b) as [E|L|G].
    + subst. right; left. rewrite N.eqb_refl, N.ltb_irrefl. auto.
    + left. repeat split; [apply N.ltb_lt; exact L | apply N.eqb_neq; intros ->; revert L; apply N.lt_irrefl | apply N.ltb_ge, N.lt_le_incl, L].
    + right; right. repeat split; [apply N.ltb_ge, N.lt_le_incl, G | apply N.eqb_neq; intros ->; revert G; apply N.lt_irrefl | apply N.ltb_lt; exact G].
  - intros a b c H1 H2. apply N.ltb_lt in H1. apply N.ltb_lt in H2. apply N.ltb_lt. eapply N.lt_trans; eassumption.
  - intros a b H. apply N.eqb_eq in H. subst. reflexivity.
Qed.

(* the words the real code produces (harness/hash_driver.cpp on the pinned tree):
   hash(std::tuple<int,int>{1,0}) = 0x00000028cd94bf1d, {0,1} = 0x00000028cd94bfd1, std::tuple<>{} = 0,
   std::variant<int,...>{1} = 0x9e3779ba, std::pair<int,int>{1,0} = 0x9e3779f8 (seeded with hash(first), not 0) *)
Example C16_ex_tuple_1_0 : hash N boost nh (VTuple [VLeaf 1; VLeaf 0]) = 175247769373.
Proof. vm_compute. reflexivity. Qed.
Example C16_ex_tuple_0_1 : hash N boost nh (VTuple [VLeaf 0; VLeaf 1]) = 175247769553.
Proof. vm_compute. reflexivity. Qed.
Example C16_ex_empty : hash N boost nh (VObj []) = 0.
Proof. reflexivity. Qed.
Example C16_ex_variant : hash N boost nh (VVariant 0 (VLeaf 1)) = 2654435770.
Proof. vm_compute. reflexivity. Qed.
Example C16_ex_pair : hash N boost nh (VPair (VLeaf 1) (VLeaf 0)) = 2654435832.
Proof. vm_compute. reflexivity. Qed.
(* nested object: Q{h, P{i, s, d}} with numeric stand-ins; comparison decided by the inner last member *)
Example C16_ex_ops :
  let x := VObj [VLeaf 7; VObj [VLeaf 1; VLeaf 2; VLeaf 3]] in
  let y := VObj [VLeaf 7; VObj [VLeaf 1; VLeaf 2; VLeaf 4]] in
  cmp_shape N x y = true /\ op_lt N N.ltb x y = true /\ op_le N N.ltb x y = true /\ op_gt N N.ltb x y = false /\
  op_ge N N.ltb x y = false /\ op_eq N N.eqb x y = false /\ op_ne N N.eqb x y = true /\ hash N boost nh x <> hash N boost nh y.
Proof. vm_compute. repeat split; discriminate. Qed.
Example C16_ex_table :
  let t := tbuild N the_params nh N.eqb [(VObj [VLeaf 1; VLeaf 2], 0%nat); (VObj [VLeaf 3; VLeaf 4], 1%nat); (VObj [VLeaf 1; VLeaf 2], 2%nat)] in
  length t = 2%nat /\ tfind N the_params nh N.eqb t (VObj [VLeaf 3; VLeaf 4]) = Some 1%nat /\ tfind N the_params nh N.eqb t (VObj [VLeaf 1; VLeaf 2]) = Some 0%nat /\
  tfind N the_params nh N.eqb t (VObj [VLeaf 2; VLeaf 1]) = None.
Proof. vm_compute. repeat split. Qed.
Example C16_ex_history :
  (* hash x; x.member1 = 9; hash x  — the second word is the hash of a fresh (1, 9), not the first word again *)
  hrun N the_params nh [HHash; HSet 1%nat (VLeaf 9); HHash] [VLeaf 1; VLeaf 0] [] =
  ([VLeaf 1; VLeaf 9], [hash N the_params nh (VObj [VLeaf 1; VLeaf 0]); hash N the_params nh (VObj [VLeaf 1; VLeaf 9])]) /\
  hash N the_params nh (VObj [VLeaf 1; VLeaf 0]) <> hash N the_params nh (VObj [VLeaf 1; VLeaf 9]).
Proof. vm_compute. split; [reflexivity | discriminate]. Qed.
(* a variant that is valueless_by_exception(): hashes to the bare seed, equals only another valueless one, is below
   every variant holding a value; inside a tuple it is a component like any other *)
Example C16_ex_valueless :
  hash N boost nh VValueless = 0 /\ veqb N N.eqb VValueless VValueless = true /\ veqb N N.eqb VValueless (VVariant 0 (VLeaf 0)) = false /\
  vltb N N.ltb VValueless (VVariant 0 (VLeaf 0)) = true /\ vltb N N.ltb (VVariant 0 (VLeaf 0)) VValueless = false /\
  hash N boost nh (VTuple [VLeaf 1; VValueless]) = hash N boost nh (VTuple [VLeaf 1; VLeaf 0]) /\
  cmp_shape N (VObj [VValueless; VLeaf 1]) (VObj [VVariant 1 (VLeaf 5); VLeaf 1]) = true.
Proof. vm_compute. repeat split. Qed.
(* a non-owning alias (aliasing constructor, empty owner) hashes like its pointee and like an owning pointer to it, alone
   and as a tuple component; the two are == *)
Example C16_ex_ownership :
  hash N boost nh (VPtr OwnAlias (VLeaf 5)) = 5 /\ hash N boost nh (VPtr OwnMake (VLeaf 5)) = 5 /\
  hash N boost nh (VTuple [VPtr OwnAlias (VLeaf 5); VLeaf 1]) = hash N boost nh (VTuple [VPtr OwnCopy (VLeaf 5); VLeaf 1]) /\ veqb N N.eqb (VPtr OwnAlias (VLeaf 5)) (VPtr OwnMake (VLeaf 5)) = true /\ erase_own (VPair (VPtr OwnAlias (VLeaf 5)) (VPtr OwnNew (VLeaf 6))) = erase_own (VPair (VPtr OwnFromUnique (VLeaf 5)) (VPtr OwnMoved (VLeaf 6))).
Proof. vm_compute. repeat split. Qed.
(* with the constants in use NOW (whatever they are): structure of the computation, no literal words *)
Example C16_ex_instance :
  hash N the_params nh (VTuple [VLeaf 1; VLeaf 0]) =
    combine the_params (combine the_params (hp_tuple_seed the_params) 1) 0 /\
  hash N the_params nh (VPair (VLeaf 1) (VLeaf 0)) = combine the_params 1 0 /\
  hash N the_params nh (VObj []) = hp_tuple_seed the_params /\ hash N the_params nh VValueless = hp_variant_seed the_params.
Proof. repeat split. Qed.
End Examples.

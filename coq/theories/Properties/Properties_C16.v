(* Property C16 — hashing agrees with equality, and comparison with the member tuple.
   Only statements here; every proof is `exact <lemma>` into Misc/HashProofs.v.

   The leaf type, std::hash on leaves (h), == and < on leaves (leqb, lltb) are universally quantified; what is
   assumed about them is the premise `leaf_ok` (== is an equivalence, exactly one of <, ==, > holds, < is
   transitive, equal leaves hash equal).  `cmp_shape x y` says that x and y are two values of one C++ type whose
   operators compare values (same shape, no smart pointer inside). *)
From Coq Require Import List Bool Arith NArith.
From Nitro Require Import Misc.Hash Misc.HashSpec Misc.TupleOrder Misc.HashProofs.
Import ListNotations.
Local Open Scope list_scope.

(* equal values hash equal — tuples, pairs, variants, pointers, tuple_operators types, in every nesting *)
Theorem C16_hash_respects_eq : forall (leaf : Type) (h : leaf -> N) (leqb lltb : leaf -> leaf -> bool),
  leaf_ok leaf h leqb lltb ->
  forall x y : value leaf, veqb leaf leqb x y = true -> hash leaf h x = hash leaf h y.
Proof. exact hash_respects_eq. Qed.
Print Assumptions C16_hash_respects_eq.

(* every hash is a 64-bit word: the model's explicit `mod 2^64` arithmetic never leaves std::size_t *)
Theorem C16_hash_is_word : forall (leaf : Type) (h : leaf -> N) (x : value leaf), (hash leaf h x < 2 ^ 64)%N.
Proof. exact hash_lt_W. Qed.
Print Assumptions C16_hash_is_word.

(* hash_combine with a fixed seed is injective in the combined value, for ANY magic number and shift amounts *)
Theorem C16_combine_injective_in_value : forall c a b seed v1 v2 : N,
  (v1 < 2 ^ 64)%N -> (v2 < 2 ^ 64)%N -> combine_with c a b seed v1 = combine_with c a b seed v2 -> v1 = v2.
Proof. exact combine_with_injective. Qed.
Print Assumptions C16_combine_injective_in_value.

(* hence: changing the LAST component of a tuple / member tuple to one with another hash changes the hash *)
Theorem C16_last_component_sensitive : forall (leaf : Type) (h : leaf -> N) (l : list (value leaf)) (x y : value leaf),
  hash leaf h x <> hash leaf h y ->
  hash leaf h (VTuple (l ++ [x])) <> hash leaf h (VTuple (l ++ [y])) /\
  hash leaf h (VObj (l ++ [x])) <> hash leaf h (VObj (l ++ [y])).
Proof. exact last_component_sensitive. Qed.
Print Assumptions C16_last_component_sensitive.

Theorem C16_pair_second_sensitive : forall (leaf : Type) (h : leaf -> N) (a x y : value leaf),
  hash leaf h x <> hash leaf h y -> hash leaf h (VPair a x) <> hash leaf h (VPair a y).
Proof. exact pair_second_sensitive. Qed.
Print Assumptions C16_pair_second_sensitive.

Theorem C16_variant_value_sensitive : forall (leaf : Type) (h : leaf -> N) (k : nat) (x y : value leaf),
  hash leaf h x <> hash leaf h y -> hash leaf h (VVariant k x) <> hash leaf h (VVariant k y).
Proof. exact variant_value_sensitive. Qed.
Print Assumptions C16_variant_value_sensitive.

(* and for a component at ANY position: the running seed after that position differs, and both hashes are the
   same fold of the remaining components started from these two different seeds.  (Full statement of the
   property text, "changing or swapping components changes the hash", holds only "up to rare collisions" and is
   not a theorem: that the two folds stay different is NOT claimed; the correspondence run checks it on the grid.) *)
Theorem C16_component_changes_running_seed_partial :
  forall (leaf : Type) (h : leaf -> N) (l : list (value leaf)) (x y : value leaf) (r : list (value leaf)),
  hash leaf h x <> hash leaf h y ->
  exists s1 s2 : N, s1 <> s2 /\
    hash leaf h (VTuple (l ++ x :: r)) = fold_seed leaf h s1 r /\ hash leaf h (VTuple (l ++ y :: r)) = fold_seed leaf h s2 r /\
    hash leaf h (VObj (l ++ x :: r)) = fold_seed leaf h s1 r /\ hash leaf h (VObj (l ++ y :: r)) = fold_seed leaf h s2 r.
Proof. exact component_changes_running_seed. Qed.
Print Assumptions C16_component_changes_running_seed_partial.

(* the hash has no history: the object carries only its members, t.hash() is recomputed from the current member
   tuple on every call.  (a) hashes taken along the way (directly or by a container) do not change the object;
   (b) the hash asked for after ANY history of hash requests, in-place member assignments and whole-object
   assignments is the hash of a freshly built object with the members the object has now *)
Theorem C16_hash_has_no_history : forall (leaf : Type) (h : leaf -> N) (ops : list (hop leaf)) (l : list (value leaf)),
  (forall seen seen', fst (hrun leaf h ops l seen) = fst (hrun leaf h (filter (is_mutation leaf) ops) l seen')) /\
  fst (hrun leaf h (ops ++ [HHash]) l []) = fst (hrun leaf h ops l []) /\
  snd (hrun leaf h (ops ++ [HHash]) l []) = snd (hrun leaf h ops l []) ++ [hash leaf h (VObj (fst (hrun leaf h ops l [])))].
Proof.
  intros leaf h ops l. split; [intros seen seen'; exact (hrun_members_ignore_hashes leaf h ops l seen seen') | exact (hash_after_history leaf h ops l)].
Qed.
Print Assumptions C16_hash_has_no_history.

(* so "equal values hash equal" holds for values however they came to be: a mutated object hashes like every
   value equal to its current state *)
Theorem C16_hash_after_history_respects_eq : forall (leaf : Type) (h : leaf -> N) (leqb lltb : leaf -> leaf -> bool),
  leaf_ok leaf h leqb lltb ->
  forall (ops : list (hop leaf)) (l : list (value leaf)) (y : value leaf),
  veqb leaf leqb (VObj (fst (hrun leaf h ops l []))) y = true ->
  snd (hrun leaf h (ops ++ [HHash]) l []) = snd (hrun leaf h ops l []) ++ [hash leaf h y].
Proof. exact hash_after_history_eq. Qed.
Print Assumptions C16_hash_after_history_respects_eq.

(* the six friend operators of tuple_operators<T> are the lexicographic predicates on the member lists *)
Theorem C16_six_operators_lexicographic : forall (leaf : Type) (h : leaf -> N) (leqb lltb : leaf -> leaf -> bool),
  leaf_ok leaf h leqb lltb ->
  forall l m : list (value leaf), cmp_shape leaf (VObj l) (VObj m) = true ->
  (op_lt leaf lltb (VObj l) (VObj m) = true <-> spec_lt leaf leqb lltb l m) /\
  (op_le leaf lltb (VObj l) (VObj m) = true <-> spec_lt leaf leqb lltb l m \/ spec_eq leaf leqb l m) /\
  (op_gt leaf lltb (VObj l) (VObj m) = true <-> spec_lt leaf leqb lltb m l) /\
  (op_ge leaf lltb (VObj l) (VObj m) = true <-> spec_lt leaf leqb lltb m l \/ spec_eq leaf leqb l m) /\
  (op_eq leaf leqb (VObj l) (VObj m) = true <-> spec_eq leaf leqb l m) /\
  (op_ne leaf leqb (VObj l) (VObj m) = true <-> ~ spec_eq leaf leqb l m).
Proof. exact six_operators_lexicographic. Qed.
Print Assumptions C16_six_operators_lexicographic.

(* exactly one of <, ==, > *)
Theorem C16_trichotomy : forall (leaf : Type) (h : leaf -> N) (leqb lltb : leaf -> leaf -> bool),
  leaf_ok leaf h leqb lltb ->
  forall l m : list (value leaf), cmp_shape leaf (VObj l) (VObj m) = true ->
  exactly_one (op_lt leaf lltb (VObj l) (VObj m)) (op_eq leaf leqb (VObj l) (VObj m)) (op_gt leaf lltb (VObj l) (VObj m)).
Proof. exact op_trichotomy. Qed.
Print Assumptions C16_trichotomy.

(* the same for any two comparable values (members that are tuples, pairs, variants, nested objects) *)
Theorem C16_trichotomy_values : forall (leaf : Type) (h : leaf -> N) (leqb lltb : leaf -> leaf -> bool),
  leaf_ok leaf h leqb lltb ->
  forall x y : value leaf, cmp_shape leaf x y = true ->
  exactly_one (vltb leaf lltb x y) (veqb leaf leqb x y) (vltb leaf lltb y x).
Proof. exact trichotomy. Qed.
Print Assumptions C16_trichotomy_values.

(* < is transitive *)
Theorem C16_lt_transitive : forall (leaf : Type) (h : leaf -> N) (leqb lltb : leaf -> leaf -> bool),
  leaf_ok leaf h leqb lltb ->
  forall l m n : list (value leaf),
  cmp_shape leaf (VObj l) (VObj m) = true -> cmp_shape leaf (VObj m) (VObj n) = true -> cmp_shape leaf (VObj l) (VObj n) = true ->
  op_lt leaf lltb (VObj l) (VObj m) = true -> op_lt leaf lltb (VObj m) (VObj n) = true -> op_lt leaf lltb (VObj l) (VObj n) = true.
Proof. exact op_lt_transitive. Qed.
Print Assumptions C16_lt_transitive.

Theorem C16_lt_transitive_values : forall (leaf : Type) (h : leaf -> N) (leqb lltb : leaf -> leaf -> bool),
  leaf_ok leaf h leqb lltb ->
  forall x y z : value leaf,
  cmp_shape leaf x y = true -> cmp_shape leaf y z = true -> cmp_shape leaf x z = true ->
  vltb leaf lltb x y = true -> vltb leaf lltb y z = true -> vltb leaf lltb x z = true.
Proof. exact lt_transitive. Qed.
Print Assumptions C16_lt_transitive_values.

(* <= is < or == *)
Theorem C16_le_iff_lt_or_eq : forall (leaf : Type) (h : leaf -> N) (leqb lltb : leaf -> leaf -> bool),
  leaf_ok leaf h leqb lltb ->
  forall l m : list (value leaf), cmp_shape leaf (VObj l) (VObj m) = true ->
  op_le leaf lltb (VObj l) (VObj m) = op_lt leaf lltb (VObj l) (VObj m) || op_eq leaf leqb (VObj l) (VObj m).
Proof. exact le_iff_lt_or_eq. Qed.
Print Assumptions C16_le_iff_lt_or_eq.

(* a hash container that compares a stored key with the probe only when their hash words agree finds exactly the
   payload of the first inserted key equal to the probe, and nothing when no inserted key is equal *)
Theorem C16_unordered_lookup : forall (leaf : Type) (h : leaf -> N) (leqb lltb : leaf -> leaf -> bool),
  leaf_ok leaf h leqb lltb ->
  forall (kvs : list (value leaf * nat)) (y : value leaf),
  tfind leaf h leqb (tbuild leaf h leqb kvs) y = spec_lookup leaf leqb kvs y.
Proof. exact table_lookup. Qed.
Print Assumptions C16_unordered_lookup.

Theorem C16_unordered_found_iff_inserted : forall (leaf : Type) (h : leaf -> N) (leqb lltb : leaf -> leaf -> bool),
  leaf_ok leaf h leqb lltb ->
  forall (kvs : list (value leaf * nat)) (y : value leaf),
  tfind leaf h leqb (tbuild leaf h leqb kvs) y <> None <-> (exists k p, In (k, p) kvs /\ veqb leaf leqb k y = true).
Proof. exact table_found_iff_inserted. Qed.
Print Assumptions C16_unordered_found_iff_inserted.

(* the decidable lexicographic test the oracle runs on the implementation's answers is the specification *)
Theorem C16_oracle_is_spec : forall (leaf : Type) (leqb lltb : leaf -> leaf -> bool) (l m : list (value leaf)),
  (spec_ltb leaf leqb lltb l m = true <-> spec_lt leaf leqb lltb l m) /\
  (spec_eqb leaf leqb l m = true <-> spec_eq leaf leqb l m).
Proof. intros leaf leqb lltb l m. split; [exact (spec_ltb_iff leaf leqb lltb l m) | exact (spec_eqb_iff leaf leqb l m)]. Qed.
Print Assumptions C16_oracle_is_spec.

(* non-vacuity: leaves = 64-bit numbers with std::hash<int> (the identity), == and < of N *)
Module Examples.
Local Open Scope N_scope.
Definition nh (a : N) : N := a.
Example n_leaf_ok : leaf_ok N nh N.eqb N.ltb.
Proof.
  constructor.
  - intros a. apply N.eqb_refl.
  - intros a b H. apply N.eqb_eq in H. subst. apply N.eqb_refl.
  - intros a b c H1 H2. apply N.eqb_eq in H1. apply N.eqb_eq in H2. subst. apply N.eqb_refl.
  - intros a b. unfold exactly_one.
    destruct (N.compare_spec a b) as [E|L|G].
    + subst. right; left. rewrite N.eqb_refl, N.ltb_irrefl. auto.
    + left. repeat split; [apply N.ltb_lt; exact L | apply N.eqb_neq; intros ->; revert L; apply N.lt_irrefl | apply N.ltb_ge, N.lt_le_incl, L].
    + right; right. repeat split; [apply N.ltb_ge, N.lt_le_incl, G | apply N.eqb_neq; intros ->; revert G; apply N.lt_irrefl | apply N.ltb_lt; exact G].
  - intros a b c H1 H2. apply N.ltb_lt in H1. apply N.ltb_lt in H2. apply N.ltb_lt. eapply N.lt_trans; eassumption.
  - intros a b H. apply N.eqb_eq in H. subst. reflexivity.
Qed.

(* the words the real code produces (harness/hash_driver.cpp on the pinned tree):
   hash(std::tuple<int,int>{1,0}) = 0x00000028cd94bf1d, {0,1} = 0x00000028cd94bfd1, std::tuple<>{} = 0,
   std::variant<int,...>{1} = 0x9e3779ba, std::pair<int,int>{1,0} = 0x9e3779f8 (seeded with hash(first), not 0) *)
Example C16_ex_tuple_1_0 : hash N nh (VTuple [VLeaf 1; VLeaf 0]) = 175247769373.
Proof. vm_compute. reflexivity. Qed.
Example C16_ex_tuple_0_1 : hash N nh (VTuple [VLeaf 0; VLeaf 1]) = 175247769553.
Proof. vm_compute. reflexivity. Qed.
Example C16_ex_empty : hash N nh (VObj []) = 0.
Proof. reflexivity. Qed.
Example C16_ex_variant : hash N nh (VVariant 0 (VLeaf 1)) = 2654435770.
Proof. vm_compute. reflexivity. Qed.
Example C16_ex_pair : hash N nh (VPair (VLeaf 1) (VLeaf 0)) = 2654435832.
Proof. vm_compute. reflexivity. Qed.
(* nested object: Q{h, P{i, s, d}} with numeric stand-ins; comparison decided by the inner last member *)
Example C16_ex_ops :
  let x := VObj [VLeaf 7; VObj [VLeaf 1; VLeaf 2; VLeaf 3]] in
  let y := VObj [VLeaf 7; VObj [VLeaf 1; VLeaf 2; VLeaf 4]] in
  cmp_shape N x y = true /\ op_lt N N.ltb x y = true /\ op_le N N.ltb x y = true /\ op_gt N N.ltb x y = false /\
  op_ge N N.ltb x y = false /\ op_eq N N.eqb x y = false /\ op_ne N N.eqb x y = true /\ hash N nh x <> hash N nh y.
Proof. vm_compute. repeat split; discriminate. Qed.
Example C16_ex_table :
  let t := tbuild N nh N.eqb [(VObj [VLeaf 1; VLeaf 2], 0%nat); (VObj [VLeaf 3; VLeaf 4], 1%nat); (VObj [VLeaf 1; VLeaf 2], 2%nat)] in
  length t = 2%nat /\ tfind N nh N.eqb t (VObj [VLeaf 3; VLeaf 4]) = Some 1%nat /\ tfind N nh N.eqb t (VObj [VLeaf 1; VLeaf 2]) = Some 0%nat /\
  tfind N nh N.eqb t (VObj [VLeaf 2; VLeaf 1]) = None.
Proof. vm_compute. repeat split. Qed.
Example C16_ex_history :
  (* hash x; x.member1 = 9; hash x  — the second word is the hash of a fresh (1, 9), not the first word again *)
  hrun N nh [HHash; HSet 1%nat (VLeaf 9); HHash] [VLeaf 1; VLeaf 0] [] =
  ([VLeaf 1; VLeaf 9], [hash N nh (VObj [VLeaf 1; VLeaf 0]); hash N nh (VObj [VLeaf 1; VLeaf 9])]) /\
  hash N nh (VObj [VLeaf 1; VLeaf 0]) <> hash N nh (VObj [VLeaf 1; VLeaf 9]).
Proof. vm_compute. split; [reflexivity | discriminate]. Qed.
(* a variant that is valueless_by_exception(): hashes to the bare seed, equals only another valueless one, is below
   every variant holding a value; inside a tuple it is a component like any other *)
Example C16_ex_valueless :
  hash N nh VValueless = 0 /\ veqb N N.eqb VValueless VValueless = true /\ veqb N N.eqb VValueless (VVariant 0 (VLeaf 0)) = false /\
  vltb N N.ltb VValueless (VVariant 0 (VLeaf 0)) = true /\ vltb N N.ltb (VVariant 0 (VLeaf 0)) VValueless = false /\
  hash N nh (VTuple [VLeaf 1; VValueless]) = hash N nh (VTuple [VLeaf 1; VLeaf 0]) /\
  cmp_shape N (VObj [VValueless; VLeaf 1]) (VObj [VVariant 1 (VLeaf 5); VLeaf 1]) = true.
Proof. vm_compute. repeat split. Qed.
End Examples.

(* Property C20 — enumerate and reverse visit every element once, in the right order, in place.
   Only statements here; every proof is `exact <lemma>` into Misc/IterProofs.v.

   `Done r` means: the range-for loop ended within length+1 tests of `b != e` (it terminates after exactly
   `length c` iterations, also for an empty range) and never dereferenced an iterator that does not point at an
   element; r is (visits, container contents afterwards). *)
From Coq Require Import List Arith Bool.
From Nitro Require Import Base.ListX Misc.Iter Misc.IterProofs.
Import ListNotations.
Local Open Scope list_scope.

(* enumerate over an lvalue range whose body assigns f index value through the proxy:
   visits = (0,c0), (1,c1), ... and the container ends as [f 0 c0; f 1 c1; ...] *)
Theorem C20_enumerate_visits : forall (A : Type) (f : nat -> A -> A) (c : list A),
  enumerate_for A f c = Done (combine (seq 0 (length c)) c, map (fun p => f (fst p) (snd p)) (combine (seq 0 (length c)) c)).
Proof. exact enumerate_for_spec. Qed.
Print Assumptions C20_enumerate_visits.

(* said separately: the indices are 0,1,2,... and the values are the elements, each once, in order *)
Theorem C20_enumerate_indices_and_values : forall (A : Type) (f : nat -> A -> A) (c : list A) vs c',
  enumerate_for A f c = Done (vs, c') -> map fst vs = seq 0 (length c) /\ map snd vs = c.
Proof. exact enumerate_visits_indices. Qed.
Print Assumptions C20_enumerate_indices_and_values.

(* write-through: a body that assigns g value leaves map g c; a read-only body leaves c *)
Theorem C20_enumerate_write_through : forall (A : Type) (g : A -> A) (c : list A),
  enumerate_for A (fun _ v => g v) c = Done (combine (seq 0 (length c)) c, map g c).
Proof. intros A g c. rewrite enumerate_for_spec, enumerate_write_through. reflexivity. Qed.
Print Assumptions C20_enumerate_write_through.

Theorem C20_enumerate_read_only : forall (A : Type) (c : list A),
  enumerate_for A (fun _ v => v) c = Done (combine (seq 0 (length c)) c, c).
Proof. intros A c. rewrite enumerate_for_spec, enumerate_read_only. reflexivity. Qed.
Print Assumptions C20_enumerate_read_only.

(* temporaries, moved ranges, initializer lists: the adaptor owns the elements for the whole loop *)
Theorem C20_enumerate_rvalue : forall (A : Type) (c : list A),
  enumerate_rvalue A c = Done (combine (seq 0 (length c)) c).
Proof. exact enumerate_rvalue_spec. Qed.
Print Assumptions C20_enumerate_rvalue.

(* reverse: exactly the opposite order, and writes land in the container *)
Theorem C20_reverse_visits : forall (A : Type) (f : A -> A) (c : list A),
  reverse_for A f c = Done (rev c, map f c).
Proof. exact reverse_for_spec. Qed.
Print Assumptions C20_reverse_visits.

Theorem C20_reverse_rvalue : forall (A : Type) (c : list A), reverse_rvalue A c = Done (rev c).
Proof. exact reverse_rvalue_spec. Qed.
Print Assumptions C20_reverse_rvalue.

(* built-in arrays go through a vector of references: same visits, and writes reach the array *)
Theorem C20_reverse_array : forall (A : Type) (f : A -> A) (c : list A),
  reverse_array_for A f c = Done (rev c, map f c).
Proof. exact reverse_array_for_spec. Qed.
Print Assumptions C20_reverse_array.

(* an adaptor has no state that survives between uses: it holds the range's iterators (or the owned elements)
   and nothing else, so the loop is a function of the range only.  Iterating the same adaptor twice, nesting loops
   over the same container, iterating an adaptor created before the elements were changed in place (size
   unchanged), and asking begin() != end() repeatedly all give what a fresh adaptor gives *)
Theorem C20_same_adaptor_twice : forall (A : Type) (c : list A),
  enumerate_twice A c = Done (combine (seq 0 (length c)) c, combine (seq 0 (length c)) c) /\
  reverse_twice A c = Done (rev c, rev c).
Proof. intros A c. split; [exact (enumerate_twice_spec A c) | exact (reverse_twice_spec A c)]. Qed.
Print Assumptions C20_same_adaptor_twice.

(* ... and any number of times: k range-for statements over ONE named adaptor object (begin()/end() do not consume
   it).  Read-only passes all visit the same sequence and leave the range alone; with writing passes, pass j visits the
   whole range as pass j-1 left it, indices from 0 again *)
Theorem C20_same_adaptor_k_passes : forall (A : Type) (k : nat) (c : list A),
  enumerate_passes A (repeat (keep_e A) k) c = Done (repeat (combine (seq 0 (length c)) c) k, c) /\
  reverse_passes A (repeat (keep_r A) k) c = Done (repeat (rev c) k, c).
Proof. intros A k c. split; [exact (enumerate_passes_read_only A k c) | exact (reverse_passes_read_only A k c)]. Qed.
Print Assumptions C20_same_adaptor_k_passes.

Theorem C20_same_adaptor_passes_with_writes : forall (A : Type) (c : list A),
  (forall fs : list (nat -> A -> A), enumerate_passes A fs c = Done (spec_enumerate_passes fs c)) /\ (forall fs : list (A -> A), reverse_passes A fs c = Done (spec_reverse_passes fs c)).
Proof. intros A c. split; intros fs; [exact (enumerate_passes_spec A fs c) | exact (reverse_passes_spec A fs c)]. Qed.
Print Assumptions C20_same_adaptor_passes_with_writes.

Theorem C20_nested_loops : forall (A : Type) (c : list A),
  enumerate_nested A c = Done (map (fun p => (p, Done (combine (seq 0 (length c)) c))) (combine (seq 0 (length c)) c)) /\
  enumerate_reverse_nested A c = Done (map (fun p => (p, Done (rev c))) (combine (seq 0 (length c)) c)).
Proof. intros A c. split; [exact (enumerate_nested_spec A c) | exact (enumerate_reverse_nested_spec A c)]. Qed.
Print Assumptions C20_nested_loops.

Theorem C20_adaptor_created_before_modification : forall (A : Type) (g : A -> A) (c : list A),
  enumerate_after_modify A g c = Done (combine (seq 0 (length (map g c))) (map g c), map g c) /\
  reverse_after_modify A g c = Done (rev (map g c), map g c).
Proof. intros A g c. split; [exact (enumerate_after_modify_spec A g c) | exact (reverse_after_modify_spec A g c)]. Qed.
Print Assumptions C20_adaptor_created_before_modification.

Theorem C20_begin_end_repeatable : forall (A : Type) (c : list A),
  enumerate_nonempty_test A c = negb (length c =? 0) /\ reverse_nonempty_test A c = negb (length c =? 0).
Proof. exact nonempty_tests_spec. Qed.
Print Assumptions C20_begin_end_repeatable.

(* TWO ranges alive at once are independent.  The body of a loop over an adaptor of a may run any code `inner`
   using another container b (typically a whole loop over an adaptor of b) before it writes through its own
   element.  (i) Whatever `inner` does — even if it writes b — the outer loop visits exactly a's elements (opposite
   order / with indices 0,1,2,...) and a ends as the pointwise image; (ii) if `inner` only reads b, b is unchanged
   afterwards and every outer visit sees the same inner observation *)
Theorem C20_two_ranges_outer_sees_only_its_own : forall (A O : Type) (inner : list A -> list A * O) (a b : list A),
  (forall f : A -> A, exists vis b', reverse_for2 A O inner f a b = Done (vis, map f a, b') /\ map fst vis = rev a) /\
  (forall f : nat -> A -> A, exists vis b', enumerate_for2 A O inner f a b =
       Done (vis, map (fun p => f (fst p) (snd p)) (combine (seq 0 (length a)) a), b') /\ map fst vis = combine (seq 0 (length a)) a).
Proof.
  intros A O inner a b. split; intros f; [exact (reverse_for2_any A O inner f a b) | exact (enumerate_for2_any A O inner f a b)].
Qed.
Print Assumptions C20_two_ranges_outer_sees_only_its_own.

Theorem C20_two_ranges_other_unchanged : forall (A O : Type) (inner : list A -> list A * O) (a b : list A),
  (forall b, fst (inner b) = b) ->
  (forall f : A -> A, reverse_for2 A O inner f a b = Done (map (fun v => (v, snd (inner b))) (rev a), map f a, b)) /\
  (forall f : nat -> A -> A, enumerate_for2 A O inner f a b =
       Done (map (fun p => (p, snd (inner b))) (combine (seq 0 (length a)) a),
             map (fun p => f (fst p) (snd p)) (combine (seq 0 (length a)) a), b)).
Proof.
  intros A O inner a b RO. split; intros f; [exact (reverse_for2_readonly A O inner f a b RO) | exact (enumerate_for2_readonly A O inner f a b RO)].
Qed.
Print Assumptions C20_two_ranges_other_unchanged.

(* an owning adaptor is a value: a copied / moved adaptor shows its OWN elements whatever the source owns afterwards,
   and the source shows what it owns then *)
Theorem C20_owning_adaptor_is_a_value : forall (A : Type) (owned src_after : list A),
  iterate_copy_and_source_enumerate A owned src_after = (Done (combine (seq 0 (length owned)) owned), Done (combine (seq 0 (length src_after)) src_after)) /\
  iterate_copy_and_source_reverse A owned src_after = (Done (rev owned), Done (rev src_after)).
Proof.
  intros A owned src_after. unfold iterate_copy_and_source_enumerate, iterate_copy_and_source_reverse, relocate.
  rewrite !enumerate_rvalue_spec, !reverse_rvalue_spec. split; reflexivity.
Qed.
Print Assumptions C20_owning_adaptor_is_a_value.

(* manual iteration with it++ (using the old value it returns) is the same loop as with ++it / range-for *)
Theorem C20_post_increment_same_loop : forall (A : Type) (fuel : nat) (f : nat -> A -> A) (c : list A) (b e : eiter) visits,
  e_loop_post A fuel f c b e visits = e_loop A fuel f c b e visits.
Proof. exact e_loop_post_same. Qed.
Print Assumptions C20_post_increment_same_loop.

(* non-vacuity *)
Module Examples.
Example C20_ex_enumerate : enumerate_for nat (fun i v => 3 * v + i + 1) [5; 6; 7] = Done ([(0, 5); (1, 6); (2, 7)], [16; 20; 24]).
Proof. reflexivity. Qed.
Example C20_ex_enumerate_empty : enumerate_for nat (fun i v => v) [] = Done ([], []).
Proof. reflexivity. Qed.
Example C20_ex_reverse : reverse_for nat (fun v => 3 * v + 7) [5; 6; 7] = Done ([7; 6; 5], [22; 25; 28]).
Proof. reflexivity. Qed.
Example C20_ex_reverse_array : reverse_array_for nat (fun v => 3 * v + 7) [5] = Done ([5], [22]).
Proof. reflexivity. Qed.
(* the fuel is tight: one test fewer and the loop over three elements has not ended *)
Example C20_ex_fuel_tight : e_loop nat 3 (fun _ v => v) [5; 6; 7] (e_begin) (e_end nat [5; 6; 7]) [] = OutOfFuel.
Proof. reflexivity. Qed.
(* an end iterator at a wrong position is a dereference past the end (what a wrong end() would be) *)
Example C20_ex_bad_end : e_loop nat 9 (fun _ v => v) [5] e_begin {| e_pos := 3; e_idx := 0 |} [] = BadDeref.
Proof. reflexivity. Qed.
Example C20_ex_twice : enumerate_twice nat [5; 6] = Done ([(0, 5); (1, 6)], [(0, 5); (1, 6)]).
Proof. reflexivity. Qed.
Example C20_ex_nested : enumerate_reverse_nested nat [5; 6] = Done [((0, 5), Done [6; 5]); ((1, 6), Done [6; 5])].
Proof. reflexivity. Qed.
(* for (x : reverse(a)) { for (y : reverse(b)) ...; x = 3x+7; }  with a = [1;2], b = [8;9] *)
Example C20_ex_two_ranges :
  reverse_for2 nat _ (fun b => (b, reverse_rvalue nat b)) (fun v => 3 * v + 7) [1; 2] [8; 9] =
  Done ([(2, Done [9; 8]); (1, Done [9; 8])], [10; 13], [8; 9]).
Proof. reflexivity. Qed.
End Examples.

(* Property C14 — parsing is repeatable: earlier parse calls never leak into later ones.  Only statements. *)
From Coq Require Import List Arith Bool ZArith.
From Coq Require Import Init.Byte.
From Nitro Require Import Base.Bytes Base.Res Opt.Token Opt.Decl Opt.ParserModel Opt.ParserCore Opt.ParserSpec Opt.Vocab Opt.Run
  Opt.RefineDefs Opt.Corollaries Opt.CoreEq Opt.History Opt.Positional Opt.Lexical Opt.Refine5 Opt.Sample.
Import ListNotations.

(* whatever state the option objects are in (any reachable state is aligned: C14_reachable_aligned), a call gives what a
   freshly built identical parser gives *)
Theorem C14_history_independent : forall d e st args, aligned d st ->
  snd (parse d e st args) = snd (parse d e (init_st d) args).
Proof. exact (history_independent truthy falsy). Qed.
Print Assumptions C14_history_independent.
Theorem C14_reachable_aligned : forall d e st args, aligned d st -> aligned d (fst (parse d e st args)).
Proof. exact (parse_g_aligned truthy falsy). Qed.
Print Assumptions C14_reachable_aligned.
(* for every history of argument vectors — successful and failing ones in any order — the k-th result on the long-lived
   object is the result of a fresh parser on the k-th vector *)
Theorem C14_run_history_fresh : forall d e hist st, aligned d st ->
  snd (history d e st hist) = map (fun args => snd (parse d e (init_st d) args)) hist.
Proof. exact (run_history_fresh truthy falsy). Qed.
Print Assumptions C14_run_history_fresh.
(* the same when the environment changes between the calls *)
Theorem C14_run_history_env_fresh : forall d hist st, aligned d st ->
  snd (run_history_env truthy falsy d st hist) = map (fun ea => snd (parse d (fst ea) (init_st d) (snd ea))) hist.
Proof. exact (run_history_env_fresh truthy falsy). Qed.
Print Assumptions C14_run_history_env_fresh.
(* hence the outcome depends only on declaration, argument vector and environment: it is the spec of that vector *)
Theorem C14_outcome_is_function_of_inputs : forall d e st args,
  wf_decl d = true -> no_clash d = true -> aligned d st -> snd (parse d e st args) = spec d e args.
Proof. exact (parse_refines truthy falsy). Qed.
Print Assumptions C14_outcome_is_function_of_inputs.

Module Examples.
Import Strings.String.
Local Open Scope string_scope.
Example C14_ex : let h := [[B "--out"; B "v"; B "-vv"]; [B "--unknown"]; [B "--out"; B "w"]; [B "-o=x"; B "--no-all"; B "p"]] in
  snd (history sample_decl sample_env (init_st sample_decl) h) = map (fun a => snd (parse sample_decl sample_env (init_st sample_decl) a)) h
  /\ map is_ok (snd (history sample_decl sample_env (init_st sample_decl) h)) = [true; false; true; true].
Proof. vm_compute. split; reflexivity. Qed.
End Examples.

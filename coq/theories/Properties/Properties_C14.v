(* Property C14 — statements follow. *)
From Nitro Require Import Opt.Run.

(* Property C02 — every spelling of a command line parses back to the assignment it spells.  Only statements. *)
From Coq Require Import List Arith Bool ZArith.
From Coq Require Import Init.Byte.
From Nitro Require Import Base.Bytes Base.Res Opt.Token Opt.Decl Opt.ParserModel Opt.ParserCore Opt.ParserSpec Opt.Vocab Opt.Run
  Opt.RefineDefs Opt.Corollaries Opt.CoreEq Opt.History Opt.Positional Opt.Lexical Opt.Refine5 Opt.Sample.
From Nitro Require Fmt.FormatProofs.
Import ListNotations.

(* For every declaration, every legal item list (any choice of --name v / --name=v / -c v / -c=v per occurrence, any bundling
   of toggle letters, any interleaving, positionals inline or after --) and every environment: parsing the rendering gives
   exactly the assignment of the items.  Values are arbitrary byte strings (str = list byte): empty, embedded '=', blanks,
   non-ASCII, strings that look like options when given through '='. *)
Theorem C02_render_parse_roundtrip : forall d e st items tail,
  wf_decl d = true -> consistent d = true -> no_clash d = true -> aligned d st ->
  wf_items d items tail = true ->
  snd (parse d e st (render d items tail)) = assign d e items tail.
Proof. exact (render_parse_roundtrip truthy falsy). Qed.
Print Assumptions C02_render_parse_roundtrip.

(* the spelling is unambiguous: a vector explains to at most one item list, and rendering that list gives the vector back *)
Theorem C02_render_explain : forall d args items tail,
  explain d false false false [] [] args = Ok (items, tail) -> render d items tail = args.
Proof. exact render_explain. Qed.
Print Assumptions C02_render_explain.
Theorem C02_explain_render : forall d items tail,
  wf_decl d = true -> consistent d = true -> no_prefix_clash d = true -> wf_items d items tail = true ->
  explain d false false false [] [] (render d items tail) = Ok (items, tail).
Proof. exact explain_render. Qed.
Print Assumptions C02_explain_render.

(* what the assignment is: value = the v given, multi list = the vs in item order, count = occurrences, positionals =
   inline ones in order followed by the tail *)
Theorem C02_assignment_is_the_aggregate : forall d e items tail r,
  assign d e items tail = Ok r ->
  (forall i o, nth_error (d_opts d) i = Some o ->
     nth_error (r_opts r) i = Some (o_name o, src_val (opt_source e o (opt_values i items)))
     /\ src_bad (opt_source e o (opt_values i items)) = false) /\
  (forall i o, nth_error (d_multis d) i = Some o ->
     nth_error (r_multis r) i = Some (m_name o, match src_val (multi_source e o (multi_values i items)) with Some l => l | None => [] end)
     /\ src_bad (multi_source e o (multi_values i items)) = false) /\
  (forall j t, nth_error (d_toggles d) j = Some t ->
     nth_error (r_toggles r) j = Some (t_name t, match src_val (toggle_source truthy falsy e t (occurrences j items) (negations j items)) with Some z => z | None => 0%Z end)
     /\ src_bad (toggle_source truthy falsy e t (occurrences j items) (negations j items)) = false) /\
  r_pos r = inline_pos items ++ match tail with Some ps => ps | None => [] end.
Proof. exact (assignment_reports truthy falsy). Qed.
Print Assumptions C02_assignment_is_the_aggregate.

(* typed access returns the number whose decimal text was given (PARTIAL: as_long models as<long>() on plain decimal texts only;
   that libstdc++'s operator>> computes it is exercised by the driver on rendered integers across the range of long) *)
Theorem C02_typed_access_roundtrip : forall z, as_long (dec_text z) = Some z.
Proof. exact Fmt.FormatProofs.print_dec_roundtrip. Qed.
Print Assumptions C02_typed_access_roundtrip.

(* K1 (known finding): without no_clash the round trip is false — toggles no-q and reversible q: --no-q is read as the toggle no-q *)
Theorem C02_refuted_without_no_clash : exists d items tail,
  wf_decl d = true /\ consistent d = true /\ wf_items d items tail = true /\ no_prefix_clash d = false /\
  explain d false false false [] [] (render d items tail) <> Ok (items, tail).
Proof.
  exists {| d_opts := []; d_multis := [];
            d_toggles := [{| t_name := skipn 2 no_prefix ++ nm 5; t_short := None; t_env := None; t_def := 0%Z; t_rev := false |};
                          {| t_name := nm 5; t_short := None; t_env := None; t_def := 0%Z; t_rev := true |}];
            d_allowed := None; d_greedy := false |}, [ItNo 1], None.
  vm_compute. repeat split; try reflexivity. discriminate.
Qed.
Print Assumptions C02_refuted_without_no_clash.

Module Examples.
Example C02_ex_hyps : wf_decl sample_decl = true /\ consistent sample_decl = true /\ no_clash sample_decl = true
                      /\ wf_items sample_decl sample_items sample_tail = true.
Proof. repeat split; vm_compute; reflexivity. Qed.
Example C02_ex_roundtrip : exists r, assign sample_decl sample_env sample_items sample_tail = Ok r
   /\ map snd (r_opts r) = [Some (nm 6)] /\ map snd (r_multis r) = [[nm 7; nm 8]] /\ r_pos r = [nm 9; nm 10].
Proof. eexists. vm_compute. repeat split. Qed.
End Examples.

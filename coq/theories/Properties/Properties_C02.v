(* Property C02 — statements follow. *)
From Nitro Require Import Opt.Run.

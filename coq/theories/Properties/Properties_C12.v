(* Property C12 — statements follow. *)
From Nitro Require Import Opt.Run.

(* Property C12 — positionals: --, greedy mode, the accepted count and negative indices.  Only statements (on the parser core
   loop; C04_guards_never_fire identifies it with the extracted model). *)
From Coq Require Import List Arith Bool ZArith.
From Coq Require Import Init.Byte.
From Nitro Require Import Base.Bytes Base.Res Opt.Token Opt.Decl Opt.ParserModel Opt.ParserCore Opt.ParserSpec Opt.Vocab Opt.Run
  Opt.RefineDefs Opt.Corollaries Opt.CoreEq Opt.History Opt.Positional Opt.Lexical Opt.Refine5 Opt.Sample.
Import ListNotations.

(* once in positional-only mode (after --, or after the first positional in greedy mode) every remaining token, whatever it
   looks like, becomes a positional verbatim and in order; the only possible failure is the accepted count *)
Theorem C12_positional_only_mode : forall d st pos rest,
  (match d_allowed d with Some k => length pos <= k | None => True end) ->
  loop d st true pos false rest =
  if (match d_allowed d with Some k => length pos + length rest <=? k | None => true end) then Ok (st, pos ++ rest) else Err UserError.
Proof. exact loop_only_pos. Qed.
Print Assumptions C12_positional_only_mode.
Theorem C12_double_dash_switches : forall d st pos post,
  loop d st false pos false ([dash; dash] :: post) = loop d st true pos false post.
Proof. exact double_dash_step. Qed.
Print Assumptions C12_double_dash_switches.
Theorem C12_greedy_rest : forall d st pos a rest,
  d_greedy d = true -> is_value a = true -> full d (length pos) = false ->
  loop d st false pos false (a :: rest) = loop d st true (pos ++ [a]) false rest.
Proof. exact greedy_rest. Qed.
Print Assumptions C12_greedy_rest.
Theorem C12_value_token_positional : forall d st pos a rest,
  is_value a = true -> full d (length pos) = false -> d_greedy d = false ->
  loop d st false pos false (a :: rest) = loop d st false (pos ++ [a]) false rest.
Proof. exact value_token_positional. Qed.
Print Assumptions C12_value_token_positional.
Theorem C12_limit_respected : forall d st op pos skip args st' pos',
  loop d st op pos skip args = Ok (st', pos') ->
  (match d_allowed d with Some k => length pos <= k | None => True end) ->
  match d_allowed d with Some k => length pos' <= k | None => True end.
Proof. exact limit_respected. Qed.
Print Assumptions C12_limit_respected.
(* the spec's side: positionals of the result = inline ones in order followed by everything after the first -- *)
Theorem C12_positionals_of_items : forall d e items tail r, assign d e items tail = Ok r ->
  r_pos r = inline_pos items ++ match tail with Some ps => ps | None => [] end.
Proof. intros d e items tail r H. exact (proj2 (proj2 (proj2 (assignment_reports truthy falsy d e items tail r H)))). Qed.
Print Assumptions C12_positionals_of_items.
Theorem C12_limit_of_items : forall d items tail k, wf_items d items tail = true -> d_allowed d = Some k ->
  length (inline_pos items) + n_tail tail <= k.
Proof. exact wf_items_limit. Qed.
Print Assumptions C12_limit_of_items.
(* arguments::get(int): index -k is the k-th positional from the end; -n-1 and n raise *)
Theorem C12_neg_index : forall pos k, 1 <= k <= length pos -> arg_get pos (- Z.of_nat k) = nth_error pos (length pos - k).
Proof. exact neg_index. Qed.
Print Assumptions C12_neg_index.
Theorem C12_index_out_of_range : forall pos, arg_get pos (Z.of_nat (length pos)) = None /\ arg_get pos (- Z.of_nat (length pos) - 1) = None.
Proof. exact index_out_of_range. Qed.
Print Assumptions C12_index_out_of_range.
Theorem C12_index_in_range_iff : forall pos i, arg_get pos i <> None <-> (- Z.of_nat (length pos) <= i < Z.of_nat (length pos))%Z.
Proof. exact index_in_range_iff. Qed.
Print Assumptions C12_index_in_range_iff.

Module Examples.
Import Strings.String.
Local Open Scope string_scope.
Example C12_ex_after_dd : exists r, snd (parse sample_decl sample_env (init_st sample_decl) [B "--out=1"; B "--"; B "--"; B "-"]) = Ok r
   /\ r_pos r = [B "--"; B "-"] /\ arg_get (r_pos r) (-1) = Some (B "-") /\ arg_get (r_pos r) (-3) = None /\ arg_get (r_pos r) 2 = None.
Proof. eexists. vm_compute. repeat split. Qed.
Example C12_ex_limit : snd (parse sample_decl sample_env (init_st sample_decl) [B "--out=1"; B "a"; B "--"; B "b"; B "c"]) = Err UserError.
Proof. vm_compute. reflexivity. Qed.
End Examples.

(* Property C04 — bad user input always ends in the user-input error, under exact conditions.  Only statements.
   PARTIAL by nature: "never crashes, hangs, reads out of bounds" is a statement about the machine; the model is a total
   Gallina function (so it terminates on every input) and has exactly three outcomes; the sanitizer-instrumented
   driver exercises the real code on the malformed stream (props/C04.py). *)
From Coq Require Import List Arith Bool ZArith.
From Coq Require Import Init.Byte.
From Nitro Require Import Base.Bytes Base.Res Opt.Token Opt.Decl Opt.ParserModel Opt.ParserCore Opt.ParserSpec Opt.Vocab Opt.Run
  Opt.RefineDefs Opt.Corollaries Opt.CoreEq Opt.History Opt.Positional Opt.Lexical Opt.Refine5 Opt.Sample.
Import ListNotations.

(* parse is a total function with three possible outcomes; for a consistent declaration the developer error is impossible *)
Theorem C04_no_dev_error : forall d e st args, consistent d = true -> snd (parse d e st args) <> Err DevError.
Proof. exact (no_dev_error truthy falsy). Qed.
Print Assumptions C04_no_dev_error.
Theorem C04_dev_error_iff_inconsistent : forall d e st args, snd (parse d e st args) = Err DevError <-> consistent d = false.
Proof. exact (dev_error_iff_inconsistent truthy falsy). Qed.
Print Assumptions C04_dev_error_iff_inconsistent.
(* the accessor guards of user_input (which raise the developer error) are never hit: the guarded model equals the core *)
Theorem C04_guards_never_fire : forall d e st args, parse d e st args = parse_c truthy falsy d e st args.
Proof. exact (parse_g_eq truthy falsy). Qed.
Print Assumptions C04_guards_never_fire.

(* the user-input error is raised EXACTLY when a documented condition holds *)
Theorem C04_error_iff_documented : forall d e st args,
  wf_decl d = true -> consistent d = true -> no_clash d = true -> aligned d st ->
  (snd (parse d e st args) = Err UserError <-> documented_condition truthy falsy d e args = true).
Proof. exact (error_iff_documented truthy falsy). Qed.
Print Assumptions C04_error_iff_documented.
(* ... where the semantic conditions are: a single-valued option twice (any mix of spellings), both polarities of a toggle,
   --no- on an irreversible toggle *)
Theorem C04_semantic_conditions : forall d its, forallb (item_valid d) its = true ->
  (items_sem d [] its = true <->
   (forall i, i < length (d_opts d) -> length (opt_values i its) <= 1) /\
   (forall t, t < length (d_toggles d) -> ~ (0 < occurrences t its /\ 0 < negations t its)) /\
   (forall t, In (ItNo t) its -> exists td, nth_error (d_toggles d) t = Some td /\ t_rev td = true)).
Proof. exact Refine3.items_sem_iff. Qed.
Print Assumptions C04_semantic_conditions.
(* ... the source conditions: a required option without source, an unparsable environment word for a toggle *)
Theorem C04_source_conditions : forall d e items tail,
  assign d e items tail = Err UserError <->
  (exists i o, nth_error (d_opts d) i = Some o /\ src_bad (opt_source e o (opt_values i items)) = true) \/
  (exists i o, nth_error (d_multis d) i = Some o /\ src_bad (multi_source e o (multi_values i items)) = true) \/
  (exists j t, nth_error (d_toggles d) j = Some t /\ src_bad (toggle_source truthy falsy e t (occurrences j items) (negations j items)) = true).
Proof. exact (assignment_fails_iff truthy falsy). Qed.
Print Assumptions C04_source_conditions.
Theorem C04_bad_env_word_iff : forall e t occ neg,
  src_bad (toggle_source truthy falsy e t occ neg) = true <->
  occ = 0 /\ neg = 0 /\ nonempty (env_get e (t_env t)) = true /\ env_word (env_get e (t_env t)) = None.
Proof. exact (toggle_badenv_iff truthy falsy). Qed.
Print Assumptions C04_bad_env_word_iff.

Module Examples.
Import Strings.String.
Local Open Scope string_scope.
Example C04_ex : map (fun a => snd (parse sample_decl sample_env (init_st sample_decl) a))
   [[B "--out=1"; B "--unknown"]; [B "--out"]; [B "--out=1"; B "-o"; B "2"]; [B "--out=1"; B "--verbose=x"];
    [B "--out=1"; B "---x"]; [B "--out=1"; B "-="]; [B "--out=1"; B "p"; B "q"; B "r"]; []; [B "--out=1"; B "--"; B "---x"; B "-="]]
   = [Err UserError; Err UserError; Err UserError; Err UserError; Err UserError; Err UserError; Err UserError; Err UserError;
      snd (parse sample_decl sample_env (init_st sample_decl) [B "--out=1"; B "--"; B "---x"; B "-="])]
   /\ is_ok (snd (parse sample_decl sample_env (init_st sample_decl) [B "--out=1"; B "--"; B "---x"; B "-="])) = true.
Proof. vm_compute. split; reflexivity. Qed.
Example C04_ex_bad_env : snd (parse sample_decl (fun _ => Some (B "maybe")) (init_st sample_decl) [B "--out=1"]) = Err UserError.
Proof. vm_compute. reflexivity. Qed.
End Examples.

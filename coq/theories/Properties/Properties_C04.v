(* Property C04 — placeholder while the proofs are being written: statements follow. *)
From Nitro Require Import Opt.Run.

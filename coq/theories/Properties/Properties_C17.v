(* Property C17 — split, join, replace_all and starts_with obey their string laws.
   Only statements here; every proof is `exact <lemma>` into Str/StrProofs.v. *)
From Coq Require Import List Arith Bool.
From Coq Require Import Init.Byte.
From Coq Require Strings.String.
From Nitro Require Import Base.Bytes Str.StrModel Str.StrSpec Str.StrProofs.
Import ListNotations.
Local Open Scope list_scope.


(* splitting loses nothing: for every non-empty separator the call returns pieces that glue back to the input *)
Theorem C17_split_lossless : forall needle s, needle <> [] ->
  exists l, split needle s = Some l /\ intercalate needle l = s.
Proof. exact split_lossless. Qed.
Print Assumptions C17_split_lossless.

(* one piece more than there are left-to-right non-overlapping occurrences *)
Theorem C17_split_count : forall needle s l, split needle s = Some l ->
  length l = S (count_nonoverlapping needle s).
Proof. exact split_count. Qed.
Print Assumptions C17_split_count.

(* no piece contains the separator *)
Theorem C17_split_pieces_clean : forall needle s l, split needle s = Some l -> Forall (clean needle) l.
Proof. exact split_pieces_clean. Qed.
Print Assumptions C17_split_pieces_clean.

(* the empty separator is rejected (the call raises) *)
Theorem C17_split_empty_needle_raises : forall s, split [] s = None.
Proof. exact split_empty_needle_raises. Qed.
Print Assumptions C17_split_empty_needle_raises.

(* replace_all returns for every input (Some) and equals the single left-to-right pass *)
Theorem C17_replace_all_spec : forall pat rep s, replace_all pat rep s = Some (spec_replace pat rep s).
Proof. exact replace_all_spec. Qed.
Print Assumptions C17_replace_all_spec.

(* the same, said through split: cut at the pattern, glue with the replacement — the replacement is never rescanned *)
Theorem C17_replace_all_split : forall pat rep s, pat <> [] ->
  exists l, split pat s = Some l /\ replace_all pat rep s = Some (intercalate rep l).
Proof. exact replace_all_split. Qed.
Print Assumptions C17_replace_all_split.

Theorem C17_replace_all_empty_pattern : forall rep s, replace_all [] rep s = Some s.
Proof. exact replace_all_empty_pattern. Qed.
Print Assumptions C17_replace_all_empty_pattern.

(* starts_with is exactly the prefix relation *)
Theorem C17_starts_with_prefix : forall full p, starts_with full p = true <-> is_prefix p full.
Proof. exact starts_with_prefix. Qed.
Print Assumptions C17_starts_with_prefix.

(* join = the non-empty elements separated by the infix (hence no leading/trailing/doubled infix,
   element text unaltered) *)
Theorem C17_join_spec : forall infix l, join infix l = intercalate infix (filter nonempty l).
Proof. exact join_spec. Qed.
Print Assumptions C17_join_spec.

(* non-vacuity: concrete instances *)
Module Examples.
Import Strings.String.
Local Open Scope string_scope.
Example C17_ex_split : split (B "ab") (B "xabyabab") = Some [B "x"; B "y"; B ""; B ""].
Proof. reflexivity. Qed.
Example C17_ex_replace_overlap : replace_all (B "aa") (B "a") (B "aaaaa") = Some (B "aaa").
Proof. reflexivity. Qed.
Example C17_ex_replace_selfcontaining : replace_all (B "a") (B "aa") (B "aba") = Some (B "aabaa").
Proof. reflexivity. Qed.
Example C17_ex_join : join (B ",") [B "a"; B ""; B "b "; B " "] = B "a,b , ".
Proof. reflexivity. Qed.
End Examples.

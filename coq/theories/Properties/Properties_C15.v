(* Property C15 — the usage text lists everything once, in declaration order, on any stream.
   Only statements here; every proof is `exact <lemma>` into Usage/Usage*.v.
   `lt` is the order in which parser::usage meets the long toggles (the order of the toggle objects' addresses in a
   std::set<toggle*>): it is not determined by the declaration, so it is a parameter and every theorem holds for all
   values of it.  Theorems about format_padded hold for all texts, columns and widths. *)
From Coq Require Import List Arith Bool ZArith Permutation.
From Coq Require Import Init.Byte.
From Coq Require Strings.String.
From Nitro Require Import Base.Bytes Str.StrModel Usage.UsageModel Usage.UsageSpec Usage.UsageSplit Usage.UsageWrap Usage.UsageProofs.
Import ListNotations.
Local Open Scope list_scope.

(* --- the text does not depend on the target stream.  In the model the write position of the target stream is
   not an argument of anything (all position-dependent wrapping happens in private string streams whose position
   is the length of what was written to them); the tie to the code is the driver, which writes to four kinds of
   stream.  The second theorem shows that this is a property of the repaired code only. *)
Theorem C15_usage_stream_independent : forall (tellp1 tellp2 : Z) d lt, usage_to tellp1 d lt = usage_to tellp2 d lt.
Proof. exact usage_stream_independent. Qed.
Print Assumptions C15_usage_stream_independent.

Theorem C15_before_repair_depended_on_stream :
  exists d lt,
    synopsis_line_before_repair 0 d lt <> synopsis_line_before_repair 5 d lt /\
    synopsis_line_before_repair 0 d lt <> synopsis_line_before_repair (-1) d lt /\
    synopsis_line_before_repair 0 d lt = synopsis_line d lt.
Proof. exact before_repair_depended_on_stream. Qed.
Print Assumptions C15_before_repair_depended_on_stream.

(* --- option section: the default group, then the named groups in creation order; a group without options
   prints nothing; inside a group the blocks follow in declaration order, each exactly once *)
Theorem C15_groups_in_creation_order : forall d,
  option_section d = concat (map group_usage (d_default d :: d_groups d)).
Proof. exact option_section_groups_in_order. Qed.
Print Assumptions C15_groups_in_creation_order.

Theorem C15_empty_group_prints_nothing : forall g, g_opts g = [] -> group_usage g = [].
Proof. exact group_usage_empty. Qed.
Print Assumptions C15_empty_group_prints_nothing.

Theorem C15_blocks_in_declaration_order : forall g, g_opts g <> [] ->
  group_usage g = nl :: (g_name g ++ Lit.colon) ++ nl ::
                  (if nonempty (g_descr g) then nl :: g_descr g ++ [nl; nl] else []) ++
                  concat (map block (g_opts g)).
Proof. exact group_usage_blocks_in_order. Qed.
Print Assumptions C15_blocks_in_declaration_order.

(* --- a block starts with the spelling column ("  -x, --name ARG") and then carries, whatever the layout, exactly
   the words of the description, of the environment hint when an environment variable is declared, and of the
   default when one is declared *)
Theorem C15_block_head : forall o,
  exists wrapped, block o = block_head o ++ wrapped ++ [nl] /\
    tokens wrapped = tokens (b_descr (o_base o)) ++ concat (map tokens (env_hint o)) ++ tokens (format_default o).
Proof. exact block_shape. Qed.
Print Assumptions C15_block_head.

(* --- content and order of the whole text, layout aside: the synopsis entries, the about text, then per printed
   group its name, its description and its blocks (block_tokens) — nothing else, nothing twice, nothing reordered *)
Theorem C15_usage_content_and_order : forall d lt, tokens (usage d lt) = syn_tokens d lt ++ body_tokens d.
Proof. exact usage_tokens. Qed.
Print Assumptions C15_usage_content_and_order.

(* --- the synopsis mentions every declared toggle, option and multi-option *)
Theorem C15_synopsis_mentions_all : forall d lt o,
  Permutation lt (long_toggles d) -> In o (all_decls d) -> mentioned d (syn_tokens d lt) o.
Proof. exact synopsis_mentions_all. Qed.
Print Assumptions C15_synopsis_mentions_all.

(* --- format_padded: the words of the text (cut at " ", tabs turned into blanks) come out in order, separated only
   by layout (blanks, or a line break followed by the padding) *)
Theorem C15_words_preserved : forall indent text lp mw,
  exists seps, length seps = length (words text) /\ Forall layout seps /\
    format_padded indent text lp mw = interleave seps (map detab_spec (words text)).
Proof. exact format_padded_words_preserved. Qed.
Print Assumptions C15_words_preserved.

Theorem C15_format_padded_tokens : forall indent text lp mw, tokens (format_padded indent text lp mw) = tokens text.
Proof. exact tokens_format_padded. Qed.
Print Assumptions C15_format_padded_tokens.

(* --- width, strict form ("no line exceeds max_width unless a single unbreakable word forces it").
   `pre` is the current line of the stream (tellp() = |pre|).  wide_line base L l says: l is a beginning b with
   `base b`, followed by nothing but words of L, each behind one blank.  L = long_words_of lp mw text are the
   unbreakable words (|w| + 1 > max_width - left_pad).  So a line that exceeds max_width ends with an unbreakable
   word, and what remains without that word and its blank again does, down to a beginning that keeps to max_width.
   (format_padded never breaks in front of an unbreakable word, so several of them in a row share a line — see
   Examples.C15_ex_two_unbreakable_words; after the last of them the next breakable word starts a new line.) *)
Theorem C15_width_strict : forall pre text lp mw,
  no_nl pre = true -> no_nl text = true -> length pre <= lp -> lp < mw ->
  Forall (wide_line (fits mw) (long_words_of lp mw text))
         (lines (pre ++ format_padded (Z.of_nat (length pre)) text lp mw)).
Proof. exact format_padded_width_narrow_strict. Qed.
Print Assumptions C15_width_strict.

(* when the existing column is wider than left_pad, the first line is exactly that column followed by nothing but
   unbreakable words (none if the first word can be broken off); all further lines obey the rule *)
Theorem C15_width_wide_left_column : forall pre text lp mw,
  no_nl pre = true -> no_nl text = true -> lp < length pre -> lp < mw ->
  exists first rest, lines (pre ++ format_padded (Z.of_nat (length pre)) text lp mw) = first :: rest /\
    wide_line (fun b => seq_eqb b pre) (long_words_of lp mw text) first /\
    Forall (wide_line (fits mw) (long_words_of lp mw text)) rest.
Proof. exact format_padded_width_wide_strict. Qed.
Print Assumptions C15_width_wide_left_column.

(* the weak form of the design text follows: every line keeps to max_width or contains an unbreakable word *)
Theorem C15_width : forall pre text lp mw,
  no_nl pre = true -> no_nl text = true -> length pre <= lp -> lp < mw ->
  Forall (fun l => line_ok mw (long_words_of lp mw text) l = true)
         (lines (pre ++ format_padded (Z.of_nat (length pre)) text lp mw)).
Proof. exact format_padded_width_narrow. Qed.
Print Assumptions C15_width.

(* the strict rule is exactly what its executable form (judge a line by its LAST word and by the line without it) accepts *)
Theorem C15_strict_rule_executable : forall base L l, wide_line base L l -> strip_ok (length l) base L l = true.
Proof. exact (fun base L l H => wide_line_strip base L l H (length l) (le_n _)). Qed.
Print Assumptions C15_strict_rule_executable.

(* --- width of the whole usage text, with the hypothesis of known finding K2: if the lines that are written as the
   developer supplied them (about text, group descriptions, "name:" lines, spelling columns) keep to 80 columns,
   every line is a beginning of at most 80 columns followed by nothing but unbreakable words.  Then the weak form,
   and: without the hypothesis it fails. *)
Theorem C15_usage_width_strict : forall d lt,
  one_line_inputs d lt = true -> length (d_app d) < 72 ->
  (forall l, In l (dev_lines d) -> length l <= 80) ->
  Forall (wide_line (fits 80) (usage_long_words d lt)) (lines (usage d lt)).
Proof. exact usage_width_strict. Qed.
Print Assumptions C15_usage_width_strict.

Theorem C15_usage_width : forall d lt,
  one_line_inputs d lt = true -> length (d_app d) < 72 ->
  (forall l, In l (dev_lines d) -> length l <= 80) ->
  Forall (fun l => length l <= 80 \/ exists w, In w (usage_long_words d lt) /\ contains w l = true) (lines (usage d lt)).
Proof. exact usage_width. Qed.
Print Assumptions C15_usage_width.

Theorem C15_usage_width_refuted_without_K2_hypothesis :
  exists d lt, one_line_inputs d lt = true /\ length (d_app d) < 72 /\
    exists l, In l (lines (usage d lt)) /\ 80 < length l /\ has_long (usage_long_words d lt) l = false.
Proof. exact width_needs_K2_hypothesis. Qed.
Print Assumptions C15_usage_width_refuted_without_K2_hypothesis.

(* --- the checks the test oracle evaluates on the implementation's text accept the model's text, always *)
Theorem C15_oracle_accepts_model : forall d lt,
  check_tokens d lt (usage d lt) = true /\ check_width d lt (usage d lt) = true.
Proof. exact (fun d lt => conj (usage_check_tokens d lt) (usage_check_width d lt)). Qed.
Print Assumptions C15_oracle_accepts_model.

Theorem C15_oracle_accepts_model_format_padded : forall pre text lp mw,
  check_fp_width pre text lp mw (format_padded (Z.of_nat (length pre)) text lp mw) = true.
Proof. exact format_padded_check_width. Qed.
Print Assumptions C15_oracle_accepts_model_format_padded.

(* --- the two library loops used by format_padded never run out of fuel and are what they look like *)
Theorem C15_split_at_blank_is_words : forall text, split [sp] text = Some (words text).
Proof. exact (split_single sp). Qed.
Print Assumptions C15_split_at_blank_is_words.

Theorem C15_detab_is_map : forall w, detab w = detab_spec w.
Proof. exact detab_correct. Qed.
Print Assumptions C15_detab_is_map.

(* non-vacuity: concrete instances (two of them are expected texts of tests/options_test.cpp) *)
Module Examples.
Import Strings.String.
Local Open Scope string_scope.
Local Open Scope list_scope.
Definition b (n d : string) : base := mkBase (B n) None (B d) [] (B "ARG").
Definition nlc : string := String (Ascii.ascii_of_nat 10) EmptyString.
Definition unlines (l : list string) : str := List.concat (map (fun s => B s ++ [nl]) l).

Definition tog := DToggle (b "tog" "some toggle") true false.
Example C15_ex_reversible_toggle :
  usage (mkDecl (B "main") [] (mkGroup (B "arguments") [] [tog]) [] false (B "args")) [tog]
  = unlines ["usage: main [--[no-]tog]"; ""; ""; "arguments:";
             "  --[no-]tog                            some toggle (default: disabled)"].
Proof. vm_compute. reflexivity. Qed.

Definition zz := DToggle (b "zz" "") false false.
Example C15_ex_creation_order :
  usage (mkDecl (B "main") [] (mkGroup (B "arguments") [] [zz; DOption (b "ab" "") None false; DMulti (b "aa" "") None false]) [] false (B "args")) [zz]
  = unlines ["usage: main [--zz] [--ab <ARG>] [--aa <ARG>]"; ""; ""; "arguments:"; "  --zz"; "  --ab ARG"; "  --aa ARG"].
Proof. vm_compute. reflexivity. Qed.

(* wrapping behind column 4 at width 12; "ccccccccc" is unbreakable there *)
Example C15_ex_wrap :
  format_padded 2 (B "aa bbb ccccccccc d  e") 4 12 = B "  aa bbb ccccccccc" ++ [nl] ++ B "    d  e".
Proof. vm_compute. reflexivity. Qed.

(* an unbreakable word is followed by a line break as soon as a breakable word comes; two unbreakable words in a row
   share the line (behind column 4 at width 12 a word of 8 or more bytes is unbreakable) *)
Example C15_ex_two_unbreakable_words :
  format_padded 0 (B "a bbbbbbbb cccccccc d e") 4 12 = B "    a bbbbbbbb cccccccc" ++ [nl] ++ B "    d e".
Proof. vm_compute. reflexivity. Qed.

(* the strict rule rejects what the weak rule lets pass: short words behind an unbreakable one *)
Example C15_ex_strict_rejects :
  line_ok 12 [B "bbbbbbbb"] (B "    a bbbbbbbb d e") = true /\ line_strict 12 [B "bbbbbbbb"] (B "    a bbbbbbbb d e") = false
  /\ line_strict 12 [B "bbbbbbbb"] (B "    a bbbbbbbb") = true.
Proof. repeat split; vm_compute; reflexivity. Qed.

(* a non-seekable stream (position -1) gets one more blank: the reason for building the head line privately *)
Example C15_ex_nonseekable : format_padded (-1) (B "x") 4 12 = B "     x" /\ format_padded 0 (B "x") 4 12 = B "    x".
Proof. split; vm_compute; reflexivity. Qed.

Example C15_ex_width_hypotheses_satisfiable :
  one_line_inputs (mkDecl (B "main") [] (mkGroup (B "arguments") [] [tog]) [] false (B "args")) [tog] = true.
Proof. reflexivity. Qed.
End Examples.

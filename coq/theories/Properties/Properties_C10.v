(* Property C10 — a disabled log statement costs nothing and evaluates nothing lazily.
   Only statements here; every proof is `exact <lemma>` into Log/LogProofs.v. *)
From Coq Require Import List Arith Bool ZArith.
From Coq Require Import Init.Byte.
From Coq Require Strings.String.
From Nitro Require Import Base.Bytes Log.LogModel Log.LogSpec Log.LogProofs.
Import ListNotations.
Local Open Scope list_scope.

(* the statement's stream type is smart_stream iff its severity is at or above the compile-time minimum *)
Theorem C10_stream_type : forall min sv, stream_kind min sv = KSmart <-> gate_open min sv = true.
Proof. exact stream_kind_gate. Qed.
Print Assumptions C10_stream_type.

(* below the minimum the object is a null_stream: every insertion is discarded (a callable is not called),
   its destruction does nothing *)
Theorem C10_below_minimum_discards : forall cfg th lg sv tag,
  gate_open (c_min cfg) sv = false ->
  make_stream cfg th lg sv tag = SNull
  /\ (forall it, stream_put SNull it = (SNull, []))
  /\ stream_destroy cfg lg sv SNull = [].
Proof. exact below_minimum_null. Qed.
Print Assumptions C10_below_minimum_discards.

(* not enabled, for the compile-time or for the runtime reason: no Call, no Format, no Sink — in both forms *)
Theorem C10_disabled_no_evaluation_one_expression : forall cfg th lg sv tag its,
  gate_open (c_min cfg) sv = false \/ holds (th (lg_rec lg)) (lg_filter lg) sv (rec_tag lg tag) = false ->
  exec_one cfg th lg sv tag its = [].
Proof. exact one_disabled_nothing. Qed.
Print Assumptions C10_disabled_no_evaluation_one_expression.

Theorem C10_disabled_no_evaluation_named : forall cfg w v lg sv tag its,
  w_slots w v = None ->
  gate_open (c_min cfg) sv = false \/ holds (w_th w (lg_rec lg)) (lg_filter lg) sv (rec_tag lg tag) = false ->
  snd (exec_prog cfg w (named_ops v lg sv tag its)) = [].
Proof. exact named_disabled_nothing. Qed.
Print Assumptions C10_disabled_no_evaluation_named.

(* enabled: the Call events are exactly the streamed callables in streaming order … *)
Theorem C10_calls_exactly : forall cfg th lg sv tag its,
  filter is_call (exec_one cfg th lg sv tag its)
  = if enabled (c_min cfg) th lg sv tag then map Call (calls_of its) else [].
Proof. exact one_calls_exactly. Qed.
Print Assumptions C10_calls_exactly.

(* … each called as often as it was streamed (once when streamed once), never more *)
Theorem C10_once_each : forall cfg th lg sv tag its id,
  count (is_call_of id) (exec_one cfg th lg sv tag its)
  = if enabled (c_min cfg) th lg sv tag then count_occ Nat.eq_dec (calls_of its) id else 0.
Proof. exact one_calls_once_each. Qed.
Print Assumptions C10_once_each.

(* whatever the C++ shape of the callable (lambda, function object, function pointer, std::function …) *)
Theorem C10_callable_kind_irrelevant : forall k k' id ret x,
  ss_put x (ICall k id ret) = ss_put x (ICall k' id ret)
  /\ item_text (ICall k id ret) = item_text (ICall k' id ret)
  /\ calls_of [ICall k id ret] = calls_of [ICall k' id ret].
Proof. exact callable_kind_irrelevant. Qed.
Print Assumptions C10_callable_kind_irrelevant.

(* the named form gives the same trace, hence the same calls *)
Theorem C10_forms_agree : forall cfg w v c lg sv tag its,
  w_slots w v = None ->
  snd (exec_prog cfg w (named_ops v lg sv tag its)) = snd (exec_prog cfg w [OOne c lg sv tag its]).
Proof. exact forms_agree. Qed.
Print Assumptions C10_forms_agree.

(* called at the point where it is streamed, named form: the insertion statement itself emits the Call iff the
   stream takes insertions … *)
Theorem C10_called_when_streamed : forall cfg w v sl it,
  w_slots w v = Some sl ->
  snd (exec_op cfg w (OPut v it)) = if stream_live (sl_stream sl) then map Call (calls_of [it]) else [].
Proof. exact put_calls_now. Qed.
Print Assumptions C10_called_when_streamed.

(* … and a stream obtained from a logger call takes insertions iff its statement is enabled, before and after any
   number of insertions *)
Theorem C10_live_iff_enabled : forall cfg th lg sv tag its,
  stream_live (fst (stream_puts (make_stream cfg th lg sv tag) its)) = enabled (c_min cfg) th lg sv tag.
Proof. exact live_iff_enabled. Qed.
Print Assumptions C10_live_iff_enabled.

(* one-expression form: after any prefix of the `<<` chain exactly the prefix's callables have been called and the
   buffer holds exactly the prefix's text — each callable is evaluated before any later item is appended *)
Theorem C10_chain_prefix : forall th lg sv tag pre,
  holds (th (lg_rec lg)) (lg_filter lg) sv (rec_tag lg tag) = true ->
  exists olds,
    one_chain (ss_construct th lg sv tag) [] pre
    = ((liveb (mkRecord sv (rec_tag lg tag) []) (message pre) (bad_after false pre), olds), map Call (calls_of pre)).
Proof. exact one_chain_prefix. Qed.
Print Assumptions C10_chain_prefix.

Theorem C10_chain_composes : forall cur olds pre post,
  one_chain cur olds (pre ++ post)
  = let '((c, o), e) := one_chain cur olds pre in
    let '((c', o'), e') := one_chain c o post in ((c', o'), e ++ e').
Proof. exact one_chain_app. Qed.
Print Assumptions C10_chain_composes.

(* whole programs: every Call/Format/Sink event is the one LogSpec.spec_op prescribes at that operation *)
Theorem C10_program_refines_spec : forall cfg ops, run cfg ops = spec_run cfg ops.
Proof. exact run_refines_spec. Qed.
Print Assumptions C10_program_refines_spec.

(* the run-time filter is asked about the COMPLETE record — severity and tag already set: a stream obtained from a logger call
   takes insertions (so: its callables run, formatter and sink run at its end) iff the gate is open and the filter code
   accepts the record carrying the statement's tag; a statement whose tagged record the filter rejects does nothing *)
Theorem C10_filter_verdict_on_complete_record : forall cfg th lg sv tag its,
  stream_live (fst (stream_puts (make_stream cfg th lg sv tag) its))
  = gate_open (c_min cfg) sv && filt (th (lg_rec lg)) (lg_filter lg) (mkRecord sv (rec_tag lg tag) []).
Proof. exact live_iff_filter_on_complete_record. Qed.
Print Assumptions C10_filter_verdict_on_complete_record.

Theorem C10_rejected_by_tag_nothing : forall cfg th lg sv tag its,
  filt (th (lg_rec lg)) (lg_filter lg) (mkRecord sv (rec_tag lg tag) []) = false ->
  exec_one cfg th lg sv tag its = [] /\ exec_named cfg th lg sv tag its = [].
Proof. exact rejected_on_complete_record_nothing. Qed.
Print Assumptions C10_rejected_by_tag_nothing.

Module Examples.
Import Strings.String.
Local Open Scope string_scope.
Definition cfg_warn := mkConfig Warn harness_fmt.
Definition lg_t0 := mkLogger 0 true (FThr 0) (flat_sinks 2).
Definition th_err : thresholds := set_threshold init_thresholds 0 0 Error.
Example C10_ex_compile_time : exec_one cfg_warn init_thresholds lg_t0 Info None [ICall KLambda 1 (B "x"); ICall KStdFunL 2 (B "y")] = [].
Proof. reflexivity. Qed.
Example C10_ex_runtime : exec_one cfg_warn th_err lg_t0 Warn None [ICall KFunPtr 1 (B "x"); ICall KFunctor 2 (B "y")] = [].
Proof. reflexivity. Qed.
Example C10_ex_enabled :
  filter is_call (exec_one cfg_warn th_err lg_t0 Fatal None [ICall KLambda 1 (B "x"); IStr (B "-"); ICall KStdFunL 2 (B "y"); ICall KFunPtr 1 (B "z")])
  = [Call 1; Call 2; Call 1].
Proof. reflexivity. Qed.
(* a callable streamed after an insertion that made the stringstream fail is still called, once; only its text is dropped *)
Example C10_ex_after_failed_insertion :
  exec_one cfg_warn init_thresholds lg_t0 Fatal None [ICall KFunctor 1 (B "x"); IFail FNullCStr; ICall KLambda 2 (B "y"); IStr (B "z")]
  = [Call 1; Call 2; Format (mkRecord Fatal (B "") (B "x")); Sink 0 Fatal (B "5||x"); Sink 1 Fatal (B "5||x")].
Proof. reflexivity. Qed.
Example C10_ex_gate_hyp : gate_open Warn Info = false /\ holds (th_err 0) (FThr 0) Warn (B "") = false.
Proof. split; reflexivity. Qed.
Definition lg_mute := mkLogger 0 true (FAnd (FThr 0) (FTag false (B "noisy"))) (flat_sinks 1).
Example C10_ex_muted_tag_calls_nothing :
  exec_one cfg_warn init_thresholds lg_mute Error (Some (B "noisy")) [ICall KLambda 1 (B "x"); ICall KFunctor 2 (B "y")] = []
  /\ filter is_call (exec_one cfg_warn init_thresholds lg_mute Error None [ICall KLambda 1 (B "x"); ICall KFunctor 2 (B "y")]) = [Call 1; Call 2].
Proof. split; reflexivity. Qed.
End Examples.

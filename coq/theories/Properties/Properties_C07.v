(* Property C07 — fixed_vector behaves as a bounded sequence, including copy, move and assignment.
   Only statements here; every proof is `exact <lemma>` into Vec/VecTheorems.v.
   Vocabulary: see Properties_C06.v;  BoundedListSpec.v holds the specification: bl_append, bl_emplace (insert
   before position), bl_erase (remove the i-th), bl_pop (removelast), bl_overwrite / bl_append_range (range insert),
   and `sstep`, the operation language interpreted over abstract objects (capacity, list);
   absP maps every object of a pool to (cap, abs).  All theorems are for element assignments that do not throw
   (plan None); C07_unreached_plan_invisible extends them to every operation whose outcome is not Faulted. *)
From Coq Require Import List Arith Bool.
From Nitro Require Import Base.ListX Vec.FixedVecModel Vec.VecBase Vec.BoundedListSpec Vec.VecInv Vec.VecPool Vec.VecTheorems.
Import ListNotations.
Local Open Scope list_scope.

(* one operation of the model = the same operation on bounded lists, same outcome kind.
   `benign o` is True for every operation except insert(pos, begin()+a, begin()+b) with a range of the SAME vector,
   where it demands that pos does not lie strictly inside the range (see C07_self_range_overlap_refuted).
   The operations with aliasing arguments (emplace(pos, v[k]), emplace_back(v[k]), insert(v[k]), push_back(v[k]),
   range insert / push_back from the vector itself, v = v, v = std::move(v)) are part of `op`; in `sstep` their
   argument is nth k of the sequence BEFORE the operation *)
Theorem C07_every_operation_refines_the_bounded_list : forall o P P' r, PAll Inv P -> benign o -> pstep None o P = (P', r) ->
  PAll Inv P' /\ sstep o (absP P) = (absP P', r).
Proof. exact step_refines. Qed.
Print Assumptions C07_every_operation_refines_the_bounded_list.

(* every finite history from nothing: same outcomes, same final sequences and capacities *)
Theorem C07_every_history_refines_the_bounded_list : forall n ops, Forall benign ops ->
  srun ops (repeat None n) = (absP (fst (prun (plain ops) (empty_pool n))), snd (prun (plain ops) (empty_pool n))).
Proof. exact history_refines. Qed.
Print Assumptions C07_every_history_refines_the_bounded_list.

Theorem C07_unreached_plan_invisible : forall p o P P' r, pstep p o P = (P', r) -> r <> Faulted -> pstep None o P = (P', r).
Proof. exact unreached_plan_invisible. Qed.
Print Assumptions C07_unreached_plan_invisible.

(* the same, operation by operation, in readable form.  emplace_back, insert(const T&), insert(T&&) and
   push_back(const T&) are all `append` *)
Theorem C07_append_adds_at_the_end : forall v st st' o, Inv st -> append None v st = (st', o) ->
  match bl_append (cap st) (abs st) v with
  | Some l => o = Done /\ abs st' = l /\ cap st' = cap st
  | None => o = Raised /\ st' = st
  end.
Proof. exact append_is_append. Qed.
Print Assumptions C07_append_adds_at_the_end.

Theorem C07_emplace_inserts_before_the_position : forall key v st st' o, Inv st -> emplace None key v st = (st', o) ->
  match bl_emplace (cap st) (abs st) key v with
  | Some l => o = Done /\ abs st' = l /\ cap st' = cap st
  | None => o = Raised /\ st' = st
  end.
Proof. exact emplace_inserts_before. Qed.
Print Assumptions C07_emplace_inserts_before_the_position.

Theorem C07_erase_removes_one_and_keeps_order : forall key st st' o, Inv st -> erase None key st = (st', o) ->
  match bl_erase (abs st) key with
  | Some l => o = Done /\ abs st' = l /\ cap st' = cap st
  | None => o = Raised /\ st' = st
  end.
Proof. exact erase_removes_one. Qed.
Print Assumptions C07_erase_removes_one_and_keeps_order.

Theorem C07_pop_removes_the_last : forall st st' o, Inv st -> pop_back st = (st', o) ->
  match bl_pop (abs st) with
  | Some l => o = Done /\ abs st' = l /\ cap st' = cap st
  | None => o = Raised /\ st' = st
  end.
Proof. exact pop_removes_last. Qed.
Print Assumptions C07_pop_removes_the_last.

(* push_back(first, last): appends what fits, raises if something did not fit *)
Theorem C07_range_push_back_appends : forall xs st st' o, Inv st -> push_back_range None xs st = (st', o) ->
  let r := bl_append_range (cap st) (abs st) xs in
  o = (if snd r then Done else Raised) /\ abs st' = fst r /\ cap st' = cap st.
Proof. exact range_push_back_appends. Qed.
Print Assumptions C07_range_push_back_appends.

(* insert(pos, first, last) — as the header is written it OVERWRITES from pos on (and extends past the end); it does
   not shift the tail.  The property text does not name this operation among the inserting ones; the theorem states
   what the code does *)
Theorem C07_range_insert_overwrites : forall key xs st st' o, Inv st -> insert_range None key xs st = (st', o) ->
  match bl_overwrite (cap st) (abs st) key xs with
  | Some (l, fits) => o = (if fits then Done else Raised) /\ abs st' = l /\ cap st' = cap st
  | None => o = Raised /\ st' = st
  end.
Proof. exact range_insert_overwrites. Qed.
Print Assumptions C07_range_insert_overwrites.

(* arguments that alias the container itself: the element named by the caller has the value it had when the call
   started, and the operation then behaves as with any other value *)
Theorem C07_aliasing_arguments : forall st k s, Inv st -> live_elem st k = Some s ->
  nth_error (abs st) k = Some s /\
  (forall key st' o, emplace None key s st = (st', o) ->
     match bl_emplace (cap st) (abs st) key s with
     | Some l => o = Done /\ abs st' = l /\ cap st' = cap st
     | None => o = Raised /\ st' = st
     end) /\
  (forall st' o, append None s st = (st', o) ->
     match bl_append (cap st) (abs st) s with
     | Some l => o = Done /\ abs st' = l /\ cap st' = cap st
     | None => o = Raised /\ st' = st
     end).
Proof. exact aliasing_arguments. Qed.
Print Assumptions C07_aliasing_arguments.

(* insert(begin()+key, begin()+a, begin()+b) of the same vector: the range is read as it was at the start provided
   the position is not strictly inside it; push_back(begin()+a, begin()+b) always *)
Theorem C07_self_range_insert_partial : forall key a b st st' o, Inv st -> self_range_valid st a b = true -> key <= a \/ b <= key ->
  insert_self_range None key a b st = (st', o) ->
  match bl_overwrite (cap st) (abs st) key (firstn (b - a) (skipn a (abs st))) with
  | Some (l, fits) => o = (if fits then Done else Raised) /\ abs st' = l /\ cap st' = cap st
  | None => o = Raised /\ st' = st
  end.
Proof. exact self_range_insert. Qed.
Print Assumptions C07_self_range_insert_partial.

Theorem C07_self_range_push_back : forall a b st st' o, Inv st -> self_range_valid st a b = true ->
  push_back_self_range None a b st = (st', o) ->
  let r := bl_append_range (cap st) (abs st) (firstn (b - a) (skipn a (abs st))) in
  o = (if snd r then Done else Raised) /\ abs st' = fst r /\ cap st' = cap st.
Proof. exact self_range_push_back. Qed.
Print Assumptions C07_self_range_push_back.

(* full statement (no side condition on the position) is false of the faithful model: the element-by-element copy
   re-reads slots it has already overwritten *)
Theorem C07_self_range_overlap_refuted : exists o P, PAll Inv P /\ ~ benign o /\
  sstep o (absP P) <> (absP (fst (pstep None o P)), snd (pstep None o P)).
Proof. exact self_range_overlap_refuted. Qed.
Print Assumptions C07_self_range_overlap_refuted.

Theorem C07_construct_from_range : forall c xs st' o, make_from None c xs = (st', o) ->
  if length xs <=? c then o = Done /\ abs st' = xs /\ cap st' = c else o = Raised.
Proof. exact construct_from_range. Qed.
Print Assumptions C07_construct_from_range.

Theorem C07_construct_from_list : forall xs st' o, make_list None xs = (st', o) -> o = Done /\ abs st' = xs /\ cap st' = length xs.
Proof. exact construct_from_list. Qed.
Print Assumptions C07_construct_from_list.

Theorem C07_copy_is_equal : forall src st' o, Inv src -> copy_ctor None src = (st', o) ->
  o = Done /\ abs st' = abs src /\ cap st' = cap src /\ Inv st'.
Proof. exact copy_is_equal. Qed.
Print Assumptions C07_copy_is_equal.

Theorem C07_copy_assignment_is_equal : forall dst src st' o, Inv dst -> Inv src -> copy_assign None dst src = (st', o) ->
  o = Done /\ abs st' = abs src /\ cap st' = cap src /\ Inv st'.
Proof. exact copy_assign_is_equal. Qed.
Print Assumptions C07_copy_assignment_is_equal.

(* independence: an operation changes only the object it is applied to and, for a move, its source; in particular
   later operations on a copy never change the original and vice versa.  (In the functional model objects cannot
   alias; that the C++ copy does not share storage is what the driver's snapshot comparison exercises.) *)
Theorem C07_operations_touch_only_their_objects : forall p o P P' r k,
  pstep p o P = (P', r) -> ~ In k (writes o) -> nth_error P' k = nth_error P k.
Proof. exact step_frame. Qed.
Print Assumptions C07_operations_touch_only_their_objects.

(* move: the target holds the whole sequence; about the moved-from source only validity is claimed *)
Theorem C07_move_transfers_the_sequence : forall src, Inv src ->
  abs (fst (move_ctor src)) = abs src /\ cap (fst (move_ctor src)) = cap src /\ Inv (fst (move_ctor src)) /\
  Inv (snd (move_ctor src)).
Proof. exact move_transfers. Qed.
Print Assumptions C07_move_transfers_the_sequence.

Theorem C07_move_assignment_transfers_the_sequence : forall dst src, Inv src ->
  abs (fst (move_assign dst src)) = abs src /\ cap (fst (move_assign dst src)) = cap src /\
  Inv (fst (move_assign dst src)) /\ Inv (snd (move_assign dst src)).
Proof. exact move_assign_transfers. Qed.
Print Assumptions C07_move_assignment_transfers_the_sequence.

Theorem C07_list_assignment_replaces : forall dst xs st' o, list_assign None dst xs = (st', o) ->
  o = Done /\ abs st' = xs /\ cap st' = length xs.
Proof. exact list_assign_replaces. Qed.
Print Assumptions C07_list_assignment_replaces.

(* forward iteration = the live elements in order, reverse iteration = the same reversed, at()/operator[] = nth *)
Theorem C07_iteration_orders : forall st, Inv st ->
  iterate st = Some (abs st) /\ riterate st = Some (rev (abs st)) /\
  (forall k, match bl_at (abs st) k with Some s => at_ st k = Val s /\ index st k = Val s | None => at_ st k = ARaised end) /\
  Forall filled (abs st) /\ length (abs st) = size st.
Proof. exact iteration_orders. Qed.
Print Assumptions C07_iteration_orders.

(* non-vacuity: concrete instances *)
Module Examples.
Definition v123 : fv := mkfv 4 3 [Filled 1; Filled 2; Filled 3; Fresh].
Example C07_ex_emplace : emplace None 1 (Filled 9) v123 = (mkfv 4 4 [Filled 1; Filled 9; Filled 2; Filled 3], Done).
Proof. reflexivity. Qed.
Example C07_ex_erase : erase None 0 v123 = (mkfv 4 2 [Filled 2; Filled 3; Moved; Fresh], Done).
Proof. reflexivity. Qed.
Example C07_ex_riterate : riterate v123 = Some [Filled 3; Filled 2; Filled 1].
Proof. reflexivity. Qed.
Example C07_ex_history :
  srun [ONewList 0 [1; 2; 3]; OCopy 1 0; OErase 1 1; OMove 2 0; OListAssign 0 [7]; OInsertRange 2 1 [8]]
       (repeat None 3) =
  ([Some (1, [Filled 7]); Some (3, [Filled 1; Filled 3]); Some (3, [Filled 1; Filled 8; Filled 3])],
   [Done; Done; Done; Done; Done; Done]).
Proof. reflexivity. Qed.
(* emplace_back() / emplace(pos) without arguments insert the value-initialised element T(), value 0 in the model *)
Example C07_ex_default_emplace :
  prun (plain [ONewList 0 [1; 2; 3]; OErase 0 1; OEmplaceBack 0 0; OPop 0; OEmplace 0 0 0]) (empty_pool 1) =
  ([Some (mkfv 3 3 [Filled 0; Filled 1; Filled 3])], [Done; Done; Done; Done; Done]).
Proof. reflexivity. Qed.
Example C07_ex_alias_history :
  srun [ONewFrom 0 5 [1; 2; 3]; OEmplaceAt 0 0 2; OEmplaceAt 0 1 1; OMoveAssign 0 0; OPushBackSelfRange 0 0 1]
       (repeat None 1) =
  ([Some (5, [Filled 3; Filled 1; Filled 1; Filled 2; Filled 3])], [Done; Done; Done; Done; Raised]).
Proof. reflexivity. Qed.
Example C07_ex_alias_model :
  prun (plain [ONewFrom 0 5 [1; 2; 3]; OEmplaceAt 0 0 2; OEmplaceAt 0 1 1]) (empty_pool 1) =
  ([Some (mkfv 5 5 [Filled 3; Filled 1; Filled 1; Filled 2; Filled 3])], [Done; Done; Done]).
Proof. reflexivity. Qed.
End Examples.

(* Vec/VecBase.v — abstraction function, invariants, and the facts about the storage primitives
   (get / put / assign_val / assign_move) on which every operation proof rests. *)
From Coq Require Import List Arith Bool Lia.
From Nitro Require Import Base.ListX Vec.FixedVecModel.
Import ListNotations.
Local Open Scope list_scope.

Definition filled (s : slot) : Prop := match s with Filled _ => True | _ => False end.
Definition nonfresh (s : slot) : Prop := match s with Fresh => False | _ => True end.

(* what the caller can see: the first size_ slots *)
Definition abs (st : fv) : list slot := firstn (size st) (slots st).

(* C06 invariant *)
Definition Inv (st : fv) : Prop :=
  size st <= cap st /\ length (slots st) = cap st /\ Forall filled (abs st).
(* the weaker invariant that also survives an element assignment that throws in the middle of a positional
   emplace or an erase: the live range may then contain moved-from elements, but never a never-filled one *)
Definition WInv (st : fv) : Prop :=
  size st <= cap st /\ length (slots st) = cap st /\ Forall nonfresh (abs st).

Lemma filled_nonfresh s : filled s -> nonfresh s.
Proof. destruct s; simpl; auto. Qed.

Lemma Inv_WInv st : Inv st -> WInv st.
Proof.
  intros (H1 & H2 & H3). repeat split; auto.
  eapply Forall_impl; [|exact H3]. apply filled_nonfresh.
Qed.

(* ---------- list facts ---------- *)
Lemma upd_app_exact {A} (l1 : list A) x l2 f : upd (l1 ++ x :: l2) (length l1) f = l1 ++ f x :: l2.
Proof. induction l1 as [|y l1 IH]; simpl; [reflexivity | now rewrite IH]. Qed.

Lemma upd_app_at {A} (l1 : list A) x l2 f k : k = length l1 -> upd (l1 ++ x :: l2) k f = l1 ++ f x :: l2.
Proof. intros ->. apply upd_app_exact. Qed.

Lemma nth_error_app_exact {A} (l1 : list A) x l2 : nth_error (l1 ++ x :: l2) (length l1) = Some x.
Proof. induction l1; simpl; auto. Qed.

Lemma nth_error_app_at {A} (l1 : list A) x l2 k : k = length l1 -> nth_error (l1 ++ x :: l2) k = Some x.
Proof. intros ->. apply nth_error_app_exact. Qed.

Lemma firstn_upd_le {A} (l : list A) i f n : n <= i -> firstn n (upd l i f) = firstn n l.
Proof.
  revert i n; induction l as [|x l IH]; intros [|i] [|n] H; simpl; auto; try lia.
  rewrite IH by lia. reflexivity.
Qed.

Lemma skipn_upd_gt {A} (l : list A) i f n : i < n -> skipn n (upd l i f) = skipn n l.
Proof.
  revert i n; induction l as [|x l IH]; intros [|i] [|n] H; simpl; auto; try lia.
  apply IH. lia.
Qed.

Lemma firstn_S_upd {A} (l : list A) i (v : A) : i < length l -> firstn (S i) (upd l i (fun _ => v)) = firstn i l ++ [v].
Proof.
  revert i; induction l as [|x l IH]; intros [|i] H; simpl in *; try lia; auto.
  rewrite IH by lia. reflexivity.
Qed.

Lemma split_at {A} (l : list A) i : i < length l -> exists x, l = firstn i l ++ x :: skipn (S i) l.
Proof.
  revert i; induction l as [|y l IH]; intros [|i] H; simpl in *; try lia.
  - exists y. reflexivity.
  - destruct (IH i) as [x Hx]; [lia|]. exists x. simpl. now rewrite <- Hx.
Qed.

Lemma Forall_firstn {A} (P : A -> Prop) n l : Forall P l -> Forall P (firstn n l).
Proof.
  intros H. rewrite <- (firstn_skipn n l) in H. apply Forall_app in H. tauto.
Qed.

Lemma Forall_skipn {A} (P : A -> Prop) n l : Forall P l -> Forall P (skipn n l).
Proof.
  intros H. rewrite <- (firstn_skipn n l) in H. apply Forall_app in H. tauto.
Qed.

Lemma Forall_nth_error {A} (P : A -> Prop) l i x : Forall P l -> nth_error l i = Some x -> P x.
Proof. intros H E. rewrite Forall_forall in H. apply H. eapply nth_error_In; eauto. Qed.

Lemma nth_error_firstn_lt {A} (l : list A) n i : i < n -> nth_error (firstn n l) i = nth_error l i.
Proof.
  revert n i; induction l as [|x l IH]; intros n i H.
  - now rewrite firstn_nil.
  - destruct n as [|n]; [lia|]. destruct i as [|i]; simpl; auto. apply IH; lia.
Qed.

Lemma Forall_firstn_upd {A} (P : A -> Prop) (l : list A) n i v :
  Forall P (firstn n l) -> P v -> Forall P (firstn n (upd l i (fun _ => v))).
Proof.
  revert n i; induction l as [|x l IH]; intros [|n] [|i] H Hv; simpl in *; auto.
  - inversion H; subst. constructor; auto.
  - inversion H; subst. constructor; auto.
Qed.

Lemma Forall_firstn_S_upd {A} (P : A -> Prop) (l : list A) n v :
  Forall P (firstn n l) -> P v -> Forall P (firstn (S n) (upd l n (fun _ => v))).
Proof.
  revert n; induction l as [|x l IH]; intros n H Hv.
  - destruct n; simpl; constructor.
  - destruct n as [|n]; simpl in *.
    + constructor; auto.
    + inversion H; subst. constructor; auto.
Qed.

(* ---------- primitives ---------- *)
Lemma put_some st i s : i < length (slots st) ->
  put st i s = Some (mkfv (cap st) (size st) (upd (slots st) i (fun _ => s))).
Proof. intros H. unfold put. apply Nat.ltb_lt in H. now rewrite H. Qed.

Lemma put_none st i s : length (slots st) <= i -> put st i s = None.
Proof. intros H. unfold put. apply Nat.ltb_ge in H. now rewrite H. Qed.

Lemma put_inv st i s st' : put st i s = Some st' ->
  i < length (slots st) /\ st' = mkfv (cap st) (size st) (upd (slots st) i (fun _ => s)).
Proof.
  unfold put. destruct (i <? length (slots st)) eqn:E; [|discriminate].
  intros [= <-]. apply Nat.ltb_lt in E. auto.
Qed.

Lemma get_some st i : i < length (slots st) -> exists s, get st i = Some s.
Proof.
  intros H. unfold get. destruct (nth_error (slots st) i) eqn:E; eauto.
  apply nth_error_None in E. lia.
Qed.

Lemma get_lt st i s : get st i = Some s -> i < length (slots st).
Proof. unfold get. intros H. apply nth_error_Some. congruence. Qed.

Lemma tick_none : tick None = Some None.
Proof. reflexivity. Qed.

(* frame: what no element assignment ever changes *)
Definition same_frame (st st' : fv) : Prop :=
  cap st' = cap st /\ size st' = size st /\ length (slots st') = length (slots st).

Lemma same_frame_refl st : same_frame st st.
Proof. repeat split. Qed.

Lemma same_frame_trans a b c : same_frame a b -> same_frame b c -> same_frame a c.
Proof. unfold same_frame. intuition congruence. Qed.

(* the live range holds no never-filled slot *)
Definition NF (st : fv) : Prop := Forall nonfresh (abs st).

Lemma assign_val_cases st p dst s st' p' o : assign_val st p dst s = (st', p', o) ->
  (o = OutOfStorage /\ st' = st /\ length (slots st) <= dst) \/
  (o = Faulted /\ st' = st /\ dst < length (slots st) /\ tick p = None) \/
  (o = Done /\ dst < length (slots st) /\ tick p = Some p' /\
   st' = mkfv (cap st) (size st) (upd (slots st) dst (fun _ => s))).
Proof.
  unfold assign_val. destruct (put st dst s) as [st1|] eqn:E.
  - apply put_inv in E. destruct E as [Hl ->].
    destruct (tick p) as [p1|] eqn:T; intros [= <- <- <-]; auto 10.
  - intros [= <- <- <-]. left. repeat split; auto.
    unfold put in E. destruct (dst <? length (slots st)) eqn:L; [discriminate|]. now apply Nat.ltb_ge.
Qed.

Lemma assign_val_nofault st dst s : dst < length (slots st) ->
  assign_val st None dst s = (mkfv (cap st) (size st) (upd (slots st) dst (fun _ => s)), None, Done).
Proof. intros H. unfold assign_val. rewrite put_some by auto. reflexivity. Qed.

Lemma assign_move_cases st p dst src st' p' o : assign_move st p dst src = (st', p', o) ->
  (o = OutOfStorage /\ st' = st /\ (length (slots st) <= dst \/ length (slots st) <= src)) \/
  (o = Faulted /\ st' = st /\ tick p = None) \/
  (o = Done /\ dst < length (slots st) /\ src < length (slots st) /\ tick p = Some p' /\
   exists s, get st src = Some s /\
   st' = mkfv (cap st) (size st) (upd (upd (slots st) dst (fun _ => s)) src (fun _ => Moved))).
Proof.
  unfold assign_move. destruct (get st src) as [s|] eqn:G.
  - pose proof (get_lt _ _ _ G) as Hs.
    destruct (put st dst s) as [st1|] eqn:E.
    + apply put_inv in E. destruct E as [Hd ->].
      destruct (tick p) as [p1|] eqn:T.
      * rewrite put_some by (simpl; rewrite upd_length; auto). simpl.
        intros [= <- <- <-]. right. right. repeat split; auto. exists s. auto.
      * intros [= <- <- <-]. auto.
    + intros [= <- <- <-]. left. repeat split; auto. left.
      unfold put in E. destruct (dst <? length (slots st)) eqn:L; [discriminate|]. now apply Nat.ltb_ge.
  - intros [= <- <- <-]. left. repeat split; auto. right.
    unfold get in G. now apply nth_error_None.
Qed.

Lemma assign_move_nofault st dst src s : dst < length (slots st) -> get st src = Some s ->
  assign_move st None dst src =
  (mkfv (cap st) (size st) (upd (upd (slots st) dst (fun _ => s)) src (fun _ => Moved)), None, Done).
Proof.
  intros Hd G. unfold assign_move. rewrite G. rewrite put_some by auto. simpl.
  rewrite put_some by (simpl; rewrite upd_length; eapply get_lt; eauto). reflexivity.
Qed.

(* both primitives keep the frame, and keep NF when the value written is not a never-filled one *)
Lemma assign_val_frame st p dst s st' p' o : assign_val st p dst s = (st', p', o) -> same_frame st st'.
Proof.
  intros H. apply assign_val_cases in H.
  destruct H as [(_ & -> & _)|[(_ & -> & _)|(_ & _ & _ & ->)]]; try apply same_frame_refl.
  repeat split; simpl. apply upd_length.
Qed.

Lemma assign_val_NF st p dst s st' p' o : assign_val st p dst s = (st', p', o) -> nonfresh s -> NF st -> NF st'.
Proof.
  intros H Hs Hn. apply assign_val_cases in H.
  destruct H as [(_ & -> & _)|[(_ & -> & _)|(_ & _ & _ & ->)]]; auto.
  unfold NF, abs in *. simpl. apply Forall_firstn_upd; auto.
Qed.

Lemma assign_move_frame st p dst src st' p' o : assign_move st p dst src = (st', p', o) -> same_frame st st'.
Proof.
  intros H. apply assign_move_cases in H.
  destruct H as [(_ & -> & _)|[(_ & -> & _)|(_ & _ & _ & _ & s & _ & ->)]]; try apply same_frame_refl.
  repeat split; simpl. now rewrite !upd_length.
Qed.

Lemma assign_move_NF st p dst src st' p' o : assign_move st p dst src = (st', p', o) -> src < size st -> NF st -> NF st'.
Proof.
  intros H Hs Hn. apply assign_move_cases in H.
  destruct H as [(_ & -> & _)|[(_ & -> & _)|(_ & _ & _ & _ & s & G & ->)]]; auto.
  unfold NF, abs in *. simpl. apply Forall_firstn_upd; [apply Forall_firstn_upd|]; simpl; auto.
  apply (Forall_nth_error _ _ src s Hn). rewrite nth_error_firstn_lt by exact Hs. exact G.
Qed.

Lemma assign_val_no_oos st p dst s st' p' o : assign_val st p dst s = (st', p', o) -> dst < length (slots st) -> o <> OutOfStorage.
Proof.
  intros H Hd. apply assign_val_cases in H.
  destruct H as [(_ & _ & ?)|[(-> & _)|(-> & _)]]; [lia| |]; discriminate.
Qed.

Lemma assign_move_no_oos st p dst src st' p' o : assign_move st p dst src = (st', p', o) ->
  dst < length (slots st) -> src < length (slots st) -> o <> OutOfStorage.
Proof.
  intros H Hd Hs. apply assign_move_cases in H.
  destruct H as [(_ & _ & [?|?])|[(-> & _)|(-> & _)]]; try lia; discriminate.
Qed.

(* an assignment that did not complete changed nothing *)
Lemma assign_val_not_done st p dst s st' p' o : assign_val st p dst s = (st', p', o) -> o <> Done -> st' = st.
Proof.
  intros H Hn. apply assign_val_cases in H.
  destruct H as [(_ & -> & _)|[(_ & -> & _)|(-> & _)]]; auto. congruence.
Qed.

Lemma assign_move_not_done st p dst src st' p' o : assign_move st p dst src = (st', p', o) -> o <> Done -> st' = st.
Proof.
  intros H Hn. apply assign_move_cases in H.
  destruct H as [(_ & -> & _)|[(_ & -> & _)|(-> & _)]]; auto. congruence.
Qed.

Lemma assign_val_outcomes st p dst s st' p' o : assign_val st p dst s = (st', p', o) -> o = Done \/ o = Faulted \/ o = OutOfStorage.
Proof. intros H. apply assign_val_cases in H. intuition. Qed.

Lemma assign_move_outcomes st p dst src st' p' o : assign_move st p dst src = (st', p', o) -> o = Done \/ o = Faulted \/ o = OutOfStorage.
Proof. intros H. apply assign_move_cases in H. intuition. Qed.

(* without a fault plan nothing faults *)
Lemma assign_val_None_plan st dst s st' p' o : assign_val st None dst s = (st', p', o) -> p' = None /\ o <> Faulted.
Proof. unfold assign_val. destruct (put st dst s); simpl; intros [= <- <- <-]; split; auto; discriminate. Qed.

Lemma assign_move_None_plan st dst src st' p' o : assign_move st None dst src = (st', p', o) -> p' = None /\ o <> Faulted.
Proof.
  unfold assign_move. destruct (get st src); [|intros [= <- <- <-]; split; auto; discriminate].
  destruct (put st dst s) as [st1|]; simpl; [|intros [= <- <- <-]; split; auto; discriminate].
  destruct (put st1 src Moved); intros [= <- <- <-]; split; auto; discriminate.
Qed.

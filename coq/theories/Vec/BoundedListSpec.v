(* Vec/BoundedListSpec.v — the specification side of C06/C07: an ordinary list bounded by a capacity.
   Nothing here mentions slots, storage or loops.  `None` = the operation is refused (the C++ raises and the
   container is unchanged).  The element type is arbitrary.

   Also: the same operation language as the model's pool interpreter, interpreted over abstract objects
   (capacity, list) — `sstep`.  The refinement theorem of C07 says that the model's `pstep` and `sstep`
   commute with the abstraction; the differential oracle runs `sstep`. *)
From Coq Require Import List Arith Bool.
From Nitro Require Import Base.ListX Vec.FixedVecModel.
Import ListNotations.
Local Open Scope list_scope.

Section BoundedList.
  Context {A : Type}.

  (* append one element: needs room *)
  Definition bl_append (c : nat) (l : list A) (v : A) : option (list A) :=
    if length l <? c then Some (l ++ [v]) else None.

  (* insert before position i: needs room and i <= length *)
  Definition bl_emplace (c : nat) (l : list A) (i : nat) (v : A) : option (list A) :=
    if (length l <? c) && (i <=? length l) then Some (firstn i l ++ v :: skipn i l) else None.

  (* remove the last element *)
  Definition bl_pop (l : list A) : option (list A) :=
    match l with [] => None | _ => Some (removelast l) end.

  (* remove the element at index i, keep the order of the rest *)
  Definition bl_erase (l : list A) (i : nat) : option (list A) :=
    if i <? length l then Some (firstn i l ++ skipn (S i) l) else None.

  (* checked access *)
  Definition bl_at (l : list A) (i : nat) : option A := nth_error l i.

  (* append a range: as many elements as fit are appended; the flag says whether all of them fitted
     (if not, the C++ raises after having appended the ones that fitted) *)
  Definition bl_append_range (c : nat) (l xs : list A) : list A * bool :=
    (l ++ firstn (c - length l) xs, length xs <=? c - length l).

  (* insert(pos, first, last) of the header: OVERWRITES from position i on and extends the sequence when it
     runs past the end (it does not shift the tail as std::vector::insert would); refused when i > length;
     the flag says whether the whole range fitted below the capacity *)
  Definition bl_overwrite (c : nat) (l : list A) (i : nat) (xs : list A) : option (list A * bool) :=
    if length l <? i then None
    else let w := firstn (c - i) xs in
         Some (firstn i l ++ w ++ skipn (i + length w) l, length xs <=? c - i).
End BoundedList.

(* ---------------------------------------------------------------------------------------------
   abstract objects and the operation language over them *)
Definition aobj := (nat * list slot)%type.          (* capacity, contents *)
Definition apool := list (option aobj).
Definition aget (P : apool) (i : nat) : option aobj := match nth_error P i with Some (Some a) => Some a | _ => None end.
Definition aset (P : apool) (i : nat) (x : option aobj) : apool := upd P i (fun _ => x).

Definition a_construct (P : apool) (i : nat) (x : option aobj) : apool * outcome :=
  if i <? length P then (aset P i x, match x with Some _ => Done | None => Raised end) else (P, Skipped).
Definition a_on (P : apool) (i : nat) (f : aobj -> aobj * outcome) : apool * outcome :=
  match aget P i with
  | None => (P, Skipped)
  | Some a => let r := f a in (aset P i (Some (fst r)), snd r)
  end.
(* an operation that either yields a new list or is refused *)
Definition a_try (a : aobj) (r : option (list slot)) : aobj * outcome :=
  match r with Some l => ((fst a, l), Done) | None => (a, Raised) end.
Definition a_range (a : aobj) (r : option (list slot * bool)) : aobj * outcome :=
  match r with Some (l, fits) => ((fst a, l), if fits then Done else Raised) | None => (a, Raised) end.

Definition sstep (o : op) (P : apool) : apool * outcome :=
  match o with
  | ONew i c => a_construct P i (Some (c, []))
  | ONewFrom i c xs => a_construct P i (if length xs <=? c then Some (c, map Filled xs) else None)
  | ONewList i xs => a_construct P i (Some (length xs, map Filled xs))
  | OCopy i j =>
      if i =? j then (P, Skipped) else
      match aget P j with None => (P, Skipped) | Some a => a_construct P i (Some a) end
  | OMove i j =>
      if i =? j then (P, Skipped) else if negb (i <? length P) then (P, Skipped) else
      match aget P j with
      | None => (P, Skipped)
      | Some a => (aset (aset P j (Some (fst a, []))) i (Some a), Done)
      end
  | OAssign i j =>
      match aget P j with None => (P, Skipped) | Some a => a_on P i (fun _ => (a, Done)) end
  | OMoveAssign i j =>
      match aget P i, aget P j with
      | Some _, Some a => (aset (aset P j (Some (fst a, []))) i (Some a), Done)
      | _, _ => (P, Skipped)
      end
  | OListAssign i xs => a_on P i (fun _ => ((length xs, map Filled xs), Done))
  | OAt i k | OGet i k => a_on P i (fun a => (a, match bl_at (snd a) k with Some _ => Done | None => Raised end))
  | OEmplace i pos v => a_on P i (fun a => a_try a (bl_emplace (fst a) (snd a) pos (Filled v)))
  | OEmplaceBack i v | OInsert i v | OInsertMove i v | OPushBack i v =>
      a_on P i (fun a => a_try a (bl_append (fst a) (snd a) (Filled v)))
  | OInsertRange i pos xs | OInsertList i pos xs =>
      a_on P i (fun a => a_range a (bl_overwrite (fst a) (snd a) pos (map Filled xs)))
  | OPushBackRange i xs => a_on P i (fun a => a_range a (Some (bl_append_range (fst a) (snd a) (map Filled xs))))
  | OPop i => a_on P i (fun a => a_try a (bl_pop (snd a)))
  | OErase i pos => a_on P i (fun a => a_try a (bl_erase (snd a) pos))
  | ODestroy i => if i <? length P then (aset P i None, Done) else (P, Skipped)
  (* aliasing arguments: the value(s) named by the caller are those of the sequence BEFORE the operation *)
  | OEmplaceAt i pos k =>
      a_on P i (fun a => match nth_error (snd a) k with Some s => a_try a (bl_emplace (fst a) (snd a) pos s) | None => (a, Skipped) end)
  | OEmplaceBackAt i k | OInsertAt i k | OPushBackAt i k =>
      a_on P i (fun a => match nth_error (snd a) k with Some s => a_try a (bl_append (fst a) (snd a) s) | None => (a, Skipped) end)
  | OInsertSelfRange i pos x y =>
      a_on P i (fun a => if (x <=? y) && (y <=? length (snd a))
                         then a_range a (bl_overwrite (fst a) (snd a) pos (firstn (y - x) (skipn x (snd a)))) else (a, Skipped))
  | OPushBackSelfRange i x y =>
      a_on P i (fun a => if (x <=? y) && (y <=? length (snd a))
                         then a_range a (Some (bl_append_range (fst a) (snd a) (firstn (y - x) (skipn x (snd a))))) else (a, Skipped))
  (* a position before the first element is outside [0,size) resp. [0,size]: refused, nothing changes *)
  | OEraseBefore i _ | OEmplaceBefore i _ _ | OInsertRangeBefore i _ _ => a_on P i (fun a => (a, Raised))
  (* a constructor that raises leaves no object *)
  | OConstructFrom i c j =>
      if i =? j then (P, Skipped) else
      match aget P j with
      | None => (P, Skipped)
      | Some a => a_construct P i (if length (snd a) <=? c then Some (c, snd a) else None)
      end
  (* the element constructor throws: nothing changes (a full container / a bad position is refused before that) *)
  | OEmplaceBackCtorThrows i =>
      a_on P i (fun a => (a, if fst a <=? length (snd a) then Raised else Faulted))
  | OEmplaceCtorThrows i pos =>
      a_on P i (fun a => (a, if fst a <=? length (snd a) then Raised else if length (snd a) <? pos then Raised else Faulted))
  end.

Fixpoint srun (ops : list op) (P : apool) : apool * list outcome :=
  match ops with
  | [] => (P, [])
  | o :: r => let s := sstep o P in let t := srun r (fst s) in (fst t, snd s :: snd t)
  end.

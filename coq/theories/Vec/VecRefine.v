(* Vec/VecRefine.v — C07: when no element assignment throws, every operation of the model computes, on the
   visible sequence `abs`, exactly the bounded-list operation of BoundedListSpec.v. *)
From Coq Require Import List Arith Bool Lia.
From Nitro Require Import Base.ListX Vec.FixedVecModel Vec.VecBase Vec.BoundedListSpec Vec.VecInv.
Import ListNotations.
Local Open Scope list_scope.

Lemma abs_length (Q : slot -> Prop) st : GInv Q st -> length (abs st) = size st.
Proof. intros (H1 & H2 & _). unfold abs. rewrite firstn_length. lia. Qed.

Lemma slots_split (Q : slot -> Prop) st : GInv Q st -> slots st = abs st ++ skipn (size st) (slots st).
Proof. intros _. unfold abs. now rewrite firstn_skipn. Qed.

(* ---------- append ---------- *)
Lemma append_refines (Q : slot -> Prop) v st st' o : GInv Q st -> append None v st = (st', o) ->
  match bl_append (cap st) (abs st) v with
  | Some l => o = Done /\ abs st' = l /\ cap st' = cap st
  | None => o = Raised /\ st' = st
  end.
Proof.
  intros HI H. pose proof (abs_length Q st HI) as HL. destruct HI as (H1 & H2 & H3).
  unfold bl_append. rewrite HL. unfold append in H.
  destruct (cap st <=? size st) eqn:Ec.
  - apply Nat.leb_le in Ec. assert (E : (size st <? cap st) = false) by (apply Nat.ltb_ge; lia). rewrite E.
    inversion H; auto.
  - apply Nat.leb_gt in Ec. assert (E : (size st <? cap st) = true) by (apply Nat.ltb_lt; lia). rewrite E.
    rewrite assign_val_nofault in H by lia. inversion H; subst. unfold abs; simpl.
    repeat split; auto. apply firstn_S_upd. lia.
Qed.

(* ---------- emplace ---------- *)
Lemma shift_up_exact : forall n key st pre mid x post,
  slots st = pre ++ mid ++ x :: post -> length pre = key -> length mid = n ->
  shift_up n key None st =
  (mkfv (cap st) (size st) (match mid with [] => slots st | _ => pre ++ Moved :: mid ++ post end), None, Done).
Proof.
  induction n as [|m IH]; intros key st pre mid x post Hs Hp Hm.
  - destruct mid; [|discriminate]. simpl. destruct st; reflexivity.
  - destruct (exists_last (l := mid)) as (mid' & y & ->); [destruct mid; [discriminate|congruence]|].
    rewrite app_length in Hm. simpl in Hm.
    cbn [shift_up].
    assert (Hs1 : slots st = (pre ++ mid') ++ y :: x :: post).
    { rewrite Hs. rewrite <- !app_assoc. reflexivity. }
    assert (Hs2 : slots st = ((pre ++ mid') ++ [y]) ++ x :: post).
    { rewrite Hs1. rewrite <- !app_assoc. reflexivity. }
    assert (G : get st (key + m) = Some y).
    { unfold get. rewrite Hs1. apply nth_error_app_at. rewrite app_length. lia. }
    rewrite (assign_move_nofault st (key + S m) (key + m) y); auto.
    2:{ rewrite Hs2, !app_length. simpl. lia. }
    assert (Hs3 : upd (upd (slots st) (key + S m) (fun _ => y)) (key + m) (fun _ => Moved) = pre ++ mid' ++ Moved :: (y :: post)).
    { rewrite Hs2. rewrite upd_app_at by (rewrite !app_length; simpl; lia).
      rewrite <- (app_assoc (pre ++ mid') [y]). simpl.
      rewrite upd_app_at by (rewrite app_length; lia). rewrite <- app_assoc. reflexivity. }
    rewrite (IH key _ pre mid' Moved (y :: post)); simpl; auto; try lia.
    f_equal. f_equal. f_equal. rewrite Hs3.
    destruct mid' as [|z mid']; simpl; [reflexivity|].
    destruct (mid' ++ [y]) eqn:E; [destruct mid'; discriminate|]. rewrite <- E.
    rewrite <- !app_assoc. reflexivity.
Qed.

Lemma emplace_refines (Q : slot -> Prop) key v st st' o : GInv Q st -> emplace None key v st = (st', o) ->
  match bl_emplace (cap st) (abs st) key v with
  | Some l => o = Done /\ abs st' = l /\ cap st' = cap st
  | None => o = Raised /\ st' = st
  end.
Proof.
  intros HI H. pose proof (abs_length Q st HI) as HL. destruct HI as (H1 & H2 & H3).
  unfold bl_emplace. rewrite HL. unfold emplace in H.
  destruct (cap st <=? size st) eqn:Ec.
  { apply Nat.leb_le in Ec. assert (E : (size st <? cap st) = false) by (apply Nat.ltb_ge; lia). rewrite E. simpl.
    inversion H; auto. }
  apply Nat.leb_gt in Ec. assert (E : (size st <? cap st) = true) by (apply Nat.ltb_lt; lia). rewrite E. simpl.
  destruct (size st <? key) eqn:Ek.
  { apply Nat.ltb_lt in Ek. assert (E2 : (key <=? size st) = false) by (apply Nat.leb_gt; lia). rewrite E2.
    inversion H; auto. }
  apply Nat.ltb_ge in Ek. assert (E2 : (key <=? size st) = true) by (apply Nat.leb_le; lia). rewrite E2.
  (* slots = firstn key abs ++ skipn key abs ++ x :: post *)
  destruct (split_at (slots st) (size st)) as [x Hx]; [lia|].
  fold (abs st) in Hx.
  assert (Hs : slots st = firstn key (abs st) ++ skipn key (abs st) ++ x :: skipn (S (size st)) (slots st)).
  { rewrite app_assoc, firstn_skipn. exact Hx. }
  assert (Lp : length (firstn key (abs st)) = key) by (rewrite firstn_length; lia).
  assert (Lm : length (skipn key (abs st)) = size st - key) by (rewrite skipn_length; lia).
  rewrite (shift_up_exact _ _ _ _ _ _ _ Hs Lp Lm) in H.
  set (st1 := mkfv _ _ _) in H.
  assert (Hs1 : exists y, slots st1 = firstn key (abs st) ++ y :: skipn key (abs st) ++ skipn (S (size st)) (slots st)).
  { subst st1; simpl. destruct (skipn key (abs st)) eqn:Em.
    - exists x. rewrite Hs at 1. reflexivity.
    - exists Moved. reflexivity. }
  destruct Hs1 as (y & Hs1).
  assert (Sz : size st1 = size st /\ cap st1 = cap st) by (subst st1; auto).
  destruct Sz as (Sz & Cz). clearbody st1.
  rewrite assign_val_nofault in H.
  2:{ rewrite Hs1, app_length. simpl. lia. }
  inversion H; subst st' o. clear H. unfold abs at 1. cbn [size slots cap set_size].
  repeat split; auto.
  rewrite Hs1. rewrite upd_app_at by auto.
  replace (S (size st1)) with (length (firstn key (abs st) ++ v :: skipn key (abs st))).
  2:{ rewrite app_length. simpl. rewrite Lp, Lm. lia. }
  change (firstn key (abs st) ++ v :: skipn key (abs st) ++ skipn (S (size st)) (slots st))
    with (firstn key (abs st) ++ (v :: skipn key (abs st)) ++ skipn (S (size st)) (slots st)).
  rewrite app_assoc. apply firstn_app_exact.
Qed.

(* ---------- pop_back ---------- *)
Lemma pop_back_refines (Q : slot -> Prop) st st' o : GInv Q st -> pop_back st = (st', o) ->
  match bl_pop (abs st) with
  | Some l => o = Done /\ abs st' = l /\ cap st' = cap st
  | None => o = Raised /\ st' = st
  end.
Proof.
  intros HI H. pose proof (abs_length Q st HI) as HL. destruct HI as (H1 & H2 & H3).
  unfold pop_back in H. unfold bl_pop. destruct (size st =? 0) eqn:E.
  - apply Nat.eqb_eq in E. destruct (abs st); [|simpl in HL; lia]. inversion H; auto.
  - apply Nat.eqb_neq in E. destruct (abs st) eqn:Ea; [simpl in HL; lia|]. rewrite <- Ea.
    inversion H; subst. unfold abs; simpl. repeat split; auto.
    destruct (size st) as [|n]; [lia|]. simpl. rewrite Nat.sub_0_r.
    symmetry. apply removelast_firstn. lia.
Qed.

(* ---------- erase ---------- *)
Lemma shift_down_exact : forall n key st pre x mid post,
  slots st = pre ++ x :: mid ++ post -> length pre = key -> length mid = n ->
  shift_down n key None st =
  (mkfv (cap st) (size st) (match mid with [] => slots st | _ => pre ++ mid ++ Moved :: post end), None, Done).
Proof.
  induction n as [|m IH]; intros key st pre x mid post Hs Hp Hm.
  - destruct mid; [|discriminate]. simpl. destruct st; reflexivity.
  - destruct mid as [|y mid']; [discriminate|]. simpl in Hm.
    cbn [shift_down].
    assert (Hs1 : slots st = (pre ++ [x]) ++ y :: mid' ++ post).
    { rewrite Hs. rewrite <- app_assoc. reflexivity. }
    assert (G : get st (S key) = Some y).
    { unfold get. rewrite Hs1. apply nth_error_app_at. rewrite app_length. simpl. lia. }
    rewrite (assign_move_nofault st key (S key) y); auto.
    2:{ rewrite Hs, app_length. simpl. lia. }
    assert (Hs3 : upd (upd (slots st) key (fun _ => y)) (S key) (fun _ => Moved) = (pre ++ [y]) ++ Moved :: mid' ++ post).
    { rewrite Hs. rewrite upd_app_at by auto.
      change (pre ++ y :: (y :: mid') ++ post) with (pre ++ [y] ++ y :: mid' ++ post).
      rewrite app_assoc. rewrite upd_app_at by (rewrite app_length; simpl; lia). reflexivity. }
    rewrite (IH (S key) _ (pre ++ [y]) Moved mid' post); simpl; auto; try (rewrite app_length; simpl; lia).
    f_equal. f_equal. f_equal.
    destruct mid' as [|z mid']; simpl.
    + rewrite Hs3. rewrite <- app_assoc. reflexivity.
    + rewrite <- app_assoc. reflexivity.
Qed.

Lemma erase_refines (Q : slot -> Prop) key st st' o : GInv Q st -> erase None key st = (st', o) ->
  match bl_erase (abs st) key with
  | Some l => o = Done /\ abs st' = l /\ cap st' = cap st
  | None => o = Raised /\ st' = st
  end.
Proof.
  intros HI H. pose proof (abs_length Q st HI) as HL. destruct HI as (H1 & H2 & H3).
  unfold bl_erase. rewrite HL. unfold erase in H.
  destruct (size st <=? key) eqn:Ek.
  { apply Nat.leb_le in Ek. assert (E : (key <? size st) = false) by (apply Nat.ltb_ge; lia). rewrite E.
    inversion H; auto. }
  apply Nat.leb_gt in Ek. assert (E : (key <? size st) = true) by (apply Nat.ltb_lt; lia). rewrite E.
  destruct (split_at (abs st) key) as [x Hx]; [lia|].
  assert (Lm : length (skipn (S key) (abs st)) = Nat.min (size st) (cap st) - S key) by (rewrite skipn_length; lia).
  remember (skipn (S key) (abs st)) as mid eqn:Em.
  remember (firstn key (abs st)) as pre eqn:Ep.
  assert (Lp : length pre = key) by (subst pre; rewrite firstn_length; lia).
  assert (Hs : slots st = pre ++ x :: mid ++ skipn (size st) (slots st)).
  { rewrite (slots_split Q st) at 1 by (repeat split; auto). rewrite Hx at 1. rewrite <- app_assoc. reflexivity. }
  rewrite (shift_down_exact _ _ _ _ _ _ _ Hs Lp Lm) in H.
  inversion H; subst st' o. clear H. unfold abs at 1. cbn [size slots cap set_size].
  repeat split; auto.
  replace (size st - 1) with (length (pre ++ mid)) by (rewrite app_length, Lp, Lm; lia).
  destruct mid.
  - rewrite Hs. rewrite app_nil_r. apply firstn_app_exact.
  - rewrite app_assoc. apply firstn_app_exact.
Qed.

(* ---------- range insert ---------- *)
Lemma insert_loop_exact : forall xs key st, length (slots st) = cap st -> key <= size st -> size st <= cap st ->
  insert_loop xs key None st =
  (mkfv (cap st) (Nat.max (size st) (key + length (firstn (cap st - key) xs)))
        (firstn key (slots st) ++ firstn (cap st - key) xs ++ skipn (key + length (firstn (cap st - key) xs)) (slots st)),
   if length xs <=? cap st - key then Done else Raised).
Proof.
  induction xs as [|x r IH]; intros key st HL Hk Hc.
  - rewrite firstn_nil. simpl. rewrite Nat.add_0_r, firstn_skipn. destruct st; simpl in *. f_equal. f_equal. lia.
  - cbn [insert_loop]. destruct (cap st <=? key) eqn:Ec.
    + apply Nat.leb_le in Ec. replace (cap st - key) with 0 by lia.
      simpl. rewrite Nat.add_0_r, firstn_skipn. destruct st; simpl in *. f_equal. f_equal. lia.
    + apply Nat.leb_gt in Ec. rewrite assign_val_nofault by lia.
      replace (cap st - key) with (S (cap st - S key)) by lia.
      set (st1 := mkfv _ _ _).
      set (st2 := if key =? size st1 then _ else _).
      assert (W : cap st2 = cap st /\ slots st2 = upd (slots st) key (fun _ => x) /\
                  size st2 = (if key =? size st then S (size st) else size st)).
      { subst st2 st1. simpl. destruct (key =? size st); simpl; auto. }
      destruct W as (W1 & W2 & W3).
      rewrite IH.
      2:{ rewrite W1, W2. now rewrite upd_length. }
      2:{ rewrite W3. destruct (key =? size st) eqn:Ek; [apply Nat.eqb_eq in Ek|apply Nat.eqb_neq in Ek]; lia. }
      2:{ rewrite W1, W3. destruct (key =? size st) eqn:Ek; [apply Nat.eqb_eq in Ek|]; lia. }
      rewrite W1, W2, W3. rewrite !firstn_cons. cbn [length]. f_equal.
      f_equal.
        -- destruct (key =? size st) eqn:Ek; [apply Nat.eqb_eq in Ek|apply Nat.eqb_neq in Ek]; lia.
        -- rewrite firstn_S_upd by lia. rewrite skipn_upd_gt by lia.
           rewrite <- app_assoc. simpl. rewrite Nat.add_succ_r. reflexivity.
Qed.

Lemma insert_range_refines (Q : slot -> Prop) key xs st st' o : GInv Q st -> insert_range None key xs st = (st', o) ->
  match bl_overwrite (cap st) (abs st) key xs with
  | Some (l, fits) => o = (if fits then Done else Raised) /\ abs st' = l /\ cap st' = cap st
  | None => o = Raised /\ st' = st
  end.
Proof.
  intros HI H. pose proof (abs_length Q st HI) as HL. destruct HI as (H1 & H2 & H3).
  unfold bl_overwrite. rewrite HL. unfold insert_range in H.
  destruct (size st <? key) eqn:Ek.
  { inversion H; auto. }
  apply Nat.ltb_ge in Ek. rewrite insert_loop_exact in H by auto.
  inversion H; subst st' o. clear H.
  set (w := firstn (cap st - key) xs). unfold abs at 1. cbn [size slots cap].
  repeat split; auto.
  assert (La : length (firstn key (slots st)) = key) by (rewrite firstn_length; lia).
  assert (Fa : firstn key (abs st) = firstn key (slots st)).
  { unfold abs. rewrite firstn_firstn. f_equal. lia. }
  rewrite Fa.
  destruct (Nat.le_gt_cases (size st) (key + length w)) as [Hm|Hm].
  - replace (Nat.max (size st) (key + length w)) with (length (firstn key (slots st) ++ w)) by (rewrite app_length; lia).
    rewrite app_assoc. rewrite firstn_app_exact.
    unfold abs. rewrite skipn_all2 by (rewrite firstn_length; lia). now rewrite app_nil_r.
  - replace (Nat.max (size st) (key + length w)) with (size st) by lia.
    rewrite app_assoc. rewrite firstn_app. rewrite firstn_all2 by (rewrite app_length; lia).
    rewrite <- app_assoc. f_equal. f_equal.
    unfold abs. rewrite skipn_firstn_comm. f_equal. rewrite app_length. lia.
Qed.

Lemma bl_overwrite_end {A} c (l xs : list A) : bl_overwrite c l (length l) xs = Some (bl_append_range c l xs).
Proof.
  unfold bl_overwrite, bl_append_range. rewrite Nat.ltb_irrefl. rewrite firstn_all.
  rewrite skipn_all2 by lia. now rewrite app_nil_r.
Qed.

Lemma push_back_range_refines (Q : slot -> Prop) xs st st' o : GInv Q st -> push_back_range None xs st = (st', o) ->
  let r := bl_append_range (cap st) (abs st) xs in
  o = (if snd r then Done else Raised) /\ abs st' = fst r /\ cap st' = cap st.
Proof.
  intros HI H. unfold push_back_range in H. apply (insert_range_refines Q) in H; auto.
  rewrite <- (abs_length Q st HI) in H. rewrite bl_overwrite_end in H.
  destruct (bl_append_range (cap st) (abs st) xs) as [l fits]. exact H.
Qed.

(* ---------- range insert from the vector itself ----------
   When the target position is not strictly inside the source range the element-by-element copy reads every source
   slot before it is overwritten, so the loop equals the loop over the values the range had at the start. *)
Lemma skipn_upd_ge {A} (l : list A) i f n : n <= i -> skipn n (upd l i f) = upd (skipn n l) (i - n) f.
Proof.
  revert i n; induction l as [|x l IH]; intros i n H.
  - rewrite !skipn_nil. reflexivity.
  - destruct n as [|n]; [now rewrite Nat.sub_0_r|]. destruct i as [|i]; [lia|]. simpl. apply IH. lia.
Qed.

Lemma insert_self_loop_as_loop : forall n src key st,
  src + n <= length (slots st) -> key <= src \/ src + n <= key ->
  insert_self_loop n src key None st = insert_loop (firstn n (skipn src (slots st))) key None st.
Proof.
  induction n as [|m IH]; intros src key st Hl Hov; [reflexivity|].
  destruct (get_some st src) as [x Gx]; [lia|].
  cbn [insert_self_loop]. rewrite Gx. unfold get in Gx.
  rewrite (nth_error_skipn_cons _ _ _ Gx). rewrite firstn_cons. cbn [insert_loop].
  destruct (cap st <=? key); [reflexivity|].
  destruct (assign_val st None key x) as [[st1 p1] o1] eqn:E.
  destruct (assign_val_None_plan _ _ _ _ _ _ E) as (-> & _).
  destruct o1; try reflexivity.
  apply assign_val_cases in E. destruct E as [(? & _)|[(? & _)|(_ & Hk & _ & ->)]]; try discriminate.
  cbn [size]. set (st2 := if key =? size st then _ else _).
  assert (S2 : slots st2 = upd (slots st) key (fun _ => x)) by (subst st2; destruct (key =? size st); reflexivity).
  rewrite IH.
  - rewrite S2. f_equal. destruct Hov as [Hov|Hov].
    + now rewrite skipn_upd_gt by lia.
    + rewrite skipn_upd_ge by lia. now rewrite firstn_upd_le by lia.
  - rewrite S2, upd_length. lia.
  - lia.
Qed.

Lemma slice_abs st a b : b <= size st -> firstn (b - a) (skipn a (slots st)) = firstn (b - a) (skipn a (abs st)).
Proof.
  intros H. unfold abs. rewrite skipn_firstn_comm, firstn_firstn. f_equal. lia.
Qed.

Lemma insert_self_range_refines (Q : slot -> Prop) key a b st st' o :
  GInv Q st -> self_range_valid st a b = true -> key <= a \/ b <= key ->
  insert_self_range None key a b st = (st', o) ->
  match bl_overwrite (cap st) (abs st) key (firstn (b - a) (skipn a (abs st))) with
  | Some (l, fits) => o = (if fits then Done else Raised) /\ abs st' = l /\ cap st' = cap st
  | None => o = Raised /\ st' = st
  end.
Proof.
  intros HI Hv Hov H. unfold self_range_valid in Hv. apply andb_prop in Hv. destruct Hv as (V1 & V2).
  apply Nat.leb_le in V1. apply Nat.leb_le in V2.
  apply (insert_range_refines Q); auto. rewrite <- H. unfold insert_range, insert_self_range.
  destruct (size st <? key); [reflexivity|].
  rewrite insert_self_loop_as_loop.
  - now rewrite slice_abs.
  - destruct HI as (H1 & H2 & _). lia.
  - lia.
Qed.

Lemma push_back_self_range_refines (Q : slot -> Prop) a b st st' o :
  GInv Q st -> self_range_valid st a b = true -> push_back_self_range None a b st = (st', o) ->
  let r := bl_append_range (cap st) (abs st) (firstn (b - a) (skipn a (abs st))) in
  o = (if snd r then Done else Raised) /\ abs st' = fst r /\ cap st' = cap st.
Proof.
  intros HI Hv H. unfold push_back_self_range in H.
  assert (Hb : b <= size st).
  { unfold self_range_valid in Hv. apply andb_prop in Hv. destruct Hv as (_ & V2). now apply Nat.leb_le in V2. }
  apply (insert_self_range_refines Q) in H; auto.
  rewrite <- (abs_length Q st HI) in H. rewrite bl_overwrite_end in H.
  destruct (bl_append_range (cap st) (abs st) (firstn (b - a) (skipn a (abs st)))) as [l fits]. exact H.
Qed.

(* ... and it is NOT the case when the position lies strictly inside the source range: [1,2,3], insert(begin()+1,
   begin(), begin()+2) copies the 1 twice *)
Lemma insert_self_range_overlap_witness :
  insert_self_range None 1 0 2 (mkfv 3 3 [Filled 1; Filled 2; Filled 3]) = (mkfv 3 3 [Filled 1; Filled 1; Filled 1], Done) /\
  bl_overwrite 3 [Filled 1; Filled 2; Filled 3] 1 [Filled 1; Filled 2] = Some ([Filled 1; Filled 1; Filled 2], true).
Proof. split; reflexivity. Qed.

(* ---------- constructors ---------- *)
Lemma make_abs c : abs (make c) = [] /\ cap (make c) = c.
Proof. split; reflexivity. Qed.

Lemma make_from_refines c xs st' o : make_from None c xs = (st', o) ->
  if length xs <=? c then o = Done /\ abs st' = xs /\ cap st' = c else o = Raised.
Proof.
  unfold make_from. intros H. apply (insert_range_refines (fun _ => True)) in H; [|apply make_GInv].
  unfold bl_overwrite in H. simpl in H. rewrite Nat.sub_0_r in H.
  destruct (length xs <=? c) eqn:E.
  - apply Nat.leb_le in E. destruct H as (-> & -> & ->). repeat split; auto.
    rewrite firstn_all2 by lia. destruct (length xs); simpl; now rewrite app_nil_r.
  - apply H.
Qed.

Lemma copy_ctor_refines (Q : slot -> Prop) src st' o : GInv Q src -> copy_ctor None src = (st', o) ->
  o = Done /\ abs st' = abs src /\ cap st' = cap src.
Proof.
  intros HI H. unfold copy_ctor in H. rewrite (iterate_abs Q) in H by auto.
  apply make_from_refines in H. rewrite (abs_length Q) in H by auto.
  destruct HI as (H1 & _). apply Nat.leb_le in H1. rewrite H1 in H. exact H.
Qed.

Lemma make_from_obj_refines (Q : slot -> Prop) c src st' o : GInv Q src -> make_from_obj None c src = (st', o) ->
  if length (abs src) <=? c then o = Done /\ abs st' = abs src /\ cap st' = c else o = Raised.
Proof.
  intros HI H. unfold make_from_obj in H. rewrite (iterate_abs Q) in H by auto. now apply make_from_refines in H.
Qed.

Lemma move_ctor_refines src :
  abs (fst (move_ctor src)) = abs src /\ cap (fst (move_ctor src)) = cap src /\
  abs (snd (move_ctor src)) = [] /\ cap (snd (move_ctor src)) = cap src.
Proof. unfold move_ctor, abs; simpl. auto. Qed.

Lemma copy_assign_refines (Q : slot -> Prop) dst src st' o : GInv Q src -> copy_assign None dst src = (st', o) ->
  o = Done /\ abs st' = abs src /\ cap st' = cap src.
Proof.
  intros HI H. unfold copy_assign in H. destruct (copy_ctor None src) as [tmp o1] eqn:E.
  apply (copy_ctor_refines Q) in E; auto. destruct E as (-> & E2 & E3). inversion H; subst. auto.
Qed.

Lemma list_assign_refines dst xs st' o : list_assign None dst xs = (st', o) ->
  o = Done /\ abs st' = xs /\ cap st' = length xs.
Proof.
  intros H. unfold list_assign in H. destruct (make_from None (length xs) xs) as [tmp o1] eqn:E.
  apply make_from_refines in E. rewrite Nat.leb_refl in E. destruct E as (-> & E2 & E3). inversion H; subst. auto.
Qed.

Lemma make_list_refines xs st' o : make_list None xs = (st', o) -> o = Done /\ abs st' = xs /\ cap st' = length xs.
Proof.
  unfold make_list. intros H. apply make_from_refines in H. now rewrite Nat.leb_refl in H.
Qed.

(* ---------- access ---------- *)
Lemma at_refines (Q : slot -> Prop) st k : GInv Q st ->
  match bl_at (abs st) k with Some s => at_ st k = Val s | None => at_ st k = ARaised end.
Proof.
  intros HI. destruct (at_good Q st k HI) as (_ & _ & A & B). unfold bl_at.
  destruct (Nat.lt_ge_cases k (size st)) as [Hk|Hk].
  - destruct (A Hk) as (s & E1 & E2). now rewrite E2.
  - rewrite (proj2 (nth_error_None (abs st) k)); auto. rewrite (abs_length Q) by auto. exact Hk.
Qed.

Lemma front_refines (Q : slot -> Prop) st : GInv Q st -> 0 < size st -> exists s, front st = Val s /\ hd_error (abs st) = Some s.
Proof.
  intros HI Hs. destruct (index_live Q st 0 HI Hs) as (s & E1 & E2). exists s. split; [exact E1|].
  destruct (abs st); simpl in *; congruence.
Qed.

Lemma back_refines (Q : slot -> Prop) st : GInv Q st -> 0 < size st -> exists s, back st = Val s /\ nth_error (abs st) (size st - 1) = Some s.
Proof.
  intros HI Hs. unfold back. destruct (size st =? 0) eqn:E; [apply Nat.eqb_eq in E; lia|].
  apply (index_live Q); auto. lia.
Qed.

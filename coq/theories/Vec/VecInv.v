(* Vec/VecInv.v — C06, per operation and for EVERY fault plan: the invariant survives, storage is never
   left, the capacity does not change, refused operations change nothing, a throwing element assignment
   leaves a valid container. *)
From Coq Require Import List Arith Bool Lia.
From Nitro Require Import Base.ListX Vec.FixedVecModel Vec.VecBase.
Import ListNotations.
Local Open Scope list_scope.

(* the two invariants are instances of one shape *)
Definition GInv (Q : slot -> Prop) (st : fv) : Prop :=
  size st <= cap st /\ length (slots st) = cap st /\ Forall Q (abs st).

Lemma Inv_G st : Inv st <-> GInv filled st.
Proof. reflexivity. Qed.
Lemma WInv_G st : WInv st <-> GInv nonfresh st.
Proof. reflexivity. Qed.

(* what an operation on one object guarantees, whatever happens inside it *)
Definition Good (Q : slot -> Prop) (st st' : fv) (o : outcome) : Prop :=
  GInv Q st' /\ cap st' = cap st /\ o <> OutOfStorage /\ o <> Skipped.

Lemma assign_val_Q (Q : slot -> Prop) st p dst s st' p' o :
  assign_val st p dst s = (st', p', o) -> Q s -> Forall Q (abs st) -> Forall Q (abs st').
Proof.
  intros H Hs Hn. apply assign_val_cases in H.
  destruct H as [(_ & -> & _)|[(_ & -> & _)|(_ & _ & _ & ->)]]; auto.
  unfold abs in *. simpl. apply Forall_firstn_upd; auto.
Qed.

Lemma make_GInv (Q : slot -> Prop) c : GInv Q (make c).
Proof. unfold GInv, make, abs; simpl. rewrite repeat_length. repeat split; auto with arith. Qed.

(* ---------- range insert ---------- *)
Lemma insert_loop_good (Q : slot -> Prop) : forall xs key p st st' o,
  insert_loop xs key p st = (st', o) -> Forall Q xs -> GInv Q st -> key <= size st ->
  Good Q st st' o /\ size st <= size st' /\ (o = Done \/ o = Raised \/ o = Faulted).
Proof.
  induction xs as [|x r IH]; intros key p st st' o H HQ (H1 & H2 & H3) Hk; simpl in H.
  - inversion H; subst. repeat split; auto; discriminate.
  - destruct (cap st <=? key) eqn:Ec.
    + inversion H; subst. repeat split; auto; discriminate.
    + apply Nat.leb_gt in Ec. inversion HQ as [|? ? Qx Qr]; subst.
      destruct (assign_val st p key x) as [[st1 p1] o1] eqn:E.
      pose proof (assign_val_frame _ _ _ _ _ _ _ E) as (F1 & F2 & F3).
      pose proof (assign_val_Q Q _ _ _ _ _ _ _ E Qx H3) as Q1.
      pose proof (assign_val_no_oos _ _ _ _ _ _ _ E ltac:(lia)) as NO.
      pose proof (assign_val_outcomes _ _ _ _ _ _ _ E) as OC.
      destruct o1; try (inversion H; subst; repeat split; auto; try lia; try congruence; try discriminate;
                        destruct OC as [?|[?|?]]; congruence).
      (* Done *)
      apply assign_val_cases in E.
      destruct E as [(? & _)|[(? & _)|(_ & Hl & _ & ->)]]; try discriminate. simpl in *.
      set (st2 := if key =? size st then _ else _) in H.
      assert (W2 : GInv Q st2 /\ S key <= size st2 /\ cap st2 = cap st /\ size st <= size st2).
      { subst st2. destruct (key =? size st) eqn:Ek; unfold GInv, abs in *; simpl in *.
        - apply Nat.eqb_eq in Ek. subst key. rewrite upd_length. repeat split; auto; try lia.
          apply Forall_firstn_S_upd; auto.
        - apply Nat.eqb_neq in Ek. rewrite upd_length. repeat split; auto; try lia. }
      destruct W2 as (W2 & K2 & C2 & S2).
      apply IH in H; auto.
      destruct H as ((G1 & G2 & G3 & G3') & G4 & G5).
      repeat split; auto; try lia; try apply G1.
Qed.

Lemma insert_range_good (Q : slot -> Prop) p key xs st st' o :
  insert_range p key xs st = (st', o) -> Forall Q xs -> GInv Q st ->
  Good Q st st' o /\ size st <= size st' /\ (o = Done \/ o = Raised \/ o = Faulted).
Proof.
  unfold insert_range. destruct (size st <? key) eqn:E; intros H HQ HI.
  - inversion H; subst. repeat split; auto; try apply HI; discriminate.
  - apply Nat.ltb_ge in E. eapply insert_loop_good; eauto.
Qed.

(* ---- range insert from the vector itself ---- *)
Lemma live_elem_abs (Q : slot -> Prop) st k : GInv Q st -> live_elem st k = nth_error (abs st) k.
Proof.
  intros (H1 & H2 & _). unfold live_elem, abs, get. destruct (k <? size st) eqn:E.
  - apply Nat.ltb_lt in E. now rewrite nth_error_firstn_lt.
  - apply Nat.ltb_ge in E. symmetry. apply nth_error_None. rewrite firstn_length. lia.
Qed.

Lemma live_elem_Q (Q : slot -> Prop) st k s : GInv Q st -> live_elem st k = Some s -> Q s.
Proof.
  intros HI E. rewrite (live_elem_abs Q) in E by auto. destruct HI as (_ & _ & H3).
  eapply Forall_nth_error; eauto.
Qed.

Lemma insert_self_loop_good (Q : slot -> Prop) : forall n src key p st st' o,
  insert_self_loop n src key p st = (st', o) -> GInv Q st -> key <= size st -> src + n <= size st ->
  Good Q st st' o /\ size st <= size st' /\ (o = Done \/ o = Raised \/ o = Faulted).
Proof.
  induction n as [|m IH]; intros src key p st st' o H (H1 & H2 & H3) Hk Hs; simpl in H.
  - inversion H; subst. repeat split; auto; discriminate.
  - destruct (cap st <=? key) eqn:Ec.
    + inversion H; subst. repeat split; auto; discriminate.
    + apply Nat.leb_gt in Ec.
      destruct (get_some st src) as [x Gx]; [lia|]. rewrite Gx in H.
      assert (Qx : Q x).
      { apply (Forall_nth_error _ _ src x H3). unfold abs. rewrite nth_error_firstn_lt by lia. exact Gx. }
      destruct (assign_val st p key x) as [[st1 p1] o1] eqn:E.
      pose proof (assign_val_frame _ _ _ _ _ _ _ E) as (F1 & F2 & F3).
      pose proof (assign_val_Q Q _ _ _ _ _ _ _ E Qx H3) as Q1.
      pose proof (assign_val_no_oos _ _ _ _ _ _ _ E ltac:(lia)) as NO.
      pose proof (assign_val_outcomes _ _ _ _ _ _ _ E) as OC.
      destruct o1; try (inversion H; subst; repeat split; auto; try lia; try congruence; try discriminate;
                        destruct OC as [?|[?|?]]; congruence).
      apply assign_val_cases in E.
      destruct E as [(? & _)|[(? & _)|(_ & Hl & _ & ->)]]; try discriminate. simpl in *.
      set (st2 := if key =? size st then _ else _) in H.
      assert (W2 : GInv Q st2 /\ S key <= size st2 /\ cap st2 = cap st /\ size st <= size st2).
      { subst st2. destruct (key =? size st) eqn:Ek; unfold GInv, abs in *; simpl in *.
        - apply Nat.eqb_eq in Ek. subst key. rewrite upd_length. repeat split; auto; try lia.
          apply Forall_firstn_S_upd; auto.
        - apply Nat.eqb_neq in Ek. rewrite upd_length. repeat split; auto; try lia. }
      destruct W2 as (W2 & K2 & C2 & S2).
      apply IH in H; auto; try lia.
      destruct H as ((G1 & G2 & G3 & G3') & G4 & G5).
      repeat split; auto; try lia; try apply G1.
Qed.

Lemma insert_self_range_good (Q : slot -> Prop) p key a b st st' o :
  insert_self_range p key a b st = (st', o) -> self_range_valid st a b = true -> GInv Q st ->
  Good Q st st' o /\ size st <= size st' /\ (o = Done \/ o = Raised \/ o = Faulted).
Proof.
  unfold insert_self_range, self_range_valid. intros H Hv HI.
  apply andb_prop in Hv. destruct Hv as (V1 & V2). apply Nat.leb_le in V1. apply Nat.leb_le in V2.
  destruct (size st <? key) eqn:E.
  - inversion H; subst. repeat split; auto; try apply HI; discriminate.
  - apply Nat.ltb_ge in E. eapply insert_self_loop_good; eauto. lia.
Qed.

Lemma make_from_good (Q : slot -> Prop) p c xs st' o :
  make_from p c xs = (st', o) -> Forall Q xs -> GInv Q st' /\ cap st' = c /\ o <> OutOfStorage /\ o <> Skipped /\ (o = Done \/ o = Raised \/ o = Faulted).
Proof.
  unfold make_from. intros H HQ. apply insert_range_good with (Q := Q) in H; auto using make_GInv.
  destruct H as ((G1 & G2 & G3 & G4) & _ & G5). auto.
Qed.

(* ---------- iteration ---------- *)
Lemma nth_error_skipn_cons {A} (l : list A) i s : nth_error l i = Some s -> skipn i l = s :: skipn (S i) l.
Proof.
  revert i; induction l as [|x l IH]; intros [|i] H; simpl in *; try discriminate.
  - now inversion H.
  - now apply IH.
Qed.

Lemma nth_error_firstn_snoc {A} (l : list A) i s : nth_error l i = Some s -> firstn (S i) l = firstn i l ++ [s].
Proof.
  revert i; induction l as [|x l IH]; intros [|i] H; simpl in *; try discriminate.
  - now inversion H.
  - f_equal. now apply IH.
Qed.

Lemma fwalk_some st : forall n i, i + n <= length (slots st) -> fwalk st i n = Some (firstn n (skipn i (slots st))).
Proof.
  induction n as [|n IH]; intros i H; simpl; [reflexivity|].
  destruct (get_some st i) as [s Hs]; [lia|]. rewrite Hs. rewrite IH by lia. simpl.
  unfold get in Hs. rewrite (nth_error_skipn_cons _ _ _ Hs). reflexivity.
Qed.

Lemma rwalk_some st : forall n, n <= length (slots st) -> rwalk st n = Some (rev (firstn n (slots st))).
Proof.
  induction n as [|n IH]; intros H; [reflexivity|]. cbn [rwalk].
  destruct (get_some st n) as [s Hs]; [lia|]. rewrite Hs. rewrite IH by lia.
  unfold get in Hs. cbn [option_map]. rewrite (nth_error_firstn_snoc _ _ _ Hs), rev_app_distr. reflexivity.
Qed.

Lemma iterate_abs (Q : slot -> Prop) st : GInv Q st -> iterate st = Some (abs st).
Proof. intros (H1 & H2 & _). unfold iterate. rewrite fwalk_some by (simpl; lia). reflexivity. Qed.

Lemma riterate_abs (Q : slot -> Prop) st : GInv Q st -> riterate st = Some (rev (abs st)).
Proof. intros (H1 & H2 & _). unfold riterate. rewrite rwalk_some by lia. reflexivity. Qed.

(* ---------- copy / move / assignment ---------- *)
Lemma copy_ctor_good (Q : slot -> Prop) p src st' o : copy_ctor p src = (st', o) -> GInv Q src ->
  GInv Q st' /\ cap st' = cap src /\ o <> OutOfStorage /\ o <> Skipped /\ (o = Done \/ o = Raised \/ o = Faulted).
Proof.
  intros H HI. unfold copy_ctor in H. rewrite (iterate_abs Q) in H by auto.
  apply make_from_good with (Q := Q) in H; auto. apply HI.
Qed.

Lemma make_from_obj_good (Q : slot -> Prop) p c src st' o : make_from_obj p c src = (st', o) -> GInv Q src ->
  GInv Q st' /\ cap st' = c /\ o <> OutOfStorage /\ o <> Skipped /\ (o = Done \/ o = Raised \/ o = Faulted).
Proof.
  intros H HI. unfold make_from_obj in H. rewrite (iterate_abs Q) in H by auto.
  apply make_from_good with (Q := Q) in H; auto. apply HI.
Qed.

Lemma move_ctor_good (Q : slot -> Prop) src : GInv Q src ->
  GInv Q (fst (move_ctor src)) /\ GInv Q (snd (move_ctor src)) /\
  cap (fst (move_ctor src)) = cap src /\ cap (snd (move_ctor src)) = cap src.
Proof.
  intros (H1 & H2 & H3). unfold move_ctor, GInv, abs; simpl. rewrite repeat_length. repeat split; auto with arith.
Qed.

Lemma copy_assign_good (Q : slot -> Prop) p dst src st' o : copy_assign p dst src = (st', o) -> GInv Q dst -> GInv Q src ->
  GInv Q st' /\ o <> OutOfStorage /\ o <> Skipped /\ (o <> Done -> st' = dst) /\ (o = Done -> cap st' = cap src).
Proof.
  unfold copy_assign. destruct (copy_ctor p src) as [tmp o1] eqn:E. intros H Hd Hs.
  apply copy_ctor_good with (Q := Q) in E; auto. destruct E as (G1 & G2 & G3 & G4 & G5).
  destruct o1; inversion H; subst; repeat split; auto; try apply G1; try apply Hd; try congruence; try discriminate.
Qed.

Lemma list_assign_good (Q : slot -> Prop) p dst xs st' o : list_assign p dst xs = (st', o) -> GInv Q dst -> Forall Q xs ->
  GInv Q st' /\ o <> OutOfStorage /\ o <> Skipped /\ (o <> Done -> st' = dst) /\ (o = Done -> cap st' = length xs).
Proof.
  unfold list_assign. destruct (make_from p (length xs) xs) as [tmp o1] eqn:E. intros H Hd Hs.
  apply make_from_good with (Q := Q) in E; auto. destruct E as (G1 & G2 & G3 & G4 & G5).
  destruct o1; inversion H; subst; repeat split; auto; try apply G1; try apply Hd; try congruence; try discriminate.
Qed.

(* ---------- append ---------- *)
Lemma append_good (Q : slot -> Prop) p v st st' o : append p v st = (st', o) -> Q v -> GInv Q st ->
  Good Q st st' o /\ (o = Done \/ o = Raised \/ o = Faulted) /\ (o <> Done -> st' = st).
Proof.
  unfold append. intros H Hv (H1 & H2 & H3). destruct (cap st <=? size st) eqn:Ec.
  - inversion H; subst. repeat split; auto; try discriminate.
  - apply Nat.leb_gt in Ec.
    destruct (assign_val st p (size st) v) as [[st1 p1] o1] eqn:E.
    pose proof (assign_val_no_oos _ _ _ _ _ _ _ E ltac:(lia)) as NO.
    pose proof (assign_val_outcomes _ _ _ _ _ _ _ E) as OC.
    pose proof (assign_val_not_done _ _ _ _ _ _ _ E) as ND.
    destruct o1; try (inversion H; subst; rewrite ND by discriminate; repeat split; auto; try discriminate;
                      destruct OC as [?|[?|?]]; congruence).
    apply assign_val_cases in E.
    destruct E as [(? & _)|[(? & _)|(_ & Hl & _ & ->)]]; try discriminate.
    inversion H; subst. unfold Good, GInv, abs; simpl. rewrite upd_length.
    repeat split; auto; try lia; try discriminate; try congruence.
    apply Forall_firstn_S_upd; auto.
Qed.

(* ---------- positional emplace ---------- *)
Definition NFn (b : nat) (st : fv) : Prop := Forall nonfresh (firstn b (slots st)).

Lemma NFn_le a b st : a <= b -> NFn b st -> NFn a st.
Proof.
  unfold NFn. intros H HB. replace a with (Nat.min a b) by lia. rewrite <- firstn_firstn. now apply Forall_firstn.
Qed.

Lemma assign_move_NFn b st p dst src st' p' o : assign_move st p dst src = (st', p', o) -> src < b -> NFn b st -> NFn b st'.
Proof.
  intros H Hs Hn. apply assign_move_cases in H.
  destruct H as [(_ & -> & _)|[(_ & -> & _)|(_ & _ & _ & _ & s & G & ->)]]; auto.
  unfold NFn in *. simpl. apply Forall_firstn_upd; [apply Forall_firstn_upd|]; simpl; auto.
  apply (Forall_nth_error _ _ src s Hn). rewrite nth_error_firstn_lt by exact Hs. exact G.
Qed.

Lemma assign_val_NFn b st p dst s st' p' o : assign_val st p dst s = (st', p', o) -> nonfresh s -> NFn b st -> NFn b st'.
Proof.
  intros H Hs Hn. apply assign_val_cases in H.
  destruct H as [(_ & -> & _)|[(_ & -> & _)|(_ & _ & _ & ->)]]; auto.
  unfold NFn in *. simpl. apply Forall_firstn_upd; auto.
Qed.

(* every move of the loop reads and writes below the bound b *)
Lemma shift_up_NFn b : forall n key p st st' p' o,
  shift_up n key p st = (st', p', o) -> key + n < b -> b <= length (slots st) -> NFn b st ->
  same_frame st st' /\ NFn b st' /\ (o = Done \/ o = Faulted).
Proof.
  induction n as [|m IH]; intros key p st st' p' o H Hk Hl Hn; simpl in H.
  - inversion H; subst. auto using same_frame_refl.
  - destruct (assign_move st p (key + S m) (key + m)) as [[st1 p1] o1] eqn:E.
    pose proof (assign_move_frame _ _ _ _ _ _ _ E) as F.
    pose proof (assign_move_NFn b _ _ _ _ _ _ _ E ltac:(lia) Hn) as N1.
    pose proof (assign_move_no_oos _ _ _ _ _ _ _ E ltac:(lia) ltac:(lia)) as NO.
    pose proof (assign_move_outcomes _ _ _ _ _ _ _ E) as OC.
    destruct o1; try (inversion H; subst; repeat split; try apply F; auto; destruct OC as [?|[?|?]]; auto; congruence).
    destruct F as (F1 & F2 & F3).
    apply IH in H; try lia; auto.
    destruct H as (G & G1 & G2). split; [|auto]. eapply same_frame_trans; [|exact G]. repeat split; auto.
Qed.

(* the whole loop of emplace, started at i = key + n with the first key + n slots not never-filled:
   afterwards the same holds, and if at least one move completed even for one slot more *)
Lemma shift_up_full : forall n key p st st' p' o,
  shift_up n key p st = (st', p', o) -> key + n < length (slots st) -> NFn (key + n) st ->
  same_frame st st' /\ NFn (key + n) st' /\ (o = Done \/ o = Faulted) /\ (o = Done -> 0 < n -> NFn (S (key + n)) st').
Proof.
  intros [|m] key p st st' p' o H Hl Hn.
  - simpl in H. inversion H; subst. repeat split; auto. intros _ ?; lia.
  - simpl in H. destruct (assign_move st p (key + S m) (key + m)) as [[st1 p1] o1] eqn:E.
    pose proof (assign_move_frame _ _ _ _ _ _ _ E) as F.
    pose proof (assign_move_no_oos _ _ _ _ _ _ _ E ltac:(lia) ltac:(lia)) as NO.
    pose proof (assign_move_outcomes _ _ _ _ _ _ _ E) as OC.
    pose proof (assign_move_not_done _ _ _ _ _ _ _ E) as ND.
    destruct o1; try (inversion H; subst; rewrite ND by discriminate; repeat split; auto; try discriminate;
                      destruct OC as [?|[?|?]]; auto; congruence).
    assert (N1 : NFn (S (key + S m)) st1).
    { apply assign_move_cases in E.
      destruct E as [(? & _)|[(? & _)|(_ & Hd & Hs & _ & s & G & ->)]]; try discriminate.
      unfold NFn in *. cbn [slots]. apply Forall_firstn_upd; [|exact I].
      apply Forall_firstn_S_upd; auto.
      apply (Forall_nth_error _ _ (key + m) s Hn). rewrite nth_error_firstn_lt by lia. exact G. }
    destruct F as (F1 & F2 & F3).
    apply (shift_up_NFn (S (key + S m))) in H; try lia; auto.
    destruct H as (G & G1 & G2). repeat split; auto; try apply G; try (destruct G as (? & ? & ?); congruence).
    eapply NFn_le; [|exact G1]. lia.
Qed.

Lemma emplace_good p key v st st' o : emplace p key v st = (st', o) -> nonfresh v -> WInv st ->
  Good nonfresh st st' o /\ (o = Done \/ o = Raised \/ o = Faulted) /\ (o = Raised -> st' = st) /\
  (o <> Done -> size st' = size st).
Proof.
  unfold emplace. intros H Hv (H1 & H2 & H3).
  destruct (cap st <=? size st) eqn:Ec.
  { inversion H; subst. repeat split; auto; discriminate. }
  apply Nat.leb_gt in Ec.
  destruct (size st <? key) eqn:Ek.
  { inversion H; subst. repeat split; auto; discriminate. }
  apply Nat.ltb_ge in Ek.
  destruct (shift_up (size st - key) key p st) as [[st1 p1] o1] eqn:E.
  apply shift_up_full in E; try lia; [|replace (key + (size st - key)) with (size st) by lia; exact H3].
  replace (key + (size st - key)) with (size st) in E by lia.
  destruct E as ((F1 & F2 & F3) & N1 & OC & NS).
  destruct o1; try (inversion H; subst; unfold Good, GInv, abs; rewrite ?F2; repeat split; auto; try lia; try discriminate;
                    destruct OC; congruence).
  destruct (assign_val st1 p1 key v) as [[st2 p2] o2] eqn:E2.
  pose proof (assign_val_frame _ _ _ _ _ _ _ E2) as (K1 & K2 & K3).
  pose proof (assign_val_NFn _ _ _ _ _ _ _ _ E2 Hv N1) as N2.
  pose proof (assign_val_no_oos _ _ _ _ _ _ _ E2 ltac:(lia)) as NO.
  pose proof (assign_val_outcomes _ _ _ _ _ _ _ E2) as OC2.
  destruct o2; try (inversion H; subst; unfold Good, GInv, abs; rewrite ?K2, ?F2; repeat split; auto; try lia; try discriminate;
                    try congruence; destruct OC2 as [?|[?|?]]; congruence).
  inversion H; subst. clear H. unfold Good, GInv, abs; simpl.
  repeat split; auto; try lia; try discriminate; try congruence.
  rewrite K2, F2.
  destruct (Nat.eq_dec key (size st)) as [->|Hne].
  - apply assign_val_cases in E2.
    destruct E2 as [(? & _)|[(? & _)|(_ & Hl & _ & ->)]]; try discriminate. simpl.
    apply Forall_firstn_S_upd; auto.
  - apply (assign_val_NFn (S (size st))) in E2; auto. apply NS; auto. lia.
Qed.

(* ---------- pop_back ---------- *)
Lemma pop_back_good (Q : slot -> Prop) st st' o : pop_back st = (st', o) -> GInv Q st ->
  Good Q st st' o /\ (o = Done \/ o = Raised) /\ (o = Raised -> st' = st).
Proof.
  unfold pop_back. intros H (H1 & H2 & H3). destruct (size st =? 0) eqn:E.
  - inversion H; subst. repeat split; auto; discriminate.
  - apply Nat.eqb_neq in E. inversion H; subst. unfold Good, GInv, abs in *; simpl.
    repeat split; auto; try lia; try discriminate.
    replace (size st - 1) with (Nat.min (size st - 1) (size st)) by lia.
    rewrite <- firstn_firstn. now apply Forall_firstn.
Qed.

(* ---------- erase ---------- *)
Lemma shift_down_NFn b : forall n key p st st' p' o,
  shift_down n key p st = (st', p', o) -> key + n < b -> b <= length (slots st) -> NFn b st ->
  same_frame st st' /\ NFn b st' /\ (o = Done \/ o = Faulted).
Proof.
  induction n as [|m IH]; intros key p st st' p' o H Hk Hl Hn; simpl in H.
  - inversion H; subst. auto using same_frame_refl.
  - destruct (assign_move st p key (S key)) as [[st1 p1] o1] eqn:E.
    pose proof (assign_move_frame _ _ _ _ _ _ _ E) as F.
    pose proof (assign_move_NFn b _ _ _ _ _ _ _ E ltac:(lia) Hn) as N1.
    pose proof (assign_move_no_oos _ _ _ _ _ _ _ E ltac:(lia) ltac:(lia)) as NO.
    pose proof (assign_move_outcomes _ _ _ _ _ _ _ E) as OC.
    destruct o1; try (inversion H; subst; repeat split; try apply F; auto; destruct OC as [?|[?|?]]; auto; congruence).
    destruct F as (F1 & F2 & F3).
    apply IH in H; try lia; auto.
    destruct H as (G & G1 & G2). split; [|auto]. eapply same_frame_trans; [|exact G]. repeat split; auto.
Qed.

Lemma erase_good p key st st' o : erase p key st = (st', o) -> WInv st ->
  Good nonfresh st st' o /\ (o = Done \/ o = Raised \/ o = Faulted) /\ (o = Raised -> st' = st) /\
  (o <> Done -> size st' = size st).
Proof.
  unfold erase. intros H (H1 & H2 & H3).
  destruct (size st <=? key) eqn:Ek.
  { inversion H; subst. repeat split; auto; discriminate. }
  apply Nat.leb_gt in Ek.
  destruct (shift_down (Nat.min (size st) (cap st) - S key) key p st) as [[st1 p1] o1] eqn:E.
  apply (shift_down_NFn (size st)) in E; try lia; auto.
  destruct E as ((F1 & F2 & F3) & N1 & OC).
  destruct o1; try (inversion H; subst; unfold Good, GInv, abs; rewrite ?F2; repeat split; auto; try lia; try discriminate;
                    destruct OC; congruence).
  inversion H; subst. unfold Good, GInv, abs; simpl. repeat split; auto; try lia; try discriminate; try congruence.
  rewrite F2. eapply NFn_le; [|exact N1]. lia.
Qed.

(* ---------- checked access ---------- *)
Lemma at_good (Q : slot -> Prop) st k : GInv Q st -> access_outcome (at_ st k) <> OutOfStorage /\ access_outcome (at_ st k) <> Skipped /\
  (k < size st -> exists s, at_ st k = Val s /\ nth_error (abs st) k = Some s) /\ (size st <= k -> at_ st k = ARaised).
Proof.
  intros (H1 & H2 & H3). unfold at_, index.
  destruct (cap st <=? k) eqn:E1; [apply Nat.leb_le in E1|apply Nat.leb_gt in E1].
  - simpl. repeat split; try discriminate; auto. intros; lia.
  - destruct (size st <=? k) eqn:E2; [apply Nat.leb_le in E2|apply Nat.leb_gt in E2].
    + simpl. repeat split; try discriminate; auto. intros; lia.
    + destruct (get_some st k) as [s Hs]; [lia|]. rewrite Hs. simpl. repeat split; try discriminate; try lia.
      intros _. exists s. split; auto. unfold abs. rewrite nth_error_firstn_lt by auto. exact Hs.
Qed.

Lemma index_live (Q : slot -> Prop) st k : GInv Q st -> k < size st -> exists s, index st k = Val s /\ nth_error (abs st) k = Some s.
Proof.
  intros (H1 & H2 & H3) Hk. unfold index. destruct (get_some st k) as [s Hs]; [lia|]. rewrite Hs.
  exists s. split; auto. unfold abs. rewrite nth_error_firstn_lt by auto. exact Hs.
Qed.

(* ---------- refused operations ---------- *)
Lemma append_full_raises p v st : cap st <= size st -> append p v st = (st, Raised).
Proof. intros H. unfold append. apply Nat.leb_le in H. now rewrite H. Qed.

Lemma emplace_full_raises p key v st : cap st <= size st -> emplace p key v st = (st, Raised).
Proof. intros H. unfold emplace. apply Nat.leb_le in H. now rewrite H. Qed.

Lemma emplace_beyond_raises p key v st : size st < key -> emplace p key v st = (st, Raised).
Proof.
  intros H. unfold emplace. destruct (cap st <=? size st); auto. apply Nat.ltb_lt in H. now rewrite H.
Qed.

Lemma pop_empty_raises st : size st = 0 -> pop_back st = (st, Raised).
Proof. intros H. unfold pop_back. now rewrite H. Qed.

Lemma erase_beyond_raises p key st : size st <= key -> erase p key st = (st, Raised).
Proof. intros H. unfold erase. apply Nat.leb_le in H. now rewrite H. Qed.

Lemma at_beyond_raises st k : size st <= k -> at_ st k = ARaised.
Proof.
  intros H. unfold at_. destruct (cap st <=? k); auto. apply Nat.leb_le in H. now rewrite H.
Qed.

Lemma insert_range_beyond_raises p key xs st : size st < key -> insert_range p key xs st = (st, Raised).
Proof. intros H. unfold insert_range. apply Nat.ltb_lt in H. now rewrite H. Qed.

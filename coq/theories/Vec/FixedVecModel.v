(* Vec/FixedVecModel.v — executable model of include/nitro/lang/fixed_vector.hpp (the repaired header),
   following the C++ member functions statement by statement.  No proofs here.

   State of one fixed_vector<T>:  capacity_, size_ and the heap array data_ (a list of slots).
   A slot is  Filled v  (an element value given by the caller),  Fresh  (a value-initialised element that
   make_unique<T[]> created and the caller never wrote)  or  Moved  (an element whose value was moved out
   by a move assignment — the element object is still alive, its value is not the caller's any more).
   Every read/write of data_[i] goes through get/put, which fail (OutOfStorage) outside the array: the
   array length is kept as `length slots`, separately from the capacity_ field the code compares against.

   Element assignments may throw: a fault plan `Some k` makes the k-th (0-based) element assignment of the
   operation throw before it changes anything (outcome Faulted); `None` = no assignment throws. *)
From Coq Require Import List Arith Bool.
From Nitro Require Import Base.ListX.
Import ListNotations.
Local Open Scope list_scope.

Inductive slot := Filled (v : nat) | Fresh | Moved.
Record fv := mkfv { cap : nat; size : nat; slots : list slot }.

(* Done: returned normally.  Raised: nitro::except::exception from one of the guards.
   Faulted: an element assignment threw (fault plan).  OutOfStorage: the code touched memory outside data_.
   Skipped: (pool level only) the operation names an object that does not exist; nothing was executed. *)
Inductive outcome := Done | Raised | Faulted | OutOfStorage | Skipped.
Definition plan := option nat.

Definition is_done (o : outcome) : bool := match o with Done => true | _ => false end.

(* ---- storage access ---- *)
Definition get (st : fv) (i : nat) : option slot := nth_error (slots st) i.
Definition put (st : fv) (i : nat) (s : slot) : option fv :=
  if i <? length (slots st) then Some (mkfv (cap st) (size st) (upd (slots st) i (fun _ => s))) else None.
Definition set_size (st : fv) (n : nat) : fv := mkfv (cap st) n (slots st).

(* one element assignment is due: None = it throws now, Some p' = it completes, p' is the remaining plan *)
Definition tick (p : plan) : option plan :=
  match p with None => Some None | Some 0 => None | Some (S k) => Some (Some k) end.

(* data_[dst] = value;   (copy or move assignment from an element that is not part of this array) *)
Definition assign_val (st : fv) (p : plan) (dst : nat) (s : slot) : fv * plan * outcome :=
  match put st dst s with
  | None => (st, p, OutOfStorage)
  | Some st1 => match tick p with None => (st, None, Faulted) | Some p1 => (st1, p1, Done) end
  end.

(* replace(data_[dst], std::forward<value_type>(data_[src]));   = move assignment inside the array:
   the target takes the value, the source stays alive in the moved-from state *)
Definition assign_move (st : fv) (p : plan) (dst src : nat) : fv * plan * outcome :=
  match get st src with
  | None => (st, p, OutOfStorage)
  | Some s =>
    match put st dst s with
    | None => (st, p, OutOfStorage)
    | Some st1 =>
      match tick p with
      | None => (st, None, Faulted)
      | Some p1 => match put st1 src Moved with Some st2 => (st2, p1, Done) | None => (st, p, OutOfStorage) end
      end
    end
  end.

(* ---- fixed_vector(size_type capacity) ---- *)
Definition make (c : nat) : fv := mkfv c 0 (repeat Fresh c).

(* ---- insert(iterator pos, Iter start, Iter end) ----
   while (start != end) { if (key >= capacity_) raise; data_[key] = *start; if (key == size_) ++size_; ++key; ++start; } *)
Fixpoint insert_loop (xs : list slot) (key : nat) (p : plan) (st : fv) : fv * outcome :=
  match xs with
  | [] => (st, Done)
  | x :: r =>
    if cap st <=? key then (st, Raised)
    else match assign_val st p key x with
         | (st1, p1, Done) =>
             insert_loop r (S key) p1 (if key =? size st1 then set_size st1 (S (size st1)) else st1)
         | (st1, _, o) => (st1, o)
         end
  end.
Definition insert_range (p : plan) (key : nat) (xs : list slot) (st : fv) : fv * outcome :=
  if size st <? key then (st, Raised) else insert_loop xs key p st.
(* insert(pos, initializer_list&) forwards to the range insert; push_back(start, end) inserts at end() *)
Definition insert_list := insert_range.
Definition push_back_range (p : plan) (xs : list slot) (st : fv) : fv * outcome := insert_range p (size st) xs st.

(* ---- the same member function called with a range [begin()+a, begin()+b) of THIS vector:
   *start is then a read of the vector's own storage at the moment of the assignment (n = b - a elements remain,
   the next one is read from slot src) ---- *)
Fixpoint insert_self_loop (n src key : nat) (p : plan) (st : fv) : fv * outcome :=
  match n with
  | 0 => (st, Done)
  | S m =>
    if cap st <=? key then (st, Raised)
    else match get st src with
         | None => (st, OutOfStorage)
         | Some x =>
           match assign_val st p key x with
           | (st1, p1, Done) =>
               insert_self_loop m (S src) (S key) p1 (if key =? size st1 then set_size st1 (S (size st1)) else st1)
           | (st1, _, o) => (st1, o)
           end
         end
  end.
Definition insert_self_range (p : plan) (key a b : nat) (st : fv) : fv * outcome :=
  if size st <? key then (st, Raised) else insert_self_loop (b - a) a key p st.
Definition push_back_self_range (p : plan) (a b : nat) (st : fv) : fv * outcome := insert_self_range p (size st) a b st.
(* the caller may only hand over iterators into the live range: a <= b <= size *)
Definition self_range_valid (st : fv) (a b : nat) : bool := (a <=? b) && (b <=? size st).
(* an argument `v[k]` that refers to a live element of the same vector: its value when the call starts *)
Definition live_elem (st : fv) (k : nat) : option slot := if k <? size st then get st k else None.

(* ---- fixed_vector(capacity, iterable), fixed_vector(initializer_list) ----
   a constructor whose outcome is not Done has thrown: no object exists afterwards *)
Definition make_from (p : plan) (c : nat) (xs : list slot) : fv * outcome := insert_range p 0 xs (make c).
Definition make_list (p : plan) (xs : list slot) : fv * outcome := make_from p (length xs) xs.

(* ---- iteration: begin() = &data_[0], end() = &data_[size_]; every dereference is a guarded read ---- *)
Fixpoint fwalk (st : fv) (i n : nat) : option (list slot) :=
  match n with
  | 0 => Some []
  | S m => match get st i with Some s => option_map (cons s) (fwalk st (S i) m) | None => None end
  end.
Definition iterate (st : fv) : option (list slot) := fwalk st 0 (size st).
(* rbegin() = reverse_iterator(end()), rend() = reverse_iterator(begin()): *it reads the element before the base *)
Fixpoint rwalk (st : fv) (n : nat) : option (list slot) :=
  match n with
  | 0 => Some []
  | S m => match get st m with Some s => option_map (cons s) (rwalk st m) | None => None end
  end.
Definition riterate (st : fv) : option (list slot) := rwalk st (size st).

(* ---- fixed_vector(const fixed_vector& v) : fixed_vector(v.capacity_, v) ---- *)
Definition copy_ctor (p : plan) (src : fv) : fv * outcome :=
  match iterate src with
  | None => (make (cap src), OutOfStorage)
  | Some xs => make_from p (cap src) xs
  end.

(* ---- fixed_vector(capacity, other_fixed_vector): the public two-argument constructor with another fixed_vector as
   the iterable (the copy constructor is the instance capacity = v.capacity_) ---- *)
Definition make_from_obj (p : plan) (c : nat) (src : fv) : fv * outcome :=
  match iterate src with
  | None => (make c, OutOfStorage)
  | Some xs => make_from p c xs
  end.

(* ---- fixed_vector(fixed_vector&& v) : fixed_vector(v.capacity_) { swap(size_, v.size_); swap(data_, v.data_); }
   result: (the new object, the source afterwards) ---- *)
Definition move_ctor (src : fv) : fv * fv :=
  let this := make (cap src) in
  (mkfv (cap this) (size src) (slots src), mkfv (cap src) (size this) (slots this)).

(* ---- the three assignment operators: build tmp, swap(tmp) (all three fields), tmp is destroyed ----
   result: (target afterwards, outcome); the move assignment also returns the source afterwards *)
Definition copy_assign (p : plan) (dst src : fv) : fv * outcome :=
  match copy_ctor p src with (tmp, Done) => (tmp, Done) | (_, o) => (dst, o) end.
Definition move_assign (dst src : fv) : fv * fv := move_ctor src.
Definition list_assign (p : plan) (dst : fv) (xs : list slot) : fv * outcome :=
  match make_from p (length xs) xs with (tmp, Done) => (tmp, Done) | (_, o) => (dst, o) end.

(* ---- element access ---- *)
Inductive access := Val (s : slot) | ARaised | AOut.
(* operator[] : unchecked by the code *)
Definition index (st : fv) (k : nat) : access := match get st k with Some s => Val s | None => AOut end.
(* at(), both overloads; std::get<I> calls at(I) *)
Definition at_ (st : fv) (k : nat) : access :=
  if cap st <=? k then ARaised else if size st <=? k then ARaised else index st k.
Definition get_I := at_.
Definition front (st : fv) : access := index st 0.
(* data_[size_ - 1] : with size_ = 0 the unsigned index wraps to SIZE_MAX, outside any array *)
Definition back (st : fv) : access := if size st =? 0 then AOut else index st (size st - 1).
Definition data_at := index.
Definition access_outcome (a : access) : outcome := match a with Val _ => Done | ARaised => Raised | AOut => OutOfStorage end.

(* ---- appending one element: emplace_back, insert(const T&), insert(T&&), push_back(const T&)
   all four are: if (size_ >= capacity_) raise; data_[size_] = value; ++size_; ---- *)
Definition append (p : plan) (v : slot) (st : fv) : fv * outcome :=
  if cap st <=? size st then (st, Raised)
  else match assign_val st p (size st) v with
       | (st1, _, Done) => (set_size st1 (S (size st1)), Done)
       | (st1, _, o) => (st1, o)
       end.
Definition emplace_back := append.
Definition insert_copy := append.
Definition insert_move := append.
Definition push_back := append.

(* ---- emplace(pos, args...) ----
   for (i = size_; i > key; --i) replace(data_[i], move(data_[i-1]));   n = i - key iterations remain *)
Fixpoint shift_up (n key : nat) (p : plan) (st : fv) : fv * plan * outcome :=
  match n with
  | 0 => (st, p, Done)
  | S m => match assign_move st p (key + S m) (key + m) with
           | (st1, p1, Done) => shift_up m key p1 st1
           | r => r
           end
  end.
Definition emplace (p : plan) (key : nat) (v : slot) (st : fv) : fv * outcome :=
  if cap st <=? size st then (st, Raised)
  else if size st <? key then (st, Raised)
  else match shift_up (size st - key) key p st with
       | (st1, p1, Done) =>
         match assign_val st1 p1 key v with
         | (st2, _, Done) => (set_size st2 (S (size st2)), Done)
         | (st2, _, o) => (st2, o)
         end
       | (st1, _, o) => (st1, o)
       end.

(* ---- pop_back ---- *)
Definition pop_back (st : fv) : fv * outcome :=
  if size st =? 0 then (st, Raised) else (set_size st (size st - 1), Done).

(* ---- erase(pos) ----
   while (key + 1 < size_ && key + 1 < capacity_) { replace(data_[key], move(data_[key+1])); ++key; }
   size_ and capacity_ do not change inside the loop: min(size_, capacity_) - (key + 1) iterations *)
Fixpoint shift_down (n key : nat) (p : plan) (st : fv) : fv * plan * outcome :=
  match n with
  | 0 => (st, p, Done)
  | S m => match assign_move st p key (S key) with
           | (st1, p1, Done) => shift_down m (S key) p1 st1
           | r => r
           end
  end.
Definition erase (p : plan) (key : nat) (st : fv) : fv * outcome :=
  if size st <=? key then (st, Raised)
  else match shift_down (Nat.min (size st) (cap st) - S key) key p st with
       | (st1, _, Done) => (set_size st1 (size st1 - 1), Done)
       | (st1, _, o) => (st1, o)
       end.

(* ---- a position BEFORE begin():  pos = begin() - d  with d >= 1 (for an empty vector this is also end() - d) ----
   std::distance(begin(), pos) is then negative; stored in `size_type key` it wraps to 2^64 - d, which is larger than
   every size_ and capacity_ (an array of that many elements cannot exist).  So the first comparison with size_ raises
   and nothing has been touched. *)
Definition erase_before (st : fv) : fv * outcome := (st, Raised).                      (* key >= size_ *)
Definition emplace_before (st : fv) : fv * outcome :=
  if cap st <=? size st then (st, Raised) (* size_ >= capacity_ *) else (st, Raised) (* key > size_ *).
Definition insert_range_before (st : fv) : fv * outcome := (st, Raised).               (* key > size_ *)

(* ---- the element constructor called with the emplace arguments throws ----
   emplace_back(args...): the guard comes first; `value_type(args...)` is evaluated before the assignment into the slot.
   emplace(pos, args...): both guards come first; `value_type value(args...)` is built before anything is shifted.
   So the throw happens when nothing has been changed yet (and no element of the array has been touched). *)
Definition emplace_back_ctor_throws (st : fv) : fv * outcome :=
  if cap st <=? size st then (st, Raised) else (st, Faulted).
Definition emplace_ctor_throws (key : nat) (st : fv) : fv * outcome :=
  if cap st <=? size st then (st, Raised) else if size st <? key then (st, Raised) else (st, Faulted).

(* =====================================================================================================
   A pool of objects, so that copy / move / assignment between objects can be expressed.
   None = no object at that index. *)
Definition pool := list (option fv).
Definition pget (P : pool) (i : nat) : option fv := match nth_error P i with Some (Some st) => Some st | _ => None end.
Definition pset (P : pool) (i : nat) (x : option fv) : pool := upd P i (fun _ => x).

Inductive op :=
| ONew (i c : nat)                          (* fixed_vector(c)                        *)
| ONewFrom (i c : nat) (xs : list nat)      (* fixed_vector(c, iterable)              *)
| ONewList (i : nat) (xs : list nat)        (* fixed_vector(initializer_list)         *)
| OCopy (i j : nat)                         (* pool[i] = fixed_vector(pool[j])        *)
| OMove (i j : nat)                         (* pool[i] = fixed_vector(move(pool[j]))  *)
| OAssign (i j : nat)                       (* pool[i] = pool[j]                      *)
| OMoveAssign (i j : nat)                   (* pool[i] = move(pool[j])                *)
| OListAssign (i : nat) (xs : list nat)     (* pool[i] = { xs }                       *)
| OAt (i k : nat) | OGet (i k : nat)
| OEmplace (i pos v : nat) | OEmplaceBack (i v : nat) | OInsert (i v : nat) | OInsertMove (i v : nat) | OPushBack (i v : nat)
| OInsertRange (i pos : nat) (xs : list nat) | OInsertList (i pos : nat) (xs : list nat) | OPushBackRange (i : nat) (xs : list nat)
| OPop (i : nat) | OErase (i pos : nat)
| ODestroy (i : nat)
(* arguments that alias the container itself: v.emplace(begin()+pos, v[k]), v.emplace_back(v[k]), v.insert(v[k]),
   v.push_back(v[k]), v.insert(begin()+pos, begin()+a, begin()+b), v.push_back(begin()+a, begin()+b);
   not executed (Skipped) unless k < size resp. a <= b <= size *)
| OEmplaceAt (i pos k : nat) | OEmplaceBackAt (i k : nat) | OInsertAt (i k : nat) | OPushBackAt (i k : nat)
| OInsertSelfRange (i pos a b : nat) | OPushBackSelfRange (i a b : nat)
(* positions before begin(): erase(begin()-d), emplace(begin()-d, v), insert(begin()-d, first, last) *)
| OEraseBefore (i d : nat) | OEmplaceBefore (i d v : nat) | OInsertRangeBefore (i d : nat) (xs : list nat)
| OConstructFrom (i c j : nat)              (* pool[i] = fixed_vector(c, pool[j])     *)
(* emplace_back(args...) / emplace(begin()+pos, args...) whose element constructor throws *)
| OEmplaceBackCtorThrows (i : nat) | OEmplaceCtorThrows (i pos : nat).

(* a constructor into pool[i]: the old object (if any) is destroyed first; a throwing constructor leaves nothing *)
Definition construct (P : pool) (i : nat) (r : fv * outcome) : pool * outcome :=
  if i <? length P then (pset P i (if is_done (snd r) then Some (fst r) else None), snd r) else (P, Skipped).
Definition on_obj (P : pool) (i : nat) (f : fv -> fv * outcome) : pool * outcome :=
  match pget P i with
  | None => (P, Skipped)
  | Some st => let r := f st in (pset P i (Some (fst r)), snd r)
  end.

Definition pstep (p : plan) (o : op) (P : pool) : pool * outcome :=
  match o with
  | ONew i c => construct P i (make c, Done)
  | ONewFrom i c xs => construct P i (make_from p c (map Filled xs))
  | ONewList i xs => construct P i (make_list p (map Filled xs))
  | OCopy i j =>
      if i =? j then (P, Skipped) else
      match pget P j with None => (P, Skipped) | Some src => construct P i (copy_ctor p src) end
  | OMove i j =>
      if i =? j then (P, Skipped) else if negb (i <? length P) then (P, Skipped) else
      match pget P j with
      | None => (P, Skipped)
      | Some src => let r := move_ctor src in (pset (pset P j (Some (snd r))) i (Some (fst r)), Done)
      end
  | OAssign i j =>
      match pget P j with None => (P, Skipped) | Some src => on_obj P i (fun dst => copy_assign p dst src) end
  | OMoveAssign i j =>
      (* i = j is v = std::move(v): tmp takes the array, *this gets a fresh one, swap(tmp) gives the array back *)
      match pget P i, pget P j with
      | Some dst, Some src => let r := move_assign dst src in (pset (pset P j (Some (snd r))) i (Some (fst r)), Done)
      | _, _ => (P, Skipped)
      end
  | OListAssign i xs => on_obj P i (fun dst => list_assign p dst (map Filled xs))
  | OAt i k => on_obj P i (fun st => (st, access_outcome (at_ st k)))
  | OGet i k => on_obj P i (fun st => (st, access_outcome (get_I st k)))
  | OEmplace i pos v => on_obj P i (emplace p pos (Filled v))
  | OEmplaceBack i v => on_obj P i (emplace_back p (Filled v))
  | OInsert i v => on_obj P i (insert_copy p (Filled v))
  | OInsertMove i v => on_obj P i (insert_move p (Filled v))
  | OPushBack i v => on_obj P i (push_back p (Filled v))
  | OInsertRange i pos xs => on_obj P i (insert_range p pos (map Filled xs))
  | OInsertList i pos xs => on_obj P i (insert_list p pos (map Filled xs))
  | OPushBackRange i xs => on_obj P i (push_back_range p (map Filled xs))
  | OPop i => on_obj P i pop_back
  | OErase i pos => on_obj P i (erase p pos)
  | ODestroy i => if i <? length P then (pset P i None, Done) else (P, Skipped)
  | OEmplaceAt i pos k =>
      on_obj P i (fun st => match live_elem st k with Some s => emplace p pos s st | None => (st, Skipped) end)
  | OEmplaceBackAt i k =>
      on_obj P i (fun st => match live_elem st k with Some s => emplace_back p s st | None => (st, Skipped) end)
  | OInsertAt i k =>
      on_obj P i (fun st => match live_elem st k with Some s => insert_copy p s st | None => (st, Skipped) end)
  | OPushBackAt i k =>
      on_obj P i (fun st => match live_elem st k with Some s => push_back p s st | None => (st, Skipped) end)
  | OInsertSelfRange i pos a b =>
      on_obj P i (fun st => if self_range_valid st a b then insert_self_range p pos a b st else (st, Skipped))
  | OPushBackSelfRange i a b =>
      on_obj P i (fun st => if self_range_valid st a b then push_back_self_range p a b st else (st, Skipped))
  | OEraseBefore i _ => on_obj P i erase_before
  | OEmplaceBefore i _ _ => on_obj P i emplace_before
  | OInsertRangeBefore i _ _ => on_obj P i insert_range_before
  | OConstructFrom i c j =>
      if i =? j then (P, Skipped) else
      match pget P j with None => (P, Skipped) | Some src => construct P i (make_from_obj p c src) end
  | OEmplaceBackCtorThrows i => on_obj P i emplace_back_ctor_throws
  | OEmplaceCtorThrows i pos => on_obj P i (emplace_ctor_throws pos)
  end.

(* a history: every operation with its own fault plan; the list of outcomes is kept *)
Fixpoint prun (ops : list (op * plan)) (P : pool) : pool * list outcome :=
  match ops with
  | [] => (P, [])
  | (o, p) :: r => let s := pstep p o P in let t := prun r (fst s) in (fst t, snd s :: snd t)
  end.
Definition empty_pool (n : nat) : pool := repeat None n.

(* not part of the model: ocaml/glue_base.ml (shared, textually appended after the extracted code) mentions the
   extracted type `byte`; extracting this constant makes that type exist in vec_model.ml *)
Definition glue_byte_anchor : Init.Byte.byte := Init.Byte.x00.

(* Vec/VecFaults.v — the fault plan: (i) a plan that is not reached changes nothing (an operation whose outcome is
   not Faulted behaves exactly as without a plan); (ii) the strong invariant does NOT survive a throw inside the
   element-shifting loops of positional emplace / erase when elements really move (witnesses), only WInv does. *)
From Coq Require Import List Arith Bool Lia.
From Nitro Require Import Base.ListX Vec.FixedVecModel Vec.VecBase Vec.VecInv.
Import ListNotations.
Local Open Scope list_scope.

Lemma assign_val_unfault st p dst s st' p' o :
  assign_val st p dst s = (st', p', o) -> o <> Faulted -> assign_val st None dst s = (st', None, o).
Proof.
  unfold assign_val. destruct (put st dst s) as [st1|].
  - destruct p as [[|k]|]; simpl; intros [= <- <- <-] Hn; first [reflexivity | exfalso; apply Hn; reflexivity].
  - intros [= <- <- <-] _. reflexivity.
Qed.

Lemma assign_move_unfault st p dst src st' p' o :
  assign_move st p dst src = (st', p', o) -> o <> Faulted -> assign_move st None dst src = (st', None, o).
Proof.
  unfold assign_move. destruct (get st src) as [s|]; [|intros [= <- <- <-] _; reflexivity].
  destruct (put st dst s) as [st1|]; [|intros [= <- <- <-] _; reflexivity].
  destruct p as [[|k]|]; simpl.
  - intros [= <- <- <-] Hn; exfalso; apply Hn; reflexivity.
  - destruct (put st1 src Moved); intros [= <- <- <-] _; reflexivity.
  - destruct (put st1 src Moved); intros [= <- <- <-] _; reflexivity.
Qed.

Lemma shift_up_unfault : forall n key p st st' p' o,
  shift_up n key p st = (st', p', o) -> o <> Faulted -> shift_up n key None st = (st', None, o).
Proof.
  induction n as [|m IH]; intros key p st st' p' o H Hn; simpl in *.
  - inversion H; subst. reflexivity.
  - destruct (assign_move st p (key + S m) (key + m)) as [[st1 p1] o1] eqn:E.
    destruct o1; try (inversion H; subst; rewrite (assign_move_unfault _ _ _ _ _ _ _ E Hn); reflexivity).
    rewrite (assign_move_unfault _ _ _ _ _ _ _ E ltac:(discriminate)). eapply IH; eauto.
Qed.

Lemma shift_down_unfault : forall n key p st st' p' o,
  shift_down n key p st = (st', p', o) -> o <> Faulted -> shift_down n key None st = (st', None, o).
Proof.
  induction n as [|m IH]; intros key p st st' p' o H Hn; simpl in *.
  - inversion H; subst. reflexivity.
  - destruct (assign_move st p key (S key)) as [[st1 p1] o1] eqn:E.
    destruct o1; try (inversion H; subst; rewrite (assign_move_unfault _ _ _ _ _ _ _ E Hn); reflexivity).
    rewrite (assign_move_unfault _ _ _ _ _ _ _ E ltac:(discriminate)). eapply IH; eauto.
Qed.

Lemma insert_loop_unfault : forall xs key p st st' o,
  insert_loop xs key p st = (st', o) -> o <> Faulted -> insert_loop xs key None st = (st', o).
Proof.
  induction xs as [|x r IH]; intros key p st st' o H Hn; simpl in *; auto.
  destruct (cap st <=? key); auto.
  destruct (assign_val st p key x) as [[st1 p1] o1] eqn:E.
  destruct o1; try (inversion H; subst; rewrite (assign_val_unfault _ _ _ _ _ _ _ E Hn); reflexivity).
  rewrite (assign_val_unfault _ _ _ _ _ _ _ E ltac:(discriminate)). eapply IH; eauto.
Qed.

Lemma insert_range_unfault p key xs st st' o :
  insert_range p key xs st = (st', o) -> o <> Faulted -> insert_range None key xs st = (st', o).
Proof. unfold insert_range. destruct (size st <? key); auto. apply insert_loop_unfault. Qed.

Lemma insert_self_loop_unfault : forall n src key p st st' o,
  insert_self_loop n src key p st = (st', o) -> o <> Faulted -> insert_self_loop n src key None st = (st', o).
Proof.
  induction n as [|m IH]; intros src key p st st' o H Hn; simpl in *; auto.
  destruct (cap st <=? key); auto. destruct (get st src) as [x|]; auto.
  destruct (assign_val st p key x) as [[st1 p1] o1] eqn:E.
  destruct o1; try (inversion H; subst; rewrite (assign_val_unfault _ _ _ _ _ _ _ E Hn); reflexivity).
  rewrite (assign_val_unfault _ _ _ _ _ _ _ E ltac:(discriminate)). eapply IH; eauto.
Qed.

Lemma insert_self_range_unfault p key a b st st' o :
  insert_self_range p key a b st = (st', o) -> o <> Faulted -> insert_self_range None key a b st = (st', o).
Proof. unfold insert_self_range. destruct (size st <? key); auto. apply insert_self_loop_unfault. Qed.

Lemma push_back_range_unfault p xs st st' o :
  push_back_range p xs st = (st', o) -> o <> Faulted -> push_back_range None xs st = (st', o).
Proof. apply insert_range_unfault. Qed.

Lemma make_from_unfault p c xs st' o : make_from p c xs = (st', o) -> o <> Faulted -> make_from None c xs = (st', o).
Proof. apply insert_range_unfault. Qed.

Lemma make_list_unfault p xs st' o : make_list p xs = (st', o) -> o <> Faulted -> make_list None xs = (st', o).
Proof. apply make_from_unfault. Qed.

Lemma copy_ctor_unfault p src st' o : copy_ctor p src = (st', o) -> o <> Faulted -> copy_ctor None src = (st', o).
Proof. unfold copy_ctor. destruct (iterate src); auto. apply make_from_unfault. Qed.

Lemma make_from_obj_unfault p c src st' o : make_from_obj p c src = (st', o) -> o <> Faulted -> make_from_obj None c src = (st', o).
Proof. unfold make_from_obj. destruct (iterate src); auto. apply make_from_unfault. Qed.

Lemma copy_assign_unfault p dst src st' o : copy_assign p dst src = (st', o) -> o <> Faulted -> copy_assign None dst src = (st', o).
Proof.
  unfold copy_assign. destruct (copy_ctor p src) as [tmp o1] eqn:E. intros H Hn.
  assert (o1 = o) by (destruct o1; inversion H; auto). subst o1.
  now rewrite (copy_ctor_unfault _ _ _ _ E Hn).
Qed.

Lemma list_assign_unfault p dst xs st' o : list_assign p dst xs = (st', o) -> o <> Faulted -> list_assign None dst xs = (st', o).
Proof.
  unfold list_assign. destruct (make_from p (length xs) xs) as [tmp o1] eqn:E. intros H Hn.
  assert (o1 = o) by (destruct o1; inversion H; auto). subst o1.
  now rewrite (make_from_unfault _ _ _ _ _ E Hn).
Qed.

Lemma append_unfault p v st st' o : append p v st = (st', o) -> o <> Faulted -> append None v st = (st', o).
Proof.
  unfold append. destruct (cap st <=? size st); auto.
  destruct (assign_val st p (size st) v) as [[st1 p1] o1] eqn:E. intros H Hn.
  assert (o1 = o) by (destruct o1; inversion H; auto). subst o1.
  now rewrite (assign_val_unfault _ _ _ _ _ _ _ E Hn).
Qed.

Lemma emplace_unfault p key v st st' o : emplace p key v st = (st', o) -> o <> Faulted -> emplace None key v st = (st', o).
Proof.
  unfold emplace. destruct (cap st <=? size st); auto. destruct (size st <? key); auto.
  destruct (shift_up (size st - key) key p st) as [[st1 p1] o1] eqn:E. intros H Hn.
  destruct o1; try (inversion H; subst; rewrite (shift_up_unfault _ _ _ _ _ _ _ E Hn); reflexivity).
  rewrite (shift_up_unfault _ _ _ _ _ _ _ E ltac:(discriminate)).
  destruct (assign_val st1 p1 key v) as [[st2 p2] o2] eqn:E2.
  assert (o2 = o) by (destruct o2; inversion H; auto). subst o2.
  now rewrite (assign_val_unfault _ _ _ _ _ _ _ E2 Hn).
Qed.

Lemma erase_unfault p key st st' o : erase p key st = (st', o) -> o <> Faulted -> erase None key st = (st', o).
Proof.
  unfold erase. destruct (size st <=? key); auto.
  destruct (shift_down (Nat.min (size st) (cap st) - S key) key p st) as [[st1 p1] o1] eqn:E. intros H Hn.
  assert (o1 = o) by (destruct o1; inversion H; auto). subst o1.
  now rewrite (shift_down_unfault _ _ _ _ _ _ _ E Hn).
Qed.

(* ---------- without a plan nothing faults (positional operations) ---------- *)
Lemma shift_up_None : forall n key st st' p' o, shift_up n key None st = (st', p', o) -> p' = None /\ o <> Faulted.
Proof.
  induction n as [|m IH]; intros key st st' p' o H; simpl in H.
  - inversion H; subst. split; auto; discriminate.
  - destruct (assign_move st None (key + S m) (key + m)) as [[st1 p1] o1] eqn:E.
    destruct (assign_move_None_plan _ _ _ _ _ _ E) as (-> & NF).
    destruct o1; try (inversion H; subst; split; auto; discriminate).
    eapply IH; eauto.
Qed.

Lemma shift_down_None : forall n key st st' p' o, shift_down n key None st = (st', p', o) -> p' = None /\ o <> Faulted.
Proof.
  induction n as [|m IH]; intros key st st' p' o H; simpl in H.
  - inversion H; subst. split; auto; discriminate.
  - destruct (assign_move st None key (S key)) as [[st1 p1] o1] eqn:E.
    destruct (assign_move_None_plan _ _ _ _ _ _ E) as (-> & NF).
    destruct o1; try (inversion H; subst; split; auto; discriminate).
    eapply IH; eauto.
Qed.

Lemma emplace_None key v st st' o : emplace None key v st = (st', o) -> o <> Faulted.
Proof.
  unfold emplace. destruct (cap st <=? size st); [intros [= <- <-]; discriminate|].
  destruct (size st <? key); [intros [= <- <-]; discriminate|].
  destruct (shift_up (size st - key) key None st) as [[st1 p1] o1] eqn:E.
  destruct (shift_up_None _ _ _ _ _ _ E) as (-> & NF).
  destruct o1; try (intros [= <- <-]; exact NF).
  destruct (assign_val st1 None key v) as [[st2 p2] o2] eqn:E2.
  destruct (assign_val_None_plan _ _ _ _ _ _ E2) as (_ & NF2).
  destruct o2; intros [= <- <-]; try exact NF2; discriminate.
Qed.

Lemma erase_None key st st' o : erase None key st = (st', o) -> o <> Faulted.
Proof.
  unfold erase. destruct (size st <=? key); [intros [= <- <-]; discriminate|].
  destruct (shift_down (Nat.min (size st) (cap st) - S key) key None st) as [[st1 p1] o1] eqn:E.
  destruct (shift_down_None _ _ _ _ _ _ E) as (_ & NF).
  destruct o1; intros [= <- <-]; try exact NF; discriminate.
Qed.

(* ---------- what a throw can leave behind ---------- *)
(* [1,2] in capacity 3, emplace(begin(), 9), the second element move throws: the first move has already taken the
   value out of slot 1, which is inside the live range: the container shows  1, <moved-from>. *)
Definition emplace_fault_witness : fv := mkfv 3 2 [Filled 1; Filled 2; Fresh].

Lemma emplace_fault_breaks_Inv :
  Inv emplace_fault_witness /\
  emplace (Some 1) 0 (Filled 9) emplace_fault_witness = (mkfv 3 2 [Filled 1; Moved; Filled 2], Faulted) /\
  ~ Inv (mkfv 3 2 [Filled 1; Moved; Filled 2]).
Proof.
  split; [|split].
  - unfold Inv, emplace_fault_witness, abs; simpl. repeat split; auto. repeat constructor.
  - reflexivity.
  - intros (_ & _ & H). unfold abs in H; simpl in H. inversion H as [|? ? _ H2]; subst. inversion H2 as [|? ? H3 _]; subst. exact H3.
Qed.

(* [1,2,3] in capacity 3, erase(begin()), the second element move throws: 2, <moved-from>, 3 *)
Definition erase_fault_witness : fv := mkfv 3 3 [Filled 1; Filled 2; Filled 3].

Lemma erase_fault_breaks_Inv :
  Inv erase_fault_witness /\
  erase (Some 1) 0 erase_fault_witness = (mkfv 3 3 [Filled 2; Moved; Filled 3], Faulted) /\
  ~ Inv (mkfv 3 3 [Filled 2; Moved; Filled 3]).
Proof.
  split; [|split].
  - unfold Inv, erase_fault_witness, abs; simpl. repeat split; auto. repeat constructor.
  - reflexivity.
  - intros (_ & _ & H). unfold abs in H; simpl in H. inversion H as [|? ? _ H2]; subst. inversion H2 as [|? ? H3 _]; subst. exact H3.
Qed.

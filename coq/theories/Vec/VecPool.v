(* Vec/VecPool.v — the per-operation results lifted to the pool interpreter and to whole histories:
   C06  (invariants for every operation sequence, every fault plan; never OutOfStorage)
   C07  (pstep refines sstep under the abstraction; histories). *)
From Coq Require Import List Arith Bool Lia.
From Nitro Require Import Base.ListX Vec.FixedVecModel Vec.VecBase Vec.BoundedListSpec Vec.VecInv Vec.VecRefine Vec.VecFaults.
Import ListNotations.
Local Open Scope list_scope.

Definition okopt (R : fv -> Prop) (x : option fv) : Prop := match x with Some st => R st | None => True end.
Definition PAll (R : fv -> Prop) (P : pool) : Prop := Forall (okopt R) P.
Definition absobj (st : fv) : aobj := (cap st, abs st).
Definition absP (P : pool) : apool := map (option_map absobj) P.

(* ---------- pool plumbing ---------- *)
Lemma Forall_upd {A} (R : A -> Prop) l i x : Forall R l -> R x -> Forall R (upd l i (fun _ => x)).
Proof.
  revert i; induction l as [|y l IH]; intros i H Hx; simpl; auto.
  inversion H; subst. destruct i; constructor; auto.
Qed.

Lemma map_upd {A B} (f : A -> B) l i x : map f (upd l i (fun _ => x)) = upd (map f l) i (fun _ => f x).
Proof. revert i; induction l as [|y l IH]; intros [|i]; simpl; auto. now rewrite IH. Qed.

Lemma PAll_pget R P i st : PAll R P -> pget P i = Some st -> R st.
Proof.
  unfold pget. destruct (nth_error P i) as [[s|]|] eqn:E; intros H [= <-].
  apply (Forall_nth_error _ _ _ _ H E).
Qed.

Lemma PAll_pset R P i x : PAll R P -> okopt R x -> PAll R (pset P i x).
Proof. intros. now apply Forall_upd. Qed.

Lemma pset_length P i x : length (pset P i x) = length P.
Proof. apply upd_length. Qed.

Lemma pget_lt P i st : pget P i = Some st -> i < length P.
Proof. unfold pget. destruct (nth_error P i) eqn:E; [|discriminate]. intros _. apply nth_error_Some. congruence. Qed.

Lemma PAll_empty R n : PAll R (empty_pool n).
Proof. unfold PAll, empty_pool. apply Forall_forall. intros x H. apply repeat_spec in H. subst. exact I. Qed.

Lemma aget_absP P i : aget (absP P) i = option_map absobj (pget P i).
Proof. unfold aget, absP, pget. rewrite nth_error_map. destruct (nth_error P i) as [[|]|]; reflexivity. Qed.

Lemma absP_pset P i x : absP (pset P i x) = aset (absP P) i (option_map absobj x).
Proof. unfold absP, pset, aset. apply map_upd. Qed.

Lemma absP_length P : length (absP P) = length P.
Proof. apply map_length. Qed.

Lemma absP_empty n : absP (empty_pool n) = repeat None n.
Proof. unfold absP, empty_pool. induction n; simpl; congruence. Qed.

(* ---------- one step on one object, any plan ---------- *)
Definition StepOK (R : fv -> Prop) (f : fv -> fv * outcome) : Prop :=
  forall st, R st -> R (fst (f st)) /\ snd (f st) <> OutOfStorage.

Lemma on_obj_ok R P i f P' o : PAll R P -> StepOK R f -> on_obj P i f = (P', o) ->
  PAll R P' /\ o <> OutOfStorage /\ length P' = length P.
Proof.
  unfold on_obj. intros HP Hf. destruct (pget P i) as [st|] eqn:E; intros [= <- <-].
  - destruct (Hf st (PAll_pget _ _ _ _ HP E)) as (A & B). rewrite pset_length. repeat split; auto.
    apply PAll_pset; auto.
  - repeat split; auto. discriminate.
Qed.

Lemma construct_ok R P i r P' o : PAll R P -> (is_done (snd r) = true -> R (fst r)) -> snd r <> OutOfStorage ->
  construct P i r = (P', o) -> PAll R P' /\ o <> OutOfStorage /\ length P' = length P.
Proof.
  unfold construct. intros HP Hr Hn. destruct (i <? length P); intros [= <- <-].
  - rewrite pset_length. repeat split; auto. apply PAll_pset; auto.
    destruct (is_done (snd r)) eqn:E; simpl; auto.
  - repeat split; auto. discriminate.
Qed.

Lemma Forall_map_Filled (Q : slot -> Prop) xs : (forall v, Q (Filled v)) -> Forall Q (map Filled xs).
Proof. intros H. apply Forall_map. apply Forall_forall. auto. Qed.

Section AnyPlan.
  Variable Q : slot -> Prop.
  Hypothesis HQ : forall v, Q (Filled v).

  Lemma append_ok p v : StepOK (GInv Q) (append p (Filled v)).
  Proof.
    intros st HI. destruct (append p (Filled v) st) as [st' o] eqn:E.
    apply (append_good Q) in E; auto. destruct E as ((A & _ & B & C) & _). simpl. auto.
  Qed.

  Lemma append_okS p s : Q s -> StepOK (GInv Q) (append p s).
  Proof.
    intros Hs st HI. destruct (append p s st) as [st' o] eqn:E.
    apply (append_good Q) in E; auto. destruct E as ((A & _ & B & C) & _). simpl. auto.
  Qed.

  (* an argument that names a live element of the same vector *)
  Lemma alias_ok (f : slot -> fv -> fv * outcome) k : (forall s, Q s -> StepOK (GInv Q) (f s)) ->
    StepOK (GInv Q) (fun st => match live_elem st k with Some s => f s st | None => (st, Skipped) end).
  Proof.
    intros Hf st HI. destruct (live_elem st k) as [s|] eqn:E.
    - apply Hf; auto. eapply live_elem_Q; eauto.
    - simpl. split; auto. discriminate.
  Qed.

  Lemma insert_self_range_ok p pos a b :
    StepOK (GInv Q) (fun st => if self_range_valid st a b then insert_self_range p pos a b st else (st, Skipped)).
  Proof.
    intros st HI. destruct (self_range_valid st a b) eqn:V.
    - destruct (insert_self_range p pos a b st) as [st' o] eqn:E.
      apply (insert_self_range_good Q) in E; auto. destruct E as ((A & _ & B & C) & _). simpl. auto.
    - simpl. split; auto. discriminate.
  Qed.

  Lemma push_back_self_range_ok p a b :
    StepOK (GInv Q) (fun st => if self_range_valid st a b then push_back_self_range p a b st else (st, Skipped)).
  Proof.
    intros st HI. pose proof (insert_self_range_ok p (size st) a b st HI) as H. exact H.
  Qed.

  (* an operation that leaves the object as it is *)
  Lemma unchanged_ok (f : fv -> fv * outcome) : (forall st, fst (f st) = st /\ snd (f st) <> OutOfStorage) -> StepOK (GInv Q) f.
  Proof. intros Hf st HI. destruct (Hf st) as (A & B). rewrite A. auto. Qed.

  (* an operation that only refuses *)
  Lemma refuse_ok (f : fv -> fv * outcome) : (forall st, f st = (st, Raised)) -> StepOK (GInv Q) f.
  Proof. intros Hf st HI. rewrite Hf. simpl. split; auto. discriminate. Qed.

  Lemma insert_range_ok p key xs : StepOK (GInv Q) (insert_range p key (map Filled xs)).
  Proof.
    intros st HI. destruct (insert_range p key (map Filled xs) st) as [st' o] eqn:E.
    apply (insert_range_good Q) in E; auto using Forall_map_Filled. destruct E as ((A & _ & B & C) & _). simpl. auto.
  Qed.

  Lemma push_back_range_ok p xs : StepOK (GInv Q) (push_back_range p (map Filled xs)).
  Proof. intros st HI. unfold push_back_range. now apply insert_range_ok. Qed.

  Lemma pop_ok : StepOK (GInv Q) pop_back.
  Proof.
    intros st HI. destruct (pop_back st) as [st' o] eqn:E.
    apply (pop_back_good Q) in E; auto. destruct E as ((A & _ & B & C) & _). simpl. auto.
  Qed.

  Lemma at_ok k : StepOK (GInv Q) (fun st => (st, access_outcome (at_ st k))).
  Proof. intros st HI. simpl. destruct (at_good Q st k HI) as (A & B & _). auto. Qed.

  Lemma copy_assign_ok p src : GInv Q src -> StepOK (GInv Q) (fun dst => copy_assign p dst src).
  Proof.
    intros Hs st HI. destruct (copy_assign p st src) as [st' o] eqn:E.
    apply (copy_assign_good Q) in E; auto. destruct E as (A & B & C & _). simpl. auto.
  Qed.

  Lemma list_assign_ok p xs : StepOK (GInv Q) (fun dst => list_assign p dst (map Filled xs)).
  Proof.
    intros st HI. destruct (list_assign p st (map Filled xs)) as [st' o] eqn:E.
    apply (list_assign_good Q) in E; auto using Forall_map_Filled. destruct E as (A & B & C & _). simpl. auto.
  Qed.

  (* positional emplace and erase keep GInv Q only when Q tolerates moved-from elements, or when no throw occurs *)
  Definition positional (o : op) : bool :=
    match o with OEmplace _ _ _ | OErase _ _ | OEmplaceAt _ _ _ => true | _ => false end.
  Variable pos_ok : plan -> Prop.
  Hypothesis Hemplace : forall p key s, Q s -> pos_ok p -> StepOK (GInv Q) (emplace p key s).
  Hypothesis Herase : forall p key, pos_ok p -> StepOK (GInv Q) (erase p key).

  Theorem pstep_G p o P P' r : PAll (GInv Q) P -> (positional o = true -> pos_ok p) -> pstep p o P = (P', r) ->
    PAll (GInv Q) P' /\ r <> OutOfStorage /\ length P' = length P.
  Proof.
    intros HP Hpos H. destruct o; simpl in H, Hpos.
    - (* ONew *) eapply construct_ok in H; eauto; simpl; try discriminate. intros _. apply make_GInv.
    - (* ONewFrom *) destruct (make_from p c (map Filled xs)) as [st o] eqn:E.
      apply (make_from_good Q) in E; auto using Forall_map_Filled. destruct E as (A & _ & B & _).
      eapply construct_ok in H; eauto.
    - (* ONewList *) unfold make_list in H. destruct (make_from p (length (map Filled xs)) (map Filled xs)) as [st o] eqn:E.
      apply (make_from_good Q) in E; auto using Forall_map_Filled. destruct E as (A & _ & B & _).
      eapply construct_ok in H; eauto.
    - (* OCopy *) destruct (i =? j); [inversion H; subst; repeat split; auto; discriminate|].
      destruct (pget P j) as [src|] eqn:Ej; [|inversion H; subst; repeat split; auto; discriminate].
      destruct (copy_ctor p src) as [st o] eqn:E.
      apply (copy_ctor_good Q) in E; [|eapply PAll_pget; eauto]. destruct E as (A & _ & B & _).
      eapply construct_ok in H; eauto.
    - (* OMove *) destruct (i =? j); [inversion H; subst; repeat split; auto; discriminate|].
      destruct (negb (i <? length P)); [inversion H; subst; repeat split; auto; discriminate|].
      destruct (pget P j) as [src|] eqn:Ej; [|inversion H; subst; repeat split; auto; discriminate].
      destruct (move_ctor_good Q src) as (A & B & _); [eapply PAll_pget; eauto|].
      inversion H; subst. rewrite !pset_length. repeat split; auto; try discriminate.
      apply PAll_pset; auto. apply PAll_pset; auto.
    - (* OAssign *) destruct (pget P j) as [src|] eqn:Ej; [|inversion H; subst; repeat split; auto; discriminate].
      eapply on_obj_ok in H; eauto. apply copy_assign_ok. eapply PAll_pget; eauto.
    - (* OMoveAssign *)
      destruct (pget P i) as [dst|] eqn:Ei; [|inversion H; subst; repeat split; auto; discriminate].
      destruct (pget P j) as [src|] eqn:Ej; [|inversion H; subst; repeat split; auto; discriminate].
      destruct (move_ctor_good Q src) as (A & B & _); [eapply PAll_pget; eauto|].
      unfold move_assign in H. inversion H; subst. rewrite !pset_length. repeat split; auto; try discriminate.
      apply PAll_pset; auto. apply PAll_pset; auto.
    - (* OListAssign *) eapply on_obj_ok in H; eauto. apply list_assign_ok.
    - (* OAt *) eapply on_obj_ok in H; eauto. apply at_ok.
    - (* OGet *) eapply on_obj_ok in H; eauto. apply at_ok.
    - (* OEmplace *) eapply on_obj_ok in H; eauto.
    - (* OEmplaceBack *) eapply on_obj_ok in H; eauto. apply append_ok.
    - (* OInsert *) eapply on_obj_ok in H; eauto. apply append_ok.
    - (* OInsertMove *) eapply on_obj_ok in H; eauto. apply append_ok.
    - (* OPushBack *) eapply on_obj_ok in H; eauto. apply append_ok.
    - (* OInsertRange *) eapply on_obj_ok in H; eauto. apply insert_range_ok.
    - (* OInsertList *) eapply on_obj_ok in H; eauto. apply insert_range_ok.
    - (* OPushBackRange *) eapply on_obj_ok in H; eauto. apply push_back_range_ok.
    - (* OPop *) eapply on_obj_ok in H; eauto. apply pop_ok.
    - (* OErase *) eapply on_obj_ok in H; eauto.
    - (* ODestroy *) destruct (i <? length P); inversion H; subst; rewrite ?pset_length; repeat split; auto; try discriminate.
      apply PAll_pset; simpl; auto.
    - (* OEmplaceAt *) eapply on_obj_ok in H; eauto. apply alias_ok. intros s Hs. apply Hemplace; auto.
    - (* OEmplaceBackAt *) eapply on_obj_ok in H; eauto. apply alias_ok. intros s Hs. now apply append_okS.
    - (* OInsertAt *) eapply on_obj_ok in H; eauto. apply alias_ok. intros s Hs. now apply append_okS.
    - (* OPushBackAt *) eapply on_obj_ok in H; eauto. apply alias_ok. intros s Hs. now apply append_okS.
    - (* OInsertSelfRange *) eapply on_obj_ok in H; eauto. apply insert_self_range_ok.
    - (* OPushBackSelfRange *) eapply on_obj_ok in H; eauto. apply push_back_self_range_ok.
    - eapply on_obj_ok in H; eauto. apply refuse_ok. reflexivity.
    - eapply on_obj_ok in H; eauto. apply refuse_ok. intros st; unfold emplace_before; now destruct (cap st <=? size st).
    - eapply on_obj_ok in H; eauto. apply refuse_ok. reflexivity.
    - (* OConstructFrom *) destruct (i =? j); [inversion H; subst; repeat split; auto; discriminate|].
      destruct (pget P j) as [src|] eqn:Ej; [|inversion H; subst; repeat split; auto; discriminate].
      destruct (make_from_obj p c src) as [st o] eqn:E.
      apply (make_from_obj_good Q) in E; [|eapply PAll_pget; eauto]. destruct E as (A & _ & B & _).
      eapply construct_ok in H; eauto.
    - eapply on_obj_ok in H; eauto. apply unchanged_ok. intros st. unfold emplace_back_ctor_throws.
      destruct (cap st <=? size st); simpl; split; auto; discriminate.
    - eapply on_obj_ok in H; eauto. apply unchanged_ok. intros st. unfold emplace_ctor_throws.
      destruct (cap st <=? size st); [|destruct (size st <? pos)]; simpl; split; auto; discriminate.
  Qed.
End AnyPlan.

(* ---------- C06: the weak invariant survives every operation under every fault plan ---------- *)
Lemma emplace_okW p key s : nonfresh s -> StepOK WInv (emplace p key s).
Proof.
  intros Hs st HI. destruct (emplace p key s st) as [st' o] eqn:E.
  apply emplace_good in E; simpl; auto. destruct E as ((A & _ & B & C) & _). simpl. auto.
Qed.

Lemma erase_okW p key : StepOK WInv (erase p key).
Proof.
  intros st HI. destruct (erase p key st) as [st' o] eqn:E.
  apply erase_good in E; auto. destruct E as ((A & _ & B & C) & _). simpl. auto.
Qed.

Theorem pstep_WInv p o P P' r : PAll WInv P -> pstep p o P = (P', r) ->
  PAll WInv P' /\ r <> OutOfStorage /\ length P' = length P.
Proof.
  intros HP H.
  apply (pstep_G nonfresh (fun _ => I) (fun _ => True) (fun p key s Hs _ => emplace_okW p key s Hs) (fun p key _ => erase_okW p key) p o P P' r); auto.
Qed.

(* ---------- a plan that is not reached changes nothing ---------- *)
Lemma on_obj_unfault (f : plan -> fv -> fv * outcome) p P i P' r :
  (forall st st' o, f p st = (st', o) -> o <> Faulted -> f None st = (st', o)) ->
  on_obj P i (f p) = (P', r) -> r <> Faulted -> on_obj P i (f None) = (P', r).
Proof.
  intros Hf. unfold on_obj. destruct (pget P i) as [st|]; auto.
  destruct (f p st) as [st' o] eqn:E. simpl. intros [= <- <-] Hn. now rewrite (Hf _ _ _ E Hn).
Qed.

Lemma construct_unfault (g : plan -> fv * outcome) p P i P' r :
  (forall st' o, g p = (st', o) -> o <> Faulted -> g None = (st', o)) ->
  construct P i (g p) = (P', r) -> r <> Faulted -> construct P i (g None) = (P', r).
Proof.
  intros Hg. unfold construct. destruct (i <? length P); auto.
  destruct (g p) as [st' o] eqn:E. simpl. intros [= <- <-] Hn. now rewrite (Hg _ _ eq_refl Hn).
Qed.

Theorem pstep_unfault p o P P' r : pstep p o P = (P', r) -> r <> Faulted -> pstep None o P = (P', r).
Proof.
  intros H Hn. destruct o; simpl in *; auto.
  - apply (construct_unfault (fun q => make_from q c (map Filled xs)) p); auto. intros; eapply make_from_unfault; eauto.
  - apply (construct_unfault (fun q => make_list q (map Filled xs)) p); auto. intros; eapply make_list_unfault; eauto.
  - destruct (i =? j); auto. destruct (pget P j) as [src|]; auto.
    apply (construct_unfault (fun q => copy_ctor q src) p); auto. intros; eapply copy_ctor_unfault; eauto.
  - destruct (pget P j) as [src|]; auto.
    apply (on_obj_unfault (fun q dst => copy_assign q dst src) p); auto. intros; eapply copy_assign_unfault; eauto.
  - apply (on_obj_unfault (fun q dst => list_assign q dst (map Filled xs)) p); auto. intros; eapply list_assign_unfault; eauto.
  - apply (on_obj_unfault (fun q => emplace q pos (Filled v)) p); auto. intros; eapply emplace_unfault; eauto.
  - apply (on_obj_unfault (fun q => emplace_back q (Filled v)) p); auto. intros; eapply append_unfault; eauto.
  - apply (on_obj_unfault (fun q => insert_copy q (Filled v)) p); auto. intros; eapply append_unfault; eauto.
  - apply (on_obj_unfault (fun q => insert_move q (Filled v)) p); auto. intros; eapply append_unfault; eauto.
  - apply (on_obj_unfault (fun q => push_back q (Filled v)) p); auto. intros; eapply append_unfault; eauto.
  - apply (on_obj_unfault (fun q => insert_range q pos (map Filled xs)) p); auto. intros; eapply insert_range_unfault; eauto.
  - apply (on_obj_unfault (fun q => insert_list q pos (map Filled xs)) p); auto. intros; eapply insert_range_unfault; eauto.
  - apply (on_obj_unfault (fun q => push_back_range q (map Filled xs)) p); auto. intros; eapply push_back_range_unfault; eauto.
  - apply (on_obj_unfault (fun q => erase q pos) p); auto. intros; eapply erase_unfault; eauto.
  - apply (on_obj_unfault (fun q st => match live_elem st k with Some s => emplace q pos s st | None => (st, Skipped) end) p); auto.
    intros st st' o. destruct (live_elem st k); auto. apply emplace_unfault.
  - apply (on_obj_unfault (fun q st => match live_elem st k with Some s => emplace_back q s st | None => (st, Skipped) end) p); auto.
    intros st st' o. destruct (live_elem st k); auto. apply append_unfault.
  - apply (on_obj_unfault (fun q st => match live_elem st k with Some s => insert_copy q s st | None => (st, Skipped) end) p); auto.
    intros st st' o. destruct (live_elem st k); auto. apply append_unfault.
  - apply (on_obj_unfault (fun q st => match live_elem st k with Some s => push_back q s st | None => (st, Skipped) end) p); auto.
    intros st st' o. destruct (live_elem st k); auto. apply append_unfault.
  - apply (on_obj_unfault (fun q st => if self_range_valid st a b then insert_self_range q pos a b st else (st, Skipped)) p); auto.
    intros st st' o. destruct (self_range_valid st a b); auto. apply insert_self_range_unfault.
  - apply (on_obj_unfault (fun q st => if self_range_valid st a b then push_back_self_range q a b st else (st, Skipped)) p); auto.
    intros st st' o. destruct (self_range_valid st a b); auto. apply insert_self_range_unfault.
  - destruct (i =? j); auto. destruct (pget P j) as [src|]; auto.
    apply (construct_unfault (fun q => make_from_obj q c src) p); auto. intros; eapply make_from_obj_unfault; eauto.
Qed.

(* ---------- C07: without faults, pstep refines sstep, and the strong invariant is kept ---------- *)
Definition Istep (f : fv -> fv * outcome) (g : aobj -> aobj * outcome) : Prop :=
  forall st, Inv st -> Inv (fst (f st)) /\ g (absobj st) = (absobj (fst (f st)), snd (f st)).

Lemma on_obj_refines P i f g P' o : PAll Inv P -> Istep f g -> on_obj P i f = (P', o) ->
  PAll Inv P' /\ a_on (absP P) i g = (absP P', o).
Proof.
  unfold on_obj, a_on. intros HP Hf. rewrite aget_absP. destruct (pget P i) as [st|] eqn:E; intros [= <- <-]; simpl.
  - destruct (Hf st (PAll_pget _ _ _ _ HP E)) as (A & B). split; [apply PAll_pset; auto|].
    rewrite B. simpl. now rewrite absP_pset.
  - auto.
Qed.

Lemma construct_refines P i st o1 P' o : construct P i (st, o1) = (P', o) -> o1 = Done \/ o1 = Raised ->
  a_construct (absP P) i (if is_done o1 then Some (absobj st) else None) = (absP P', o).
Proof.
  unfold construct, a_construct. rewrite absP_length. simpl. destruct (i <? length P); intros [= <- <-] Ho; auto.
  rewrite absP_pset. destruct Ho as [-> | ->]; reflexivity.
Qed.

Lemma filled_Filled v : filled (Filled v).
Proof. exact I. Qed.

Lemma Inv_of_WInv st : WInv st -> Forall filled (abs st) -> Inv st.
Proof. intros (A & B & _) C. repeat split; auto. Qed.

Lemma append_I s : filled s -> Istep (append None s) (fun a => a_try a (bl_append (fst a) (snd a) s)).
Proof.
  intros Hs st HI. destruct (append None s st) as [st' o] eqn:E. simpl.
  pose proof (append_good filled _ _ _ _ _ E Hs HI) as ((A & _) & _).
  apply (append_refines filled) in E; auto. split; auto.
  unfold absobj at 1. simpl. destruct (bl_append (cap st) (abs st) s).
  - destruct E as (-> & <- & E3). unfold absobj. now rewrite E3.
  - destruct E as (-> & ->). reflexivity.
Qed.

Lemma emplace_I key s : filled s -> Istep (emplace None key s) (fun a => a_try a (bl_emplace (fst a) (snd a) key s)).
Proof.
  intros Hs st HI. destruct (emplace None key s st) as [st' o] eqn:E. simpl.
  pose proof (emplace_good _ _ _ _ _ _ E (filled_nonfresh _ Hs) (Inv_WInv _ HI)) as ((A & _) & _).
  apply (emplace_refines filled) in E; auto.
  unfold absobj at 1. simpl. unfold bl_emplace in *.
  destruct ((length (abs st) <? cap st) && (key <=? length (abs st))).
  - destruct E as (-> & E2 & E3). split.
    + apply Inv_of_WInv; auto. rewrite E2. destruct HI as (_ & _ & HF).
      apply Forall_app. split; [now apply Forall_firstn|]. constructor; [exact Hs|now apply Forall_skipn].
    + unfold absobj. now rewrite E2, E3.
  - destruct E as (-> & ->). auto.
Qed.

Lemma erase_I key : Istep (erase None key) (fun a => a_try a (bl_erase (snd a) key)).
Proof.
  intros st HI. destruct (erase None key st) as [st' o] eqn:E. simpl.
  pose proof (erase_good _ _ _ _ _ E (Inv_WInv _ HI)) as ((A & _) & _).
  apply (erase_refines filled) in E; auto.
  unfold absobj at 1. simpl. unfold bl_erase in *.
  destruct (key <? length (abs st)).
  - destruct E as (-> & E2 & E3). split.
    + apply Inv_of_WInv; auto. rewrite E2. destruct HI as (_ & _ & HF).
      apply Forall_app. split; [now apply Forall_firstn|now apply Forall_skipn].
    + unfold absobj. now rewrite E2, E3.
  - destruct E as (-> & ->). auto.
Qed.

Lemma pop_I : Istep pop_back (fun a => a_try a (bl_pop (snd a))).
Proof.
  intros st HI. destruct (pop_back st) as [st' o] eqn:E. simpl.
  pose proof (pop_back_good filled _ _ _ E HI) as ((A & _) & _).
  apply (pop_back_refines filled) in E; auto. split; auto.
  unfold absobj at 1. simpl. destruct (bl_pop (abs st)).
  - destruct E as (-> & <- & E3). unfold absobj. now rewrite E3.
  - destruct E as (-> & ->). reflexivity.
Qed.

Lemma insert_range_I key xs :
  Istep (insert_range None key (map Filled xs)) (fun a => a_range a (bl_overwrite (fst a) (snd a) key (map Filled xs))).
Proof.
  intros st HI. destruct (insert_range None key (map Filled xs) st) as [st' o] eqn:E. simpl.
  pose proof (insert_range_good filled _ _ _ _ _ _ E (Forall_map_Filled filled xs filled_Filled) HI) as ((A & _) & _).
  apply (insert_range_refines filled) in E; auto. split; auto.
  unfold absobj at 1. simpl. destruct (bl_overwrite (cap st) (abs st) key (map Filled xs)) as [[l fits]|].
  - destruct E as (-> & <- & E3). unfold absobj. now rewrite E3.
  - destruct E as (-> & ->). reflexivity.
Qed.

Lemma push_back_range_I xs :
  Istep (push_back_range None (map Filled xs)) (fun a => a_range a (Some (bl_append_range (fst a) (snd a) (map Filled xs)))).
Proof.
  intros st HI. destruct (push_back_range None (map Filled xs) st) as [st' o] eqn:E. simpl.
  pose proof (insert_range_good filled _ _ _ _ _ _ E (Forall_map_Filled filled xs filled_Filled) HI) as ((A & _) & _).
  apply (push_back_range_refines filled) in E; auto. split; auto.
  unfold absobj at 1. simpl. unfold bl_append_range in E. simpl in E.
  destruct E as (-> & E2 & E3). unfold absobj. now rewrite E2, E3.
Qed.

(* aliasing arguments *)
Lemma alias_I (f : slot -> fv -> fv * outcome) (g : slot -> aobj -> aobj * outcome) k :
  (forall s, filled s -> Istep (f s) (g s)) ->
  Istep (fun st => match live_elem st k with Some s => f s st | None => (st, Skipped) end)
        (fun a => match nth_error (snd a) k with Some s => g s a | None => (a, Skipped) end).
Proof.
  intros Hf st HI. rewrite (live_elem_abs filled) by auto.
  change (snd (absobj st)) with (abs st).
  destruct (nth_error (abs st) k) as [s|] eqn:E.
  - apply Hf; auto. destruct HI as (_ & _ & H3). eapply Forall_nth_error; eauto.
  - simpl. auto.
Qed.

(* a range of the vector itself is read correctly unless the target position lies strictly inside it *)
Definition benign (o : op) : Prop :=
  match o with OInsertSelfRange _ pos a b => pos <= a \/ b <= pos | _ => True end.

Lemma self_valid_abs st a b : Inv st -> self_range_valid st a b = (a <=? b) && (b <=? length (abs st)).
Proof. intros HI. unfold self_range_valid. now rewrite (abs_length filled). Qed.

Lemma slice_filled st a b : Inv st -> Forall filled (firstn (b - a) (skipn a (abs st))).
Proof. intros (_ & _ & H). now apply Forall_firstn, Forall_skipn. Qed.

Lemma insert_self_range_I pos a b : pos <= a \/ b <= pos ->
  Istep (fun st => if self_range_valid st a b then insert_self_range None pos a b st else (st, Skipped))
        (fun x => if (a <=? b) && (b <=? length (snd x))
                  then a_range x (bl_overwrite (fst x) (snd x) pos (firstn (b - a) (skipn a (snd x)))) else (x, Skipped)).
Proof.
  intros Hov st HI. change (snd (absobj st)) with (abs st). change (fst (absobj st)) with (cap st).
  rewrite <- (self_valid_abs st a b HI). destruct (self_range_valid st a b) eqn:V; [|simpl; auto].
  destruct (insert_self_range None pos a b st) as [st' o] eqn:E. simpl.
  pose proof (insert_self_range_good filled _ _ _ _ _ _ _ E V HI) as ((A & _) & _).
  apply (insert_self_range_refines filled) in E; auto. split; auto.
  destruct (bl_overwrite (cap st) (abs st) pos (firstn (b - a) (skipn a (abs st)))) as [[l fits]|].
  - destruct E as (-> & <- & E3). unfold absobj. simpl. now rewrite E3.
  - destruct E as (-> & ->). reflexivity.
Qed.

Lemma push_back_self_range_I a b :
  Istep (fun st => if self_range_valid st a b then push_back_self_range None a b st else (st, Skipped))
        (fun x => if (a <=? b) && (b <=? length (snd x))
                  then a_range x (Some (bl_append_range (fst x) (snd x) (firstn (b - a) (skipn a (snd x))))) else (x, Skipped)).
Proof.
  intros st HI. change (snd (absobj st)) with (abs st). change (fst (absobj st)) with (cap st).
  rewrite <- (self_valid_abs st a b HI). destruct (self_range_valid st a b) eqn:V; [|simpl; auto].
  destruct (push_back_self_range None a b st) as [st' o] eqn:E. simpl.
  pose proof (insert_self_range_good filled _ _ _ _ _ _ _ E V HI) as ((A & _) & _).
  apply (push_back_self_range_refines filled) in E; auto. split; auto.
  unfold bl_append_range in *. simpl in E. simpl.
  destruct E as (-> & E2 & E3). unfold absobj. now rewrite E2, E3.
Qed.

Lemma ctor_throws_back_I : Istep emplace_back_ctor_throws (fun a => (a, if fst a <=? length (snd a) then Raised else Faulted)).
Proof.
  intros st HI. unfold emplace_back_ctor_throws, absobj. simpl. rewrite (abs_length filled) by auto.
  destruct (cap st <=? size st); simpl; auto.
Qed.

Lemma ctor_throws_I pos : Istep (emplace_ctor_throws pos)
  (fun a => (a, if fst a <=? length (snd a) then Raised else if length (snd a) <? pos then Raised else Faulted)).
Proof.
  intros st HI. unfold emplace_ctor_throws, absobj. simpl. rewrite (abs_length filled) by auto.
  destruct (cap st <=? size st); [|destruct (size st <? pos)]; simpl; auto.
Qed.

Lemma refuse_I (f : fv -> fv * outcome) : (forall st, f st = (st, Raised)) -> Istep f (fun a => (a, Raised)).
Proof. intros Hf st HI. rewrite Hf. simpl. auto. Qed.

Lemma at_I k : Istep (fun st => (st, access_outcome (at_ st k))) (fun a => (a, match bl_at (snd a) k with Some _ => Done | None => Raised end)).
Proof.
  intros st HI. simpl. split; auto. pose proof (at_refines filled st k HI) as H.
  destruct (bl_at (abs st) k); rewrite H; reflexivity.
Qed.

Lemma copy_assign_I src : Inv src -> Istep (fun dst => copy_assign None dst src) (fun _ => (absobj src, Done)).
Proof.
  intros Hs st HI. destruct (copy_assign None st src) as [st' o] eqn:E. simpl.
  pose proof (copy_assign_good filled _ _ _ _ _ E HI Hs) as (A & _).
  apply (copy_assign_refines filled) in E; auto. destruct E as (-> & E2 & E3). split; auto.
  unfold absobj. now rewrite E2, E3.
Qed.

Lemma list_assign_I xs : Istep (fun dst => list_assign None dst (map Filled xs)) (fun _ => ((length xs, map Filled xs), Done)).
Proof.
  intros st HI. destruct (list_assign None st (map Filled xs)) as [st' o] eqn:E. simpl.
  pose proof (list_assign_good filled _ _ _ _ _ E HI (Forall_map_Filled filled xs filled_Filled)) as (A & _).
  apply list_assign_refines in E. destruct E as (-> & E2 & E3). split; auto.
  unfold absobj. rewrite E2, E3. now rewrite map_length.
Qed.

Theorem pstep_refines o P P' r : PAll Inv P -> benign o -> pstep None o P = (P', r) ->
  PAll Inv P' /\ sstep o (absP P) = (absP P', r).
Proof.
  intros HP Hben H. destruct o; simpl in H, Hben; simpl sstep.
  - (* ONew *) split.
    + eapply (construct_ok Inv) in H; eauto; simpl; try discriminate; [apply H|]. intros _. apply (make_GInv filled).
    + apply construct_refines in H; auto.
  - (* ONewFrom *) destruct (make_from None c (map Filled xs)) as [st o] eqn:E.
    pose proof (make_from_good filled _ _ _ _ _ E (Forall_map_Filled filled xs filled_Filled)) as (A & _ & B & _).
    apply make_from_refines in E. rewrite map_length in E. split.
    + eapply (construct_ok Inv) in H; eauto. apply H.
    + destruct (length xs <=? c).
      * destruct E as (-> & E2 & E3). apply construct_refines in H; auto. simpl in H.
        unfold absobj in H. now rewrite E2, E3 in H.
      * subst o. apply construct_refines in H; auto.
  - (* ONewList *) destruct (make_list None (map Filled xs)) as [st o] eqn:E.
    pose proof E as E'. unfold make_list in E'.
    pose proof (make_from_good filled _ _ _ _ _ E' (Forall_map_Filled filled xs filled_Filled)) as (A & _ & B & _).
    apply make_list_refines in E. destruct E as (-> & E2 & E3). rewrite map_length in E3. split.
    + eapply (construct_ok Inv) in H; eauto. apply H.
    + apply construct_refines in H; auto. simpl in H. unfold absobj in H. now rewrite E2, E3 in H.
  - (* OCopy *) destruct (i =? j); [inversion H; subst; auto|].
    rewrite aget_absP. destruct (pget P j) as [src|] eqn:Ej; simpl; [|inversion H; subst; auto].
    pose proof (PAll_pget _ _ _ _ HP Ej) as Hs.
    destruct (copy_ctor None src) as [st o] eqn:E.
    pose proof (copy_ctor_good filled _ _ _ _ E Hs) as (A & _ & B & _).
    apply (copy_ctor_refines filled) in E; auto. destruct E as (-> & E2 & E3). split.
    + eapply (construct_ok Inv) in H; eauto. apply H.
    + apply construct_refines in H; auto. simpl in H. unfold absobj in *. now rewrite E2, E3 in H.
  - (* OMove *) destruct (i =? j); [inversion H; subst; auto|].
    rewrite absP_length. destruct (negb (i <? length P)); [inversion H; subst; auto|].
    rewrite aget_absP. destruct (pget P j) as [src|] eqn:Ej; simpl; [|inversion H; subst; auto].
    pose proof (PAll_pget _ _ _ _ HP Ej) as Hs.
    destruct (move_ctor_good filled src Hs) as (A & B & _).
    inversion H; subst. split.
    + apply PAll_pset; auto. apply PAll_pset; auto.
    + rewrite !absP_pset. reflexivity.
  - (* OAssign *) rewrite aget_absP. destruct (pget P j) as [src|] eqn:Ej; simpl; [|inversion H; subst; auto].
    eapply on_obj_refines in H; eauto. apply copy_assign_I. eapply PAll_pget; eauto.
  - (* OMoveAssign *)
    rewrite !aget_absP.
    destruct (pget P i) as [dst|] eqn:Ei; simpl; [|inversion H; subst; auto].
    destruct (pget P j) as [src|] eqn:Ej; simpl; [|inversion H; subst; auto].
    pose proof (PAll_pget _ _ _ _ HP Ej) as Hs.
    destruct (move_ctor_good filled src Hs) as (A & B & _).
    unfold move_assign in H. inversion H; subst. split.
    + apply PAll_pset; auto. apply PAll_pset; auto.
    + rewrite !absP_pset. reflexivity.
  - (* OListAssign *) eapply on_obj_refines in H; eauto. apply list_assign_I.
  - (* OAt *) eapply on_obj_refines in H; eauto. apply at_I.
  - (* OGet *) eapply on_obj_refines in H; eauto. apply at_I.
  - (* OEmplace *) eapply on_obj_refines in H; eauto. apply emplace_I. exact I.
  - eapply on_obj_refines in H; eauto. apply append_I. exact I.
  - eapply on_obj_refines in H; eauto. apply append_I. exact I.
  - eapply on_obj_refines in H; eauto. apply append_I. exact I.
  - eapply on_obj_refines in H; eauto. apply append_I. exact I.
  - eapply on_obj_refines in H; eauto. apply insert_range_I.
  - eapply on_obj_refines in H; eauto. apply insert_range_I.
  - eapply on_obj_refines in H; eauto. apply push_back_range_I.
  - eapply on_obj_refines in H; eauto. apply pop_I.
  - eapply on_obj_refines in H; eauto. apply erase_I.
  - (* ODestroy *) rewrite absP_length. destruct (i <? length P); inversion H; subst; split; auto.
    + apply PAll_pset; simpl; auto.
    + now rewrite absP_pset.
  - (* OEmplaceAt *) eapply on_obj_refines in H; eauto.
    apply (alias_I (fun s => emplace None pos s) (fun s a => a_try a (bl_emplace (fst a) (snd a) pos s))). intros; now apply emplace_I.
  - eapply on_obj_refines in H; eauto.
    apply (alias_I (fun s => emplace_back None s) (fun s a => a_try a (bl_append (fst a) (snd a) s))). intros; now apply append_I.
  - eapply on_obj_refines in H; eauto.
    apply (alias_I (fun s => insert_copy None s) (fun s a => a_try a (bl_append (fst a) (snd a) s))). intros; now apply append_I.
  - eapply on_obj_refines in H; eauto.
    apply (alias_I (fun s => push_back None s) (fun s a => a_try a (bl_append (fst a) (snd a) s))). intros; now apply append_I.
  - eapply on_obj_refines in H; eauto. now apply insert_self_range_I.
  - eapply on_obj_refines in H; eauto. apply push_back_self_range_I.
  - eapply on_obj_refines in H; eauto. apply refuse_I. reflexivity.
  - eapply on_obj_refines in H; eauto. apply refuse_I. intros st; unfold emplace_before; now destruct (cap st <=? size st).
  - eapply on_obj_refines in H; eauto. apply refuse_I. reflexivity.
  - (* OConstructFrom *) destruct (i =? j); [inversion H; subst; auto|].
    rewrite aget_absP. destruct (pget P j) as [src|] eqn:Ej; simpl; [|inversion H; subst; auto].
    pose proof (PAll_pget _ _ _ _ HP Ej) as Hs.
    destruct (make_from_obj None c src) as [st o] eqn:E.
    pose proof (make_from_obj_good filled _ _ _ _ _ E Hs) as (A & _ & B & _).
    apply (make_from_obj_refines filled) in E; auto. split.
    + eapply (construct_ok Inv) in H; eauto. apply H.
    + destruct (length (abs src) <=? c).
      * destruct E as (-> & E2 & E3). apply construct_refines in H; auto. simpl in H.
        unfold absobj in H. now rewrite E2, E3 in H.
      * subst o. apply construct_refines in H; auto.
  - eapply on_obj_refines in H; eauto. apply ctor_throws_back_I.
  - eapply on_obj_refines in H; eauto. apply ctor_throws_I.
Qed.

(* ---------- the strong invariant under fault plans: lost only by a throw inside positional emplace / erase ---------- *)
Theorem pstep_Inv p o P P' r : PAll Inv P -> pstep p o P = (P', r) -> (positional o = true -> r <> Faulted) -> PAll Inv P'.
Proof.
  intros HP H Hpos. destruct (positional o) eqn:Epos.
  - apply pstep_unfault in H; auto. apply pstep_refines in H; auto; [apply H|].
    destruct o; try discriminate; exact I.
  - apply (pstep_G filled filled_Filled (fun _ => False)
             (fun _ _ _ _ (F : False) => match F with end) (fun _ _ (F : False) => match F with end) p o P P' r) in H; auto.
    + apply H.
    + rewrite Epos. discriminate.
Qed.

(* ---------- capacity ---------- *)
(* the object that an operation creates, replaces or destroys as a whole *)
Definition target (o : op) : option nat :=
  match o with
  | ONew i _ | ONewFrom i _ _ | ONewList i _ | OCopy i _ | OMove i _ | OAssign i _ | OMoveAssign i _ | OListAssign i _
  | ODestroy i | OConstructFrom i _ _ => Some i
  | _ => None
  end.

Lemma nth_error_upd_other {A} (l : list A) i k f : k <> i -> nth_error (upd l i f) k = nth_error l k.
Proof.
  revert i k; induction l as [|x l IH]; intros [|i] [|k] H; simpl; auto; try congruence.
Qed.

Lemma nth_error_upd_same {A} (l : list A) i f x : nth_error l i = Some x -> nth_error (upd l i f) i = Some (f x).
Proof.
  revert i; induction l as [|y l IH]; intros [|i] H; simpl in *; try discriminate; auto. congruence.
Qed.

Lemma pget_pset_other P i x k : k <> i -> pget (pset P i x) k = pget P k.
Proof. intros H. unfold pget, pset. now rewrite nth_error_upd_other. Qed.

Lemma pget_pset_same P i x st : pget P i = Some st -> pget (pset P i x) i = x.
Proof.
  unfold pget, pset. destruct (nth_error P i) as [y|] eqn:E; [|discriminate]. intros _.
  rewrite (nth_error_upd_same _ _ _ _ E). destruct x; reflexivity.
Qed.

Definition StepCap (R : fv -> Prop) (f : fv -> fv * outcome) : Prop := forall st, R st -> cap (fst (f st)) = cap st.

Lemma on_obj_cap R P i f P' o : PAll R P -> StepCap R f -> on_obj P i f = (P', o) ->
  forall k st st', pget P k = Some st -> pget P' k = Some st' -> cap st' = cap st.
Proof.
  unfold on_obj. intros HP Hf. destruct (pget P i) as [s|] eqn:E; intros [= <- <-] k st st' H1 H2.
  - destruct (Nat.eq_dec k i) as [->|Hne].
    + rewrite (pget_pset_same _ _ _ _ E) in H2. inversion H2; subst. rewrite E in H1. inversion H1; subst.
      apply Hf. eapply PAll_pget; eauto.
    + rewrite pget_pset_other in H2 by auto. congruence.
  - congruence.
Qed.

Lemma construct_other P i r P' o : construct P i r = (P', o) -> forall k, k <> i -> pget P' k = pget P k.
Proof.
  unfold construct. destruct (i <? length P); intros [= <- <-] k Hk; auto. now apply pget_pset_other.
Qed.

Theorem pstep_capacity p o P P' r : PAll WInv P -> pstep p o P = (P', r) ->
  forall k st st', target o <> Some k -> pget P k = Some st -> pget P' k = Some st' -> cap st' = cap st.
Proof.
  intros HP H k st st' Ht H1 H2.
  assert (Same : pget P' k = pget P k -> cap st' = cap st) by (intros E; rewrite E in H2; congruence).
  destruct o; simpl in H, Ht.
  - apply Same. eapply construct_other; eauto; congruence.
  - apply Same. eapply construct_other; eauto; congruence.
  - apply Same. eapply construct_other; eauto; congruence.
  - destruct (i =? j); [inversion H; subst; auto|]. destruct (pget P j); [|inversion H; subst; auto].
    apply Same. eapply construct_other; eauto; congruence.
  - destruct (i =? j) eqn:Eij; [inversion H; subst; auto|]. apply Nat.eqb_neq in Eij.
    destruct (negb (i <? length P)); [inversion H; subst; auto|].
    destruct (pget P j) as [src|] eqn:Ej; [|inversion H; subst; auto].
    inversion H; subst. rewrite pget_pset_other in H2 by congruence.
    destruct (Nat.eq_dec k j) as [->|Hne].
    + rewrite (pget_pset_same _ _ _ _ Ej) in H2. inversion H2; subst. rewrite Ej in H1. inversion H1; subst. reflexivity.
    + rewrite pget_pset_other in H2 by auto. congruence.
  - destruct (pget P j); [|inversion H; subst; auto]. unfold on_obj in H.
    destruct (pget P i); inversion H; subst; auto. apply Same. apply pget_pset_other. congruence.
  - destruct (pget P i) as [dst|] eqn:Ei; [|inversion H; subst; auto].
    destruct (pget P j) as [src|] eqn:Ej; [|inversion H; subst; auto].
    inversion H; subst. rewrite pget_pset_other in H2 by congruence.
    destruct (Nat.eq_dec k j) as [->|Hne].
    + rewrite (pget_pset_same _ _ _ _ Ej) in H2. inversion H2; subst. rewrite Ej in H1. inversion H1; subst. reflexivity.
    + rewrite pget_pset_other in H2 by auto. congruence.
  - unfold on_obj in H. destruct (pget P i); inversion H; subst; auto. apply Same. apply pget_pset_other. congruence.
  - eapply (on_obj_cap WInv) in H; eauto. intros s _. reflexivity.
  - eapply (on_obj_cap WInv) in H; eauto. intros s _. reflexivity.
  - eapply (on_obj_cap WInv) in H; eauto. intros s Hs.
    destruct (emplace p pos (Filled v) s) as [s' o'] eqn:E. apply emplace_good in E; simpl; auto. apply E.
  - eapply (on_obj_cap WInv) in H; eauto. intros s Hs.
    destruct (emplace_back p (Filled v) s) as [s' o'] eqn:E. apply (append_good nonfresh) in E; simpl; auto. apply E.
  - eapply (on_obj_cap WInv) in H; eauto. intros s Hs.
    destruct (insert_copy p (Filled v) s) as [s' o'] eqn:E. apply (append_good nonfresh) in E; simpl; auto. apply E.
  - eapply (on_obj_cap WInv) in H; eauto. intros s Hs.
    destruct (insert_move p (Filled v) s) as [s' o'] eqn:E. apply (append_good nonfresh) in E; simpl; auto. apply E.
  - eapply (on_obj_cap WInv) in H; eauto. intros s Hs.
    destruct (push_back p (Filled v) s) as [s' o'] eqn:E. apply (append_good nonfresh) in E; simpl; auto. apply E.
  - eapply (on_obj_cap WInv) in H; eauto. intros s Hs.
    destruct (insert_range p pos (map Filled xs) s) as [s' o'] eqn:E.
    apply (insert_range_good nonfresh) in E; auto using Forall_map_Filled. apply E. apply Forall_map_Filled. intros; exact I.
  - eapply (on_obj_cap WInv) in H; eauto. intros s Hs.
    destruct (insert_list p pos (map Filled xs) s) as [s' o'] eqn:E.
    apply (insert_range_good nonfresh) in E; auto using Forall_map_Filled. apply E. apply Forall_map_Filled. intros; exact I.
  - eapply (on_obj_cap WInv) in H; eauto. intros s Hs.
    destruct (push_back_range p (map Filled xs) s) as [s' o'] eqn:E.
    apply (insert_range_good nonfresh) in E; auto using Forall_map_Filled. apply E. apply Forall_map_Filled. intros; exact I.
  - eapply (on_obj_cap WInv) in H; eauto. intros s Hs.
    destruct (pop_back s) as [s' o'] eqn:E. apply (pop_back_good nonfresh) in E; auto. apply E.
  - eapply (on_obj_cap WInv) in H; eauto. intros s Hs.
    destruct (erase p pos s) as [s' o'] eqn:E. apply erase_good in E; auto. apply E.
  - destruct (i <? length P); inversion H; subst; auto. apply Same. apply pget_pset_other. congruence.
  - eapply (on_obj_cap WInv) in H; eauto. intros s Hs. match goal with |- context [live_elem s ?kk] => destruct (live_elem s kk) as [x|] eqn:Ex; auto end.
    destruct (emplace p pos x s) as [s' o'] eqn:E. apply emplace_good in E; auto. apply E. eapply (live_elem_Q nonfresh); eauto.
  - eapply (on_obj_cap WInv) in H; eauto. intros s Hs. match goal with |- context [live_elem s ?kk] => destruct (live_elem s kk) as [x|] eqn:Ex; auto end.
    destruct (emplace_back p x s) as [s' o'] eqn:E. apply (append_good nonfresh) in E; auto. apply E. eapply (live_elem_Q nonfresh); eauto.
  - eapply (on_obj_cap WInv) in H; eauto. intros s Hs. match goal with |- context [live_elem s ?kk] => destruct (live_elem s kk) as [x|] eqn:Ex; auto end.
    destruct (insert_copy p x s) as [s' o'] eqn:E. apply (append_good nonfresh) in E; auto. apply E. eapply (live_elem_Q nonfresh); eauto.
  - eapply (on_obj_cap WInv) in H; eauto. intros s Hs. match goal with |- context [live_elem s ?kk] => destruct (live_elem s kk) as [x|] eqn:Ex; auto end.
    destruct (push_back p x s) as [s' o'] eqn:E. apply (append_good nonfresh) in E; auto. apply E. eapply (live_elem_Q nonfresh); eauto.
  - eapply (on_obj_cap WInv) in H; eauto. intros s Hs. destruct (self_range_valid s a b) eqn:V; auto.
    destruct (insert_self_range p pos a b s) as [s' o'] eqn:E. apply (insert_self_range_good nonfresh) in E; auto. apply E.
  - eapply (on_obj_cap WInv) in H; eauto. intros s Hs. destruct (self_range_valid s a b) eqn:V; auto.
    destruct (push_back_self_range p a b s) as [s' o'] eqn:E. apply (insert_self_range_good nonfresh) in E; auto. apply E.
  - eapply (on_obj_cap WInv) in H; eauto. intros s _. reflexivity.
  - eapply (on_obj_cap WInv) in H; eauto. intros s _. unfold emplace_before. now destruct (cap s <=? size s).
  - eapply (on_obj_cap WInv) in H; eauto. intros s _. reflexivity.
  - destruct (i =? j); [inversion H; subst; auto|]. destruct (pget P j); [|inversion H; subst; auto].
    apply Same. eapply construct_other; eauto; congruence.
  - eapply (on_obj_cap WInv) in H; eauto. intros s _. unfold emplace_back_ctor_throws. now destruct (cap s <=? size s).
  - eapply (on_obj_cap WInv) in H; eauto. intros s _. unfold emplace_ctor_throws.
    destruct (cap s <=? size s); [|destruct (size s <? pos)]; reflexivity.
Qed.

(* ---------- whole histories ---------- *)
Theorem prun_WInv : forall ops P, PAll WInv P ->
  PAll WInv (fst (prun ops P)) /\ ~ In OutOfStorage (snd (prun ops P)) /\ length (fst (prun ops P)) = length P.
Proof.
  induction ops as [|[o p] ops IH]; intros P HP; simpl.
  - repeat split; auto.
  - destruct (pstep p o P) as [P1 r] eqn:E. simpl.
    destruct (pstep_WInv _ _ _ _ _ HP E) as (A & B & C).
    destruct (IH P1 A) as (D & F & G). repeat split; auto; try congruence.
    intros [X|X]; auto.
Qed.

(* no throw inside a positional emplace / erase happened in this history *)
Fixpoint quiet (ops : list (op * plan)) (outs : list outcome) : Prop :=
  match ops, outs with
  | (o, _) :: r, x :: s => (positional o = true -> x <> Faulted) /\ quiet r s
  | _, _ => True
  end.

Theorem prun_Inv : forall ops P, PAll Inv P -> quiet ops (snd (prun ops P)) -> PAll Inv (fst (prun ops P)).
Proof.
  induction ops as [|[o p] ops IH]; intros P HP Hq; simpl in *; auto.
  destruct (pstep p o P) as [P1 r] eqn:E. simpl in *. destruct Hq as (Q1 & Q2).
  apply IH; auto. eapply pstep_Inv; eauto.
Qed.

Definition plain (ops : list op) : list (op * plan) := map (fun o => (o, None)) ops.

Theorem prun_refines : forall ops P, PAll Inv P -> Forall benign ops ->
  PAll Inv (fst (prun (plain ops) P)) /\
  srun ops (absP P) = (absP (fst (prun (plain ops) P)), snd (prun (plain ops) P)).
Proof.
  induction ops as [|o ops IH]; intros P HP HB; simpl; auto.
  inversion HB as [|? ? B1 B2]; subst.
  destruct (pstep None o P) as [P1 r] eqn:E. simpl.
  destruct (pstep_refines _ _ _ _ HP B1 E) as (A & B). rewrite B. simpl.
  destruct (IH P1 A B2) as (C & D). rewrite D. auto.
Qed.

(* the strong invariant needs no such side condition *)
Lemma pstep_plain_quiet o P P' r : positional o = true -> pstep None o P = (P', r) -> r <> Faulted.
Proof.
  intros Hp H. destruct o; try discriminate; simpl in H; unfold on_obj in H;
    (destruct (pget P i) as [st|]; [|inversion H; discriminate]); inversion H; subst; clear H.
  - destruct (emplace None pos (Filled v) st) as [st' o] eqn:E. simpl. eapply emplace_None; eauto.
  - destruct (erase None pos st) as [st' o] eqn:E. simpl. eapply erase_None; eauto.
  - destruct (live_elem st k) as [s|]; [|simpl; discriminate].
    destruct (emplace None pos s st) as [st' o] eqn:E. simpl. eapply emplace_None; eauto.
Qed.

Theorem prun_Inv_plain : forall ops P, PAll Inv P -> PAll Inv (fst (prun (plain ops) P)).
Proof.
  induction ops as [|o ops IH]; intros P HP; simpl; auto.
  destruct (pstep None o P) as [P1 r] eqn:E. simpl. apply IH.
  eapply pstep_Inv; eauto. intros Hp. eapply pstep_plain_quiet; eauto.
Qed.

(* Vec/VecTheorems.v — the statements of Properties_C06.v / Properties_C07.v in their final form,
   assembled from VecInv / VecRefine / VecFaults / VecPool. *)
From Coq Require Import List Arith Bool Lia.
From Nitro Require Import Base.ListX Vec.FixedVecModel Vec.VecBase Vec.BoundedListSpec Vec.VecInv Vec.VecRefine Vec.VecFaults Vec.VecPool.
Import ListNotations.
Local Open Scope list_scope.

(* ================================ C06 ================================ *)

(* every operation, every fault plan, from any pool whose objects satisfy the weak invariant *)
Lemma step_keeps_WInv : forall p o P P' r, PAll WInv P -> pstep p o P = (P', r) ->
  PAll WInv P' /\ r <> OutOfStorage /\ length P' = length P.
Proof. exact pstep_WInv. Qed.

(* every operation keeps the strong invariant unless an element assignment threw inside positional emplace / erase *)
Lemma step_keeps_Inv : forall p o P P' r, PAll Inv P -> pstep p o P = (P', r) ->
  (positional o = true -> r <> Faulted) -> PAll Inv P'.
Proof. exact pstep_Inv. Qed.

Lemma history_WInv : forall n ops, PAll WInv (fst (prun ops (empty_pool n))).
Proof. intros n ops. apply prun_WInv. apply PAll_empty. Qed.

Lemma history_never_out_of_storage : forall n ops, ~ In OutOfStorage (snd (prun ops (empty_pool n))).
Proof. intros n ops. apply prun_WInv. apply PAll_empty. Qed.

Lemma history_Inv : forall n ops, quiet ops (snd (prun ops (empty_pool n))) -> PAll Inv (fst (prun ops (empty_pool n))).
Proof. intros n ops. apply prun_Inv. apply PAll_empty. Qed.

Lemma history_Inv_no_faults : forall n ops, PAll Inv (fst (prun (plain ops) (empty_pool n))).
Proof. intros n ops. apply prun_Inv_plain. apply PAll_empty. Qed.

(* all reads the public API offers stay inside the array and inside the live range *)
Lemma reads_inside_storage : forall st, WInv st ->
  iterate st = Some (abs st) /\ riterate st = Some (rev (abs st)) /\
  (forall k, at_ st k <> AOut) /\
  (forall k, k < size st -> exists s, index st k = Val s /\ at_ st k = Val s /\ nth_error (abs st) k = Some s) /\
  (0 < size st -> front st <> AOut /\ back st <> AOut).
Proof.
  intros st HI. split; [apply (iterate_abs nonfresh); auto|]. split; [apply (riterate_abs nonfresh); auto|].
  split; [|split].
  - intros k E. destruct (at_good nonfresh st k HI) as (A & _). rewrite E in A. apply A. reflexivity.
  - intros k Hk. destruct (at_good nonfresh st k HI) as (_ & _ & A & _). destruct (A Hk) as (s & E1 & E2).
    destruct (index_live nonfresh st k HI Hk) as (s' & E3 & E4). assert (s' = s) by congruence. subst. eauto.
  - intros Hs. split.
    + destruct (front_refines nonfresh st HI Hs) as (s & E & _). congruence.
    + destruct (back_refines nonfresh st HI Hs) as (s & E & _). congruence.
Qed.

(* positions before begin() (and end() - d on a vector with fewer than d elements) are refused, nothing changes *)
Lemma positions_before_begin_raise : forall st,
  erase_before st = (st, Raised) /\ emplace_before st = (st, Raised) /\ insert_range_before st = (st, Raised).
Proof. intros st. unfold erase_before, emplace_before, insert_range_before. destruct (cap st <=? size st); auto. Qed.

Lemma capacity_fixed : forall p o P P' r, PAll WInv P -> pstep p o P = (P', r) ->
  forall k st st', target o <> Some k -> pget P k = Some st -> pget P' k = Some st' -> cap st' = cap st.
Proof. exact pstep_capacity. Qed.

(* the capacity after the whole-container operations *)
Lemma capacity_of_whole_container_ops :
  (forall c, cap (make c) = c) /\
  (forall p c xs st o, make_from p c xs = (st, o) -> cap st = c) /\
  (forall p src st o, WInv src -> copy_ctor p src = (st, o) -> cap st = cap src) /\
  (forall src, cap (fst (move_ctor src)) = cap src /\ cap (snd (move_ctor src)) = cap src) /\
  (forall p dst src st o, WInv dst -> WInv src -> copy_assign p dst src = (st, o) -> o = Done -> cap st = cap src) /\
  (forall p dst xs st o, list_assign p dst (map Filled xs) = (st, o) -> o = Done -> cap st = length xs).
Proof.
  repeat split; auto.
  - intros p c xs st o H. apply (make_from_good (fun _ => True)) in H; [apply H|]. apply Forall_forall. auto.
  - intros p src st o Hs H. apply (copy_ctor_good nonfresh) in H; auto. apply H.
  - intros p dst src st o Hd Hs H Ho. apply (copy_assign_good nonfresh) in H; auto. apply H; exact Ho.
  - intros p dst xs st o H Ho. unfold list_assign in H.
    destruct (make_from p (length (map Filled xs)) (map Filled xs)) as [tmp o1] eqn:E.
    apply (make_from_good (fun _ => True)) in E; [|apply Forall_forall; auto]. destruct E as (_ & E & _).
    destruct o1; inversion H; subst; try discriminate. rewrite E. apply map_length.
Qed.

(* operations that cannot be satisfied raise and leave the container as it was — for every fault plan *)
Lemma refused_operations_raise :
  (forall p v st, cap st <= size st -> append p v st = (st, Raised)) /\
  (forall p key v st, cap st <= size st -> emplace p key v st = (st, Raised)) /\
  (forall p key v st, size st < key -> emplace p key v st = (st, Raised)) /\
  (forall st, size st = 0 -> pop_back st = (st, Raised)) /\
  (forall p key st, size st <= key -> erase p key st = (st, Raised)) /\
  (forall st k, size st <= k -> at_ st k = ARaised /\ get_I st k = ARaised) /\
  (forall p key xs st, size st < key -> insert_range p key xs st = (st, Raised)) /\
  (forall key xs st, Inv st -> key <= size st -> cap st - key < length xs -> snd (insert_range None key xs st) = Raised) /\
  (forall c xs, c < length xs -> snd (make_from None c xs) = Raised).
Proof.
  repeat split.
  - exact append_full_raises.
  - exact emplace_full_raises.
  - exact emplace_beyond_raises.
  - exact pop_empty_raises.
  - exact erase_beyond_raises.
  - now apply at_beyond_raises.
  - now apply at_beyond_raises.
  - exact insert_range_beyond_raises.
  - intros key xs st HI Hk Hl. destruct (insert_range None key xs st) as [st' o] eqn:E.
    apply (insert_range_refines filled) in E; auto. unfold bl_overwrite in E.
    rewrite (abs_length filled) in E by auto.
    assert (X : (size st <? key) = false) by (apply Nat.ltb_ge; lia). rewrite X in E.
    assert (Y : (length xs <=? cap st - key) = false) by (apply Nat.leb_gt; lia). rewrite Y in E. simpl. apply E.
  - intros c xs Hl. destruct (make_from None c xs) as [st' o] eqn:E. apply make_from_refines in E.
    assert (Y : (length xs <=? c) = false) by (apply Nat.leb_gt; lia). rewrite Y in E. exact E.
Qed.

(* a (capacity, range) constructor whose range does not fit raises and leaves NO object *)
Lemma constructor_that_does_not_fit : forall P i c xs, i < length P -> c < length xs ->
  pstep None (ONewFrom i c xs) P = (pset P i None, Raised).
Proof.
  intros P i c xs Hi Hc. simpl. unfold construct.
  destruct (make_from None c (map Filled xs)) as [st o] eqn:E. apply make_from_refines in E. rewrite map_length in E.
  assert (Y : (length xs <=? c) = false) by (apply Nat.leb_gt; lia). rewrite Y in E. subst o. simpl.
  apply Nat.ltb_lt in Hi. now rewrite Hi.
Qed.

(* a refused single-element operation leaves the container unchanged (any fault plan) *)
Lemma failed_single_op_unchanged : forall st, WInv st ->
  (forall p v st', nonfresh v -> append p v st = (st', Raised) -> st' = st) /\
  (forall p key v st', nonfresh v -> emplace p key v st = (st', Raised) -> st' = st) /\
  (forall st', pop_back st = (st', Raised) -> st' = st) /\
  (forall p key st', erase p key st = (st', Raised) -> st' = st).
Proof.
  intros st HI. repeat split.
  - intros p v st' Hv H. apply (append_good nonfresh) in H; auto. apply H; try discriminate; try reflexivity.
  - intros p key v st' Hv H. apply emplace_good in H; auto. apply H; try discriminate; try reflexivity.
  - intros st' H. apply (pop_back_good nonfresh) in H; auto. apply H; try discriminate; try reflexivity.
  - intros p key st' H. apply erase_good in H; auto. apply H; try discriminate; try reflexivity.
Qed.

(* an element assignment that throws: appends and whole-container assignments leave the target untouched;
   positional emplace / erase leave a valid container of the same size and capacity (weak invariant) *)
Lemma throw_leaves_valid_container : forall st, WInv st ->
  (forall p v st', nonfresh v -> append p v st = (st', Faulted) -> st' = st) /\
  (forall p src st', WInv src -> copy_assign p st src = (st', Faulted) -> st' = st) /\
  (forall p xs st', list_assign p st (map Filled xs) = (st', Faulted) -> st' = st) /\
  (forall p key v st', nonfresh v -> emplace p key v st = (st', Faulted) -> WInv st' /\ size st' = size st /\ cap st' = cap st) /\
  (forall p key st', erase p key st = (st', Faulted) -> WInv st' /\ size st' = size st /\ cap st' = cap st) /\
  (forall p key xs st', Forall nonfresh xs -> insert_range p key xs st = (st', Faulted) -> WInv st' /\ size st <= size st' /\ cap st' = cap st).
Proof.
  intros st HI. split; [|split; [|split; [|split; [|split]]]].
  - intros p v st' Hv H. apply (append_good nonfresh) in H; auto. apply H; discriminate.
  - intros p src st' Hs H. apply (copy_assign_good nonfresh) in H; auto. apply H; discriminate.
  - intros p xs st' H. apply (list_assign_good nonfresh) in H; auto. apply H; discriminate.
    apply Forall_map_Filled. intros; exact I.
  - intros p key v st' Hv H. apply emplace_good in H; auto.
    destruct H as ((A & B & _) & _ & _ & C). split; [exact A|]. split; [apply C; discriminate|exact B].
  - intros p key st' H. apply erase_good in H; auto.
    destruct H as ((A & B & _) & _ & _ & C). split; [exact A|]. split; [apply C; discriminate|exact B].
  - intros p key xs st' Hx H. apply (insert_range_good nonfresh) in H; auto.
    destruct H as ((A & B & _) & C & _). split; [exact A|]. split; [exact C|exact B].
Qed.

(* the element constructor called with the emplace arguments throws: the container is exactly as before *)
Lemma ctor_throw_unchanged : forall st key,
  fst (emplace_back_ctor_throws st) = st /\ fst (emplace_ctor_throws key st) = st /\
  (size st < cap st -> snd (emplace_back_ctor_throws st) = Faulted) /\
  (size st < cap st -> key <= size st -> snd (emplace_ctor_throws key st) = Faulted).
Proof.
  intros st key. unfold emplace_back_ctor_throws, emplace_ctor_throws.
  destruct (cap st <=? size st) eqn:E1; [apply Nat.leb_le in E1|apply Nat.leb_gt in E1];
    (destruct (size st <? key) eqn:E2; [apply Nat.ltb_lt in E2|apply Nat.ltb_ge in E2]);
    simpl; repeat split; auto; intros; lia.
Qed.

(* the strong invariant is really lost there when elements move: witnesses *)
Lemma throw_in_positional_op_exposes_moved_from :
  (exists st p key v st', Inv st /\ emplace p key (Filled v) st = (st', Faulted) /\ ~ Inv st') /\
  (exists st p key st', Inv st /\ erase p key st = (st', Faulted) /\ ~ Inv st').
Proof.
  split.
  - exists emplace_fault_witness, (Some 1), 0, 9, (mkfv 3 2 [Filled 1; Moved; Filled 2]). exact emplace_fault_breaks_Inv.
  - exists erase_fault_witness, (Some 1), 0, (mkfv 3 3 [Filled 2; Moved; Filled 3]). exact erase_fault_breaks_Inv.
Qed.

(* ================================ C07 ================================ *)

Lemma step_refines : forall o P P' r, PAll Inv P -> benign o -> pstep None o P = (P', r) ->
  PAll Inv P' /\ sstep o (absP P) = (absP P', r).
Proof. exact pstep_refines. Qed.

Lemma history_refines : forall n ops, Forall benign ops ->
  srun ops (repeat None n) = (absP (fst (prun (plain ops) (empty_pool n))), snd (prun (plain ops) (empty_pool n))).
Proof. intros n ops HB. rewrite <- absP_empty. apply prun_refines; auto. apply PAll_empty. Qed.

(* arguments that alias the container: the value is the one the element had when the call started *)
Lemma aliasing_arguments : forall st k s, Inv st -> live_elem st k = Some s ->
  nth_error (abs st) k = Some s /\
  (forall key st' o, emplace None key s st = (st', o) ->
     match bl_emplace (cap st) (abs st) key s with
     | Some l => o = Done /\ abs st' = l /\ cap st' = cap st
     | None => o = Raised /\ st' = st
     end) /\
  (forall st' o, append None s st = (st', o) ->
     match bl_append (cap st) (abs st) s with
     | Some l => o = Done /\ abs st' = l /\ cap st' = cap st
     | None => o = Raised /\ st' = st
     end).
Proof.
  intros st k s HI E. rewrite (live_elem_abs filled) in E by auto. split; [exact E|]. split.
  - intros key st' o. now apply (emplace_refines filled).
  - intros st' o. now apply (append_refines filled).
Qed.

Lemma self_range_insert : forall key a b st st' o, Inv st -> self_range_valid st a b = true -> key <= a \/ b <= key ->
  insert_self_range None key a b st = (st', o) ->
  match bl_overwrite (cap st) (abs st) key (firstn (b - a) (skipn a (abs st))) with
  | Some (l, fits) => o = (if fits then Done else Raised) /\ abs st' = l /\ cap st' = cap st
  | None => o = Raised /\ st' = st
  end.
Proof. intros key a b st st' o. apply (insert_self_range_refines filled). Qed.

Lemma self_range_push_back : forall a b st st' o, Inv st -> self_range_valid st a b = true ->
  push_back_self_range None a b st = (st', o) ->
  let r := bl_append_range (cap st) (abs st) (firstn (b - a) (skipn a (abs st))) in
  o = (if snd r then Done else Raised) /\ abs st' = fst r /\ cap st' = cap st.
Proof. intros a b st st' o. apply (push_back_self_range_refines filled). Qed.

(* a range of the vector itself inserted at a position strictly inside that range is NOT read as it was at the
   start: [1,2,3], insert(begin()+1, begin(), begin()+2) yields 1,1,1 where the pre-state reading gives 1,1,2 *)
Lemma self_range_overlap_refuted : exists o P, PAll Inv P /\ ~ benign o /\
  sstep o (absP P) <> (absP (fst (pstep None o P)), snd (pstep None o P)).
Proof.
  exists (OInsertSelfRange 0 1 0 2), [Some (mkfv 3 3 [Filled 1; Filled 2; Filled 3])]. split; [|split].
  - constructor; [|constructor]. unfold okopt, Inv, abs; simpl. repeat split; auto. repeat constructor.
  - simpl. lia.
  - vm_compute. discriminate.
Qed.

(* a fault plan that is not reached is invisible *)
Lemma unreached_plan_invisible : forall p o P P' r, pstep p o P = (P', r) -> r <> Faulted -> pstep None o P = (P', r).
Proof. exact pstep_unfault. Qed.

Lemma append_is_append : forall v st st' o, Inv st -> append None v st = (st', o) ->
  match bl_append (cap st) (abs st) v with
  | Some l => o = Done /\ abs st' = l /\ cap st' = cap st
  | None => o = Raised /\ st' = st
  end.
Proof. intros v st st' o. apply (append_refines filled). Qed.

Lemma emplace_inserts_before : forall key v st st' o, Inv st -> emplace None key v st = (st', o) ->
  match bl_emplace (cap st) (abs st) key v with
  | Some l => o = Done /\ abs st' = l /\ cap st' = cap st
  | None => o = Raised /\ st' = st
  end.
Proof. intros key v st st' o. apply (emplace_refines filled). Qed.

Lemma erase_removes_one : forall key st st' o, Inv st -> erase None key st = (st', o) ->
  match bl_erase (abs st) key with
  | Some l => o = Done /\ abs st' = l /\ cap st' = cap st
  | None => o = Raised /\ st' = st
  end.
Proof. intros key st st' o. apply (erase_refines filled). Qed.

Lemma pop_removes_last : forall st st' o, Inv st -> pop_back st = (st', o) ->
  match bl_pop (abs st) with
  | Some l => o = Done /\ abs st' = l /\ cap st' = cap st
  | None => o = Raised /\ st' = st
  end.
Proof. intros st st' o. apply (pop_back_refines filled). Qed.

Lemma range_insert_overwrites : forall key xs st st' o, Inv st -> insert_range None key xs st = (st', o) ->
  match bl_overwrite (cap st) (abs st) key xs with
  | Some (l, fits) => o = (if fits then Done else Raised) /\ abs st' = l /\ cap st' = cap st
  | None => o = Raised /\ st' = st
  end.
Proof. intros key xs st st' o. apply (insert_range_refines filled). Qed.

Lemma range_push_back_appends : forall xs st st' o, Inv st -> push_back_range None xs st = (st', o) ->
  let r := bl_append_range (cap st) (abs st) xs in
  o = (if snd r then Done else Raised) /\ abs st' = fst r /\ cap st' = cap st.
Proof. intros xs st st' o. apply (push_back_range_refines filled). Qed.

Lemma construct_from_range : forall c xs st' o, make_from None c xs = (st', o) ->
  if length xs <=? c then o = Done /\ abs st' = xs /\ cap st' = c else o = Raised.
Proof. exact make_from_refines. Qed.

Lemma construct_from_list : forall xs st' o, make_list None xs = (st', o) -> o = Done /\ abs st' = xs /\ cap st' = length xs.
Proof. exact make_list_refines. Qed.

Lemma copy_is_equal : forall src st' o, Inv src -> copy_ctor None src = (st', o) ->
  o = Done /\ abs st' = abs src /\ cap st' = cap src /\ Inv st'.
Proof.
  intros src st' o HI H. pose proof (copy_ctor_good filled _ _ _ _ H HI) as (A & _).
  apply (copy_ctor_refines filled) in H; auto. tauto.
Qed.

Lemma copy_assign_is_equal : forall dst src st' o, Inv dst -> Inv src -> copy_assign None dst src = (st', o) ->
  o = Done /\ abs st' = abs src /\ cap st' = cap src /\ Inv st'.
Proof.
  intros dst src st' o Hd HI H. pose proof (copy_assign_good filled _ _ _ _ _ H Hd HI) as (A & _).
  apply (copy_assign_refines filled) in H; auto. tauto.
Qed.

(* the moved-from source: only its validity is claimed *)
Lemma move_transfers : forall src, Inv src ->
  abs (fst (move_ctor src)) = abs src /\ cap (fst (move_ctor src)) = cap src /\ Inv (fst (move_ctor src)) /\
  Inv (snd (move_ctor src)).
Proof.
  intros src HI. destruct (move_ctor_good filled src HI) as (A & B & _).
  destruct (move_ctor_refines src) as (C & D & _). auto.
Qed.

Lemma move_assign_transfers : forall dst src, Inv src ->
  abs (fst (move_assign dst src)) = abs src /\ cap (fst (move_assign dst src)) = cap src /\
  Inv (fst (move_assign dst src)) /\ Inv (snd (move_assign dst src)).
Proof. intros dst src. unfold move_assign. apply move_transfers. Qed.

Lemma list_assign_replaces : forall dst xs st' o, list_assign None dst xs = (st', o) ->
  o = Done /\ abs st' = xs /\ cap st' = length xs.
Proof. exact list_assign_refines. Qed.

(* independence: an operation changes only the object it is applied to (and the source of a move) *)
Definition writes (o : op) : list nat :=
  match o with
  | OMove i j | OMoveAssign i j => [i; j]
  | ONew i _ | ONewFrom i _ _ | ONewList i _ | OCopy i _ | OAssign i _ | OListAssign i _ | OAt i _ | OGet i _
  | OEmplace i _ _ | OEmplaceBack i _ | OInsert i _ | OInsertMove i _ | OPushBack i _
  | OInsertRange i _ _ | OInsertList i _ _ | OPushBackRange i _ | OPop i | OErase i _ | ODestroy i
  | OEmplaceAt i _ _ | OEmplaceBackAt i _ | OInsertAt i _ | OPushBackAt i _ | OInsertSelfRange i _ _ _ | OPushBackSelfRange i _ _
  | OEraseBefore i _ | OEmplaceBefore i _ _ | OInsertRangeBefore i _ _ | OConstructFrom i _ _
  | OEmplaceBackCtorThrows i | OEmplaceCtorThrows i _ => [i]
  end.

Lemma on_obj_frame P i f P' o k : on_obj P i f = (P', o) -> k <> i -> nth_error P' k = nth_error P k.
Proof.
  unfold on_obj. destruct (pget P i); intros [= <- <-] Hk; auto. unfold pset. now apply nth_error_upd_other.
Qed.

Lemma construct_frame P i r P' o k : construct P i r = (P', o) -> k <> i -> nth_error P' k = nth_error P k.
Proof.
  unfold construct. destruct (i <? length P); intros [= <- <-] Hk; auto. unfold pset. now apply nth_error_upd_other.
Qed.

Lemma step_frame : forall p o P P' r k, pstep p o P = (P', r) -> ~ In k (writes o) -> nth_error P' k = nth_error P k.
Proof.
  intros p o P P' r k H Hk.
  assert (NK : forall i, In i (writes o) -> k <> i) by (intros i Hi ->; auto).
  destruct o; simpl in H, NK;
    try (eapply on_obj_frame; eauto; apply NK; auto; fail); try (eapply construct_frame; eauto; apply NK; auto; fail).
  - destruct (i =? j); [inversion H; auto|]. destruct (pget P j); [|inversion H; auto]. eapply construct_frame; eauto.
  - destruct (i =? j); [inversion H; auto|]. destruct (negb (i <? length P)); [inversion H; auto|].
    destruct (pget P j); inversion H; auto. unfold pset. rewrite !nth_error_upd_other by (apply NK; auto). reflexivity.
  - destruct (pget P j); [|inversion H; auto]. eapply on_obj_frame; eauto.
  - destruct (pget P i); [|inversion H; auto].
    destruct (pget P j); inversion H; auto. unfold pset. rewrite !nth_error_upd_other by (apply NK; auto). reflexivity.
  - destruct (i <? length P); inversion H; auto. unfold pset. rewrite nth_error_upd_other by (apply NK; auto). reflexivity.
  - destruct (i =? j); [inversion H; auto|]. destruct (pget P j); [|inversion H; auto]. eapply construct_frame; eauto.
Qed.

Lemma iteration_orders : forall st, Inv st ->
  iterate st = Some (abs st) /\ riterate st = Some (rev (abs st)) /\
  (forall k, match bl_at (abs st) k with Some s => at_ st k = Val s /\ index st k = Val s | None => at_ st k = ARaised end) /\
  Forall filled (abs st) /\ length (abs st) = size st.
Proof.
  intros st HI. split; [apply (iterate_abs filled); auto|]. split; [apply (riterate_abs filled); auto|].
  split; [|split; [apply HI|apply (abs_length filled); auto]].
  intros k. pose proof (at_refines filled st k HI) as H. destruct (bl_at (abs st) k) as [s|] eqn:E; auto. split; auto.
  unfold bl_at in E. assert (Hk : k < size st).
  { rewrite <- (abs_length filled st HI). apply nth_error_Some. congruence. }
  destruct (index_live filled st k HI Hk) as (s' & E1 & E2). congruence.
Qed.

(* Opt/Vocab.v — the documented toggle environment vocabulary: {true,on,yes,with} x {lower, Capitalised, UPPER}
   plus y, Y, 1, and the falsy twin {false,off,no,without} x 3 plus n, N, 0.  Tie/Tie_C11.v proves on every run
   that the words read from toggle::parse_env_value (Gen/GenVocab.v) are exactly these. *)
From Coq Require Import List.
From Coq Require Import Init.Byte.
From Nitro Require Import Base.Bytes.
Import ListNotations.
Module Words.
Import Strings.String.
Local Open Scope string_scope.
Definition truthy_s := ["true"; "True"; "TRUE"; "on"; "On"; "ON"; "yes"; "Yes"; "YES"; "with"; "With"; "WITH"; "y"; "Y"; "1"].
Definition falsy_s := ["false"; "False"; "FALSE"; "off"; "Off"; "OFF"; "no"; "No"; "NO"; "without"; "Without"; "WITHOUT"; "n"; "N"; "0"].
End Words.
Definition truthy : list str := Eval vm_compute in map B Words.truthy_s.
Definition falsy : list str := Eval vm_compute in map B Words.falsy_s.

(* no word is both truthy and falsy *)
From Coq Require Import Bool.
Lemma vocab_disjoint : forall x, In x truthy -> In x falsy -> False.
Proof.
  assert (H : forallb (fun x => negb (existsb (seq_eqb x) falsy)) truthy = true) by (vm_compute; reflexivity).
  intros x Ht Hf. rewrite forallb_forall in H. specialize (H x Ht). apply negb_true_iff in H.
  assert (existsb (seq_eqb x) falsy = true); [|congruence].
  apply existsb_exists. exists x. split; [exact Hf | apply seq_eqb_refl].
Qed.

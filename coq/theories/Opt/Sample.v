(* Opt/Sample.v — a concrete declaration and command line used by the non-vacuity Examples of the property files *)
From Coq Require Import List Arith Bool ZArith.
From Coq Require Import Init.Byte.
From Nitro Require Import Base.Bytes Base.Res Opt.Token Opt.Decl Opt.ParserModel Opt.ParserCore Opt.ParserSpec Opt.Vocab Opt.Run.
Import ListNotations.
Module S.
Import Strings.String.
Local Open Scope string_scope.
Definition names := ["out"; "inc"; "all"; "verbose"; "N_ALL"; "x"; "a=b"; "1"; "2"; "pos"; "-q"; "yes"].
End S.
Definition nm (k : nat) : str := nth k (map B S.names) [].
Definition sample_decl : decl :=
  {| d_opts := [{| o_name := nm 0; o_short := Some "o"%byte; o_env := None; o_def := None; o_opt := false |}];
     d_multis := [{| m_name := nm 1; m_short := Some "i"%byte; m_env := None; m_def := None; m_opt := true |}];
     d_toggles := [{| t_name := nm 2; t_short := Some "a"%byte; t_env := Some (nm 4); t_def := 0%Z; t_rev := true |};
                   {| t_name := nm 3; t_short := Some "v"%byte; t_env := None; t_def := 0%Z; t_rev := false |}];
     d_allowed := Some 2; d_greedy := false |}.
(* --out=a=b -i 1 -vv --inc 2 pos --verbose -- -q *)
Definition sample_items : list item :=
  [ItOpt 0 LongEq (nm 6); ItMulti 0 ShortSp (nm 7); ItBundle [1; 1]; ItMulti 0 LongSp (nm 8); ItPos (nm 9); ItLong 1].
Definition sample_tail : option (list str) := Some [nm 10].
Definition sample_env : env_t := fun n => if seq_eqb n (nm 4) then Some (nm 11) else None.
Definition sample_args : list str := render sample_decl sample_items sample_tail.

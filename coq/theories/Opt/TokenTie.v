(* Opt/TokenTie.v — the small expression language into which gen/tr_token.py translates the predicates of user_input, and its
   evaluation.  name_[i] is nth i name x00 (std::string's operator[] yields NUL at i = size()). *)
From Coq Require Import List Arith Bool.
From Coq Require Import Init.Byte.
From Nitro Require Import Base.Bytes Opt.Token.
Import ListNotations.

Inductive pname := PnIsValue | PnIsDoubleDash | PnIsShort | PnIsNamed | PnIsArgument | PnHasValue | PnHasPrefix.
Inductive sref := RName | RArg.
Inductive pexpr :=
| PCharEq (r : sref) (i : nat) (c : byte) | PCharNe (r : sref) (i : nat) (c : byte)
| PSizeGt (r : sref) (n : nat) | PStrEq (r : sref) (s : str) | PStartsWith (r : sref) (s : str)
| PHasValue | PCall (p : pname)
| PAnd (a b : pexpr) | POr (a b : pexpr) | PNot (a : pexpr) | PUnknown.
(* validate(): if (guard) { v = arg_.find_first_not_of(c); if (v == npos || v > n || arg_[v] == f) raise; } *)
Inductive vshape := VScan (guard : pexpr) (c : byte) (n : nat) (f : byte) | VUnknown.

Definition sel (r : sref) (a : str) : str := match r with RName => name_of a | RArg => a end.
Definition lift2 (f : bool -> bool -> bool) (x y : option bool) : option bool :=
  match x, y with Some a, Some b => Some (f a b) | _, _ => None end.

Fixpoint eval (fuel : nat) (tbl : pname -> pexpr) (a : str) (e : pexpr) {struct fuel} : option bool :=
  let fix ev (e : pexpr) : option bool :=
    match e with
    | PCharEq r i c => Some (beq (nth i (sel r a) x00) c)
    | PCharNe r i c => Some (negb (beq (nth i (sel r a) x00) c))
    | PSizeGt r n => Some (n <? length (sel r a))
    | PStrEq r s => Some (seq_eqb (sel r a) s)
    | PStartsWith r s => Some (prefixb s (sel r a))
    | PHasValue => Some (match value_of a with Some _ => true | None => false end)
    | PCall p => match fuel with 0 => None | S f => eval f tbl a (tbl p) end
    | PAnd x y => lift2 andb (ev x) (ev y)
    | POr x y => lift2 orb (ev x) (ev y)
    | PNot x => option_map negb (ev x)
    | PUnknown => None
    end in
  ev e.

Fixpoint run_of (c : byte) (a : str) : nat := match a with x :: r => if beq x c then S (run_of c r) else 0 | [] => 0 end.
(* Some true = validate() returns, Some false = it raises *)
Definition eval_validate (fuel : nat) (tbl : pname -> pexpr) (v : vshape) (a : str) : option bool :=
  match v with
  | VUnknown => None
  | VScan g c n f =>
    match eval fuel tbl a g with
    | None => None
    | Some false => Some true
    | Some true => let d := run_of c a in
                   Some (negb ((length a <=? d) (* npos *) || (n <? d) || beq (nth d a x00) f))
    end
  end.

(* Opt/ObjLang.v — the small imperative language into which gen/tr_objects.py translates the bodies of
   option::{update_value, prepare, check}, multi_option::{…}, toggle::{…} (src/options/*.cpp) from clang's AST on every run,
   and its interpreter.  Tie/Tie_C03.v proves that the translated bodies compute the model's functions for ALL states. *)
From Coq Require Import List Arith Bool ZArith.
From Coq Require Import Init.Byte.
From Nitro Require Import Base.Bytes Base.Res Opt.Token Opt.Decl Opt.ParserModel.
Import ListNotations.
Local Open Scope list_scope.

Inductive bexp :=
| BValueSet                 (* static_cast<bool>(value_)   (option) *)
| BVecEmpty                 (* value_.empty()              (multi_option) *)
| BHasEnv                   (* has_env() *)
| BEnvEmpty                 (* env_value.empty()  — the local variable *)
| BHasDefaultO              (* static_cast<bool>(default_) of option *)
| BHasDefaultM              (* static_cast<bool>(default_) of multi_option *)
| BIsOptional               (* is_optional_ *)
| BDirty                    (* dirty_  /  has_non_default() *)
| BGiven                    (* given()  /  given_   as a truth value *)
| BReversable               (* reversable_ *)
| BArgHasValue | BArgIsShort | BArgHasPrefix
| BArgUnprefixedIsName      (* arg.name_without_prefix() == name() *)
| BNot (b : bexp) | BAnd (a b : bexp) | BOr (a b : bexp)
| BUnknown.

Inductive stmt :=
| SIf (c : bexp) (t e : list stmt)
| SAssignDirty (b : bool)
| SValFromArg | SValFromEnv | SValFromDefault | SValReset            (* option::value_ = … *)
| SVecPushArg | SVecPushElem | SVecFromDefault | SVecClear           (* multi_option::value_ *)
| SForLines (sep : byte) (body : list stmt)                           (* std::string element; std::stringstream str; str << env_value;
                                                                          while (std::getline(str, element, sep)) body *)
| SGivenZero | SGivenDefault | SGivenEnvWord                          (* given_ = 0 / default_ / parse_env_value(env_value) *)
| SGivenAddLetters | SGivenIncr                                       (* given_ += arg.as_short_list().count(short_name()); given_++ *)
| SLetEnv                                                              (* auto env_value = nitro::env::get(env()) *)
| SReturn | SRaiseUser | SUnknown.

(* everything a method can read but not write *)
Record octx := { x_name : str; x_short : option byte; x_env : option str;
                 x_def_o : option str; x_def_m : option (list str); x_def_t : Z;
                 x_optional : bool; x_rev : bool;
                 x_getenv : env_t; x_arg : str; x_tr : list str; x_fa : list str }.
(* the mutable fields of the three classes side by side, plus the locals env_value and element *)
Record ostate := { q_val : option str; q_vec : list str; q_given : Z; q_dirty : bool; q_envv : str; q_elem : str }.

Inductive xres (A : Type) := XOk (a : A) | XErr (e : err) | XStuck.
Arguments XOk {A}. Arguments XErr {A}. Arguments XStuck {A}.
Definition of_res {A} (r : res A) : xres A := match r with Ok a => XOk a | Err e => XErr e end.

Definition has_env_b (c : octx) : bool := match x_env c with Some (_ :: _) => true | _ => false end.

Fixpoint evalb (c : octx) (s : ostate) (e : bexp) : xres bool :=
  match e with
  | BValueSet => XOk (match q_val s with Some _ => true | None => false end)
  | BVecEmpty => XOk (match q_vec s with [] => true | _ => false end)
  | BHasEnv => XOk (has_env_b c)
  | BEnvEmpty => XOk (negb (nonempty (q_envv s)))
  | BHasDefaultO => XOk (match x_def_o c with Some _ => true | None => false end)
  | BHasDefaultM => XOk (match x_def_m c with Some _ => true | None => false end)
  | BIsOptional => XOk (x_optional c)
  | BDirty => XOk (q_dirty s)
  | BGiven => XOk (negb (q_given s =? 0)%Z)
  | BReversable => XOk (x_rev c)
  | BArgHasValue => XOk (has_value (x_arg c))
  | BArgIsShort => XOk (is_short (x_arg c))
  | BArgHasPrefix => XOk (has_prefix (x_arg c))
  | BArgUnprefixedIsName => match name_without_prefix (x_arg c) with Ok n => XOk (seq_eqb n (x_name c)) | Err er => XErr er end
  | BNot b => match evalb c s b with XOk v => XOk (negb v) | r => r end
  | BAnd a b => match evalb c s a with XOk true => evalb c s b | XOk false => XOk false | r => r end
  | BOr a b => match evalb c s a with XOk false => evalb c s b | XOk true => XOk true | r => r end
  | BUnknown => XStuck
  end.

Inductive outcome := ONormal (s : ostate) | OReturn (s : ostate) | ORaise (e : err) | OStuck.

Definition set_val (s : ostate) v := {| q_val := v; q_vec := q_vec s; q_given := q_given s; q_dirty := q_dirty s; q_envv := q_envv s; q_elem := q_elem s |}.
Definition set_vec (s : ostate) v := {| q_val := q_val s; q_vec := v; q_given := q_given s; q_dirty := q_dirty s; q_envv := q_envv s; q_elem := q_elem s |}.
Definition set_given (s : ostate) v := {| q_val := q_val s; q_vec := q_vec s; q_given := v; q_dirty := q_dirty s; q_envv := q_envv s; q_elem := q_elem s |}.
Definition set_dirty (s : ostate) v := {| q_val := q_val s; q_vec := q_vec s; q_given := q_given s; q_dirty := v; q_envv := q_envv s; q_elem := q_elem s |}.
Definition set_envv (s : ostate) v := {| q_val := q_val s; q_vec := q_vec s; q_given := q_given s; q_dirty := q_dirty s; q_envv := v; q_elem := q_elem s |}.
Definition set_elem (s : ostate) v := {| q_val := q_val s; q_vec := q_vec s; q_given := q_given s; q_dirty := q_dirty s; q_envv := q_envv s; q_elem := v |}.

(* while (std::getline(str, element, sep)) body : one run of the body per piece *)
Fixpoint each_gen (run : ostate -> outcome) (pieces : list str) (s : ostate) {struct pieces} : outcome :=
  match pieces with
  | [] => ONormal s
  | p :: r => match run (set_elem s p) with ONormal s' => each_gen run r s' | o => o end
  end.

Section Exec.
Variable c : octx.

Fixpoint exec1 (st : stmt) (s : ostate) {struct st} : outcome :=
  let seq := fix seq (l : list stmt) (s : ostate) {struct l} : outcome :=
    match l with
    | [] => ONormal s
    | x :: r => match exec1 x s with ONormal s' => seq r s' | o => o end
    end in
  match st with
  | SIf b t e => match evalb c s b with
                 | XOk true => seq t s
                 | XOk false => seq e s
                 | XErr er => ORaise er
                 | XStuck => OStuck
                 end
  | SAssignDirty b => ONormal (set_dirty s b)
  | SValFromArg => match tok_value (x_arg c) with Ok v => ONormal (set_val s (Some v)) | Err er => ORaise er end
  | SValFromEnv => ONormal (set_val s (Some (q_envv s)))
  | SValFromDefault => match x_def_o c with Some d => ONormal (set_val s (Some d)) | None => OStuck end
  | SValReset => ONormal (set_val s None)
  | SVecPushArg => match tok_value (x_arg c) with Ok v => ONormal (set_vec s (q_vec s ++ [v])) | Err er => ORaise er end
  | SVecPushElem => ONormal (set_vec s (q_vec s ++ [q_elem s]))
  | SVecFromDefault => match x_def_m c with Some d => ONormal (set_vec s d) | None => OStuck end
  | SVecClear => ONormal (set_vec s [])
  | SForLines sep body =>
      each_gen (seq body) (getlines sep (q_envv s) [] false) s
  | SGivenZero => ONormal (set_given s 0%Z)
  | SGivenDefault => ONormal (set_given s (x_def_t c))
  | SGivenEnvWord => match parse_env_word (x_tr c) (x_fa c) (q_envv s) with
                     | Some b => ONormal (set_given s (if b then 1 else 0)%Z)
                     | None => ORaise UserError
                     end
  | SGivenAddLetters => match as_short_list (x_arg c) with
                        | Ok l => ONormal (set_given s (q_given s + Z.of_nat (count_short (x_short c) l))%Z)
                        | Err er => ORaise er
                        end
  | SGivenIncr => ONormal (set_given s (q_given s + 1)%Z)
  | SLetEnv => ONormal (set_envv s (env_get (x_getenv c) (x_env c)))
  | SReturn => OReturn s
  | SRaiseUser => ORaise UserError
  | SUnknown => OStuck
  end.

Fixpoint exec (l : list stmt) (s : ostate) : outcome :=
  match l with
  | [] => ONormal s
  | x :: r => match exec1 x s with ONormal s' => exec r s' | o => o end
  end.
End Exec.

(* the three views of the state *)
Definition ost_of (s : ostate) : ost := {| os_val := q_val s; os_dirty := q_dirty s |}.
Definition mst_of (s : ostate) : mst := {| ms_val := q_vec s; ms_dirty := q_dirty s |}.
Definition tst_of (s : ostate) : tst := {| ts_given := q_given s; ts_dirty := q_dirty s |}.
Definition view {A} (f : ostate -> A) (o : outcome) : option (res A) :=
  match o with ONormal s | OReturn s => Some (Ok (f s)) | ORaise e => Some (Err e) | OStuck => None end.

Definition odecl_of (c : octx) : odecl := {| o_name := x_name c; o_short := x_short c; o_env := x_env c; o_def := x_def_o c; o_opt := x_optional c |}.
Definition mdecl_of (c : octx) : mdecl := {| m_name := x_name c; m_short := x_short c; m_env := x_env c; m_def := x_def_m c; m_opt := x_optional c |}.
Definition tdecl_of (c : octx) : tdecl := {| t_name := x_name c; t_short := x_short c; t_env := x_env c; t_def := x_def_t c; t_rev := x_rev c |}.

(* Opt/RefineDefs.v — auxiliary definitions for the refinement proof parse = explain ; wf_items ; assignment *)
From Coq Require Import List Arith Bool ZArith Lia.
From Coq Require Import Init.Byte.
From Nitro Require Import Base.Bytes Base.ListX Base.Res Opt.Token Opt.Decl Opt.ParserModel Opt.ParserCore Opt.ParserSpec.
Import ListNotations.
Local Open Scope list_scope.

(* all errors are alike *)
Definition same {A} (x y : res A) : Prop :=
  match x, y with Ok a, Ok b => a = b | Err _, Err _ => True | _, _ => False end.

(* explain without accumulators *)
Definition tail_list (tl : option (list str)) : list str := match tl with Some t => t | None => [] end.
Fixpoint explain' (d : decl) (sd go skip : bool) (args : list str) : res (list item * option (list str)) :=
  match args with
  | [] => Ok ([], if sd then Some [] else None)
  | a :: rest =>
    if skip then explain' d sd go false rest
    else if sd then do (its, tl) <- explain' d true go false rest; Ok (its, Some (a :: tail_list tl))
    else if go || is_value a then do (its, tl) <- explain' d false (go || d_greedy d) false rest; Ok (ItPos a :: its, tl)
    else if negb (well_formed a) then Err UserError
    else if is_double_dash a then explain' d true go false rest
    else do (it, consumed) <- explain_tok d a (hd_error rest);
         do (its, tl) <- explain' d false go consumed rest; Ok (it :: its, tl)
  end.

(* the three try_parse_* of one loop iteration as one step *)
Definition step (d : decl) (st : pst) (a : str) (next : option str) : res (pst * bool) :=
  do r1 <- try_option d st a next;
  match r1 with
  | Some x => Ok x
  | None =>
    do r2 <- try_multi d st a next;
    match r2 with
    | Some x => Ok x
    | None => do r3 <- try_toggle d st a;
              match r3 with Some st' => Ok (st', false) | None => Err UserError end
    end
  end.

(* effect of an item on the toggle objects, pointwise *)
Inductive tog_effect := TNone | TInc (c : nat) | TRev.
Definition tog_apply (t : tdecl) (s : tst) (ef : tog_effect) : res tst :=
  match ef with
  | TNone => Ok s
  | TInc c => if ts_dirty s && (ts_given s =? 0)%Z then Err UserError
              else Ok {| ts_given := (ts_given s + Z.of_nat c)%Z; ts_dirty := true |}
  | TRev => if negb (t_rev t) then Err UserError
            else if ts_dirty s && negb (ts_given s =? 0)%Z then Err UserError
            else Ok {| ts_given := 0; ts_dirty := true |}
  end.
Fixpoint tog_pass (eff : nat -> tog_effect) (j : nat) (ts : list tdecl) (ss : list tst) : res (list tst) :=
  match ts, ss with
  | t :: ts', s :: ss' => do s' <- tog_apply t s (eff j); do r <- tog_pass eff (S j) ts' ss'; Ok (s' :: r)
  | _, _ => Ok []
  end.
Definition count_nat (j : nat) (l : list nat) : nat := length (filter (Nat.eqb j) l).
Definition item_effect (it : item) (j : nat) : tog_effect :=
  match it with
  | ItBundle ts => if 0 <? count_nat j ts then TInc (count_nat j ts) else TNone
  | ItLong t => if j =? t then TInc 1 else TNone
  | ItNo t => if j =? t then TRev else TNone
  | _ => TNone
  end.

Definition set_opt (v : str) (s : ost) : res ost :=
  match os_val s with Some _ => Err UserError | None => Ok {| os_val := Some v; os_dirty := true |} end.
Definition add_multi (v : str) (s : mst) : res mst := Ok {| ms_val := ms_val s ++ [v]; ms_dirty := true |}.

Definition apply_item (d : decl) (st : pst) (it : item) : res pst :=
  match it with
  | ItOpt i _ v => do os <- upd_res (p_o st) i (set_opt v); Ok {| p_o := os; p_m := p_m st; p_t := p_t st |}
  | ItMulti i _ v => do ms <- upd_res (p_m st) i (add_multi v); Ok {| p_o := p_o st; p_m := ms; p_t := p_t st |}
  | ItPos _ => Ok st
  | _ => do ts <- tog_pass (item_effect it) 0 (d_toggles d) (p_t st); Ok {| p_o := p_o st; p_m := p_m st; p_t := ts |}
  end.
Fixpoint run_items (d : decl) (st : pst) (its : list item) : res pst :=
  match its with [] => Ok st | it :: r => do st' <- apply_item d st it; run_items d st' r end.

Definition limit_ok (d : decl) (n : nat) (its : list item) (tl : option (list str)) : bool :=
  match d_allowed d with Some k => n + length (inline_pos its) + n_tail tl <=? k | None => true end.
Definition pos_inv (d : decl) (pos : list str) : Prop :=
  match d_allowed d with Some k => length pos <= k | None => True end.

(* the state the option objects are in after the items `pre` were given *)
Definition nonempty_l {A} (l : list A) : bool := match l with [] => false | _ => true end.
Definition state_o (pre : list item) (i : nat) : ost :=
  {| os_val := hd_error (opt_values i pre); os_dirty := nonempty_l (opt_values i pre) |}.
Definition state_m (pre : list item) (i : nat) : mst :=
  {| ms_val := multi_values i pre; ms_dirty := nonempty_l (multi_values i pre) |}.
Definition state_t (pre : list item) (j : nat) : tst :=
  {| ts_given := if 0 <? negations j pre then 0%Z else Z.of_nat (occurrences j pre);
     ts_dirty := 0 <? occurrences j pre + negations j pre |}.
Definition state_of (d : decl) (pre : list item) : pst :=
  {| p_o := map (state_o pre) (seq 0 (length (d_opts d)));
     p_m := map (state_m pre) (seq 0 (length (d_multis d)));
     p_t := map (state_t pre) (seq 0 (length (d_toggles d))) |}.

(* when may item `it` follow the items `pre`: exactly when applying it to the state after `pre` succeeds *)
Definition tog_okb (pre : list item) (it : item) (j : nat) (t : tdecl) : bool :=
  match item_effect it j with
  | TNone => true
  | TInc _ => negations j pre =? 0
  | TRev => t_rev t && negb ((0 <? occurrences j pre) && (negations j pre =? 0))
  end.
Definition item_sem (d : decl) (pre : list item) (it : item) : bool :=
  match it with
  | ItOpt i _ _ => negb (nonempty_l (opt_values i pre))
  | ItMulti _ _ _ | ItPos _ => true
  | _ => forallb (fun p => tog_okb pre it (fst p) (snd p)) (combine (seq 0 (length (d_toggles d))) (d_toggles d))
  end.
Fixpoint items_sem (d : decl) (pre its : list item) : bool :=
  match its with [] => true | it :: r => item_sem d pre it && items_sem d (pre ++ [it]) r end.

(* items refer to declared things *)
Definition item_valid (d : decl) (it : item) : bool :=
  match it with
  | ItOpt i _ _ => i <? length (d_opts d)
  | ItMulti i _ _ => i <? length (d_multis d)
  | ItBundle ts => forallb (fun t => t <? length (d_toggles d)) ts
  | ItLong t | ItNo t => t <? length (d_toggles d)
  | ItPos _ => true
  end.

(* Opt/Refine1.v — one loop iteration of the parser equals "explain the token, apply the item" *)
From Coq Require Import List Arith Bool ZArith Lia.
From Coq Require Import Init.Byte.
From Nitro Require Import Base.Bytes Base.ListX Base.Res Opt.Token Opt.Decl Opt.ParserModel Opt.ParserCore Opt.ParserSpec Opt.RefineDefs.
Import ListNotations.
Local Open Scope list_scope.

(* ---------- generalities ---------- *)
Lemma same_refl {A} (x : res A) : same x x.
Proof. destruct x; simpl; auto. Qed.
Lemma same_bind {A B} (x y : res A) (f g : A -> res B) :
  same x y -> (forall a, same (f a) (g a)) -> same (bind x f) (bind y g).
Proof. destruct x, y; simpl; intros H Hf; try contradiction; subst; auto. Qed.
Lemma same_err_l {A} (x : res A) e : same (Err e) x -> exists e', x = Err e'.
Proof. destruct x; simpl; [contradiction | eauto]. Qed.

Lemma upd_res_ext {A} (l : list A) i (f g : A -> res A) : (forall x, f x = g x) -> upd_res l i f = upd_res l i g.
Proof. intros H. unfold upd_res. destruct (nth_error l i); [rewrite H|]; reflexivity. Qed.

Lemma upd_res_length {A} (l l' : list A) i f : upd_res l i f = Ok l' -> length l' = length l.
Proof.
  unfold upd_res. destruct (nth_error l i) as [x|]; [|intros [= <-]; reflexivity].
  destruct (f x); simpl; [intros [= <-]; apply upd_length | discriminate].
Qed.

Lemma forallb_ext' {A} (f g : A -> bool) l : (forall x, f x = g x) -> forallb f l = forallb g l.
Proof. intros H. induction l as [|x l IH]; simpl; [reflexivity | rewrite H, IH; reflexivity]. Qed.
Lemma list_sum_cons x l : list_sum (x :: l) = x + list_sum l.
Proof. reflexivity. Qed.

(* ---------- token facts ---------- *)
Lemma is_value_value_part n : is_value n = true -> value_part n = n.
Proof. unfold value_part. intros ->. reflexivity. Qed.

Lemma short_not_named a : is_short a = true -> is_named a = false.
Proof.
  unfold is_short, is_named. destruct (name_of a) as [|c0 [|c1 [|c2 r]]]; try reflexivity; try discriminate.
  rewrite andb_true_iff. intros [_ H]. destruct (beq c1 dash); [discriminate|]. rewrite andb_false_r. reflexivity.
Qed.

Lemma short_no_prefix a : is_short a = true -> has_prefix a = false.
Proof.
  unfold is_short, has_prefix, no_prefix. destruct (name_of a) as [|c0 [|c1 r]]; try discriminate.
  rewrite andb_true_iff. intros [_ H]. simpl. destruct (beq dash c0); [|reflexivity]. simpl.
  rewrite beq_sym. destruct (beq c1 dash); [discriminate | reflexivity].
Qed.

Lemma prefix_named a : has_prefix a = true -> is_named a = true.
Proof.
  unfold has_prefix, is_named, no_prefix. destruct (name_of a) as [|c0 [|c1 [|c2 r]]]; simpl;
    rewrite ?andb_false_r; try discriminate.
  rewrite !andb_true_iff. intros (H0 & H1 & H2 & _).
  apply beq_true in H0, H1, H2. subst. repeat split; reflexivity.
Qed.

Lemma prefix_named_part a : has_prefix a = true -> named_part a = skipn 2 no_prefix ++ unprefixed a.
Proof.
  unfold has_prefix, named_part, unprefixed. intros H. apply prefixb_spec in H as [t H]. rewrite H. reflexivity.
Qed.

Lemma short_letters_nonempty a : is_short a = true -> letters a <> [].
Proof. unfold is_short, letters. destruct (name_of a) as [|c0 [|c1 r]]; try discriminate. Qed.

(* ---------- options and multi-options ---------- *)
Lemma opt_update_set s tok : opt_update s tok = set_opt (value_part tok) s.
Proof. reflexivity. Qed.
Lemma multi_update_add s tok : multi_update s tok = add_multi (value_part tok) s.
Proof. reflexivity. Qed.

Definition step_spec (d : decl) (st : pst) (a : str) (next : option str) : res (pst * bool) :=
  do (it, c) <- explain_tok d a next; do st' <- apply_item d st it; Ok (st', c).

Lemma step_option d st a next i :
  find_idx (fun o => base_matches (o_name o) (o_short o) a) (d_opts d) = Some i ->
  step d st a next = step_spec d st a next.
Proof.
  intros F. unfold step, step_spec, try_option, explain_tok. rewrite F.
  unfold option_value_token, explain_valued.
  destruct (bundled a); [reflexivity|].
  destruct (has_value a).
  - cbn [bind apply_item]. unfold opt_update, set_opt.
    destruct (upd_res (p_o st) i _); reflexivity.
  - destruct next as [n|]; [|reflexivity].
    destruct (is_value n) eqn:Vn; [|reflexivity].
    cbn [bind apply_item].
    rewrite (upd_res_ext (p_o st) i (fun s => opt_update s n) (set_opt n)).
    + destruct (upd_res (p_o st) i (set_opt n)); reflexivity.
    + intros x. rewrite opt_update_set, is_value_value_part by exact Vn. reflexivity.
Qed.

Lemma step_multi d st a next i :
  find_idx (fun o => base_matches (o_name o) (o_short o) a) (d_opts d) = None ->
  find_idx (fun o => base_matches (m_name o) (m_short o) a) (d_multis d) = Some i ->
  step d st a next = step_spec d st a next.
Proof.
  intros F0 F. unfold step, step_spec, try_option, try_multi, explain_tok. rewrite F0, F. cbn [bind].
  unfold option_value_token, explain_valued.
  destruct (bundled a); [reflexivity|].
  destruct (has_value a).
  - cbn [bind apply_item]. unfold multi_update, add_multi.
    destruct (upd_res (p_m st) i _); reflexivity.
  - destruct next as [n|]; [|reflexivity].
    destruct (is_value n) eqn:Vn; [|reflexivity].
    cbn [bind apply_item].
    rewrite (upd_res_ext (p_m st) i (fun s => multi_update s n) (add_multi n)).
    + destruct (upd_res (p_m st) i (add_multi n)); reflexivity.
    + intros x. rewrite multi_update_add, is_value_value_part by exact Vn. reflexivity.
Qed.

(* ---------- toggles: the pass over all toggles as a pointwise map ---------- *)
Definition tok_eff (t : tdecl) (a : str) : tog_effect :=
  if toggle_matches t a then
    if is_reversal t a then TRev else TInc (if is_short a then count_short (t_short t) (letters a) else 1)
  else TNone.
Fixpoint tog_pass_e (f : tdecl -> tog_effect) (ts : list tdecl) (ss : list tst) : res (list tst) :=
  match ts, ss with
  | t :: ts', s :: ss' => do s' <- tog_apply t s (f t); do r <- tog_pass_e f ts' ss'; Ok (s' :: r)
  | _, _ => Ok []
  end.
Definition n_of (a : str) (ts : list tdecl) : nat :=
  list_sum (map (fun t => if toggle_matches t a then (if is_short a then count_short (t_short t) (letters a) else 0) else 0) ts).
Definition m_of (a : str) (ts : list tdecl) : bool := existsb (fun t => toggle_matches t a) ts.

Lemma toggle_update_eff t s a : has_value a = false -> toggle_matches t a = true ->
  toggle_update t s a = tog_apply t s (tok_eff t a).
Proof.
  intros Hv Hm. unfold toggle_update, tok_eff. rewrite Hv, Hm.
  destruct (is_reversal t a); [reflexivity|]. cbn [tog_apply].
  destruct (is_short a); reflexivity.
Qed.

Lemma toggles_pass_char ts : forall ss a, has_value a = false -> length ss = length ts ->
  toggles_pass ts ss a = do r <- tog_pass_e (fun t => tok_eff t a) ts ss; Ok (r, n_of a ts, m_of a ts).
Proof.
  induction ts as [|t ts IH]; intros ss a Hv Hl; destruct ss as [|s ss]; try discriminate; [reflexivity|].
  injection Hl as Hl. cbn [toggles_pass tog_pass_e]. rewrite (IH ss a Hv Hl).
  unfold n_of, m_of. cbn [map existsb]. rewrite list_sum_cons.
  destruct (toggle_matches t a) eqn:Hm.
  - rewrite (toggle_update_eff t s a Hv Hm).
    destruct (tog_apply t s (tok_eff t a)); [|reflexivity]. cbn [bind].
    destruct (tog_pass_e _ ts ss); reflexivity.
  - replace (tok_eff t a) with TNone by (unfold tok_eff; rewrite Hm; reflexivity). cbn [tog_apply bind].
    destruct (tog_pass_e _ ts ss); reflexivity.
Qed.

Lemma toggles_pass_value ts : forall ss a, has_value a = true ->
  (exists e, toggles_pass ts ss a = Err e) \/ (exists r n, toggles_pass ts ss a = Ok (r, n, false)).
Proof.
  induction ts as [|t ts IH]; intros ss a Hv; [right; exists [], 0; reflexivity|].
  destruct ss as [|s ss]; [right; exists [], 0; reflexivity|].
  cbn [toggles_pass]. destruct (toggle_matches t a).
  - left. unfold toggle_update. rewrite Hv. eexists; reflexivity.
  - destruct (IH ss a Hv) as [[e E]|(r & n & E)]; rewrite E; [left; eexists; reflexivity|].
    right. exists (s :: r), n. reflexivity.
Qed.

Lemma tog_pass_e_index f eff ts : forall ss j,
  (forall k t, nth_error ts k = Some t -> eff (j + k) = f t) ->
  tog_pass eff j ts ss = tog_pass_e f ts ss.
Proof.
  induction ts as [|t ts IH]; intros ss j H; [reflexivity|].
  destruct ss as [|s ss]; [reflexivity|]. cbn [tog_pass tog_pass_e].
  rewrite <- (H 0 t eq_refl), Nat.add_0_r.
  rewrite (IH ss (S j)); [reflexivity|].
  intros k t' Hk. rewrite <- (H (S k) t' Hk). f_equal. lia.
Qed.

(* ---------- letters: under distinct toggle letters every letter of a bundle is counted once ---------- *)
Definition short_is (c : byte) (t : tdecl) : bool := match t_short t with Some c' => beq c c' | None => false end.
Definition knownb (ts : list tdecl) (c : byte) : bool := existsb (short_is c) ts.

Lemma list_sum_zero {A} (l : list A) : list_sum (map (fun _ => 0) l) = 0.
Proof. induction l; simpl; auto. Qed.
Lemma list_sum_add {A} (f g : A -> nat) l : list_sum (map (fun x => f x + g x) l) = list_sum (map f l) + list_sum (map g l).
Proof. induction l as [|x l IH]; simpl; [reflexivity | rewrite IH; lia]. Qed.
Lemma list_sum_ext {A} (f g : A -> nat) l : (forall x, In x l -> f x = g x) -> list_sum (map f l) = list_sum (map g l).
Proof. induction l as [|x l IH]; simpl; intros H; [reflexivity|]. rewrite H, IH; auto. Qed.

Lemma dup_short_cons_some c l : dup_short (Some c :: l) = false ->
  (forall x, In x l -> x <> Some c) /\ dup_short l = false.
Proof.
  cbn [dup_short]. rewrite orb_false_iff. intros [H1 H2]. split; [|exact H2].
  intros x Hx E. subst x.
  assert (existsb (fun x => match x with Some c' => beq c c' | None => false end) l = true).
  { apply existsb_exists. exists (Some c). split; [exact Hx | apply beq_refl]. }
  congruence.
Qed.

Lemma at_most_one ts c : dup_short (map t_short ts) = false ->
  list_sum (map (fun t => if short_is c t then 1 else 0) ts) = if knownb ts c then 1 else 0.
Proof.
  induction ts as [|t ts IH]; intros H; [reflexivity|].
  cbn [map knownb existsb]. fold (knownb ts c). rewrite list_sum_cons.
  cbn [map] in H. unfold short_is at 1 3.
  destruct (t_short t) as [c0|] eqn:E.
  - apply dup_short_cons_some in H as [Hn Hd]. rewrite (IH Hd).
    destruct (beq c c0) eqn:Ec; [|reflexivity].
    apply beq_true in Ec. subst c0.
    replace (knownb ts c) with false; [reflexivity|]. symmetry.
    destruct (knownb ts c) eqn:K; [|reflexivity]. exfalso.
    apply existsb_exists in K as (t' & Hin & Hs). unfold short_is in Hs.
    destruct (t_short t') as [c'|] eqn:E'; [|discriminate]. apply beq_true in Hs. subst c'.
    apply (Hn (Some c)); [|reflexivity]. rewrite <- E'. apply in_map. exact Hin.
  - cbn [dup_short] in H. rewrite (IH H). reflexivity.
Qed.

Lemma count_short_cons s c l : count_short s (c :: l) = (match s with Some c0 => if beq c0 c then 1 else 0 | None => 0 end) + count_short s l.
Proof. unfold count_short, count_letter. destruct s as [c0|]; [|reflexivity]. cbn [filter]. destruct (beq c0 c); reflexivity. Qed.

Lemma sum_known ts l : dup_short (map t_short ts) = false ->
  list_sum (map (fun t => count_short (t_short t) l) ts) = length (filter (knownb ts) l).
Proof.
  intros H. induction l as [|c l IH].
  - rewrite (list_sum_ext _ (fun _ => 0)); [apply list_sum_zero|]. intros t _. destruct (t_short t); reflexivity.
  - rewrite (list_sum_ext _ (fun t => (if short_is c t then 1 else 0) + count_short (t_short t) l)).
    + rewrite list_sum_add, IH, (at_most_one ts c H). cbn [filter]. destruct (knownb ts c); reflexivity.
    + intros t _. rewrite count_short_cons. unfold short_is. destruct (t_short t) as [c0|]; [|reflexivity].
      rewrite beq_sym. reflexivity.
Qed.

Lemma filter_length_le {A} (f : A -> bool) l : length (filter f l) <= length l.
Proof. induction l as [|x l IH]; simpl; [lia | destruct (f x); simpl; lia]. Qed.
Lemma filter_length_all {A} (f : A -> bool) l : length (filter f l) = length l <-> forallb f l = true.
Proof.
  induction l as [|x l IH]; simpl; [split; reflexivity|].
  destruct (f x); simpl.
  - rewrite <- IH. split; lia.
  - pose proof (filter_length_le f l). split; [lia | discriminate].
Qed.

(* toggle_by_letter finds THE toggle with that letter *)
Lemma by_letter_iff d c j t : dup_short (map t_short (d_toggles d)) = false ->
  nth_error (d_toggles d) j = Some t ->
  (toggle_by_letter d c = Some j <-> t_short t = Some c).
Proof.
  unfold toggle_by_letter. generalize (d_toggles d) as ts. intros ts. revert j.
  induction ts as [|t0 ts IH]; intros j Hd Hn; [destruct j; discriminate|].
  cbn [find_idx]. cbn [map] in Hd.
  destruct j as [|j]; cbn [nth_error] in Hn.
  - injection Hn as ->. destruct (t_short t) as [c'|] eqn:E.
    + destruct (beq c c') eqn:Ec.
      * apply beq_true in Ec. subst. split; reflexivity.
      * split; [|intros [= <-]; rewrite beq_refl in Ec; discriminate].
        destruct (find_idx _ ts); discriminate.
    + split; [destruct (find_idx _ ts); discriminate | discriminate].
  - destruct (t_short t0) as [c0|] eqn:E0.
    + apply dup_short_cons_some in Hd as [Hne Hd].
      destruct (beq c c0) eqn:Ec.
      * apply beq_true in Ec. subst c0. split; [discriminate|]. intros Ht. exfalso.
        apply (Hne (Some c)); [|reflexivity]. rewrite <- Ht. apply in_map. eapply nth_error_In; eauto.
      * rewrite <- (IH j Hd Hn). destruct (find_idx _ ts); simpl; split; congruence.
    + cbn [dup_short] in Hd. rewrite <- (IH j Hd Hn). destruct (find_idx _ ts); simpl; split; congruence.
Qed.

Lemma by_letter_known d c : (match toggle_by_letter d c with Some _ => true | None => false end) = knownb (d_toggles d) c.
Proof.
  unfold toggle_by_letter, knownb, short_is. induction (d_toggles d) as [|t ts IH]; [reflexivity|].
  cbn [find_idx existsb]. destruct (t_short t) as [c'|].
  - destruct (beq c c'); [reflexivity|]. simpl. rewrite <- IH. destruct (find_idx _ ts); reflexivity.
  - simpl. rewrite <- IH. destruct (find_idx _ ts); reflexivity.
Qed.

Lemma all_some_none_iff {A B} (f : A -> option B) l : all_some (map f l) = None <-> forallb (fun x => match f x with Some _ => true | None => false end) l = false.
Proof.
  induction l as [|x l IH]; simpl; [split; discriminate|].
  destruct (f x); simpl; [|split; reflexivity].
  rewrite <- IH. destruct (all_some (map f l)); simpl; split; congruence.
Qed.

Lemma all_some_count d l tsx j t : dup_short (map t_short (d_toggles d)) = false ->
  all_some (map (toggle_by_letter d) l) = Some tsx -> nth_error (d_toggles d) j = Some t ->
  count_nat j tsx = count_short (t_short t) l.
Proof.
  intros Hd. revert tsx. induction l as [|c l IH]; intros tsx H Hn.
  - injection H as <-. destruct (t_short t); reflexivity.
  - cbn [map all_some] in H. destruct (toggle_by_letter d c) as [j0|] eqn:E; [|discriminate].
    destruct (all_some (map (toggle_by_letter d) l)) as [r|]; [|discriminate]. injection H as <-.
    rewrite count_short_cons, <- (IH r eq_refl Hn). unfold count_nat. cbn [filter].
    pose proof (by_letter_iff d c j t Hd Hn) as Hiff.
    destruct (Nat.eqb j j0) eqn:Ej.
    + apply Nat.eqb_eq in Ej. subst j0. apply Hiff in E. rewrite E, beq_refl. reflexivity.
    + destruct (t_short t) as [c0|] eqn:Es; [|reflexivity].
      destruct (beq c0 c) eqn:Ec; [|reflexivity].
      apply beq_true in Ec. subst c0. apply proj2 in Hiff. rewrite (Hiff eq_refl) in E. injection E as <-.
      rewrite Nat.eqb_refl in Ej. discriminate.
Qed.

(* ---------- names ---------- *)
Lemma find_name_iff ts x : forall j t, nodupb (map t_name ts) = true -> nth_error ts j = Some t ->
  (find_idx (fun t => seq_eqb x (t_name t)) ts = Some j <-> x = t_name t).
Proof.
  induction ts as [|t0 ts IH]; intros j t Hd Hn; [destruct j; discriminate|].
  cbn [find_idx]. cbn [map nodupb] in Hd. apply andb_true_iff in Hd as [Hne Hd].
  destruct j as [|j]; cbn [nth_error] in Hn.
  - injection Hn as ->. destruct (seq_eqb x (t_name t)) eqn:E.
    + apply seq_eqb_true in E. split; auto.
    + apply seq_eqb_false in E. split; [destruct (find_idx _ ts); discriminate | contradiction].
  - destruct (seq_eqb x (t_name t0)) eqn:E.
    + apply seq_eqb_true in E. split; [discriminate|]. intros ->. exfalso.
      apply negb_true_iff in Hne.
      assert (existsb (seq_eqb (t_name t0)) (map t_name ts) = true); [|congruence].
      apply existsb_exists. exists (t_name t). split; [apply in_map; eapply nth_error_In; eauto|].
      rewrite E. apply seq_eqb_refl.
    + rewrite <- (IH j t Hd Hn). destruct (find_idx _ ts); simpl; split; congruence.
Qed.

Record tog_hyps (d : decl) : Prop := {
  th_letters : dup_short (map t_short (d_toggles d)) = false;
  th_names : nodupb (map t_name (d_toggles d)) = true;
  th_clash : forall t t', In t (d_toggles d) -> In t' (d_toggles d) -> t_name t' <> skipn 2 no_prefix ++ t_name t }.

(* matching of a token that is not short and carries no value *)
Lemma base_matches_long name short a : is_short a = false ->
  base_matches name short a = is_named a && seq_eqb (named_part a) name.
Proof.
  intros Hs. unfold base_matches, is_argument. rewrite Hs. rewrite andb_false_r. simpl.
  destruct (is_named a); reflexivity.
Qed.
Lemma base_matches_short name short a : is_short a = true -> has_value a = false ->
  base_matches name short a = (0 <? count_short short (letters a)).
Proof.
  intros Hs Hv. unfold base_matches, is_argument. rewrite Hs, Hv, andb_false_r. simpl.
  destruct short as [c|]; simpl; [reflexivity|]. rewrite (short_not_named a Hs). reflexivity.
Qed.

Lemma step_toggle d st a next : tog_hyps d -> length (p_t st) = length (d_toggles d) ->
  find_idx (fun o => base_matches (o_name o) (o_short o) a) (d_opts d) = None ->
  find_idx (fun o => base_matches (m_name o) (m_short o) a) (d_multis d) = None ->
  same (step d st a next) (step_spec d st a next).
Proof.
  intros [HL HN HC] Hlen F0 F1. unfold step, step_spec, try_option, try_multi, explain_tok.
  rewrite F0, F1. cbn [bind]. unfold try_toggle.
  destruct (has_value a) eqn:Hv.
  { (* a value on something that is no option: both sides fail *)
    destruct (toggles_pass_value (d_toggles d) (p_t st) a Hv) as [[e E]|(r & n & E)]; rewrite E; simpl; exact I. }
  rewrite (toggles_pass_char _ _ _ Hv Hlen).
  destruct (is_short a) eqn:Hs.
  - (* a bundle of letters *)
    assert (Heff : forall t, tok_eff t a = if 0 <? count_short (t_short t) (letters a) then TInc (count_short (t_short t) (letters a)) else TNone).
    { intros t. unfold tok_eff, toggle_matches, is_reversal. rewrite (short_no_prefix a Hs). simpl.
      rewrite (base_matches_short _ _ a Hs Hv), Hs. reflexivity. }
    assert (Hn : n_of a (d_toggles d) = length (filter (knownb (d_toggles d)) (letters a))).
    { unfold n_of. rewrite <- (sum_known _ _ HL). apply list_sum_ext. intros t _.
      unfold toggle_matches, is_reversal. rewrite (short_no_prefix a Hs). simpl.
      rewrite (base_matches_short _ _ a Hs Hv), Hs.
      destruct (count_short (t_short t) (letters a)); reflexivity. }
    destruct (all_some (map (toggle_by_letter d) (letters a))) as [tsx|] eqn:EA.
    + (* every letter is a declared toggle *)
      assert (Hall : forallb (knownb (d_toggles d)) (letters a) = true).
      { destruct (forallb (knownb (d_toggles d)) (letters a)) eqn:K; [reflexivity|]. exfalso.
        assert (all_some (map (toggle_by_letter d) (letters a)) = None); [|congruence].
        apply all_some_none_iff. rewrite (forallb_ext' _ (knownb (d_toggles d))); [exact K | intros c; apply by_letter_known]. }
      apply filter_length_all in Hall. rewrite Hall in Hn.
      assert (Hm : m_of a (d_toggles d) = true).
      { destruct (m_of a (d_toggles d)) eqn:M; [reflexivity|]. exfalso.
        assert (n_of a (d_toggles d) = 0).
        { unfold n_of. rewrite (list_sum_ext _ (fun _ => 0)); [apply list_sum_zero|].
          intros t Ht. unfold m_of in M.
          destruct (toggle_matches t a) eqn:E; [|reflexivity].
          assert (existsb (fun t => toggle_matches t a) (d_toggles d) = true) by (apply existsb_exists; eauto). congruence. }
        pose proof (short_letters_nonempty a Hs). destruct (letters a); [congruence | simpl in *; lia]. }
      cbn [bind apply_item].
      rewrite (tog_pass_e_index (fun t => tok_eff t a) (item_effect (ItBundle tsx)) (d_toggles d) (p_t st) 0).
      * destruct (tog_pass_e _ (d_toggles d) (p_t st)) as [r|]; cbn [bind]; [|exact I].
        rewrite Hm, Hn, Nat.eqb_refl. simpl. reflexivity.
      * intros k t Hk. cbn [item_effect Nat.add]. rewrite Heff, (all_some_count d _ _ k t HL EA Hk). reflexivity.
    + (* some letter is unknown: the letter total cannot add up *)
      cbn [bind].
      destruct (tog_pass_e _ (d_toggles d) (p_t st)) as [r|]; cbn [bind]; [|exact I].
      destruct (m_of a (d_toggles d)); simpl; [|exact I].
      assert (Hlt : forallb (knownb (d_toggles d)) (letters a) = false).
      { apply all_some_none_iff in EA. rewrite (forallb_ext' _ (knownb (d_toggles d))) in EA; [exact EA | intros c; apply by_letter_known]. }
      destruct (n_of a (d_toggles d) =? length (letters a)) eqn:En; simpl; [|exact I].
      apply Nat.eqb_eq in En. rewrite Hn in En. apply filter_length_all in En. congruence.
  - (* a long token *)
    assert (Hmt : forall t, toggle_matches t a = is_reversal t a || (is_named a && seq_eqb (named_part a) (t_name t))).
    { intros t. unfold toggle_matches. rewrite (base_matches_long _ _ a Hs). reflexivity. }
    destruct (is_named a) eqn:Hnm.
    + destruct (find_idx (fun t => seq_eqb (named_part a) (t_name t)) (d_toggles d)) as [j|] eqn:FN.
      * (* --name *)
        destruct (find_idx_some _ _ _ FN) as (tj & Hj & Ej & _). apply seq_eqb_true in Ej.
        assert (Heff : forall k t, nth_error (d_toggles d) k = Some t -> tok_eff t a = if k =? j then TInc 1 else TNone).
        { intros k t Hk. unfold tok_eff. rewrite Hmt, ?Hs.
          assert (Hr : is_reversal t a = false).
          { unfold is_reversal. destruct (has_prefix a) eqn:Hp; [|reflexivity]. simpl.
            destruct (seq_eqb (unprefixed a) (t_name t)) eqn:E; [|reflexivity]. exfalso.
            apply seq_eqb_true in E. apply (HC t tj); [eapply nth_error_In; eauto | eapply nth_error_In; eauto|].
            rewrite <- Ej, <- E. apply prefix_named_part. exact Hp. }
          rewrite Hr. simpl.
          pose proof (find_name_iff (d_toggles d) (named_part a) k t HN Hk) as Hiff.
          destruct (k =? j) eqn:Ek.
          - apply Nat.eqb_eq in Ek. subst k. rewrite Hj in Hk. injection Hk as <-.
            rewrite Ej, seq_eqb_refl. reflexivity.
          - destruct (seq_eqb (named_part a) (t_name t)) eqn:E; [|reflexivity].
            apply seq_eqb_true in E. apply Hiff in E. rewrite FN in E. injection E as <-.
            rewrite Nat.eqb_refl in Ek. discriminate. }
        assert (Hm : m_of a (d_toggles d) = true).
        { unfold m_of. apply existsb_exists. exists tj. split; [eapply nth_error_In; eauto|].
          rewrite Hmt, Ej, seq_eqb_refl, orb_true_r. reflexivity. }
        cbn [bind apply_item].
        rewrite (tog_pass_e_index (fun t => tok_eff t a) (item_effect (ItLong j)) (d_toggles d) (p_t st) 0).
        -- destruct (tog_pass_e _ (d_toggles d) (p_t st)) as [r|]; cbn [bind]; [|exact I].
           rewrite Hm. simpl. reflexivity.
        -- intros k t Hk. cbn [item_effect Nat.add]. rewrite (Heff k t Hk). reflexivity.
      * (* no toggle of that name *)
        pose proof (find_idx_none _ _ FN) as Hnone.
        destruct (has_prefix a) eqn:Hp.
        -- destruct (find_idx (fun t => seq_eqb (unprefixed a) (t_name t)) (d_toggles d)) as [j|] eqn:FU.
           ++ (* --no-name *)
              destruct (find_idx_some _ _ _ FU) as (tj & Hj & Ej & _). apply seq_eqb_true in Ej.
              assert (Heff : forall k t, nth_error (d_toggles d) k = Some t -> tok_eff t a = if k =? j then TRev else TNone).
              { intros k t Hk. unfold tok_eff. rewrite Hmt, (Hnone t (nth_error_In _ _ Hk)), andb_false_r, orb_false_r.
                unfold is_reversal. rewrite Hp. simpl.
                pose proof (find_name_iff (d_toggles d) (unprefixed a) k t HN Hk) as Hiff.
                destruct (k =? j) eqn:Ek.
                - apply Nat.eqb_eq in Ek. subst k. rewrite Hj in Hk. injection Hk as <-.
                  rewrite Ej, seq_eqb_refl. reflexivity.
                - destruct (seq_eqb (unprefixed a) (t_name t)) eqn:E; [|reflexivity].
                  apply seq_eqb_true in E. apply Hiff in E. rewrite FU in E. injection E as <-.
                  rewrite Nat.eqb_refl in Ek. discriminate. }
              assert (Hm : m_of a (d_toggles d) = true).
              { unfold m_of. apply existsb_exists. exists tj. split; [eapply nth_error_In; eauto|].
                rewrite Hmt. unfold is_reversal. rewrite Hp, Ej, seq_eqb_refl. reflexivity. }
              cbn [bind apply_item].
              rewrite (tog_pass_e_index (fun t => tok_eff t a) (item_effect (ItNo j)) (d_toggles d) (p_t st) 0).
              ** destruct (tog_pass_e _ (d_toggles d) (p_t st)) as [r|]; cbn [bind]; [|exact I].
                 rewrite Hm. simpl. reflexivity.
              ** intros k t Hk. cbn [item_effect Nat.add]. rewrite (Heff k t Hk). reflexivity.
           ++ (* nothing matches *)
              pose proof (find_idx_none _ _ FU) as Hnone2.
              assert (Hm : m_of a (d_toggles d) = false).
              { unfold m_of. apply not_true_is_false. intros M. apply existsb_exists in M as (t & Ht & M).
                rewrite Hmt, (Hnone t Ht), andb_false_r, orb_false_r in M. unfold is_reversal in M.
                rewrite (Hnone2 t Ht), andb_false_r in M. discriminate. }
              cbn [bind]. destruct (tog_pass_e _ (d_toggles d) (p_t st)) as [r|]; cbn [bind]; [|exact I].
              rewrite Hm. simpl. exact I.
        -- assert (Hm : m_of a (d_toggles d) = false).
           { unfold m_of. apply not_true_is_false. intros M. apply existsb_exists in M as (t & Ht & M).
             rewrite Hmt, (Hnone t Ht), andb_false_r, orb_false_r in M. unfold is_reversal in M.
             rewrite Hp in M. discriminate. }
           cbn [bind]. destruct (tog_pass_e _ (d_toggles d) (p_t st)) as [r|]; cbn [bind]; [|exact I].
           rewrite Hm. simpl. exact I.
    + (* neither short nor long *)
      assert (Hm : m_of a (d_toggles d) = false).
      { unfold m_of. apply not_true_is_false. intros M. apply existsb_exists in M as (t & Ht & M).
        rewrite Hmt in M. simpl in M. rewrite orb_false_r in M. unfold is_reversal in M.
        apply andb_true_iff in M as [Hp _]. apply prefix_named in Hp. congruence. }
      cbn [bind]. destruct (tog_pass_e _ (d_toggles d) (p_t st)) as [r|]; cbn [bind]; [|exact I].
      rewrite Hm. simpl. exact I.
Qed.

Theorem step_refines d st a next : tog_hyps d -> length (p_t st) = length (d_toggles d) ->
  same (step d st a next) (step_spec d st a next).
Proof.
  intros H Hl.
  destruct (find_idx (fun o => base_matches (o_name o) (o_short o) a) (d_opts d)) as [i|] eqn:F0.
  - rewrite (step_option d st a next i F0). apply same_refl.
  - destruct (find_idx (fun o => base_matches (m_name o) (m_short o) a) (d_multis d)) as [i|] eqn:F1.
    + rewrite (step_multi d st a next i F0 F1). apply same_refl.
    + apply step_toggle; assumption.
Qed.

(* Opt/ObjLangFacts.v — unfolding equations for the interpreter of Opt/ObjLang.v *)
From Coq Require Import List Arith Bool ZArith.
From Coq Require Import Init.Byte.
From Nitro Require Import Base.Bytes Base.Res Opt.Token Opt.Decl Opt.ParserModel Opt.ObjLang.
Import ListNotations.
Local Open Scope list_scope.

Lemma exec_cons c x r s : exec c (x :: r) s = match exec1 c x s with ONormal s' => exec c r s' | o => o end.
Proof. reflexivity. Qed.
Lemma exec_nil c s : exec c [] s = ONormal s.
Proof. reflexivity. Qed.

Lemma exec1_if c b t e s :
  exec1 c (SIf b t e) s =
  match evalb c s b with XOk true => exec c t s | XOk false => exec c e s | XErr er => ORaise er | XStuck => OStuck end.
Proof.
  cbn [exec1].
  assert (H : forall l s0, (fix seq (l : list stmt) (s : ostate) {struct l} : outcome :=
                 match l with [] => ONormal s | x :: r => match exec1 c x s with ONormal s' => seq r s' | o => o end end) l s0
              = exec c l s0).
  { induction l as [|x r IH]; intros s0; [reflexivity|]. cbn [exec]. destruct (exec1 c x s0); auto. }
  rewrite !H. reflexivity.
Qed.

Fixpoint each_exec (c : octx) (body : list stmt) (pieces : list str) (s : ostate) : outcome :=
  match pieces with
  | [] => ONormal s
  | p :: r => match exec c body (set_elem s p) with ONormal s' => each_exec c body r s' | o => o end
  end.

Lemma exec1_for c sep body s :
  exec1 c (SForLines sep body) s = each_exec c body (getlines sep (q_envv s) [] false) s.
Proof.
  cbn [exec1].
  assert (H : forall l s0, (fix seq (l : list stmt) (s : ostate) {struct l} : outcome :=
                 match l with [] => ONormal s | x :: r => match exec1 c x s with ONormal s' => seq r s' | o => o end end) l s0
              = exec c l s0).
  { induction l as [|x r IH]; intros s0; [reflexivity|]. cbn [exec]. destruct (exec1 c x s0); auto. }
  generalize (getlines sep (q_envv s) [] false) as pieces. intros pieces. revert s.
  induction pieces as [|p r IH]; intros s; [reflexivity|].
  cbn [each_exec]. rewrite H. destruct (exec c body (set_elem s p)); auto.
Qed.

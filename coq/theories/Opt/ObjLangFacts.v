(* Opt/ObjLangFacts.v — unfolding equations for the interpreter of Opt/ObjLang.v and the tactic `obj_run`, which executes a
   translated body symbolically, splitting on every condition it meets; the obligations of Tie/Tie_C03.v are closed by it, so they
   survive any rewrite of the C++ bodies that stays inside the little language and computes the same function *)
From Coq Require Import List Arith Bool ZArith.
From Coq Require Import Init.Byte.
From Nitro Require Import Base.Bytes Base.Res Opt.Token Opt.Decl Opt.ParserModel Opt.ObjLang.
Import ListNotations.
Local Open Scope list_scope.

Lemma exec_cons c x r s : exec c (x :: r) s = match exec1 c x s with ONormal s' => exec c r s' | o => o end.
Proof. reflexivity. Qed.
Lemma exec_nil c s : exec c [] s = ONormal s.
Proof. reflexivity. Qed.

Lemma seq_is_exec c : forall l s0,
  (fix seq (l : list stmt) (s : ostate) {struct l} : outcome :=
     match l with [] => ONormal s | x :: r => match exec1 c x s with ONormal s' => seq r s' | o => o end end) l s0
  = exec c l s0.
Proof. induction l as [|x r IH]; intros s0; [reflexivity|]. cbn [exec]. destruct (exec1 c x s0); auto. Qed.

Lemma exec1_if c b t e s :
  exec1 c (SIf b t e) s =
  match evalb c s b with XOk true => exec c t s | XOk false => exec c e s | XErr er => ORaise er | XStuck => OStuck end.
Proof. cbn [exec1]. rewrite !seq_is_exec. reflexivity. Qed.

Lemma each_gen_ext f g : (forall s, f s = g s) -> forall pieces s, each_gen f pieces s = each_gen g pieces s.
Proof.
  intros H. induction pieces as [|p r IH]; intros s; [reflexivity|].
  cbn [each_gen]. rewrite H. destruct (g (set_elem s p)); auto.
Qed.

Lemma exec1_for c sep body s :
  exec1 c (SForLines sep body) s = each_gen (exec c body) (getlines sep (q_envv s) [] false) s.
Proof. cbn [exec1]. apply each_gen_ext. intros s0. apply seq_is_exec. Qed.

(* the two loop bodies that push every piece and mark the object dirty *)
Definition pushed (s : ostate) (pieces : list str) : ostate :=
  {| q_val := q_val s; q_vec := q_vec s ++ pieces; q_given := q_given s;
     q_dirty := match pieces with [] => q_dirty s | _ => true end;
     q_envv := q_envv s; q_elem := last pieces (q_elem s) |}.

Lemma ostate_eta s : {| q_val := q_val s; q_vec := q_vec s; q_given := q_given s; q_dirty := q_dirty s; q_envv := q_envv s; q_elem := q_elem s |} = s.
Proof. destruct s; reflexivity. Qed.

Lemma last_cons_irrel {A} (x : A) : forall l d1 d2, last (x :: l) d1 = last (x :: l) d2.
Proof. intros l; revert x; induction l as [|y l IH]; intros x d1 d2; [reflexivity|]. cbn [last]. apply (IH y). Qed.

Lemma each_push_dirty_first c : forall pieces s,
  each_gen (exec c [SAssignDirty true; SVecPushElem]) pieces s = ONormal (pushed s pieces).
Proof.
  induction pieces as [|p r IH]; intros s.
  - cbn. unfold pushed. cbn. rewrite app_nil_r, ostate_eta. reflexivity.
  - cbn [each_gen]. cbn [exec exec1]. rewrite IH. unfold pushed. cbn. rewrite <- app_assoc. cbn.
    destruct r as [|y r]; [reflexivity|]. rewrite (last_cons_irrel y r p (q_elem s)). reflexivity.
Qed.

Lemma each_push_dirty_last c : forall pieces s,
  each_gen (exec c [SVecPushElem; SAssignDirty true]) pieces s = ONormal (pushed s pieces).
Proof.
  induction pieces as [|p r IH]; intros s.
  - cbn. unfold pushed. cbn. rewrite app_nil_r, ostate_eta. reflexivity.
  - cbn [each_gen]. cbn [exec exec1]. rewrite IH. unfold pushed. cbn. rewrite <- app_assoc. cbn.
    destruct r as [|y r]; [reflexivity|]. rewrite (last_cons_irrel y r p (q_elem s)). reflexivity.
Qed.

Lemma env_get_no_env c : has_env_b c = false -> env_get (x_getenv c) (x_env c) = [].
Proof. unfold has_env_b, env_get. destruct (x_env c) as [[|b n]|]; [reflexivity | discriminate | reflexivity]. Qed.

Lemma getlines_nonempty sep : forall s cur started, (started = true \/ s <> []) -> getlines sep s cur started <> [].
Proof.
  induction s as [|ch r IH]; intros cur started H; cbn.
  - destruct H as [->|H]; [discriminate | congruence].
  - destruct (beq ch sep); [discriminate|]. apply IH. left. reflexivity.
Qed.

Lemma getlines_of_nonempty sep ev : nonempty ev = true -> getlines sep ev [] false <> [].
Proof. intros H. apply getlines_nonempty. right. destruct ev; [discriminate H | discriminate]. Qed.

(* ---- symbolic execution ---- *)
Ltac obj_atom x :=
  lazymatch x with
  | negb ?y => obj_atom y
  | andb ?y _ => obj_atom y
  | orb ?y _ => obj_atom y
  | _ => x
  end.

Ltac obj_split :=
  match goal with
  | |- context [match ?x with _ => _ end] =>
      lazymatch x with
      | context [match _ with _ => _ end] => fail
      | _ => let a := obj_atom x in destruct a eqn:?
      end
  end.

Ltac obj_rew :=
  repeat match goal with
         | H : q_val _ = _ |- _ => rewrite H
         | H : q_vec _ = _ |- _ => rewrite H
         | H : q_dirty _ = _ |- _ => rewrite H
         | H : q_given _ = _ |- _ => rewrite H
         end.

Ltac obj_close :=
  first
    [ reflexivity
    | congruence
    | progress obj_rew; cbn; first [reflexivity | congruence]
    | exfalso; match goal with
        | Hn : nonempty ?ev = true, Hg : getlines ?sep ?ev [] false = [] |- _ => exact (getlines_of_nonempty sep ev Hn Hg)
        end
    | match goal with
      | He : has_env_b ?c = false |- _ => rewrite (env_get_no_env c He) in *; cbn in *; first [reflexivity | congruence]
      end ].

Ltac obj_step :=
  first
    [ rewrite exec_nil | rewrite exec_cons | rewrite exec1_if | rewrite exec1_for
    | rewrite each_push_dirty_first | rewrite each_push_dirty_last
    | progress cbn [exec1 evalb view of_res negb andb orb
                    ost_of mst_of tst_of odecl_of mdecl_of tdecl_of pushed
                    set_val set_vec set_given set_dirty set_envv set_elem
                    q_val q_vec q_given q_dirty q_envv q_elem
                    os_val os_dirty ms_val ms_dirty ts_given ts_dirty
                    o_name o_short o_env o_def o_opt m_name m_short m_env m_def m_opt t_name t_short t_env t_def t_rev
                    bind app]
    | progress unfold ost_of, mst_of, tst_of, pushed
    | obj_split ].

Ltac obj_run := repeat obj_step; try obj_close.

(* Opt/Refine5.v — the final check() pass computes the spec's assignment; the refinement theorem *)
From Coq Require Import List Arith Bool ZArith Lia.
From Coq Require Import Init.Byte.
From Nitro Require Import Base.Bytes Base.ListX Base.Res Opt.Token Opt.Decl Opt.ParserModel Opt.ParserCore Opt.ParserSpec
  Opt.RefineDefs Opt.Refine1 Opt.Refine2 Opt.Refine4.
Import ListNotations.
Local Open Scope list_scope.

(* ---------- errors of explain are user errors ---------- *)
Lemma explain_tok_err d a next e : explain_tok d a next = Err e -> e = UserError.
Proof.
  unfold explain_tok, explain_valued.
  repeat match goal with
         | |- context [match ?x with _ => _ end] => destruct x
         | |- context [if ?x then _ else _] => destruct x
         end; intros [= <-]; reflexivity.
Qed.
Lemma explain'_err d : forall args sd go skip e, explain' d sd go skip args = Err e -> e = UserError.
Proof.
  induction args as [|a rest IH]; intros sd go skip e; cbn [explain']; [destruct sd; discriminate|].
  destruct skip; [apply IH|].
  destruct sd.
  { destruct (explain' d true go false rest) as [[its tl]|e'] eqn:E; cbn [bind]; [discriminate|]. intros [= <-]. eapply IH; eauto. }
  destruct (go || is_value a).
  { destruct (explain' d false (go || d_greedy d) false rest) as [[its tl]|e'] eqn:E; cbn [bind]; [discriminate|]. intros [= <-]. eapply IH; eauto. }
  destruct (well_formed a); cbn [negb]; [|intros [= <-]; reflexivity].
  destruct (is_double_dash a); [apply IH|].
  destruct (explain_tok d a (hd_error rest)) as [[it c]|e'] eqn:Et; cbn [bind].
  - destruct (explain' d false go c rest) as [[its tl]|e''] eqn:E; cbn [bind]; [discriminate|]. intros [= <-]. eapply IH; eauto.
  - intros [= <-]. eapply explain_tok_err; eauto.
Qed.

(* ---------- the check() pass over states that come from items ---------- *)
Lemma map2r_mapi {A B V} (f : A -> B -> res B) (g : nat -> B) (F : nat -> A -> str * src V) (oF : src V -> B) (P : nat -> Prop) :
  (forall i a, P i -> f a (g i) = if src_bad (snd (F i a)) then Err UserError else Ok (oF (snd (F i a)))) ->
  forall l s, (forall i, s <= i < s + length l -> P i) ->
  map2r f l (map g (seq s (length l))) =
  if existsb (fun p => src_bad (snd p)) (mapi F s l) then Err UserError else Ok (map (fun p => oF (snd p)) (mapi F s l)).
Proof.
  intros H. induction l as [|a l IH]; intros s HP; [reflexivity|].
  cbn [length seq map map2r mapi existsb]. rewrite H by (apply HP; simpl; lia).
  destruct (src_bad (snd (F s a))); cbn [bind orb]; [reflexivity|].
  rewrite IH by (intros i Hi; apply HP; simpl; lia).
  destruct (existsb _ (mapi F (S s) l)); reflexivity.
Qed.

Definition o_of (s : src str) : ost := {| os_val := src_val s; os_dirty := src_provided s |}.
Definition m_of_src (s : src (list str)) : mst := {| ms_val := match src_val s with Some l => l | None => [] end; ms_dirty := src_provided s |}.
Definition t_of (s : src Z) : tst := {| ts_given := match src_val s with Some z => z | None => 0%Z end; ts_dirty := src_provided s |}.

Lemma check_opt_src e o its i :
  check_opt e o (state_o its i) =
  if src_bad (opt_source e o (opt_values i its)) then Err UserError else Ok (o_of (opt_source e o (opt_values i its))).
Proof.
  unfold check_opt, state_o, opt_source. cbn [os_val os_dirty].
  destruct (opt_values i its) as [|v l]; cbn [hd_error nonempty_l]; [|reflexivity].
  destruct (nonempty (env_get e (o_env o))); [reflexivity|].
  destruct (o_def o); [reflexivity|]. destruct (o_opt o); reflexivity.
Qed.

Lemma check_multi_src e o its i :
  check_multi e o (state_m its i) =
  if src_bad (multi_source e o (multi_values i its)) then Err UserError else Ok (m_of_src (multi_source e o (multi_values i its))).
Proof.
  unfold check_multi, state_m, multi_source. cbn [ms_val ms_dirty].
  destruct (multi_values i its) as [|v l]; cbn [nonempty_l]; [|reflexivity].
  destruct (nonempty (env_get e (m_env o))); [reflexivity|].
  destruct (m_def o); [reflexivity|]. destruct (m_opt o); reflexivity.
Qed.

Lemma check_toggle_src tr fa e t its j :
  ((0 <? occurrences j its) && (0 <? negations j its) = false) ->
  check_toggle tr fa e t (state_t its j) =
  if src_bad (toggle_source tr fa e t (occurrences j its) (negations j its)) then Err UserError
  else Ok (t_of (toggle_source tr fa e t (occurrences j its) (negations j its))).
Proof.
  intros Hs. unfold check_toggle, state_t, toggle_source. cbn [ts_dirty ts_given].
  destruct (occurrences j its) as [|o]; destruct (negations j its) as [|n]; try discriminate; simpl; try reflexivity.
  destruct (nonempty (env_get e (t_env t))); [|reflexivity].
  destruct (parse_env_word tr fa (env_get e (t_env t))) as [[|]|]; reflexivity.
Qed.

(* ---------- reading the result off the sources ---------- *)
Lemma mapi_names {A V} (nm : A -> str) (S : nat -> A -> src V) : forall l s,
  map fst (mapi (fun i o => (nm o, S i o)) s l) = map nm l.
Proof. induction l as [|a l IH]; intros s; [reflexivity|]. cbn [mapi map fst]. f_equal. apply IH. Qed.

Lemma combine_names_vals {A V W} (nm : A -> str) (S : nat -> A -> src V) (val : src V -> W) : forall l s,
  combine (map nm l) (map (fun p => val (snd p)) (mapi (fun i o => (nm o, S i o)) s l)) =
  map (fun p => (fst p, val (snd p))) (mapi (fun i o => (nm o, S i o)) s l).
Proof. induction l as [|a l IH]; intros s; [reflexivity|]. cbn [mapi map combine fst snd]. f_equal. apply IH. Qed.

Lemma provided_of {A V St} (nm : A -> str) (S : nat -> A -> src V) (oF : src V -> St) (dirty : St -> bool) :
  (forall x, dirty (oF x) = src_provided x) -> forall l s,
  provided_names nm dirty l (map (fun p => oF (snd p)) (mapi (fun i o => (nm o, S i o)) s l)) =
  map fst (filter (fun p => src_provided (snd p)) (mapi (fun i o => (nm o, S i o)) s l)).
Proof.
  intros Hd. unfold provided_names. induction l as [|a l IH]; intros s; [reflexivity|].
  cbn [mapi map combine filter fst snd]. rewrite Hd.
  destruct (src_provided (S s a)); cbn [map fst]; [f_equal|]; apply IH.
Qed.

(* ---------- hypotheses on the declaration ---------- *)
From Nitro Require Opt.Lexical Opt.Refine3 Opt.CoreEq Opt.History.

Lemma no_clash_weak d : no_clash d = true -> no_prefix_clash d = true.
Proof.
  unfold no_clash, no_prefix_clash. rewrite !forallb_forall. intros H t Ht. rewrite (H t Ht). apply orb_true_r.
Qed.

Lemma tog_hyps_of d : wf_decl d = true -> consistent d = true -> no_clash d = true -> tog_hyps d.
Proof.
  intros W C K. unfold wf_decl in W. apply andb_true_iff in W as [W Wnd]. 
  unfold consistent in C. apply negb_true_iff in C.
  unfold all_names in Wnd. apply Lexical.nodupb_app in Wnd as (N1 & N23 & X1). apply Lexical.nodupb_app in N23 as (N2 & N3 & X2).
  unfold all_shorts in C. apply Lexical.dup_short_app in C as (S1 & S23 & Y1). apply Lexical.dup_short_app in S23 as (S2 & S3 & Y2).
  constructor; [exact S3 | exact N3 |].
  intros t t' Ht Ht' E. unfold no_clash in K. rewrite forallb_forall in K. specialize (K t Ht).
  apply negb_true_iff in K. apply Lexical.existsb_seq_eqb_false in K. apply K.
  rewrite <- E. unfold all_names. rewrite !in_app_iff. right. right. apply in_map. exact Ht'.
Qed.

(* ---------- the refinement theorem ---------- *)
Section Final.
Variable tr fa : list str.

Lemma state_of_toggles_length d pre : length (p_t (state_of d pre)) = length (d_toggles d).
Proof. unfold state_of. cbn [p_t]. rewrite map_length, seq_length. reflexivity. Qed.

Lemma final_checks d e its tl :
  wf_items d its tl = true ->
  (match map2r (check_opt e) (d_opts d) (p_o (state_of d its)) with
   | Err er => Err er
   | Ok os =>
     match map2r (check_multi e) (d_multis d) (p_m (state_of d its)) with
     | Err er => Err er
     | Ok ms =>
       match map2r (check_toggle tr fa e) (d_toggles d) (p_t (state_of d its)) with
       | Err er => Err er
       | Ok ts =>
           Ok {| r_opts := combine (map o_name (d_opts d)) (map os_val os);
                 r_multis := combine (map m_name (d_multis d)) (map ms_val ms);
                 r_toggles := combine (map t_name (d_toggles d)) (map ts_given ts);
                 r_pos := inline_pos its ++ tail_list tl;
                 r_provided := provided_names o_name os_dirty (d_opts d) os
                               ++ provided_names m_name ms_dirty (d_multis d) ms
                               ++ provided_names t_name ts_dirty (d_toggles d) ts |}
       end
     end
   end) = assignment tr fa d e its tl.
Proof.
  intros Wf. unfold state_of. cbn [p_o p_m p_t]. unfold assignment.
  set (os := mapi (fun i o => (o_name o, opt_source e o (opt_values i its))) 0 (d_opts d)).
  set (ms := mapi (fun i o => (m_name o, multi_source e o (multi_values i its))) 0 (d_multis d)).
  set (ts := mapi (fun i t => (t_name t, toggle_source tr fa e t (occurrences i its) (negations i its))) 0 (d_toggles d)).
  rewrite (map2r_mapi (check_opt e) (state_o its) (fun i o => (o_name o, opt_source e o (opt_values i its))) o_of (fun _ => True)
             (fun i a _ => check_opt_src e a its i) (d_opts d) 0 (fun _ _ => I)).
  fold os. destruct (existsb (fun p => src_bad (snd p)) os); cbn [orb]; [reflexivity|].
  rewrite (map2r_mapi (check_multi e) (state_m its) (fun i o => (m_name o, multi_source e o (multi_values i its))) m_of_src (fun _ => True)
             (fun i a _ => check_multi_src e a its i) (d_multis d) 0 (fun _ _ => I)).
  fold ms. destruct (existsb (fun p => src_bad (snd p)) ms); cbn [orb]; [reflexivity|].
  rewrite (map2r_mapi (check_toggle tr fa e) (state_t its)
             (fun i t => (t_name t, toggle_source tr fa e t (occurrences i its) (negations i its))) t_of
             (fun j => (0 <? occurrences j its) && (0 <? negations j its) = false)
             (fun i a Hi => check_toggle_src tr fa e a its i Hi) (d_toggles d) 0).
  2:{ intros j Hj. unfold wf_items in Wf. repeat (apply andb_true_iff in Wf as [Wf ?]).
      match goal with H : forallb (fun t => negb _) _ = true |- _ => rewrite forallb_forall in H; specialize (H j) end.
      match goal with H : In j _ -> _ |- _ => apply negb_true_iff; apply H; apply in_seq; simpl in Hj; lia end. }
  fold ts. destruct (existsb (fun p => src_bad (snd p)) ts); [reflexivity|].
  f_equal. f_equal.
  - rewrite map_map. apply (combine_names_vals o_name _ src_val).
  - rewrite map_map. apply (combine_names_vals m_name _ (fun s => match src_val s with Some l => l | None => [] end)).
  - rewrite map_map. apply (combine_names_vals t_name _ (fun s => match src_val s with Some z => z | None => 0%Z end)).
  - f_equal; [|f_equal].
    + apply (provided_of o_name _ o_of os_dirty). reflexivity.
    + apply (provided_of m_name _ m_of_src ms_dirty). reflexivity.
    + apply (provided_of t_name _ t_of ts_dirty). reflexivity.
Qed.

Theorem parse_c_refines d e st args :
  wf_decl d = true -> no_clash d = true -> aligned d st ->
  snd (parse_c tr fa d e st args) = spec_parse tr fa d e args.
Proof.
  intros W K Al. unfold parse_c, spec_parse.
  destruct (consistent d) eqn:C; cbn [negb]; [|reflexivity].
  rewrite (History.prepare_aligned d st Al), init_state_of.
  pose proof (loop_explain d (tog_hyps_of d W C K) args (state_of d []) false false false []
                (state_of_toggles_length d []) ltac:(unfold pos_inv; destruct (d_allowed d); simpl; [lia | exact I])) as HL.
  cbn [orb] in HL. unfold rhs in HL.
  rewrite Refine3.explain_explain'.
  destruct (explain' d false false false args) as [[its tl]|e0] eqn:Ex.
  2:{ rewrite (explain'_err _ _ _ _ _ _ Ex).
      destruct (loop d (state_of d []) false [] false args) as [[st1 pos]|er] eqn:EL; [contradiction|].
      cbn [snd]. f_equal. destruct er; [reflexivity|]. exfalso. exact (CoreEq.loop_never_dev _ _ _ _ _ _ EL). }
  rewrite (run_items_state d its [] (Refine3.explain'_valid _ _ _ _ _ _ _ Ex)) in HL. cbn [app] in HL.
  rewrite (Refine3.wf_items_explained d args its tl Ex).
  destruct (items_sem d [] its) eqn:Sem; cbn [andb].
  2:{ destruct (loop d (state_of d []) false [] false args) as [[st1 pos]|er] eqn:EL; [contradiction|].
      cbn [snd]. f_equal. destruct er; [reflexivity|]. exfalso. exact (CoreEq.loop_never_dev _ _ _ _ _ _ EL). }
  destruct (limit_ok d 0 its tl) eqn:Lim.
  2:{ cbn [length] in HL. rewrite Lim in HL.
      destruct (loop d (state_of d []) false [] false args) as [[st1 pos]|er] eqn:EL; [contradiction|].
      cbn [snd]. f_equal. destruct er; [reflexivity|]. exfalso. exact (CoreEq.loop_never_dev _ _ _ _ _ _ EL). }
  cbn [length] in HL. rewrite Lim in HL.
  destruct (loop d (state_of d []) false [] false args) as [[st1 pos]|er] eqn:EL; [|contradiction].
  injection HL as -> ->. cbn [app].
  assert (Wf : wf_items d its tl = true) by (rewrite (Refine3.wf_items_explained d args its tl Ex), Sem, Lim; reflexivity).
  pose proof (final_checks d e its tl Wf) as FC.
  destruct (map2r (check_opt e) (d_opts d) (p_o (state_of d its))) as [os|er]; [|exact FC].
  destruct (map2r (check_multi e) (d_multis d) (p_m (state_of d its))) as [ms|er]; [|exact FC].
  destruct (map2r (check_toggle tr fa e) (d_toggles d) (p_t (state_of d its))) as [ts|er]; exact FC.
Qed.

(* the model as extracted (with the accessor guards) *)
Theorem parse_refines d e st args :
  wf_decl d = true -> no_clash d = true -> aligned d st ->
  snd (parse_g tr fa d e st args) = spec_parse tr fa d e args.
Proof. intros. rewrite CoreEq.parse_g_eq. apply parse_c_refines; assumption. Qed.
End Final.

Print Assumptions parse_refines.

(* Opt/Decl.v — what a parser declares, the run-time state kept in the option objects, and a parse result. *)
From Coq Require Import List Arith Bool ZArith.
From Coq Require Import Init.Byte.
From Nitro Require Import Base.Bytes Base.Res.
Import ListNotations.
Local Open Scope list_scope.

(* the three lists are in std::map order (sorted by name): that is the order in which the parser consults them *)
Record odecl := { o_name : str; o_short : option byte; o_env : option str; o_def : option str; o_opt : bool }.
Record mdecl := { m_name : str; m_short : option byte; m_env : option str; m_def : option (list str); m_opt : bool }.
Record tdecl := { t_name : str; t_short : option byte; t_env : option str; t_def : Z; t_rev : bool }.
Record decl := { d_opts : list odecl; d_multis : list mdecl; d_toggles : list tdecl;
                 d_allowed : option nat (* None = unlimited *); d_greedy : bool }.

(* value_/given_ and dirty_ of each option object, positionally aligned with the declaration lists *)
Record ost := { os_val : option str; os_dirty : bool }.
Record mst := { ms_val : list str; ms_dirty : bool }.
Record tst := { ts_given : Z; ts_dirty : bool }.
Record pst := { p_o : list ost; p_m : list mst; p_t : list tst }.

Definition fresh_o : ost := {| os_val := None; os_dirty := false |}.
Definition fresh_m : mst := {| ms_val := []; ms_dirty := false |}.
Definition fresh_t : tst := {| ts_given := 0%Z; ts_dirty := false |}.
Definition init_st (d : decl) : pst :=
  {| p_o := map (fun _ => fresh_o) (d_opts d); p_m := map (fun _ => fresh_m) (d_multis d); p_t := map (fun _ => fresh_t) (d_toggles d) |}.
Definition aligned (d : decl) (st : pst) : Prop :=
  length (p_o st) = length (d_opts d) /\ length (p_m st) = length (d_multis d) /\ length (p_t st) = length (d_toggles d).

(* the process environment: name -> value if set *)
Definition env_t := str -> option str.
(* nitro::env::get(name, "") for an option bound to `name`; an unbound option reads nothing *)
Definition env_get (e : env_t) (name : option str) : str :=
  match name with
  | Some (c :: n) => match e (c :: n) with Some v => v | None => [] end
  | _ => []     (* has_env() is false for an empty env name *)
  end.

(* what the arguments object reports: per declared name, in declaration-list order *)
Record result := { r_opts : list (str * option str); r_multis : list (str * list str); r_toggles : list (str * Z);
                   r_pos : list str; r_provided : list str }.

(* arguments::get(int i): negative indices count from the end; at() raises outside [0, n) *)
Definition arg_get (pos : list str) (i : Z) : option str :=
  let j := if (i <? 0)%Z then (i + Z.of_nat (length pos))%Z else i in
  if (j <? 0)%Z then None (* converts to a huge size_t *) else nth_error pos (Z.to_nat j).

(* Opt/ParserSpec.v — what a command line MEANS, without any parser state: a command line is the rendering of a
   list of items; its meaning is the obvious aggregate of those items (C01-C04, C11, C12). *)
From Coq Require Import List Arith Bool ZArith.
From Coq Require Import Init.Byte.
From Nitro Require Import Base.Bytes Base.ListX Base.Res Opt.Token Opt.Decl Opt.ParserModel Opt.ParserCore.
Import ListNotations.
Local Open Scope list_scope.

Inductive oform := LongSp | LongEq | ShortSp | ShortEq.   (* --name v | --name=v | -c v | -c=v *)
Inductive item :=
| ItOpt (i : nat) (f : oform) (v : str)      (* i-th single-valued option *)
| ItMulti (i : nat) (f : oform) (v : str)    (* i-th multi-option *)
| ItBundle (ts : list nat)                   (* "-abc": indices of toggles, each must have a letter *)
| ItLong (t : nat)                           (* "--name" of the t-th toggle *)
| ItNo (t : nat)                             (* "--no-name" *)
| ItPos (v : str).                           (* an inline positional *)

(* ---------- the spelling ---------- *)
Definition dd : str := [dash; dash].
Definition render_valued (name : str) (short : option byte) (f : oform) (v : str) : list str :=
  match f, short with
  | LongSp, _ => [dd ++ name; v]
  | LongEq, _ => [dd ++ name ++ [eqc] ++ v]
  | ShortSp, Some c => [[dash; c]; v]
  | ShortEq, Some c => [[dash; c; eqc] ++ v]
  | _, None => []   (* excluded by wf_items *)
  end.
Definition letter_of (d : decl) (t : nat) : byte :=
  match nth_error (d_toggles d) t with Some td => match t_short td with Some c => c | None => dash end | None => dash end.
Definition render_item (d : decl) (it : item) : list str :=
  match it with
  | ItOpt i f v => match nth_error (d_opts d) i with Some o => render_valued (o_name o) (o_short o) f v | None => [] end
  | ItMulti i f v => match nth_error (d_multis d) i with Some o => render_valued (m_name o) (m_short o) f v | None => [] end
  | ItBundle ts => [dash :: map (letter_of d) ts]
  | ItLong t => match nth_error (d_toggles d) t with Some td => [dd ++ t_name td] | None => [] end
  | ItNo t => match nth_error (d_toggles d) t with Some td => [no_prefix ++ t_name td] | None => [] end
  | ItPos v => [v]
  end.
(* tail = Some ps : the line ends with "--" followed by ps *)
Definition render (d : decl) (items : list item) (tail : option (list str)) : list str :=
  concat (map (render_item d) items) ++ match tail with Some ps => dd :: ps | None => [] end.

(* ---------- the meaning ---------- *)
Definition opt_values (i : nat) (items : list item) : list str :=
  concat (map (fun it => match it with ItOpt j _ v => if j =? i then [v] else [] | _ => [] end) items).
Definition multi_values (i : nat) (items : list item) : list str :=
  concat (map (fun it => match it with ItMulti j _ v => if j =? i then [v] else [] | _ => [] end) items).
Definition occurrences (t : nat) (items : list item) : nat :=
  list_sum (map (fun it => match it with
                           | ItBundle ts => length (filter (Nat.eqb t) ts)
                           | ItLong u => if u =? t then 1 else 0
                           | _ => 0 end) items).
Definition negations (t : nat) (items : list item) : nat :=
  list_sum (map (fun it => match it with ItNo u => if u =? t then 1 else 0 | _ => 0 end) items).
Definition inline_pos (items : list item) : list str :=
  concat (map (fun it => match it with ItPos v => [v] | _ => [] end) items).

Inductive src (A : Type) := FromCmd (a : A) | FromEnv (a : A) | FromDefault (a : A) | Absent | Missing | BadEnv.
Arguments FromCmd {A}. Arguments FromEnv {A}. Arguments FromDefault {A}. Arguments Absent {A}. Arguments Missing {A}. Arguments BadEnv {A}.
Definition src_val {A} (s : src A) : option A := match s with FromCmd a | FromEnv a | FromDefault a => Some a | _ => None end.
Definition src_provided {A} (s : src A) : bool := match s with FromCmd _ | FromEnv _ => true | _ => false end.
Definition src_bad {A} (s : src A) : bool := match s with Missing | BadEnv => true | _ => false end.

Fixpoint mapi {A B} (f : nat -> A -> B) (n : nat) (l : list A) : list B :=
  match l with [] => [] | x :: r => f n x :: mapi f (S n) r end.

Section V.
Variable truthy falsy : list str.

(* C03: command line, then bound non-empty environment variable, then default *)
Definition opt_source (e : env_t) (o : odecl) (given : list str) : src str :=
  match given with
  | v :: _ => FromCmd v
  | [] => let ev := env_get e (o_env o) in
          if nonempty ev then FromEnv ev
          else match o_def o with Some dv => FromDefault dv | None => if o_opt o then Absent else Missing end
  end.
Definition multi_source (e : env_t) (o : mdecl) (given : list str) : src (list str) :=
  match given with
  | _ :: _ => FromCmd given
  | [] => let ev := env_get e (m_env o) in
          if nonempty ev then FromEnv (getlines ";"%byte ev [] false)
          else match m_def o with Some dv => FromDefault dv | None => if m_opt o then Absent else Missing end
  end.
(* C11 *)
Definition toggle_source (e : env_t) (t : tdecl) (occ neg : nat) : src Z :=
  if 0 <? occ then FromCmd (Z.of_nat occ)
  else if 0 <? neg then FromCmd 0%Z
  else let ev := env_get e (t_env t) in
       if nonempty ev then match parse_env_word truthy falsy ev with Some true => FromEnv 1%Z | Some false => FromEnv 0%Z | None => BadEnv end
       else FromDefault (t_def t).

Definition assignment (d : decl) (e : env_t) (items : list item) (tail : option (list str)) : res result :=
  let os := mapi (fun i o => (o_name o, opt_source e o (opt_values i items))) 0 (d_opts d) in
  let ms := mapi (fun i o => (m_name o, multi_source e o (multi_values i items))) 0 (d_multis d) in
  let ts := mapi (fun i t => (t_name t, toggle_source e t (occurrences i items) (negations i items))) 0 (d_toggles d) in
  if existsb (fun p => src_bad (snd p)) os || existsb (fun p => src_bad (snd p)) ms || existsb (fun p => src_bad (snd p)) ts
  then Err UserError
  else Ok {| r_opts := map (fun p => (fst p, src_val (snd p))) os;
             r_multis := map (fun p => (fst p, match src_val (snd p) with Some l => l | None => [] end)) ms;
             r_toggles := map (fun p => (fst p, match src_val (snd p) with Some z => z | None => 0%Z end)) ts;
             r_pos := inline_pos items ++ match tail with Some ps => ps | None => [] end;
             r_provided := map fst (filter (fun p => src_provided (snd p)) os)
                           ++ map fst (filter (fun p => src_provided (snd p)) ms)
                           ++ map fst (filter (fun p => src_provided (snd p)) ts) |}.

(* ---------- which item lists are legal spellings ---------- *)
Definition form_ok (short : option byte) (f : oform) (v : str) : bool :=
  match f with
  | LongSp => is_value v
  | LongEq => true
  | ShortSp => match short with Some _ => is_value v | None => false end
  | ShortEq => match short with Some _ => true | None => false end
  end.
Definition item_ok (d : decl) (it : item) : bool :=
  match it with
  | ItOpt i f v => match nth_error (d_opts d) i with Some o => form_ok (o_short o) f v | None => false end
  | ItMulti i f v => match nth_error (d_multis d) i with Some o => form_ok (m_short o) f v | None => false end
  | ItBundle ts => negb (Nat.eqb (length ts) 0) &&
                   forallb (fun t => match nth_error (d_toggles d) t with Some td => has_short (t_short td) | None => false end) ts
  | ItLong t => match nth_error (d_toggles d) t with Some _ => true | None => false end
  | ItNo t => match nth_error (d_toggles d) t with Some td => t_rev td | None => false end
  | ItPos v => true   (* refined by pos_ok *)
  end.
Fixpoint pos_ok (d : decl) (seen : bool) (items : list item) : bool :=
  match items with
  | [] => true
  | ItPos v :: r => (is_value v || (d_greedy d && seen)) && pos_ok d true r
  | _ :: r => pos_ok d seen r
  end.
Fixpoint greedy_shape (items : list item) : bool :=   (* after the first positional only positionals *)
  match items with
  | [] => true
  | ItPos _ :: r => forallb (fun it => match it with ItPos _ => true | _ => false end) r
  | _ :: r => greedy_shape r
  end.
Definition n_tail (tail : option (list str)) : nat := match tail with Some ps => length ps | None => 0 end.
Definition wf_items (d : decl) (items : list item) (tail : option (list str)) : bool :=
  forallb (item_ok d) items && pos_ok d false items
  && forallb (fun i => length (opt_values i items) <=? 1) (seq 0 (length (d_opts d)))
  && forallb (fun t => negb ((0 <? occurrences t items) && (0 <? negations t items))) (seq 0 (length (d_toggles d)))
  && match d_allowed d with Some k => length (inline_pos items) + n_tail tail <=? k | None => true end
  && (negb (d_greedy d) || (greedy_shape items && match inline_pos items, tail with _ :: _, Some _ => false | _, _ => true end)).

(* ---------- explain: the executable inverse of render (witness producer and oracle) ---------- *)
Definition form_of (a : str) (eq : bool) : oform :=
  if is_short a then (if eq then ShortEq else ShortSp) else (if eq then LongEq else LongSp).
Definition toggle_by_letter (d : decl) (c : byte) : option nat :=
  find_idx (fun t => match t_short t with Some c' => beq c c' | None => false end) (d_toggles d).
Fixpoint all_some {A} (l : list (option A)) : option (list A) :=
  match l with [] => Some [] | Some x :: r => option_map (cons x) (all_some r) | None :: _ => None end.

Definition explain_valued (mk : oform -> str -> item) (a : str) (next : option str) : res (item * bool) :=
  if bundled a then Err UserError
  else if has_value a then Ok (mk (form_of a true) (value_part a), false)
  else match next with
       | Some n => if is_value n then Ok (mk (form_of a false) n, true) else Err UserError
       | None => Err UserError
       end.
Definition explain_tok (d : decl) (a : str) (next : option str) : res (item * bool) :=
  match find_idx (fun o => base_matches (o_name o) (o_short o) a) (d_opts d) with
  | Some i => explain_valued (ItOpt i) a next
  | None =>
  match find_idx (fun o => base_matches (m_name o) (m_short o) a) (d_multis d) with
  | Some i => explain_valued (ItMulti i) a next
  | None =>
    if has_value a then Err UserError
    else if is_short a then
      match all_some (map (toggle_by_letter d) (letters a)) with
      | Some ts => Ok (ItBundle ts, false)
      | None => Err UserError
      end
    else if is_named a then
      match find_idx (fun t => seq_eqb (named_part a) (t_name t)) (d_toggles d) with
      | Some t => Ok (ItLong t, false)
      | None => if has_prefix a then
                  match find_idx (fun t => seq_eqb (unprefixed a) (t_name t)) (d_toggles d) with
                  | Some t => Ok (ItNo t, false)
                  | None => Err UserError
                  end
                else Err UserError
      end
    else Err UserError
  end end.

Fixpoint explain (d : decl) (seen_dd greedy_on skip : bool) (acc : list item) (tl_acc : list str) (args : list str)
  : res (list item * option (list str)) :=
  match args with
  | [] => Ok (rev acc, if seen_dd then Some (rev tl_acc) else None)
  | a :: rest =>
    if skip then explain d seen_dd greedy_on false acc tl_acc rest
    else if seen_dd then explain d true greedy_on false acc (a :: tl_acc) rest
    else if greedy_on || is_value a then explain d false (greedy_on || d_greedy d) false (ItPos a :: acc) tl_acc rest
    else if negb (well_formed a) then Err UserError
    else if is_double_dash a then explain d true greedy_on false acc tl_acc rest
    else match explain_tok d a (hd_error rest) with
         | Err e => Err e
         | Ok (it, consumed) => explain d false greedy_on consumed (it :: acc) tl_acc rest
         end
  end.

Definition spec_parse (d : decl) (e : env_t) (args : list str) : res result :=
  if negb (consistent d) then Err DevError else
  match explain d false false false [] [] args with
  | Err er => Err er
  | Ok (items, tail) => if wf_items d items tail then assignment d e items tail else Err UserError
  end.
End V.

(* ---------- correctly declared parsers ---------- *)
Definition name_ok (n : str) : bool :=
  nonempty n && negb (existsb (beq eqc) n) && match n with c :: _ => negb (beq c dash) | [] => false end.
Definition short_ok (s : option byte) : bool := match s with Some c => negb (beq c dash) && negb (beq c eqc) | None => true end.
Fixpoint nodupb (l : list str) : bool := match l with [] => true | x :: r => negb (existsb (seq_eqb x) r) && nodupb r end.
Definition all_names (d : decl) : list str := map o_name (d_opts d) ++ map m_name (d_multis d) ++ map t_name (d_toggles d).
Definition wf_decl (d : decl) : bool :=
  forallb name_ok (all_names d) && forallb short_ok (all_shorts d) && nodupb (all_names d).
(* known finding K1: a reversible toggle `foo` declared together with something called `no-foo` *)
Definition no_prefix_clash (d : decl) : bool :=
  forallb (fun t => negb (t_rev t) || negb (existsb (seq_eqb (skipn 2 no_prefix ++ t_name t)) (all_names d))) (d_toggles d).

(* the hypothesis under which the theorems are stated: no toggle `foo` (reversible or not) next to anything called `no-foo`
   (a non-reversible `foo` still claims the token --no-foo, only to reject it) *)
Definition no_clash (d : decl) : bool :=
  forallb (fun t => negb (existsb (seq_eqb (skipn 2 no_prefix ++ t_name t)) (all_names d))) (d_toggles d).

(* Opt/ParserCore.v — the same parser as Opt/ParserModel.v with the accessor guards resolved: every guarded
   accessor is called under its own guard in the C++, so the DevError branches are dead (proved in
   Opt/CoreEq.v: parse_g = parse_c).  The refinement proofs work on this form. *)
From Coq Require Import List Arith Bool ZArith.
From Coq Require Import Init.Byte.
From Nitro Require Import Base.Bytes Base.ListX Base.Res Opt.Token Opt.Decl Opt.ParserModel.
Import ListNotations.
Local Open Scope list_scope.

Definition base_matches (name : str) (short : option byte) (a : str) : bool :=
  if negb (is_argument a) then false
  else if has_short short && is_short a then
    if (1 <? length (letters a)) && has_value a then false else 0 <? count_short short (letters a)
  else if is_named a then seq_eqb (named_part a) name
  else false.

Definition is_reversal (t : tdecl) (a : str) : bool := has_prefix a && seq_eqb (unprefixed a) (t_name t).
Definition toggle_matches (t : tdecl) (a : str) : bool :=
  is_reversal t a || base_matches (t_name t) (t_short t) a.

Definition opt_update (s : ost) (a : str) : res ost :=
  match os_val s with Some _ => Err UserError | None => Ok {| os_val := Some (value_part a); os_dirty := true |} end.
Definition multi_update (s : mst) (a : str) : res mst :=
  Ok {| ms_val := ms_val s ++ [value_part a]; ms_dirty := true |}.
Definition toggle_update (t : tdecl) (s : tst) (a : str) : res tst :=
  if has_value a then Err UserError
  else if is_reversal t a then
    if negb (t_rev t) then Err UserError
    else if ts_dirty s && negb (ts_given s =? 0)%Z then Err UserError
    else Ok {| ts_given := 0; ts_dirty := true |}
  else
    if ts_dirty s && (ts_given s =? 0)%Z then Err UserError
    else Ok {| ts_given := (ts_given s + (if is_short a then Z.of_nat (count_short (t_short t) (letters a)) else 1))%Z;
               ts_dirty := true |}.

Definition bundled (a : str) : bool := is_short a && (1 <? length (letters a)).

Definition option_value_token (a : str) (next : option str) : res (str * bool) :=
  if bundled a then Err UserError
  else if has_value a then Ok (a, false)
  else match next with
       | Some n => if is_value n then Ok (n, true) else Err UserError
       | None => Err UserError
       end.

Definition try_option (d : decl) (st : pst) (a : str) (next : option str) : res (option (pst * bool)) :=
  match find_idx (fun o => base_matches (o_name o) (o_short o) a) (d_opts d) with
  | None => Ok None
  | Some i =>
    do (tok, consumed) <- option_value_token a next;
    do os <- upd_res (p_o st) i (fun s => opt_update s tok);
    Ok (Some ({| p_o := os; p_m := p_m st; p_t := p_t st |}, consumed))
  end.
Definition try_multi (d : decl) (st : pst) (a : str) (next : option str) : res (option (pst * bool)) :=
  match find_idx (fun o => base_matches (m_name o) (m_short o) a) (d_multis d) with
  | None => Ok None
  | Some i =>
    do (tok, consumed) <- option_value_token a next;
    do ms <- upd_res (p_m st) i (fun s => multi_update s tok);
    Ok (Some ({| p_o := p_o st; p_m := ms; p_t := p_t st |}, consumed))
  end.

Fixpoint toggles_pass (ts : list tdecl) (ss : list tst) (a : str) : res (list tst * nat * bool) :=
  match ts, ss with
  | t :: ts', s :: ss' =>
    if toggle_matches t a then
      do s' <- toggle_update t s a;
      do (r, n, _) <- toggles_pass ts' ss' a;
      Ok (s' :: r, (if is_short a then count_short (t_short t) (letters a) else 0) + n, true)
    else
      do (r, n, m') <- toggles_pass ts' ss' a;
      Ok (s :: r, n, m')
  | _, _ => Ok ([], 0, false)
  end.
Definition try_toggle (d : decl) (st : pst) (a : str) : res (option pst) :=
  do (ts', n, m) <- toggles_pass (d_toggles d) (p_t st) a;
  if m && is_short a && negb (n =? length (letters a)) then Err UserError
  else if m then Ok (Some {| p_o := p_o st; p_m := p_m st; p_t := ts' |}) else Ok None.

Fixpoint loop (d : decl) (st : pst) (only_pos : bool) (pos : list str) (skip : bool) (args : list str) {struct args}
  : res (pst * list str) :=
  match args with
  | [] => Ok (st, pos)
  | a :: rest =>
    if skip then loop d st only_pos pos false rest
    else if only_pos || is_value a then
      if full d (length pos) then Err UserError
      else loop d st (only_pos || d_greedy d) (pos ++ [a]) false rest
    else if negb (well_formed a) then Err UserError
    else if is_double_dash a then loop d st true pos false rest
    else
      let next := hd_error rest in
      do r1 <- try_option d st a next;
      match r1 with
      | Some (st', consumed) => loop d st' only_pos pos consumed rest
      | None =>
        do r2 <- try_multi d st a next;
        match r2 with
        | Some (st', consumed) => loop d st' only_pos pos consumed rest
        | None =>
          do r3 <- try_toggle d st a;
          match r3 with
          | Some st' => loop d st' only_pos pos false rest
          | None => Err UserError
          end
        end
      end
  end.

Section Vocab.
Variable truthy falsy : list str.
Definition parse_c (d : decl) (e : env_t) (st0 : pst) (args : list str) : pst * res result :=
  if negb (consistent d) then (st0, Err DevError) else
  let st := prepare st0 in
  match loop d st false [] false args with
  | Err er => (st, Err er)
  | Ok (st1, pos) =>
    match map2r (check_opt e) (d_opts d) (p_o st1) with
    | Err er => (st1, Err er)
    | Ok os =>
      match map2r (check_multi e) (d_multis d) (p_m st1) with
      | Err er => (st1, Err er)
      | Ok ms =>
        match map2r (check_toggle truthy falsy e) (d_toggles d) (p_t st1) with
        | Err er => (st1, Err er)
        | Ok ts =>
          ({| p_o := os; p_m := ms; p_t := ts |},
           Ok {| r_opts := combine (map o_name (d_opts d)) (map os_val os);
                 r_multis := combine (map m_name (d_multis d)) (map ms_val ms);
                 r_toggles := combine (map t_name (d_toggles d)) (map ts_given ts);
                 r_pos := pos;
                 r_provided := provided_names o_name os_dirty (d_opts d) os
                               ++ provided_names m_name ms_dirty (d_multis d) ms
                               ++ provided_names t_name ts_dirty (d_toggles d) ts |})
        end
      end
    end
  end.
End Vocab.

(* Opt/VocabTie.v — what the translator gen/tr_vocab.py emits (clauses of toggle::parse_env_value) and when such a
   table computes the documented vocabulary *)
From Coq Require Import List Bool.
From Coq Require Import Init.Byte.
From Nitro Require Import Base.Bytes Opt.ParserModel.
Import ListNotations.

Inductive fall := FRaiseUser | FOther | FUnknown.

(* sequential `if (env_value == w) return b;` *)
Fixpoint eval_clauses (cl : list (str * bool)) (w : str) : option bool :=
  match cl with
  | [] => None
  | (x, b) :: r => if seq_eqb w x then Some b else eval_clauses r w
  end.

Definition table_ok (cl : list (str * bool)) (tr fa : list str) : bool :=
  forallb (fun p => match parse_env_word tr fa (fst p), snd p with Some true, true | Some false, false => true | _, _ => false end) cl
  && forallb (fun w => existsb (fun p => seq_eqb w (fst p)) cl) (tr ++ fa).

Lemma eval_clauses_some cl w b : eval_clauses cl w = Some b -> In (w, b) cl.
Proof.
  induction cl as [|[x c] r IH]; simpl; [discriminate|].
  destruct (seq_eqb w x) eqn:E; [|auto]. apply seq_eqb_true in E. subst. intros [= ->]. auto.
Qed.
Lemma eval_clauses_none cl w : eval_clauses cl w = None -> existsb (fun p => seq_eqb w (fst p)) cl = false.
Proof.
  induction cl as [|[x c] r IH]; simpl; [reflexivity|].
  destruct (seq_eqb w x); [discriminate | auto].
Qed.

Theorem table_ok_sound cl tr fa : table_ok cl tr fa = true -> forall w, eval_clauses cl w = parse_env_word tr fa w.
Proof.
  unfold table_ok. rewrite andb_true_iff, !forallb_forall. intros [H1 H2] w.
  destruct (eval_clauses cl w) as [b|] eqn:E.
  - apply eval_clauses_some in E. specialize (H1 _ E). cbn [fst snd] in H1.
    destruct (parse_env_word tr fa w) as [[|]|], b; try discriminate; reflexivity.
  - apply eval_clauses_none in E. unfold parse_env_word.
    destruct (existsb (seq_eqb w) tr) eqn:Et.
    + apply existsb_exists in Et as (x & Hx & Ex). apply seq_eqb_true in Ex. subst x.
      rewrite (H2 w) in E; [discriminate | apply in_or_app; auto].
    + destruct (existsb (seq_eqb w) fa) eqn:Ef; [|reflexivity].
      apply existsb_exists in Ef as (x & Hx & Ex). apply seq_eqb_true in Ex. subst x.
      rewrite (H2 w) in E; [discriminate | apply in_or_app; auto].
Qed.

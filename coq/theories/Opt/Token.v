(* Opt/Token.v — model of include/nitro/options/user_input.hpp: one command-line token.
   The C++ object keeps arg_, name_ (text before the first '='), value_ (text after it, if any). *)
From Coq Require Import List Arith Bool.
From Coq Require Import Init.Byte.
From Nitro Require Import Base.Bytes Base.Res.
Import ListNotations.
Local Open Scope list_scope.

Definition dash : byte := "-"%byte.
Definition eqc : byte := "="%byte.

(* split(): cut at the first '=' *)
Fixpoint split_eq (s : str) : str * option str :=
  match s with
  | [] => ([], None)
  | c :: r => if beq c eqc then ([], Some r) else let '(n, v) := split_eq r in (c :: n, v)
  end.
Definition name_of (a : str) : str := fst (split_eq a).
Definition value_of (a : str) : option str := snd (split_eq a).

(* name_[0] != '-'  (name_[0] of an empty name_ is the terminating NUL) *)
Definition is_value (a : str) : bool := match name_of a with c :: _ => negb (beq c dash) | [] => true end.
Definition is_double_dash (a : str) : bool := seq_eqb a [dash; dash].
Definition is_short (a : str) : bool :=
  match name_of a with c0 :: c1 :: _ => beq c0 dash && negb (beq c1 dash) | _ => false end.
Definition is_named (a : str) : bool :=
  match name_of a with c0 :: c1 :: c2 :: _ => beq c0 dash && beq c1 dash && negb (beq c2 dash) | _ => false end.
Definition is_argument (a : str) : bool := is_short a || is_named a.
Definition has_value (a : str) : bool := is_value a || match value_of a with Some _ => true | None => false end.
Definition no_prefix : str := [dash; dash; "n"%byte; "o"%byte; dash].
(* starts_with(name_, "--no-") is find == 0, i.e. the prefix test (Str/StrProofs.starts_with_prefix) *)
Definition has_prefix (a : str) : bool := prefixb no_prefix (name_of a).

(* unguarded readings *)
Definition letters (a : str) : str := tl (name_of a).
Definition named_part (a : str) : str := skipn 2 (name_of a).
Definition unprefixed (a : str) : str := skipn 5 (name_of a).
Definition value_part (a : str) : str := if is_value a then a else match value_of a with Some v => v | None => [] end.

(* the accessors as the class offers them: each raises parser_error (DevError) outside its domain *)
Definition tok_name (a : str) : res str := if is_value a then Err DevError else Ok (name_of a).
Definition name_without_prefix (a : str) : res str :=
  if negb (has_prefix a) then Err DevError else do n <- tok_name a; Ok (skipn 5 n).
Definition tok_value (a : str) : res str := if negb (has_value a) then Err DevError else Ok (value_part a).
Definition as_short_list (a : str) : res str := if negb (is_short a) then Err DevError else Ok (letters a).
Definition as_named (a : str) : res str := if negb (is_named a) then Err DevError else Ok (named_part a).

(* validate(): one or two dashes followed by a character that is neither '-' nor '=' *)
Fixpoint count_dashes (a : str) : nat := match a with c :: r => if beq c dash then S (count_dashes r) else 0 | [] => 0 end.
Definition well_formed (a : str) : bool :=
  is_value a || is_double_dash a ||
  (let d := count_dashes a in
   (1 <=? d) && (d <=? 2) && match skipn d a with c :: _ => negb (beq c eqc) | [] => false end).

Definition count_letter (c : byte) (l : str) : nat := length (filter (beq c) l).

(* Opt/Getlines.v — the `while (std::getline(str, element, ';'))` loop of multi_option::check is "split at the separator
   and drop one empty last piece" *)
From Coq Require Import List Arith Bool Lia.
From Coq Require Import Init.Byte.
From Nitro Require Import Base.Bytes Opt.ParserModel.
Import ListNotations.
Local Open Scope list_scope.

(* structural split at a single byte: always at least one piece *)
Fixpoint split1 (sep : byte) (s : str) : list str :=
  match s with
  | [] => [[]]
  | c :: r => if beq c sep then [] :: split1 sep r
              else match split1 sep r with p :: ps => (c :: p) :: ps | [] => [[c]] end
  end.
Definition drop_last_empty (l : list str) : list str :=
  match rev l with [] :: r => rev r | _ => l end.
Definition map_head {A} (f : A -> A) (l : list A) : list A := match l with x :: r => f x :: r | [] => [] end.

Lemma split1_nonempty sep s : split1 sep s <> [].
Proof. destruct s as [|c r]; simpl; [discriminate|]. destruct (beq c sep); [discriminate|]. destruct (split1 sep r); discriminate. Qed.

Lemma split1_intercalate sep s : intercalate [sep] (split1 sep s) = s.
Proof.
  induction s as [|c r IH]; [reflexivity|]. simpl.
  destruct (beq c sep) eqn:E.
  - apply beq_true in E. subst c. pose proof (split1_nonempty sep r).
    destruct (split1 sep r) as [|p ps] eqn:Es; [congruence|]. rewrite intercalate_cons. simpl. f_equal. exact IH.
  - pose proof (split1_nonempty sep r). destruct (split1 sep r) as [|p ps] eqn:Es; [congruence|].
    destruct ps as [|q qs]; simpl in *; f_equal; exact IH.
Qed.

Lemma split1_clean sep s : Forall (fun p => ~ In sep p) (split1 sep s).
Proof.
  induction s as [|c r IH]; simpl; [constructor; [intros []|constructor]|].
  destruct (beq c sep) eqn:E.
  - constructor; [intros []|exact IH].
  - pose proof (split1_nonempty sep r). destruct (split1 sep r) as [|p ps]; [congruence|].
    inversion IH as [|? ? Hp Hps]; subst. constructor; [|exact Hps].
    intros [H1|H1]; [|contradiction]. subst. rewrite beq_refl in E. discriminate.
Qed.

Lemma drop_last_empty_cons x y l : drop_last_empty (x :: y :: l) = x :: drop_last_empty (y :: l).
Proof.
  unfold drop_last_empty. cbn [rev]. 
  destruct (rev l ++ [y]) as [|z zs] eqn:E; [destruct (rev l); discriminate|].
  cbn [app]. destruct z as [|b z].
  - rewrite rev_app_distr. reflexivity.
  - reflexivity.
Qed.

Lemma getlines_gen sep : forall s cur started, started = nonempty cur ->
  getlines sep s cur started = drop_last_empty (map_head (app (rev cur)) (split1 sep s)).
Proof.
  induction s as [|c r IH]; intros cur started Hs.
  - cbn [getlines split1 map_head]. rewrite app_nil_r. subst started. unfold drop_last_empty. cbn [rev app].
    destruct cur as [|b cur]; [reflexivity|]. cbn [nonempty rev].
    destruct (rev cur ++ [b]) eqn:E; [destruct (rev cur); discriminate | reflexivity].
  - cbn [getlines split1]. destruct (beq c sep) eqn:E.
    + cbn [map_head]. rewrite app_nil_r. rewrite (IH [] false eq_refl). cbn [rev app].
      pose proof (split1_nonempty sep r). destruct (split1 sep r) as [|p ps] eqn:Es; [congruence|].
      cbn [map_head app]. rewrite drop_last_empty_cons. reflexivity.
    + rewrite (IH (c :: cur) true eq_refl). cbn [rev].
      pose proof (split1_nonempty sep r). destruct (split1 sep r) as [|p ps] eqn:Es; [congruence|].
      cbn [map_head]. rewrite <- app_assoc. reflexivity.
Qed.

(* the environment value of a multi-option: split at ';', one empty last piece dropped (so "a;b;" = "a;b", "" = nothing) *)
Theorem getlines_spec sep s : getlines sep s [] false = drop_last_empty (split1 sep s).
Proof.
  rewrite (getlines_gen sep s [] false eq_refl). f_equal.
  destruct (split1 sep s); reflexivity.
Qed.

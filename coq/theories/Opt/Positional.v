(* Opt/Positional.v — property C12: lemmas on the core loop (Opt/ParserCore.v) about positional arguments, and on
   arguments::get (Opt/Decl.v arg_get). *)
From Coq Require Import List Arith Bool ZArith Lia.
From Coq Require Import Init.Byte.
From Nitro Require Import Base.Bytes Base.ListX Base.Res Opt.Token Opt.Decl Opt.ParserModel Opt.ParserCore.
Import ListNotations.
Local Open Scope list_scope.

(* n positionals do not exceed accept_positionals(k) *)
Definition within (d : decl) (n : nat) : Prop := match d_allowed d with Some k => n <= k | None => True end.
Definition fits (d : decl) (n : nat) : bool := match d_allowed d with Some k => n <=? k | None => true end.

Lemma fits_within d n : fits d n = true <-> within d n.
Proof. unfold fits, within. destruct (d_allowed d) as [k|]; [apply Nat.leb_le | tauto]. Qed.

Lemma full_false_within d n : full d n = false -> within d n -> within d (S n).
Proof.
  unfold full, within. destruct (d_allowed d) as [k|]; [|trivial].
  intros F W. apply Nat.eqb_neq in F. lia.
Qed.

Lemma full_true_not_fits d n m : full d n = true -> fits d (n + S m) = false.
Proof.
  unfold full, fits. destruct (d_allowed d) as [k|]; [|discriminate].
  intros F. apply Nat.eqb_eq in F. apply Nat.leb_gt. lia.
Qed.

(* ---------- positional-only mode ---------- *)

(* once in positional-only mode every remaining token, whatever it looks like, becomes a positional verbatim and in
   order; the only possible failure is the accepted count.
   The invariant `within d (length pos)` is necessary: with d_allowed d = Some 0, pos = [x], rest = [] the loop
   answers Ok (st, [x]) although 1 <= 0 fails (only_pos_needs_invariant below); every state the loop reaches from
   pos = [] satisfies it (limit_respected). *)
Lemma loop_only_pos : forall d st pos rest,
  match d_allowed d with Some k => length pos <= k | None => True end ->
  loop d st true pos false rest =
  if match d_allowed d with Some k => length pos + length rest <=? k | None => true end
  then Ok (st, pos ++ rest) else Err UserError.
Proof.
  intros d st pos rest. change (within d (length pos) ->
    loop d st true pos false rest = if fits d (length pos + length rest) then Ok (st, pos ++ rest) else Err UserError).
  revert pos. induction rest as [|a rest IH]; intros pos W.
  - cbn [loop length]. rewrite Nat.add_0_r, app_nil_r.
    apply fits_within in W. rewrite W. reflexivity.
  - cbn [loop orb length].
    destruct (full d (length pos)) eqn:F.
    + rewrite (full_true_not_fits d (length pos) (length rest) F). reflexivity.
    + assert (W' : within d (length (pos ++ [a]))).
      { rewrite app_length. cbn [length]. rewrite Nat.add_1_r. exact (full_false_within d _ F W). }
      rewrite (IH (pos ++ [a]) W'). rewrite app_length. cbn [length].
      rewrite <- app_assoc. cbn [app].
      replace (length pos + 1 + length rest) with (length pos + S (length rest)) by lia.
      reflexivity.
Qed.

Example only_pos_needs_invariant :
  let d := {| d_opts := []; d_multis := []; d_toggles := []; d_allowed := Some 0; d_greedy := false |} in
  loop d (init_st d) true [[]] false [] = Ok (init_st d, [[]])
  /\ (length ([[]] : list str) + length (@nil str) <=? 0) = false.
Proof. split; vm_compute; reflexivity. Qed.

(* ---------- "--" ---------- *)

Definition ddash : str := [dash; dash].

Lemma ddash_not_value : is_value ddash = false.
Proof. reflexivity. Qed.
Lemma ddash_well_formed : well_formed ddash = true.
Proof. reflexivity. Qed.
Lemma ddash_is_double_dash : is_double_dash ddash = true.
Proof. reflexivity. Qed.

Lemma double_dash_step : forall d st pos post,
  loop d st false pos false ([dash; dash] :: post) = loop d st true pos false post.
Proof.
  intros d st pos post. change [dash; dash] with ddash. cbn [loop orb].
  rewrite ddash_not_value, ddash_well_formed, ddash_is_double_dash. reflexivity.
Qed.

(* everything after "--" is a positional, verbatim and in order (when the loop reaches "--" as a token of its own,
   i.e. not as the skipped value token of the option before it — which cannot happen: "--" is not a value) *)
Theorem after_double_dash_verbatim : forall d st pos post,
  match d_allowed d with Some k => length pos <= k | None => True end ->
  loop d st false pos false ([dash; dash] :: post) =
  if match d_allowed d with Some k => length pos + length post <=? k | None => true end
  then Ok (st, pos ++ post) else Err UserError.
Proof. intros d st pos post W. rewrite double_dash_step. apply loop_only_pos. exact W. Qed.

(* the same in positional-only mode: a second "--" is an ordinary positional *)
Corollary double_dash_after_double_dash : forall d st pos post,
  match d_allowed d with Some k => length pos <= k | None => True end ->
  loop d st true pos false ([dash; dash] :: post) =
  if match d_allowed d with Some k => length pos + S (length post) <=? k | None => true end
  then Ok (st, pos ++ [dash; dash] :: post) else Err UserError.
Proof. intros d st pos post W. apply (loop_only_pos d st pos ([dash; dash] :: post) W). Qed.

(* ---------- inline positionals ---------- *)

(* greedy: after the first positional everything is positional *)
Theorem greedy_rest : forall d st pos a rest,
  d_greedy d = true -> is_value a = true -> full d (length pos) = false ->
  loop d st false pos false (a :: rest) = loop d st true (pos ++ [a]) false rest.
Proof.
  intros d st pos a rest G V F. cbn [loop orb]. rewrite V, F, G. reflexivity.
Qed.

Theorem value_token_positional : forall d st pos a rest,
  is_value a = true -> full d (length pos) = false -> d_greedy d = false ->
  loop d st false pos false (a :: rest) = loop d st false (pos ++ [a]) false rest.
Proof.
  intros d st pos a rest V F G. cbn [loop orb]. rewrite V, F, G. reflexivity.
Qed.

(* a value token when the limit is reached is the user's error *)
Theorem value_token_over_limit : forall d st op pos a rest,
  is_value a = true -> full d (length pos) = true ->
  loop d st op pos false (a :: rest) = Err UserError.
Proof.
  intros d st op pos a rest V F. cbn [loop]. rewrite V, F, orb_true_r. reflexivity.
Qed.

(* ---------- the limit ---------- *)

Theorem limit_respected : forall d st op pos skip args st' pos',
  loop d st op pos skip args = Ok (st', pos') ->
  match d_allowed d with Some k => length pos <= k | None => True end ->
  match d_allowed d with Some k => length pos' <= k | None => True end.
Proof.
  intros d st op pos skip args st' pos'. change (loop d st op pos skip args = Ok (st', pos') ->
    within d (length pos) -> within d (length pos')).
  revert st op pos skip. induction args as [|a rest IH]; intros st op pos skip.
  - cbn [loop]. intros [= _ <-] W. exact W.
  - cbn [loop].
    destruct skip; [apply IH|].
    destruct (op || is_value a).
    { destruct (full d (length pos)) eqn:F; [discriminate|].
      intros L W. apply (IH _ _ _ _ L). rewrite app_length. cbn [length]. rewrite Nat.add_1_r.
      exact (full_false_within d _ F W). }
    destruct (negb (well_formed a)); [discriminate|].
    destruct (is_double_dash a); [apply IH|].
    destruct (try_option d st a (hd_error rest)) as [[[st1 c1]|]|er1]; cbn [bind]; [apply IH | | discriminate].
    destruct (try_multi d st a (hd_error rest)) as [[[st2 c2]|]|er2]; cbn [bind]; [apply IH | | discriminate].
    destruct (try_toggle d st a) as [[st3|]|er3]; cbn [bind]; [apply IH | discriminate | discriminate].
Qed.

(* from the start of parse (pos = []) the invariant holds trivially *)
Corollary limit_respected_from_start : forall d st args st' pos',
  loop d st false [] false args = Ok (st', pos') ->
  match d_allowed d with Some k => length pos' <= k | None => True end.
Proof.
  intros d st args st' pos' L. apply (limit_respected d st false [] false args st' pos' L).
  destruct (d_allowed d); cbn [length]; [lia | trivial].
Qed.

(* ---------- arguments::get ---------- *)

Theorem nonneg_index : forall pos i, (0 <= i)%Z -> arg_get pos i = nth_error pos (Z.to_nat i).
Proof.
  intros pos i H. unfold arg_get.
  destruct (Z.ltb_spec i 0) as [Hlt|_]; [lia|].
  destruct (Z.ltb_spec i 0) as [Hlt|_]; [lia|]. reflexivity.
Qed.

Theorem neg_index : forall pos k, 1 <= k <= length pos ->
  arg_get pos (- Z.of_nat k) = nth_error pos (length pos - k).
Proof.
  intros pos k [H1 H2]. unfold arg_get.
  destruct (Z.ltb_spec (- Z.of_nat k) 0) as [_|Hge]; [|lia].
  destruct (Z.ltb_spec (- Z.of_nat k + Z.of_nat (length pos)) 0) as [Hlt|_]; [lia|].
  f_equal. lia.
Qed.

Theorem index_out_of_range : forall pos,
  arg_get pos (Z.of_nat (length pos)) = None /\ arg_get pos (- Z.of_nat (length pos) - 1) = None.
Proof.
  intros pos. unfold arg_get. split.
  - destruct (Z.ltb_spec (Z.of_nat (length pos)) 0) as [Hlt|_]; [lia|].
    destruct (Z.ltb_spec (Z.of_nat (length pos)) 0) as [Hlt|_]; [lia|].
    rewrite Nat2Z.id. apply nth_error_None. lia.
  - destruct (Z.ltb_spec (- Z.of_nat (length pos) - 1) 0) as [_|Hge]; [|lia].
    destruct (Z.ltb_spec (- Z.of_nat (length pos) - 1 + Z.of_nat (length pos)) 0) as [_|Hge]; [reflexivity | lia].
Qed.

(* every index outside [-n, n) raises, every index inside is served *)
Corollary index_in_range_iff : forall pos i,
  (arg_get pos i <> None) <-> (- Z.of_nat (length pos) <= i < Z.of_nat (length pos))%Z.
Proof.
  intros pos i. unfold arg_get.
  destruct (Z.ltb_spec i 0) as [Hneg|Hpos].
  - destruct (Z.ltb_spec (i + Z.of_nat (length pos)) 0) as [Hlt|Hge].
    + split; [congruence | lia].
    + rewrite nth_error_Some. lia.
  - destruct (Z.ltb_spec i 0) as [Hlt|_]; [lia|].
    rewrite nth_error_Some. lia.
Qed.

Print Assumptions loop_only_pos.
Print Assumptions after_double_dash_verbatim.
Print Assumptions greedy_rest.
Print Assumptions value_token_positional.
Print Assumptions limit_respected.
Print Assumptions neg_index.
Print Assumptions index_out_of_range.
Print Assumptions nonneg_index.
Print Assumptions index_in_range_iff.

(* Opt/Refine3.v — the spec side of the refinement:
   (0) explain (with accumulators) = explain' (without),
   (A) explained items refer to declared things,
   (B) on explained vectors wf_items is exactly "items semantically compatible and positional limit holds". *)
From Coq Require Import List Arith Bool ZArith Lia.
From Coq Require Import Init.Byte.
From Nitro Require Import Base.Bytes Base.ListX Base.Res Opt.Token Opt.Decl Opt.ParserModel Opt.ParserCore Opt.ParserSpec
  Opt.RefineDefs Opt.Refine1 Opt.Refine2.
Import ListNotations.
Local Open Scope list_scope.

(* ====================== (0) accumulators ====================== *)
(* the item accumulator is prepended reversed; the tail accumulator is prepended (reversed) to the tail if there is one.
   No assumption on tl_acc is needed: when seen_dd = false and no "--" follows, both sides report no tail. *)
Lemma explain_gen d : forall args sd go skip acc tlacc,
  explain d sd go skip acc tlacc args =
  do (its, tl) <- explain' d sd go skip args; Ok (rev acc ++ its, option_map (app (rev tlacc)) tl).
Proof.
  induction args as [|a rest IH]; intros sd go skip acc tlacc; cbn [explain explain'].
  - cbn [bind]. rewrite app_nil_r. destruct sd; cbn [option_map]; rewrite ?app_nil_r; reflexivity.
  - destruct skip; [apply IH|].
    destruct sd.
    + rewrite IH. destruct (explain' d true go false rest) as [[its tl]|] eqn:E; cbn [bind]; [|reflexivity].
      destruct (explain'_sd _ _ _ _ _ _ E) as [-> [t ->]]. cbn [option_map tail_list rev].
      rewrite <- app_assoc. reflexivity.
    + destruct (go || is_value a).
      * rewrite IH. destruct (explain' d false (go || d_greedy d) false rest) as [[its tl]|]; cbn [bind]; [|reflexivity].
        cbn [rev]. rewrite <- app_assoc. reflexivity.
      * destruct (negb (well_formed a)); [reflexivity|].
        destruct (is_double_dash a); [apply IH|].
        destruct (explain_tok d a (hd_error rest)) as [[it c]|e]; cbn [bind]; [|reflexivity].
        rewrite IH. destruct (explain' d false go c rest) as [[its tl]|]; cbn [bind]; [|reflexivity].
        cbn [rev]. rewrite <- app_assoc. reflexivity.
Qed.

Lemma explain_explain' : forall d args, explain d false false false [] [] args = explain' d false false false args.
Proof.
  intros d args. rewrite explain_gen.
  destruct (explain' d false false false args) as [[its tl]|]; cbn [bind]; [|reflexivity].
  destruct tl; reflexivity.
Qed.

(* ====================== a case principle for explain' ====================== *)
(* every successful run of explain' (started before "--") is built from: end of input without / with a tail,
   a positional, an explained token.  "--" is only recognised while greedy mode is off. *)
Lemma explain'_cases d (P : bool -> list item -> option (list str) -> Prop) :
  (forall go, P go [] None) ->
  (forall t, P false [] (Some t)) ->
  (forall go a its tl, (go || is_value a) = true -> P (go || d_greedy d) its tl -> P go (ItPos a :: its) tl) ->
  (forall a next it c its tl, is_value a = false -> explain_tok d a next = Ok (it, c) -> P false its tl -> P false (it :: its) tl) ->
  forall args go skip its tl, explain' d false go skip args = Ok (its, tl) -> P go its tl.
Proof.
  intros Hnil Hdd Hpos Htok. induction args as [|a rest IH]; intros go skip its tl; cbn [explain'].
  - intros [= <- <-]. apply Hnil.
  - destruct skip; [apply IH|].
    destruct (go || is_value a) eqn:Gv.
    + destruct (explain' d false (go || d_greedy d) false rest) as [[its' tl']|] eqn:E; cbn [bind]; [|discriminate].
      intros [= <- <-]. apply Hpos; [exact Gv | eapply IH; exact E].
    + apply orb_false_iff in Gv as [-> Va].
      destruct (negb (well_formed a)); [discriminate|].
      destruct (is_double_dash a).
      * intros E. destruct (explain'_sd _ _ _ _ _ _ E) as [-> [t ->]]. apply Hdd.
      * destruct (explain_tok d a (hd_error rest)) as [[it c]|] eqn:Et; cbn [bind]; [|discriminate].
        destruct (explain' d false false c rest) as [[its' tl']|] eqn:E; cbn [bind]; [|discriminate].
        intros [= <- <-]. eapply Htok; [exact Va | exact Et | eapply IH; exact E].
Qed.

Definition is_pos (it : item) : bool := match it with ItPos _ => true | _ => false end.

Lemma explain_tok_is_pos d a next it c : explain_tok d a next = Ok (it, c) -> is_pos it = false.
Proof. intros H. apply explain_tok_not_pos in H. destruct it; try reflexivity. simpl in H. discriminate. Qed.

(* ====================== shape of explained items ====================== *)
(* item_ok = item_shape (syntactic) && no_ok (semantic: a "--no-x" needs a reversible toggle) *)
Definition no_ok (d : decl) (it : item) : bool :=
  match it with ItNo t => match nth_error (d_toggles d) t with Some td => t_rev td | None => false end | _ => true end.
Definition item_shape (d : decl) (it : item) : bool :=
  match it with
  | ItNo t => match nth_error (d_toggles d) t with Some _ => true | None => false end
  | _ => item_ok d it
  end.

Lemma item_ok_split d it : item_ok d it = item_shape d it && no_ok d it.
Proof.
  destruct it as [i f v|i f v|ts|t|t|v]; cbn [item_ok item_shape no_ok]; rewrite ?andb_true_r; try reflexivity.
  destruct (nth_error (d_toggles d) t); reflexivity.
Qed.

Lemma forallb_andb {A} (f g : A -> bool) l : forallb (fun x => f x && g x) l = forallb f l && forallb g l.
Proof.
  induction l as [|x l IH]; cbn [forallb]; [reflexivity|]. rewrite IH.
  destruct (f x), (g x), (forallb f l), (forallb g l); reflexivity.
Qed.

Lemma forallb_impl {A} (f g : A -> bool) l : (forall x, f x = true -> g x = true) -> forallb f l = true -> forallb g l = true.
Proof.
  intros H. induction l as [|x l IH]; cbn [forallb]; [reflexivity|].
  rewrite !andb_true_iff. intros [H1 H2]. split; [apply H; exact H1 | apply IH; exact H2].
Qed.

Lemma find_idx_nth {A} (f : A -> bool) l i : find_idx f l = Some i -> exists x, nth_error l i = Some x /\ f x = true.
Proof. intros H. destruct (find_idx_some f l i H) as (x & H1 & H2 & _). eauto. Qed.

Lemma all_some_spec {A B} (f : A -> option B) l : forall ts, all_some (map f l) = Some ts ->
  length ts = length l /\ forall t, In t ts -> exists x, In x l /\ f x = Some t.
Proof.
  induction l as [|x l IH]; intros ts; cbn [map all_some].
  - intros [= <-]. split; [reflexivity | intros t []].
  - destruct (f x) as [y|] eqn:E; [|discriminate].
    destruct (all_some (map f l)) as [r|]; [|discriminate]. cbn [option_map]. intros [= <-].
    destruct (IH r eq_refl) as [Hl Hin]. split; [simpl; f_equal; exact Hl|].
    intros t [<-|Ht]; [exists x; split; [left; reflexivity | exact E]|].
    destruct (Hin t Ht) as (x' & H1 & H2). exists x'. split; [right; exact H1 | exact H2].
Qed.

Lemma explain_valued_shape (mk : oform -> str -> item) a next it c :
  explain_valued mk a next = Ok (it, c) ->
  exists eq v, it = mk (form_of a eq) v /\ (eq = false -> is_value v = true).
Proof.
  unfold explain_valued. destruct (bundled a); [discriminate|].
  destruct (has_value a).
  - intros [= <- <-]. exists true, (value_part a). split; [reflexivity | discriminate].
  - destruct next as [n|]; [|discriminate]. destruct (is_value n) eqn:Vn; [|discriminate].
    intros [= <- <-]. exists false, n. split; [reflexivity | intros _; exact Vn].
Qed.

(* a short token can only match something that has a short name *)
Lemma base_matches_short_has name short a : base_matches name short a = true -> is_short a = true -> has_short short = true.
Proof.
  unfold base_matches. intros H Hs. rewrite Hs in H.
  destruct (negb (is_argument a)); [discriminate|].
  destruct (has_short short); [reflexivity|]. cbn [andb] in H.
  rewrite (short_not_named a Hs) in H. discriminate.
Qed.

Lemma form_ok_of short a eq v : (is_short a = true -> has_short short = true) -> (eq = false -> is_value v = true) ->
  form_ok short (form_of a eq) v = true.
Proof.
  unfold form_ok, form_of. intros Hs Hv.
  destruct (is_short a).
  - specialize (Hs eq_refl). destruct short as [c0|]; [|discriminate]. destruct eq; [reflexivity | apply Hv; reflexivity].
  - destruct eq; [reflexivity | apply Hv; reflexivity].
Qed.

Lemma explain_tok_shape d a next it c : explain_tok d a next = Ok (it, c) -> item_shape d it = true.
Proof.
  unfold explain_tok.
  destruct (find_idx (fun o => base_matches (o_name o) (o_short o) a) (d_opts d)) as [i|] eqn:F0.
  { intros H. destruct (explain_valued_shape _ _ _ _ _ H) as (eq & v & -> & Hv).
    destruct (find_idx_nth _ _ _ F0) as (o & Hn & Hm). cbn [item_shape item_ok]. rewrite Hn.
    apply form_ok_of; [|exact Hv]. intros Hs. eapply base_matches_short_has; eauto. }
  destruct (find_idx (fun o => base_matches (m_name o) (m_short o) a) (d_multis d)) as [i|] eqn:F1.
  { intros H. destruct (explain_valued_shape _ _ _ _ _ H) as (eq & v & -> & Hv).
    destruct (find_idx_nth _ _ _ F1) as (o & Hn & Hm). cbn [item_shape item_ok]. rewrite Hn.
    apply form_ok_of; [|exact Hv]. intros Hs. eapply base_matches_short_has; eauto. }
  destruct (has_value a); [discriminate|].
  destruct (is_short a) eqn:Hs.
  - destruct (all_some (map (toggle_by_letter d) (letters a))) as [ts|] eqn:EA; [|discriminate].
    intros [= <- <-]. destruct (all_some_spec _ _ _ EA) as [Hl Hin]. cbn [item_shape item_ok].
    apply andb_true_iff. split.
    + pose proof (short_letters_nonempty a Hs) as Hne.
      destruct (letters a) as [|c0 l0]; [congruence|]. destruct ts; [discriminate | reflexivity].
    + apply forallb_forall. intros t Ht. destruct (Hin t Ht) as (x & _ & Hx). unfold toggle_by_letter in Hx.
      destruct (find_idx_nth _ _ _ Hx) as (td & Hn & Hm). rewrite Hn.
      destruct (t_short td); [reflexivity | discriminate].
  - destruct (is_named a); [|discriminate].
    destruct (find_idx (fun t => seq_eqb (named_part a) (t_name t)) (d_toggles d)) as [t|] eqn:FN.
    + intros [= <- <-]. destruct (find_idx_nth _ _ _ FN) as (td & Hn & _). cbn [item_shape item_ok]. rewrite Hn. reflexivity.
    + destruct (has_prefix a); [|discriminate].
      destruct (find_idx (fun t => seq_eqb (unprefixed a) (t_name t)) (d_toggles d)) as [t|] eqn:FU; [|discriminate].
      intros [= <- <-]. destruct (find_idx_nth _ _ _ FU) as (td & Hn & _). cbn [item_shape]. rewrite Hn. reflexivity.
Qed.

Lemma explain'_shape_go d : forall args go skip its tl,
  explain' d false go skip args = Ok (its, tl) -> forallb (item_shape d) its = true.
Proof.
  apply (explain'_cases d (fun _ its _ => forallb (item_shape d) its = true)).
  - reflexivity.
  - reflexivity.
  - intros go a its tl _ IH. cbn [forallb item_shape item_ok]. exact IH.
  - intros a next it c its tl _ Et IH. cbn [forallb]. rewrite (explain_tok_shape _ _ _ _ _ Et), IH. reflexivity.
Qed.

Lemma explain'_shape d args sd go skip its tl :
  explain' d sd go skip args = Ok (its, tl) -> forallb (item_shape d) its = true.
Proof.
  destruct sd.
  - intros E. destruct (explain'_sd _ _ _ _ _ _ E) as [-> _]. reflexivity.
  - apply explain'_shape_go.
Qed.

(* ====================== (A) validity ====================== *)
Lemma nth_error_lt {A} (l : list A) i x : nth_error l i = Some x -> i < length l.
Proof. intros H. apply nth_error_Some. congruence. Qed.

Lemma shape_valid d it : item_shape d it = true -> item_valid d it = true.
Proof.
  destruct it as [i f v|i f v|ts|t|t|v]; cbn [item_shape item_ok item_valid].
  - destruct (nth_error (d_opts d) i) eqn:E; [|discriminate]. intros _. apply Nat.ltb_lt. eapply nth_error_lt; eauto.
  - destruct (nth_error (d_multis d) i) eqn:E; [|discriminate]. intros _. apply Nat.ltb_lt. eapply nth_error_lt; eauto.
  - rewrite andb_true_iff. intros [_ H]. revert H. apply forallb_impl. intros t.
    destruct (nth_error (d_toggles d) t) eqn:E; [|discriminate]. intros _. apply Nat.ltb_lt. eapply nth_error_lt; eauto.
  - destruct (nth_error (d_toggles d) t) eqn:E; [|discriminate]. intros _. apply Nat.ltb_lt. eapply nth_error_lt; eauto.
  - destruct (nth_error (d_toggles d) t) eqn:E; [|discriminate]. intros _. apply Nat.ltb_lt. eapply nth_error_lt; eauto.
  - reflexivity.
Qed.

Lemma explain'_valid : forall d args sd go skip its tl,
  explain' d sd go skip args = Ok (its, tl) -> forallb (item_valid d) its = true.
Proof.
  intros d args sd go skip its tl E. apply (forallb_impl (item_shape d)); [apply shape_valid|].
  eapply explain'_shape; exact E.
Qed.

(* ====================== positional clauses ====================== *)
(* greedy mode is on only in a greedy parser and only after a positional *)
Lemma explain'_pos_ok_go d : forall args go skip its tl,
  explain' d false go skip args = Ok (its, tl) ->
  forall seen, (go = true -> d_greedy d = true /\ seen = true) -> pos_ok d seen its = true.
Proof.
  apply (explain'_cases d (fun go its _ => forall seen, (go = true -> d_greedy d = true /\ seen = true) -> pos_ok d seen its = true)).
  - reflexivity.
  - reflexivity.
  - intros go a its tl Gv IH seen Hg. cbn [pos_ok]. apply andb_true_iff. split.
    + destruct go.
      * destruct (Hg eq_refl) as [-> ->]. apply orb_true_r.
      * cbn [orb] in Gv. rewrite Gv. reflexivity.
    + apply IH. intros H. split; [|reflexivity].
      destruct go; [apply Hg; reflexivity | exact H].
  - intros a next it c its tl _ Et IH seen Hg. pose proof (explain_tok_is_pos _ _ _ _ _ Et) as Hp.
    destruct it; try discriminate Hp; cbn [pos_ok]; apply IH; exact Hg.
Qed.

Lemma explain'_pos_ok d args skip its tl :
  explain' d false false skip args = Ok (its, tl) -> pos_ok d false its = true.
Proof. intros E. eapply explain'_pos_ok_go; [exact E | discriminate]. Qed.

(* in greedy mode only positionals follow and "--" is not recognised; before that the shape is preserved *)
Lemma explain'_greedy_go d : forall args go skip its tl,
  explain' d false go skip args = Ok (its, tl) ->
  (go = true -> forallb is_pos its = true /\ tl = None) /\
  (d_greedy d = true -> greedy_shape its = true /\ (tl = None \/ inline_pos its = [])).
Proof.
  apply (explain'_cases d (fun go its tl =>
    (go = true -> forallb is_pos its = true /\ tl = None) /\
    (d_greedy d = true -> greedy_shape its = true /\ (tl = None \/ inline_pos its = [])))).
  - intros go. split; intros _; split; auto.
  - intros t. split; [discriminate|]. intros _. split; [reflexivity | right; reflexivity].
  - intros go a its tl Gv [IH1 IH2]. split.
    + intros ->. cbn [orb] in IH1. destruct (IH1 eq_refl) as [H1 H2]. split; [cbn [forallb is_pos]; exact H1 | exact H2].
    + intros Hgr. rewrite Hgr, orb_true_r in IH1. destruct (IH1 eq_refl) as [H1 H2].
      split; [exact H1 | left; exact H2].
  - intros a next it c its tl _ Et [_ IH2]. split; [discriminate|].
    intros Hgr. destruct (IH2 Hgr) as [H1 H2].
    pose proof (explain_tok_is_pos _ _ _ _ _ Et) as Hp. pose proof (explain_tok_not_pos _ _ _ _ _ Et) as Hi.
    split.
    + destruct it; try discriminate Hp; cbn [greedy_shape]; exact H1.
    + destruct H2 as [H2|H2]; [left; exact H2 | right]. rewrite inline_pos_cons, Hi, H2. reflexivity.
Qed.

Lemma explain'_greedy d args skip its tl :
  explain' d false false skip args = Ok (its, tl) ->
  negb (d_greedy d) || (greedy_shape its && match inline_pos its, tl with _ :: _, Some _ => false | _, _ => true end) = true.
Proof.
  intros E. destruct (d_greedy d) eqn:G; [|reflexivity]. cbn [negb orb].
  destruct (explain'_greedy_go d _ _ _ _ _ E) as [_ H]. destruct (H G) as [H1 [-> | ->]]; rewrite H1.
  - destruct (inline_pos its); reflexivity.
  - reflexivity.
Qed.

(* ====================== semantic clauses ====================== *)
Lemma opt_values_app i l l' : opt_values i (l ++ l') = opt_values i l ++ opt_values i l'.
Proof. unfold opt_values. rewrite map_app, concat_app. reflexivity. Qed.
Lemma occurrences_app t l l' : occurrences t (l ++ l') = occurrences t l + occurrences t l'.
Proof. unfold occurrences. rewrite map_app, list_sum_app. reflexivity. Qed.
Lemma negations_app t l l' : negations t (l ++ l') = negations t l + negations t l'.
Proof. unfold negations. rewrite map_app, list_sum_app. reflexivity. Qed.

Lemma forallb_seq f n : forallb f (seq 0 n) = true <-> forall i, i < n -> f i = true.
Proof.
  rewrite forallb_forall. split; intros H i Hi; apply H.
  - apply in_seq. lia.
  - apply in_seq in Hi. lia.
Qed.

Lemma forallb_combine_seq {A} (f : nat -> A -> bool) (l : list A) : forall s,
  forallb (fun p => f (fst p) (snd p)) (combine (seq s (length l)) l) = true <->
  forall k x, nth_error l k = Some x -> f (s + k) x = true.
Proof.
  induction l as [|y l IH]; intros s; cbn [length seq combine forallb].
  - split; [intros _ [|k] x; discriminate | reflexivity].
  - rewrite andb_true_iff, IH. cbn [fst snd]. split.
    + intros [H0 H] [|k] x; cbn [nth_error].
      * intros [= <-]. rewrite Nat.add_0_r. exact H0.
      * intros Hk. rewrite <- Nat.add_succ_comm. apply H. exact Hk.
    + intros H. split.
      * rewrite <- (Nat.add_0_r s). apply H. reflexivity.
      * intros k x Hk. rewrite Nat.add_succ_comm. apply (H (S k)). exact Hk.
Qed.

(* one item seen through its counts *)
Lemma item_effect_view it j : item_effect it j =
  if 0 <? occurrences j [it] then TInc (occurrences j [it]) else if 0 <? negations j [it] then TRev else TNone.
Proof.
  destruct it as [i f v|i f v|ts|t|t|v]; unfold occurrences, negations; cbn [map list_sum fold_right item_effect];
    rewrite ?Nat.add_0_r; try reflexivity.
  - rewrite (Nat.eqb_sym t j). destruct (j =? t); reflexivity.
  - rewrite (Nat.eqb_sym t j). destruct (j =? t); reflexivity.
Qed.

Lemma tog_okb_iff pre it j td : tog_okb pre it j td = true <->
  (0 < occurrences j [it] -> negations j pre = 0) /\
  (occurrences j [it] = 0 -> 0 < negations j [it] -> t_rev td = true /\ ~ (0 < occurrences j pre /\ negations j pre = 0)).
Proof.
  unfold tog_okb. rewrite item_effect_view.
  destruct (0 <? occurrences j [it]) eqn:O.
  - apply Nat.ltb_lt in O. rewrite Nat.eqb_eq. split; [intros H; split; [auto | lia] | intros [H _]; auto].
  - apply Nat.ltb_ge in O. destruct (0 <? negations j [it]) eqn:N.
    + apply Nat.ltb_lt in N. rewrite andb_true_iff, negb_true_iff, andb_false_iff, Nat.ltb_ge, Nat.eqb_neq. split.
      * intros [H1 H2]. split; [lia|]. intros _ _. split; [exact H1 | lia].
      * intros [_ H]. destruct H as [H1 H2]; [lia | exact N|]. split; [exact H1 | lia].
    + apply Nat.ltb_ge in N. split; [intros _; split; lia | reflexivity].
Qed.

Lemma item_occ_neg it j : occurrences j [it] = 0 \/ negations j [it] = 0.
Proof. destruct it; unfold occurrences, negations; cbn [map list_sum fold_right]; auto. Qed.

Lemma no_ok_iff d it : item_valid d it = true ->
  (no_ok d it = true <-> forall j td, nth_error (d_toggles d) j = Some td -> 0 < negations j [it] -> t_rev td = true).
Proof.
  destruct it as [i f v|i f v|ts|t|t|v]; cbn [no_ok item_valid]; intros Hv;
    try (split; [intros _ j td _ H; unfold negations in H; cbn [map list_sum fold_right] in H; lia | reflexivity]).
  apply Nat.ltb_lt in Hv. destruct (nth_error (d_toggles d) t) as [td|] eqn:E; [|apply nth_error_None in E; lia].
  unfold negations; cbn [map list_sum fold_right]. split.
  - intros H j td' Hj Hn. destruct (t =? j) eqn:Ej; [|lia]. apply Nat.eqb_eq in Ej. subst j. congruence.
  - intros H. apply (H t td E). rewrite Nat.eqb_refl. lia.
Qed.

Definition opt_clause (d : decl) (l : list item) : bool :=
  forallb (fun i => length (opt_values i l) <=? 1) (seq 0 (length (d_opts d))).
Definition tog_clause (d : decl) (l : list item) : bool :=
  forallb (fun t => negb ((0 <? occurrences t l) && (0 <? negations t l))) (seq 0 (length (d_toggles d))).
(* the semantic part of wf_items *)
Definition sem_inv (d : decl) (l : list item) : bool := opt_clause d l && tog_clause d l && forallb (no_ok d) l.

Lemma opt_clause_iff d l : opt_clause d l = true <-> forall i, i < length (d_opts d) -> length (opt_values i l) <= 1.
Proof.
  unfold opt_clause. rewrite forallb_seq. split; intros H i Hi; specialize (H i Hi).
  - apply Nat.leb_le. exact H.
  - apply Nat.leb_le. exact H.
Qed.
Lemma tog_clause_iff d l : tog_clause d l = true <->
  forall j, j < length (d_toggles d) -> occurrences j l = 0 \/ negations j l = 0.
Proof.
  unfold tog_clause. rewrite forallb_seq. split; intros H j Hj; specialize (H j Hj).
  - apply negb_true_iff, andb_false_iff in H. rewrite !Nat.ltb_ge in H. lia.
  - apply negb_true_iff, andb_false_iff. rewrite !Nat.ltb_ge. lia.
Qed.

(* the two halves of item_sem *)
Definition opt_sem (pre : list item) (it : item) : bool :=
  match it with ItOpt i _ _ => negb (nonempty_l (opt_values i pre)) | _ => true end.
Definition tog_sem (d : decl) (pre : list item) (it : item) : bool :=
  forallb (fun p => tog_okb pre it (fst p) (snd p)) (combine (seq 0 (length (d_toggles d))) (d_toggles d)).

Lemma tog_sem_none d pre it : (forall j, item_effect it j = TNone) -> tog_sem d pre it = true.
Proof. intros H. unfold tog_sem. apply forallb_forall. intros p _. unfold tog_okb. rewrite H. reflexivity. Qed.

Lemma item_sem_split d pre it : item_sem d pre it = opt_sem pre it && tog_sem d pre it.
Proof.
  destruct it as [i f v|i f v|ts|t|t|v]; cbn [item_sem opt_sem]; try reflexivity;
    rewrite tog_sem_none by reflexivity; rewrite ?andb_true_r; reflexivity.
Qed.

Lemma tog_step d pre it : item_valid d it = true -> tog_clause d pre = true ->
  tog_clause d (pre ++ [it]) && no_ok d it = tog_sem d pre it.
Proof.
  intros Hv Hpre. apply eq_true_iff_eq. rewrite andb_true_iff, (no_ok_iff d it Hv). unfold tog_sem.
  rewrite (forallb_combine_seq (tog_okb pre it) (d_toggles d) 0), tog_clause_iff.
  rewrite tog_clause_iff in Hpre.
  split.
  - intros [Hc Hn] k td Hk. cbn [Nat.add]. apply tog_okb_iff.
    assert (Hlt : k < length (d_toggles d)) by (eapply nth_error_lt; eauto).
    specialize (Hc k Hlt). rewrite occurrences_app, negations_app in Hc. specialize (Hpre k Hlt).
    split; [lia|]. intros Ho Hng. split; [eapply Hn; eauto | lia].
  - intros H. split.
    + intros j Hj. destruct (nth_error (d_toggles d) j) as [td|] eqn:E; [|apply nth_error_None in E; lia].
      specialize (H j td E). cbn [Nat.add] in H. apply tog_okb_iff in H as [H1 H2].
      rewrite occurrences_app, negations_app. specialize (Hpre j Hj). pose proof (item_occ_neg it j) as Hon.
      destruct (Nat.eq_dec (occurrences j [it]) 0) as [Ho|Ho].
      * destruct (Nat.eq_dec (negations j [it]) 0) as [Hn|Hn]; [lia|].
        destruct (H2 Ho) as [_ H3]; lia.
      * assert (negations j pre = 0) by (apply H1; lia). lia.
    + intros j td Hj Hn. specialize (H j td Hj). cbn [Nat.add] in H. apply tog_okb_iff in H as [_ H2].
      pose proof (item_occ_neg it j) as Hon. apply H2; lia.
Qed.

Lemma opt_step d pre it : item_valid d it = true -> opt_clause d pre = true ->
  opt_clause d (pre ++ [it]) = opt_sem pre it.
Proof.
  intros Hv Hpre. apply eq_true_iff_eq. rewrite opt_clause_iff. rewrite opt_clause_iff in Hpre.
  destruct it as [i f v|i f v|ts|t|t|v]; cbn [opt_sem].
  1:{ cbn [item_valid] in Hv. apply Nat.ltb_lt in Hv. split.
      - intros H. specialize (H i Hv). rewrite opt_values_app, app_length in H.
        unfold opt_values at 2 in H. cbn [map concat] in H. rewrite Nat.eqb_refl in H.
        destruct (opt_values i pre); [reflexivity | simpl in H; lia].
      - intros H j Hj. rewrite opt_values_app, app_length. unfold opt_values at 2. cbn [map concat].
        destruct (i =? j) eqn:E.
        + apply Nat.eqb_eq in E. subst j. destruct (opt_values i pre); [simpl; lia | discriminate].
        + specialize (Hpre j Hj). simpl. lia. }
  all: split; [reflexivity | intros _ j Hj; rewrite opt_values_app, app_length; specialize (Hpre j Hj);
                             unfold opt_values at 2; simpl; lia].
Qed.

(* appending a valid item to a compatible history: compatible again iff the item may follow *)
Lemma sem_step d pre it : item_valid d it = true -> sem_inv d pre = true ->
  sem_inv d (pre ++ [it]) = item_sem d pre it.
Proof.
  unfold sem_inv. intros Hv H. apply andb_true_iff in H as [H H3]. apply andb_true_iff in H as [H1 H2].
  rewrite forallb_app, H3. cbn [forallb andb]. rewrite andb_true_r.
  rewrite (opt_step d pre it Hv H1), <- andb_assoc, (tog_step d pre it Hv H2), item_sem_split. reflexivity.
Qed.

Lemma sem_inv_prefix d l l' : sem_inv d (l ++ l') = true -> sem_inv d l = true.
Proof.
  unfold sem_inv. rewrite !andb_true_iff, !opt_clause_iff, !tog_clause_iff, forallb_app, andb_true_iff.
  intros [[H1 H2] [H3 _]]. repeat split; [| |exact H3].
  - intros i Hi. specialize (H1 i Hi). rewrite opt_values_app, app_length in H1. lia.
  - intros j Hj. specialize (H2 j Hj). rewrite occurrences_app, negations_app in H2. lia.
Qed.

Lemma sem_inv_nil d : sem_inv d [] = true.
Proof.
  unfold sem_inv. rewrite !andb_true_iff, opt_clause_iff, tog_clause_iff. repeat split.
  - intros i _. simpl. lia.
  - intros j _. left. reflexivity.
Qed.

Lemma items_sem_inv d : forall its pre, forallb (item_valid d) its = true -> sem_inv d pre = true ->
  items_sem d pre its = sem_inv d (pre ++ its).
Proof.
  induction its as [|it r IH]; intros pre Hv Hpre; cbn [items_sem].
  - rewrite app_nil_r. symmetry. exact Hpre.
  - cbn [forallb] in Hv. apply andb_true_iff in Hv as [Hv Hr].
    rewrite <- (sem_step d pre it Hv Hpre).
    destruct (sem_inv d (pre ++ [it])) eqn:E; cbn [andb].
    + rewrite (IH (pre ++ [it]) Hr E), <- app_assoc. reflexivity.
    + symmetry. apply not_true_is_false. intros H.
      replace (pre ++ it :: r) with ((pre ++ [it]) ++ r) in H by (rewrite <- app_assoc; reflexivity).
      apply sem_inv_prefix in H. congruence.
Qed.

(* the semantic equivalence in the form asked for: the three facts about `its` <-> items_sem *)
Theorem items_sem_iff d its : forallb (item_valid d) its = true ->
  (items_sem d [] its = true <->
   (forall i, i < length (d_opts d) -> length (opt_values i its) <= 1) /\
   (forall t, t < length (d_toggles d) -> ~ (0 < occurrences t its /\ 0 < negations t its)) /\
   (forall t, In (ItNo t) its -> exists td, nth_error (d_toggles d) t = Some td /\ t_rev td = true)).
Proof.
  intros Hv. rewrite (items_sem_inv d its [] Hv (sem_inv_nil d)). cbn [app].
  unfold sem_inv. rewrite !andb_true_iff, opt_clause_iff, tog_clause_iff, forallb_forall.
  split.
  - intros [[H1 H2] H3]. repeat split; [exact H1 | |].
    + intros t Ht. specialize (H2 t Ht). lia.
    + intros t Ht. specialize (H3 _ Ht). cbn [no_ok] in H3.
      destruct (nth_error (d_toggles d) t) as [td|]; [eauto | discriminate].
  - intros (H1 & H2 & H3). repeat split; [exact H1 | |].
    + intros t Ht. specialize (H2 t Ht). lia.
    + intros it Hit. destruct it as [i f v|i f v|ts|t|t|v]; try reflexivity.
      cbn [no_ok]. destruct (H3 t Hit) as (td & -> & Hr). exact Hr.
Qed.

(* ====================== (B) ====================== *)
Lemma wf_items_unfold d its tl : wf_items d its tl =
  forallb (item_ok d) its && pos_ok d false its && opt_clause d its && tog_clause d its
  && match d_allowed d with Some k => length (inline_pos its) + n_tail tl <=? k | None => true end
  && (negb (d_greedy d) || (greedy_shape its && match inline_pos its, tl with _ :: _, Some _ => false | _, _ => true end)).
Proof. reflexivity. Qed.

Theorem wf_items_explained : forall d args its tl, explain' d false false false args = Ok (its, tl) ->
  wf_items d its tl = items_sem d [] its && limit_ok d 0 its tl.
Proof.
  intros d args its tl E.
  pose proof (explain'_shape _ _ _ _ _ _ _ E) as Hs. pose proof (explain'_valid _ _ _ _ _ _ _ E) as Hv.
  pose proof (explain'_pos_ok _ _ _ _ _ E) as Hp. pose proof (explain'_greedy _ _ _ _ _ E) as Hg.
  rewrite (items_sem_inv d its [] Hv (sem_inv_nil d)). cbn [app].
  rewrite wf_items_unfold, Hg, Hp, (forallb_ext' _ _ its (item_ok_split d)), forallb_andb, Hs.
  unfold sem_inv, limit_ok. cbn [andb Nat.add]. rewrite andb_true_r.
  destruct (forallb (no_ok d) its), (opt_clause d its), (tog_clause d its); reflexivity.
Qed.

(* for the accumulator form used by spec_parse *)
Corollary wf_items_explain : forall d args its tl, explain d false false false [] [] args = Ok (its, tl) ->
  wf_items d its tl = items_sem d [] its && limit_ok d 0 its tl.
Proof. intros d args its tl E. rewrite explain_explain' in E. eapply wf_items_explained; exact E. Qed.

Print Assumptions explain_explain'.
Print Assumptions explain'_valid.
Print Assumptions wf_items_explained.
Print Assumptions items_sem_iff.

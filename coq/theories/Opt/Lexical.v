(* Opt/Lexical.v — the two lexical round-trip theorems behind C01 and C02:
     render_explain : whatever `explain` reads out of a command line renders back to exactly that command line;
     explain_render : for a correctly declared parser, the rendering of a legal item list is read back as that
                      item list.
   Only definitions of Token.v / ParserCore.v / ParserSpec.v are used; nothing is changed there. *)
From Coq Require Import List Arith Bool ZArith Lia.
From Coq Require Import Init.Byte.
From Nitro Require Import Base.Bytes Base.ListX Base.Res Opt.Token Opt.Decl Opt.ParserModel Opt.ParserCore Opt.ParserSpec.
Import ListNotations.
Local Open Scope list_scope.

(* ====================================================================================================== *)
(* 1. generic list facts: find_idx, nodupb, dup_short                                                      *)
(* ====================================================================================================== *)

Lemma find_idx_ext {A} (f g : A -> bool) l : (forall x, f x = g x) -> find_idx f l = find_idx g l.
Proof. intros H. induction l as [|x l IH]; cbn [find_idx]; [reflexivity|]. rewrite H, IH. reflexivity. Qed.

Lemma find_idx_none_intro {A} (f : A -> bool) l : (forall x, In x l -> f x = false) -> find_idx f l = None.
Proof.
  induction l as [|x l IH]; intros H; cbn [find_idx]; [reflexivity|].
  rewrite (H x (or_introl eq_refl)), IH; [reflexivity|]. intros y Hy. apply H. right. exact Hy.
Qed.

Lemma existsb_seq_eqb_false x l : existsb (seq_eqb x) l = false <-> ~ In x l.
Proof.
  split.
  - intros H I. assert (E : existsb (seq_eqb x) l = true); [|congruence].
    apply existsb_exists. exists x. split; [exact I | apply seq_eqb_refl].
  - intros H. destruct (existsb (seq_eqb x) l) eqn:E; [|reflexivity].
    apply existsb_exists in E as (y & Iy & Ey). apply seq_eqb_true in Ey. subst. contradiction.
Qed.

Lemma nodupb_app l1 l2 : nodupb (l1 ++ l2) = true ->
  nodupb l1 = true /\ nodupb l2 = true /\ (forall x, In x l1 -> In x l2 -> False).
Proof.
  induction l1 as [|a l1 IH]; cbn [app nodupb]; intros H.
  - repeat split; auto.
  - apply andb_true_iff in H as [H1 H2]. apply negb_true_iff in H1. rewrite existsb_app in H1.
    apply orb_false_iff in H1 as [H1a H1b]. destruct (IH H2) as (I1 & I2 & I3). repeat split.
    + rewrite H1a, I1. reflexivity.
    + exact I2.
    + intros x [<-|Hx] Hx2; [apply existsb_seq_eqb_false in H1b; contradiction | eauto].
Qed.

(* under no-duplicate names, looking a declared name up returns its own index *)
Lemma find_name {A} (nm : A -> str) : forall l i x, nodupb (map nm l) = true -> nth_error l i = Some x ->
  find_idx (fun o => seq_eqb (nm x) (nm o)) l = Some i.
Proof.
  induction l as [|a l IH]; intros [|i] x ND NE; cbn [nth_error] in NE; try discriminate.
  - injection NE as ->. cbn [find_idx]. rewrite seq_eqb_refl. reflexivity.
  - cbn [map nodupb] in ND. apply andb_true_iff in ND as [N1 N2].
    apply negb_true_iff, existsb_seq_eqb_false in N1.
    cbn [find_idx]. destruct (seq_eqb (nm x) (nm a)) eqn:E.
    + apply seq_eqb_true in E. exfalso. apply N1. rewrite <- E. apply in_map. eapply nth_error_In; eauto.
    + rewrite (IH i x N2 NE). reflexivity.
Qed.

Lemma find_name_none {A} (nm : A -> str) n l : ~ In n (map nm l) -> find_idx (fun o => seq_eqb n (nm o)) l = None.
Proof.
  intros H. apply find_idx_none_intro. intros x Hx. apply seq_eqb_false. intros ->. apply H. apply in_map. exact Hx.
Qed.

(* the letter test used by check_parser_consistency and toggle_by_letter *)
Definition short_is (c : byte) (s : option byte) : bool := match s with Some c' => beq c c' | None => false end.

Lemma existsb_short_is_false c l : existsb (short_is c) l = false <-> ~ In (Some c) l.
Proof.
  split.
  - intros H I. assert (E : existsb (short_is c) l = true); [|congruence].
    apply existsb_exists. exists (Some c). split; [exact I | apply beq_refl].
  - intros H. destruct (existsb (short_is c) l) eqn:E; [|reflexivity].
    apply existsb_exists in E as ([c'|] & Iy & Ey); [|discriminate]. apply beq_true in Ey. subst. contradiction.
Qed.

Lemma dup_short_cons_some c l : dup_short (Some c :: l) = existsb (short_is c) l || dup_short l.
Proof. reflexivity. Qed.

Lemma dup_short_app l1 l2 : dup_short (l1 ++ l2) = false ->
  dup_short l1 = false /\ dup_short l2 = false /\ (forall c, In (Some c) l1 -> In (Some c) l2 -> False).
Proof.
  induction l1 as [|[c|] l1 IH]; intros H.
  - repeat split; auto.
  - cbn [app] in H. rewrite dup_short_cons_some in H. apply orb_false_iff in H as [H1 H2].
    rewrite existsb_app in H1. apply orb_false_iff in H1 as [H1a H1b]. destruct (IH H2) as (I1 & I2 & I3).
    rewrite dup_short_cons_some. repeat split.
    + rewrite H1a, I1. reflexivity.
    + exact I2.
    + intros c0 [E|Hx] Hx2; [injection E as <-; apply existsb_short_is_false in H1b; contradiction | eauto].
  - cbn [app dup_short] in H. destruct (IH H) as (I1 & I2 & I3). cbn [dup_short]. repeat split; auto.
    intros c0 [E|Hx] Hx2; [discriminate | eauto].
Qed.

(* under no-duplicate letters, looking a declared letter up returns its own index *)
Lemma find_short {A} (sh : A -> option byte) : forall l i x c, dup_short (map sh l) = false ->
  nth_error l i = Some x -> sh x = Some c -> find_idx (fun o => short_is c (sh o)) l = Some i.
Proof.
  induction l as [|a l IH]; intros [|i] x c ND NE SX; cbn [nth_error] in NE; try discriminate.
  - injection NE as ->. cbn [find_idx]. rewrite SX. cbn [short_is]. rewrite beq_refl. reflexivity.
  - cbn [find_idx]. cbn [map] in ND. destruct (sh a) as [c'|] eqn:SA.
    + rewrite dup_short_cons_some in ND. apply orb_false_iff in ND as [N1 N2]. cbn [short_is].
      destruct (beq c c') eqn:E.
      * apply beq_true in E. subst c'. exfalso. apply existsb_short_is_false in N1. apply N1.
        rewrite <- SX. apply in_map. eapply nth_error_In; eauto.
      * rewrite (IH i x c N2 NE SX). reflexivity.
    + cbn [dup_short] in ND. cbn [short_is]. rewrite (IH i x c ND NE SX). reflexivity.
Qed.

(* ====================================================================================================== *)
(* 2. one token: splitting at '=' and the classification predicates                                       *)
(* ====================================================================================================== *)

Definition no_eq (s : str) : bool := negb (existsb (beq eqc) s).
Definition sfx (v : option str) : str := match v with Some x => eqc :: x | None => [] end.
Definition is_some {A} (o : option A) : bool := match o with Some _ => true | None => false end.

Lemma eqc_dash : beq eqc dash = false. Proof. reflexivity. Qed.
Lemma dash_eqc : beq dash eqc = false. Proof. reflexivity. Qed.

Lemma no_eq_cons c s : no_eq (c :: s) = true <-> beq c eqc = false /\ no_eq s = true.
Proof.
  unfold no_eq. cbn [existsb]. rewrite negb_orb, andb_true_iff, (beq_sym eqc c), negb_true_iff. tauto.
Qed.

Lemma split_eq_sfx n v : no_eq n = true -> split_eq (n ++ sfx v) = (n, v).
Proof.
  induction n as [|c n IH]; intros H.
  - destruct v as [x|]; cbn [app sfx split_eq]; [rewrite beq_refl|]; reflexivity.
  - apply no_eq_cons in H as [Hc Hn]. cbn [app split_eq]. rewrite Hc, (IH Hn). reflexivity.
Qed.
Lemma name_of_sfx n v : no_eq n = true -> name_of (n ++ sfx v) = n.
Proof. intros H. unfold name_of. rewrite split_eq_sfx by exact H. reflexivity. Qed.
Lemma value_of_sfx n v : no_eq n = true -> value_of (n ++ sfx v) = v.
Proof. intros H. unfold value_of. rewrite split_eq_sfx by exact H. reflexivity. Qed.
(* a token without '=' is its own name *)
Lemma name_of_no_eq n : no_eq n = true -> name_of n = n /\ value_of n = None.
Proof.
  intros H. pose proof (name_of_sfx n None H) as A. pose proof (value_of_sfx n None H) as C.
  cbn [sfx] in A, C. rewrite app_nil_r in A, C. split; assumption.
Qed.

(* every token is its name followed by "=value" if it has one *)
Lemma recompose a : a = name_of a ++ sfx (value_of a).
Proof.
  unfold name_of, value_of. induction a as [|c r IH]; cbn [split_eq]; [reflexivity|].
  destruct (beq c eqc) eqn:E.
  - apply beq_true in E. subst. reflexivity.
  - destruct (split_eq r) as [n v]. cbn [fst snd app] in *. f_equal. exact IH.
Qed.
Lemma name_of_has_no_eq a : no_eq (name_of a) = true.
Proof.
  unfold name_of. induction a as [|c r IH]; cbn [split_eq]; [reflexivity|].
  destruct (beq c eqc) eqn:E; [reflexivity|].
  destruct (split_eq r) as [n v]. cbn [fst] in *. apply no_eq_cons. split; assumption.
Qed.

Lemma is_short_shape a : is_short a = true -> exists c l, name_of a = dash :: c :: l /\ beq c dash = false.
Proof.
  unfold is_short. destruct (name_of a) as [|c0 [|c1 l]]; try discriminate.
  rewrite andb_true_iff, negb_true_iff. intros [H0 H1]. apply beq_true in H0. subst. eauto.
Qed.
Lemma is_named_shape a : is_named a = true -> exists c r, name_of a = dash :: dash :: c :: r /\ beq c dash = false.
Proof.
  unfold is_named. destruct (name_of a) as [|c0 [|c1 [|c2 r]]]; try discriminate.
  rewrite !andb_true_iff, negb_true_iff. intros [[H0 H1] H2]. apply beq_true in H0, H1. subst. eauto.
Qed.

(* everything the parser asks of a token whose name is "--" m *)
Lemma long_name_facts a c r : name_of a = dash :: dash :: c :: r -> beq c dash = false ->
  is_value a = false /\ is_short a = false /\ is_named a = true /\ named_part a = c :: r /\ bundled a = false
  /\ (forall name short, base_matches name short a = seq_eqb (c :: r) name).
Proof.
  intros N Hc.
  assert (V : is_value a = false) by (unfold is_value; rewrite N, beq_refl; reflexivity).
  assert (S : is_short a = false) by (unfold is_short; rewrite N, beq_refl; reflexivity).
  assert (M : is_named a = true) by (unfold is_named; rewrite N, beq_refl, Hc; reflexivity).
  assert (P : named_part a = c :: r) by (unfold named_part; rewrite N; reflexivity).
  repeat split; try assumption.
  - unfold bundled. rewrite S. reflexivity.
  - intros name short. unfold base_matches, is_argument. rewrite S, M, P.
    cbn [orb negb]. rewrite andb_false_r. reflexivity.
Qed.

Definition hits (L : str) (s : option byte) : bool := match s with Some c => 0 <? count_letter c L | None => false end.

(* everything the parser asks of a token whose name is "-" L *)
Lemma short_name_facts a c l : name_of a = dash :: c :: l -> beq c dash = false ->
  is_value a = false /\ is_short a = true /\ is_named a = false /\ letters a = c :: l /\ has_prefix a = false
  /\ bundled a = (1 <? length (c :: l))
  /\ (forall name short, (1 <? length (c :: l)) && has_value a = false -> base_matches name short a = hits (c :: l) short).
Proof.
  intros N Hc.
  assert (V : is_value a = false) by (unfold is_value; rewrite N, beq_refl; reflexivity).
  assert (S : is_short a = true) by (unfold is_short; rewrite N, beq_refl, Hc; reflexivity).
  assert (M : is_named a = false).
  { unfold is_named. rewrite N. destruct l as [|c2 l]; [reflexivity|]. rewrite Hc, andb_false_r. reflexivity. }
  assert (L : letters a = c :: l) by (unfold letters; rewrite N; reflexivity).
  repeat split; try assumption.
  - unfold has_prefix, no_prefix. rewrite N. cbn [prefixb]. rewrite (beq_sym dash c), Hc, andb_false_r. reflexivity.
  - unfold bundled. rewrite S, L. reflexivity.
  - intros name short HB. unfold base_matches, is_argument. rewrite S, M, L, HB. cbn [orb negb].
    destruct short as [c'|]; reflexivity.
Qed.

Lemma argument_not_value a : is_argument a = true -> is_value a = false.
Proof.
  unfold is_argument. intros H. apply orb_true_iff in H as [H|H].
  - destruct (is_short_shape a H) as (c & l & N & Hc). apply (short_name_facts a c l N Hc).
  - destruct (is_named_shape a H) as (c & r & N & Hc). apply (long_name_facts a c r N Hc).
Qed.

Lemma has_value_no_value a : is_value a = false -> has_value a = is_some (value_of a).
Proof. intros V. unfold has_value. rewrite V. reflexivity. Qed.
Lemma value_part_no_value a : is_value a = false -> value_part a = match value_of a with Some v => v | None => [] end.
Proof. intros V. unfold value_part. rewrite V. reflexivity. Qed.

Lemma count_letter_absent c L : ~ In c L -> count_letter c L = 0.
Proof.
  unfold count_letter. induction L as [|x L IH]; intros H; cbn [filter]; [reflexivity|].
  destruct (beq c x) eqn:E.
  - apply beq_true in E. subst. exfalso. apply H. left. reflexivity.
  - apply IH. intros I. apply H. right. exact I.
Qed.
Lemma hits_single c s : hits [c] s = short_is c s.
Proof.
  destruct s as [c'|]; [|reflexivity]. unfold hits, count_letter, short_is. cbn [filter].
  rewrite (beq_sym c' c). destruct (beq c c'); reflexivity.
Qed.
Lemma hits_absent L s : (forall c, s = Some c -> ~ In c L) -> hits L s = false.
Proof. destruct s as [c|]; [|reflexivity]. intros H. unfold hits. rewrite count_letter_absent; [reflexivity | auto]. Qed.

Lemma well_formed_dashes2 c x : beq c dash = false -> beq c eqc = false -> well_formed (dash :: dash :: c :: x) = true.
Proof.
  intros Hd He. unfold well_formed. cbn [count_dashes]. rewrite !beq_refl, Hd. cbn [skipn]. rewrite He.
  cbn. apply orb_true_r.
Qed.
Lemma well_formed_dashes1 c x : beq c dash = false -> beq c eqc = false -> well_formed (dash :: c :: x) = true.
Proof.
  intros Hd He. unfold well_formed. cbn [count_dashes]. rewrite !beq_refl, Hd. cbn [skipn]. rewrite He.
  cbn. apply orb_true_r.
Qed.
Lemma not_dd_3 c0 c1 c x : is_double_dash (c0 :: c1 :: c :: x) = false.
Proof. unfold is_double_dash. cbn [seq_eqb]. rewrite !andb_false_r. reflexivity. Qed.
Lemma not_dd_short c x : beq c dash = false -> is_double_dash (dash :: c :: x) = false.
Proof. intros H. unfold is_double_dash. cbn [seq_eqb]. rewrite H, andb_false_r. reflexivity. Qed.

(* ====================================================================================================== *)
(* 3. explain without accumulators                                                                        *)
(* ====================================================================================================== *)

Definition drop1 (skip : bool) (args : list str) : list str := if skip then tl args else args.

(* the part of `explain` before "--" (the same recursion as Opt/RefineDefs.explain' restricted to seen_dd = false) *)
Fixpoint explainD (d : decl) (go skip : bool) (args : list str) : res (list item * option (list str)) :=
  match args with
  | [] => Ok ([], None)
  | a :: rest =>
    if skip then explainD d go false rest
    else if go || is_value a then
      match explainD d (go || d_greedy d) false rest with Ok (its, t) => Ok (ItPos a :: its, t) | Err e => Err e end
    else if negb (well_formed a) then Err UserError
    else if is_double_dash a then Ok ([], Some rest)
    else match explain_tok d a (hd_error rest) with
         | Err e => Err e
         | Ok (it, c) => match explainD d go c rest with Ok (its, t) => Ok (it :: its, t) | Err e => Err e end
         end
  end.

(* after "--" everything is copied *)
Lemma explain_after_dd d go : forall args skip acc tl,
  explain d true go skip acc tl args = Ok (rev acc, Some (rev tl ++ drop1 skip args)).
Proof.
  induction args as [|a rest IH]; intros skip acc tl.
  - cbn [explain]. destruct skip; cbn [drop1 List.tl]; rewrite app_nil_r; reflexivity.
  - cbn [explain]. destruct skip.
    + rewrite IH. reflexivity.
    + rewrite IH. cbn [drop1 rev]. rewrite <- app_assoc. reflexivity.
Qed.

Lemma explain_acc d : forall args go skip acc tl,
  explain d false go skip acc tl args =
  match explainD d go skip args with
  | Ok (its, t) => Ok (rev acc ++ its, option_map (app (rev tl)) t)
  | Err e => Err e
  end.
Proof.
  induction args as [|a rest IH]; intros go skip acc tl.
  - cbn [explain explainD option_map]. rewrite app_nil_r. reflexivity.
  - cbn [explain explainD]. destruct skip; [apply IH|].
    destruct (go || is_value a).
    { rewrite IH. destruct (explainD d (go || d_greedy d) false rest) as [[its t]|e]; [|reflexivity].
      cbn [rev]. rewrite <- app_assoc. reflexivity. }
    destruct (negb (well_formed a)); [reflexivity|].
    destruct (is_double_dash a).
    { rewrite explain_after_dd. cbn [drop1 option_map]. rewrite app_nil_r. reflexivity. }
    destruct (explain_tok d a (hd_error rest)) as [[it c]|e]; [|reflexivity].
    rewrite IH. destruct (explainD d go c rest) as [[its t]|e]; [|reflexivity].
    cbn [rev]. rewrite <- app_assoc. reflexivity.
Qed.

Theorem explain_explainD d args : explain d false false false [] [] args = explainD d false false args.
Proof.
  rewrite explain_acc. destruct (explainD d false false args) as [[its t]|e]; [|reflexivity].
  cbn [rev app]. destruct t; reflexivity.
Qed.

Lemma render_cons d it its t : render d (it :: its) t = render_item d it ++ render d its t.
Proof. unfold render. cbn [map concat]. rewrite <- app_assoc. reflexivity. Qed.

(* ====================================================================================================== *)
(* 4. render after explain                                                                                *)
(* ====================================================================================================== *)

(* what a token that matched a valued option must look like *)
Lemma matched_shape name short a :
  base_matches name short a = true -> bundled a = false ->
  (is_short a = true /\ exists c, short = Some c /\ name_of a = [dash; c]) \/
  (is_short a = false /\ name_of a = dd ++ name).
Proof.
  intros M Bn. destruct (is_short a) eqn:S.
  - left. split; [reflexivity|]. destruct (is_short_shape a S) as (c & l & N & Hc).
    destruct (short_name_facts a c l N Hc) as (_ & _ & _ & L & _ & Bd & BM).
    rewrite Bd in Bn. destruct l as [|c2 l]; [|discriminate Bn].
    rewrite BM in M by reflexivity. rewrite hits_single in M.
    destruct short as [c'|]; [|discriminate M]. cbn [short_is] in M. apply beq_true in M. subst c'.
    exists c. split; [reflexivity | exact N].
  - right. split; [reflexivity|]. unfold base_matches, is_argument in M. rewrite S in M. cbn [orb] in M.
    destruct (is_named a) eqn:Nm; cbn [negb] in M; [|discriminate M].
    rewrite andb_false_r in M. apply seq_eqb_true in M.
    destruct (is_named_shape a Nm) as (c & r & N & Hc). unfold named_part in M. rewrite N in M. cbn [skipn] in M.
    subst name. exact N.
Qed.

Definition next_used (c : bool) (next : option str) : list str :=
  if c then match next with Some n => [n] | None => [] end else [].

Lemma explain_valued_render (mk : oform -> str -> item) name short a next it c :
  base_matches name short a = true ->
  explain_valued mk a next = Ok (it, c) ->
  exists f v, it = mk f v /\ render_valued name short f v = a :: next_used c next /\ (c = true -> next <> None).
Proof.
  intros M E. unfold explain_valued in E.
  destruct (bundled a) eqn:Bn; [discriminate E|].
  assert (V : is_value a = false).
  { apply argument_not_value. unfold base_matches in M. destruct (is_argument a); [reflexivity | discriminate M]. }
  pose proof (recompose a) as R.
  rewrite (has_value_no_value a V), (value_part_no_value a V) in E. unfold form_of in E.
  destruct (matched_shape _ _ _ M Bn) as [(S & c0 & -> & N) | (S & N)]; rewrite S in E; rewrite N in R.
  - destruct (value_of a) as [v|]; cbn [is_some] in E.
    + injection E as <- <-. exists ShortEq, v. repeat split; [|discriminate]. rewrite R. reflexivity.
    + destruct next as [n|]; [|discriminate E]. destruct (is_value n); [|discriminate E].
      injection E as <- <-. exists ShortSp, n. repeat split; [|discriminate].
      rewrite R. cbn [sfx]. rewrite app_nil_r. reflexivity.
  - destruct (value_of a) as [v|]; cbn [is_some] in E.
    + injection E as <- <-. exists LongEq, v. repeat split; [|discriminate]. rewrite R.
      cbn [render_valued next_used sfx]. rewrite <- app_assoc. reflexivity.
    + destruct next as [n|]; [|discriminate E]. destruct (is_value n); [|discriminate E].
      injection E as <- <-. exists LongSp, n. repeat split; [|discriminate].
      rewrite R. cbn [sfx]. rewrite app_nil_r. reflexivity.
Qed.

Lemma all_some_letters d : forall l ts, all_some (map (toggle_by_letter d) l) = Some ts -> map (letter_of d) ts = l.
Proof.
  induction l as [|c l IH]; intros ts H; cbn [map all_some] in H.
  - injection H as <-. reflexivity.
  - destruct (toggle_by_letter d c) as [t|] eqn:T; [|discriminate H].
    destruct (all_some (map (toggle_by_letter d) l)) as [r|]; [|discriminate H].
    cbn [option_map] in H. injection H as <-. cbn [map]. rewrite (IH r eq_refl). f_equal.
    unfold toggle_by_letter in T. apply find_idx_some in T as (td & NE & P & _).
    unfold letter_of. rewrite NE. destruct (t_short td) as [c'|]; [|discriminate P].
    apply beq_true in P. congruence.
Qed.

Lemma explain_tok_render d a next it c :
  explain_tok d a next = Ok (it, c) -> render_item d it = a :: next_used c next /\ (c = true -> next <> None).
Proof.
  unfold explain_tok. intros E.
  destruct (find_idx (fun o => base_matches (o_name o) (o_short o) a) (d_opts d)) as [i|] eqn:FO.
  { apply find_idx_some in FO as (o & NE & M & _).
    destruct (explain_valued_render (ItOpt i) _ _ _ _ _ _ M E) as (f & v & -> & R & C).
    cbn [render_item]. rewrite NE. split; assumption. }
  destruct (find_idx (fun o => base_matches (m_name o) (m_short o) a) (d_multis d)) as [i|] eqn:FM.
  { apply find_idx_some in FM as (o & NE & M & _).
    destruct (explain_valued_render (ItMulti i) _ _ _ _ _ _ M E) as (f & v & -> & R & C).
    cbn [render_item]. rewrite NE. split; assumption. }
  destruct (has_value a) eqn:HV; [discriminate E|].
  assert (VO : value_of a = None).
  { unfold has_value in HV. apply orb_false_iff in HV as [_ HV]. destruct (value_of a); [discriminate HV | reflexivity]. }
  pose proof (recompose a) as R. rewrite VO in R. cbn [sfx] in R. rewrite app_nil_r in R.
  destruct (is_short a) eqn:S.
  { destruct (all_some (map (toggle_by_letter d) (letters a))) as [ts|] eqn:AS; [|discriminate E].
    injection E as <- <-. split; [|discriminate]. cbn [render_item next_used].
    rewrite (all_some_letters d _ _ AS). destruct (is_short_shape a S) as (c0 & l & N & _).
    f_equal. transitivity (name_of a); [|symmetry; exact R]. unfold letters. rewrite N. reflexivity. }
  destruct (is_named a) eqn:Nm; [|discriminate E].
  destruct (is_named_shape a Nm) as (c0 & r & N & _).
  destruct (find_idx (fun t => seq_eqb (named_part a) (t_name t)) (d_toggles d)) as [t|] eqn:FT.
  { injection E as <- <-. split; [|discriminate]. apply find_idx_some in FT as (td & NE & P & _).
    apply seq_eqb_true in P. cbn [render_item next_used]. rewrite NE, <- P. unfold named_part. rewrite N.
    cbn [skipn]. f_equal. transitivity (name_of a); [|symmetry; exact R]. rewrite N. reflexivity. }
  destruct (has_prefix a) eqn:HP; [|discriminate E].
  destruct (find_idx (fun t => seq_eqb (unprefixed a) (t_name t)) (d_toggles d)) as [t|] eqn:FU; [|discriminate E].
  injection E as <- <-. split; [|discriminate]. apply find_idx_some in FU as (td & NE & P & _).
  apply seq_eqb_true in P. cbn [render_item next_used]. rewrite NE, <- P. f_equal.
  unfold has_prefix in HP. apply prefixb_spec in HP as [x HP]. unfold unprefixed. rewrite HP.
  change (skipn 5 (no_prefix ++ x)) with x. rewrite <- HP. exact (eq_sym R).
Qed.

Lemma render_explainD d : forall args go skip its t,
  explainD d go skip args = Ok (its, t) -> render d its t = drop1 skip args.
Proof.
  induction args as [|a rest IH]; intros go skip its t E.
  - cbn [explainD] in E. injection E as <- <-. destruct skip; reflexivity.
  - cbn [explainD] in E. destruct skip.
    { apply IH in E. exact E. }
    cbn [drop1]. destruct (go || is_value a).
    { destruct (explainD d (go || d_greedy d) false rest) as [[its' t']|e] eqn:E'; [|discriminate E].
      injection E as <- <-. rewrite render_cons. apply IH in E'. cbn [drop1] in E'. rewrite E'. reflexivity. }
    destruct (negb (well_formed a)); [discriminate E|].
    destruct (is_double_dash a) eqn:DD.
    { injection E as <- <-. apply seq_eqb_true in DD. subst a. reflexivity. }
    destruct (explain_tok d a (hd_error rest)) as [[it c]|e] eqn:T; [|discriminate E].
    destruct (explainD d go c rest) as [[its' t']|e] eqn:E'; [|discriminate E].
    injection E as <- <-. rewrite render_cons. apply IH in E'. rewrite E'.
    apply explain_tok_render in T as [T C]. rewrite T. destruct c; cbn [next_used drop1].
    + destruct rest as [|n rest']; [exfalso; apply C; reflexivity|]. reflexivity.
    + reflexivity.
Qed.

Theorem render_explain : forall d args items tail,
  explain d false false false [] [] args = Ok (items, tail) -> render d items tail = args.
Proof.
  intros d args items tail E. rewrite explain_explainD in E. apply render_explainD in E. exact E.
Qed.

(* ====================================================================================================== *)
(* 5. correctly declared parsers                                                                          *)
(* ====================================================================================================== *)

Record good (d : decl) : Prop := mk_good {
  g_name : forall n, In n (all_names d) -> name_ok n = true;
  g_short : forall c, In (Some c) (all_shorts d) -> beq c dash = false /\ beq c eqc = false;
  g_nd_o : nodupb (map o_name (d_opts d)) = true;
  g_nd_m : nodupb (map m_name (d_multis d)) = true;
  g_nd_t : nodupb (map t_name (d_toggles d)) = true;
  g_om : forall n, In n (map o_name (d_opts d)) -> In n (map m_name (d_multis d)) -> False;
  g_ot : forall n, In n (map o_name (d_opts d)) -> In n (map t_name (d_toggles d)) -> False;
  g_mt : forall n, In n (map m_name (d_multis d)) -> In n (map t_name (d_toggles d)) -> False;
  g_sd_o : dup_short (map o_short (d_opts d)) = false;
  g_sd_m : dup_short (map m_short (d_multis d)) = false;
  g_sd_t : dup_short (map t_short (d_toggles d)) = false;
  g_s_om : forall c, In (Some c) (map o_short (d_opts d)) -> In (Some c) (map m_short (d_multis d)) -> False;
  g_s_ot : forall c, In (Some c) (map o_short (d_opts d)) -> In (Some c) (map t_short (d_toggles d)) -> False;
  g_s_mt : forall c, In (Some c) (map m_short (d_multis d)) -> In (Some c) (map t_short (d_toggles d)) -> False;
  g_clash : forall t td, nth_error (d_toggles d) t = Some td -> t_rev td = true ->
            ~ In (skipn 2 no_prefix ++ t_name td) (all_names d)
}.

Lemma good_intro d : wf_decl d = true -> consistent d = true -> no_prefix_clash d = true -> good d.
Proof.
  intros W C K. unfold wf_decl in W. apply andb_true_iff in W as [W Wnd]. apply andb_true_iff in W as [Wn Ws].
  unfold consistent in C. apply negb_true_iff in C.
  unfold all_names in Wnd. apply nodupb_app in Wnd as (N1 & N23 & X1). apply nodupb_app in N23 as (N2 & N3 & X2).
  unfold all_shorts in C. apply dup_short_app in C as (S1 & S23 & Y1). apply dup_short_app in S23 as (S2 & S3 & Y2).
  rewrite forallb_forall in Wn. rewrite forallb_forall in Ws.
  apply mk_good; try assumption.
  - intros c I. apply Ws in I. unfold short_ok in I. apply andb_true_iff in I as [A B].
    rewrite negb_true_iff in A, B. split; assumption.
  - intros n I1 I2. apply (X1 n I1). apply in_or_app. left. exact I2.
  - intros n I1 I2. apply (X1 n I1). apply in_or_app. right. exact I2.
  - intros c I1 I2. apply (Y1 c I1). apply in_or_app. left. exact I2.
  - intros c I1 I2. apply (Y1 c I1). apply in_or_app. right. exact I2.
  - intros t td NE RV. unfold no_prefix_clash in K. rewrite forallb_forall in K.
    specialize (K td (nth_error_In _ _ NE)). rewrite RV in K. cbn [negb orb] in K.
    apply negb_true_iff in K. apply existsb_seq_eqb_false in K. exact K.
Qed.

Lemma name_ok_shape n : name_ok n = true -> exists c r, n = c :: r /\ beq c dash = false /\ no_eq n = true.
Proof.
  unfold name_ok. destruct n as [|c r]; intros H; [cbn in H; discriminate H|].
  apply andb_true_iff in H as [H H3]. apply andb_true_iff in H as [_ H2]. apply negb_true_iff in H3.
  exists c, r. repeat split; assumption.
Qed.

(* ---------- the two kinds of constructed tokens ---------- *)
(* "--" m  or  "--" m "=" x *)
Definition long_tok (a m : str) (v : option str) : Prop :=
  a = dd ++ m ++ sfx v /\ (exists c r, m = c :: r /\ beq c dash = false) /\ no_eq m = true.
(* "-" L  or  "-" c "=" x *)
Definition short_tok (a L : str) (v : option str) : Prop :=
  a = (dash :: L) ++ sfx v /\ (exists c l, L = c :: l /\ beq c dash = false) /\ no_eq L = true
  /\ (v <> None -> length L = 1).

Lemma long_tok_facts a m v : long_tok a m v ->
  is_value a = false /\ well_formed a = true /\ is_double_dash a = false /\ is_short a = false /\ is_named a = true
  /\ named_part a = m /\ bundled a = false /\ value_of a = v /\ name_of a = dd ++ m
  /\ (forall name short, base_matches name short a = seq_eqb m name).
Proof.
  intros (-> & (c & r & -> & Hc) & Hn).
  pose proof Hn as Hn'. apply no_eq_cons in Hn' as [He _].
  assert (NE : no_eq (dd ++ c :: r) = true).
  { unfold dd. cbn [app]. apply no_eq_cons; split; [exact dash_eqc|]. apply no_eq_cons; split; [exact dash_eqc | exact Hn]. }
  assert (N : name_of (dd ++ (c :: r) ++ sfx v) = dash :: dash :: c :: r).
  { rewrite app_assoc. rewrite name_of_sfx by exact NE. reflexivity. }
  assert (VO : value_of (dd ++ (c :: r) ++ sfx v) = v).
  { rewrite app_assoc. apply value_of_sfx. exact NE. }
  destruct (long_name_facts _ c r N Hc) as (V & S & M & P & B & BM).
  split; [exact V|]. split; [exact (well_formed_dashes2 c (r ++ sfx v) Hc He)|].
  split; [exact (not_dd_3 dash dash c (r ++ sfx v))|].
  split; [exact S|]. split; [exact M|]. split; [exact P|]. split; [exact B|]. split; [exact VO|].
  split; [exact N | exact BM].
Qed.

Lemma short_tok_facts a L v : short_tok a L v ->
  is_value a = false /\ well_formed a = true /\ is_double_dash a = false /\ is_short a = true /\ is_named a = false
  /\ letters a = L /\ bundled a = (1 <? length L) /\ value_of a = v /\ has_prefix a = false
  /\ (forall name short, base_matches name short a = hits L short).
Proof.
  intros (-> & (c & l & -> & Hc) & Hn & Hl).
  pose proof Hn as Hn'. apply no_eq_cons in Hn' as [He _].
  assert (NE : no_eq (dash :: c :: l) = true) by (apply no_eq_cons; split; [exact dash_eqc | exact Hn]).
  assert (N : name_of ((dash :: c :: l) ++ sfx v) = dash :: c :: l) by (apply name_of_sfx; exact NE).
  assert (VO : value_of ((dash :: c :: l) ++ sfx v) = v) by (apply value_of_sfx; exact NE).
  destruct (short_name_facts _ c l N Hc) as (V & S & M & Lt & HP & B & BM).
  split; [exact V|]. split; [exact (well_formed_dashes1 c (l ++ sfx v) Hc He)|].
  split; [exact (not_dd_short c (l ++ sfx v) Hc)|].
  split; [exact S|]. split; [exact M|]. split; [exact Lt|]. split; [exact B|]. split; [exact VO|].
  split; [exact HP|].
  intros name short. apply BM. rewrite (has_value_no_value _ V), VO.
  destruct v as [x|]; [|apply andb_false_r]. rewrite Hl by discriminate. reflexivity.
Qed.

Definition valued_result (mk : oform -> str -> item) (fe fs : oform) (v next : option str) : res (item * bool) :=
  match v with
  | Some x => Ok (mk fe x, false)
  | None => match next with
            | Some n => if is_value n then Ok (mk fs n, true) else Err UserError
            | None => Err UserError
            end
  end.

Lemma explain_valued_long mk a m v next : long_tok a m v ->
  explain_valued mk a next = valued_result mk LongEq LongSp v next.
Proof.
  intros T. destruct (long_tok_facts a m v T) as (V & _ & _ & S & _ & _ & B & VO & _).
  unfold explain_valued, form_of. rewrite B, (has_value_no_value a V), (value_part_no_value a V), VO, S.
  destruct v; reflexivity.
Qed.
Lemma explain_valued_short mk a c v next : short_tok a [c] v ->
  explain_valued mk a next = valued_result mk ShortEq ShortSp v next.
Proof.
  intros T. destruct (short_tok_facts a [c] v T) as (V & _ & _ & S & _ & _ & B & VO & _).
  unfold explain_valued, form_of. rewrite B, (has_value_no_value a V), (value_part_no_value a V), VO, S.
  destruct v; reflexivity.
Qed.

(* ---------- what the main induction needs of the first token(s) of an item ---------- *)
Definition tok1 (d : decl) (it : item) (a : str) : Prop :=
  is_value a = false /\ well_formed a = true /\ is_double_dash a = false
  /\ forall next, explain_tok d a next = Ok (it, false).
Definition tok2 (d : decl) (it : item) (a n : str) : Prop :=
  is_value a = false /\ well_formed a = true /\ is_double_dash a = false
  /\ explain_tok d a (Some n) = Ok (it, true).
Definition item_toks (d : decl) (it : item) (r : list str) : Prop :=
  (exists a, r = [a] /\ tok1 d it a) \/ (exists a n, r = [a; n] /\ tok2 d it a n).

Lemma valued_item d (mk : oform -> str -> item) name short f v :
  name_ok name = true -> (forall c, short = Some c -> beq c dash = false /\ beq c eqc = false) ->
  form_ok short f v = true ->
  (forall a x next, long_tok a name x -> explain_tok d a next = explain_valued mk a next) ->
  (forall a c x next, short = Some c -> short_tok a [c] x -> explain_tok d a next = explain_valued mk a next) ->
  item_toks d (mk f v) (render_valued name short f v).
Proof.
  intros NO SO FO EL ES. destruct (name_ok_shape name NO) as (c0 & r0 & En & Hc0 & Hne).
  assert (LT : forall x, long_tok (dd ++ name ++ sfx x) name x).
  { intros x. split; [reflexivity|]. split; [exists c0, r0; split; assumption | exact Hne]. }
  assert (STk : forall c x, short = Some c -> short_tok ((dash :: [c]) ++ sfx x) [c] x).
  { intros c x Hs. destruct (SO c Hs) as [Hd He]. split; [reflexivity|].
    split; [exists c, []; split; [reflexivity | exact Hd]|]. split; [|reflexivity].
    apply no_eq_cons. split; [exact He | reflexivity]. }
  destruct f; cbn [form_ok] in FO.
  - (* --name v *) right. exists (dd ++ name), v. cbn [render_valued]. split; [reflexivity|].
    pose proof (LT None) as T. cbn [sfx] in T. rewrite app_nil_r in T.
    destruct (long_tok_facts _ _ _ T) as (V & W & D & _).
    split; [exact V|]. split; [exact W|]. split; [exact D|].
    rewrite (EL _ _ _ T), (explain_valued_long mk _ _ _ _ T). cbn [valued_result]. rewrite FO. reflexivity.
  - (* --name=v *) left. exists (dd ++ name ++ [eqc] ++ v). cbn [render_valued]. split; [reflexivity|].
    pose proof (LT (Some v)) as T. change (dd ++ name ++ sfx (Some v)) with (dd ++ name ++ [eqc] ++ v) in T.
    destruct (long_tok_facts _ _ _ T) as (V & W & D & _).
    split; [exact V|]. split; [exact W|]. split; [exact D|]. intros next.
    rewrite (EL _ _ _ T), (explain_valued_long mk _ _ _ _ T). reflexivity.
  - (* -c v *) destruct short as [c|]; [|discriminate FO]. right. exists [dash; c], v. cbn [render_valued].
    split; [reflexivity|]. pose proof (STk c None eq_refl) as T. cbn [sfx] in T. rewrite app_nil_r in T.
    destruct (short_tok_facts _ _ _ T) as (V & W & D & _).
    split; [exact V|]. split; [exact W|]. split; [exact D|].
    rewrite (ES _ c _ _ eq_refl T), (explain_valued_short mk _ _ _ _ T). cbn [valued_result]. rewrite FO. reflexivity.
  - (* -c=v *) destruct short as [c|]; [|discriminate FO]. left. exists ([dash; c; eqc] ++ v). cbn [render_valued].
    split; [reflexivity|]. pose proof (STk c (Some v) eq_refl) as T.
    change ((dash :: [c]) ++ sfx (Some v)) with ([dash; c; eqc] ++ v) in T.
    destruct (short_tok_facts _ _ _ T) as (V & W & D & _).
    split; [exact V|]. split; [exact W|]. split; [exact D|]. intros next.
    rewrite (ES _ c _ _ eq_refl T), (explain_valued_short mk _ _ _ _ T). reflexivity.
Qed.

(* ---------- which declaration a constructed token is attributed to ---------- *)
Lemma nth_in_map {A B} (f : A -> B) l i x : nth_error l i = Some x -> In (f x) (map f l).
Proof. intros H. apply in_map. eapply nth_error_In. exact H. Qed.

Lemma find_opt_long d i o a x : good d -> nth_error (d_opts d) i = Some o -> long_tok a (o_name o) x ->
  find_idx (fun o' => base_matches (o_name o') (o_short o') a) (d_opts d) = Some i.
Proof.
  intros G NE T. destruct (long_tok_facts _ _ _ T) as (_ & _ & _ & _ & _ & _ & _ & _ & _ & BM).
  rewrite (find_idx_ext _ (fun o' => seq_eqb (o_name o) (o_name o'))) by (intros; apply BM).
  exact (find_name o_name _ i o (g_nd_o d G) NE).
Qed.
Lemma find_multi_long d i o a x : good d -> nth_error (d_multis d) i = Some o -> long_tok a (m_name o) x ->
  find_idx (fun o' => base_matches (m_name o') (m_short o') a) (d_multis d) = Some i.
Proof.
  intros G NE T. destruct (long_tok_facts _ _ _ T) as (_ & _ & _ & _ & _ & _ & _ & _ & _ & BM).
  rewrite (find_idx_ext _ (fun o' => seq_eqb (m_name o) (m_name o'))) by (intros; apply BM).
  exact (find_name m_name _ i o (g_nd_m d G) NE).
Qed.
Lemma find_opt_short d i o c a x : good d -> nth_error (d_opts d) i = Some o -> o_short o = Some c ->
  short_tok a [c] x -> find_idx (fun o' => base_matches (o_name o') (o_short o') a) (d_opts d) = Some i.
Proof.
  intros G NE SC T. destruct (short_tok_facts _ _ _ T) as (_ & _ & _ & _ & _ & _ & _ & _ & _ & BM).
  rewrite (find_idx_ext _ (fun o' => short_is c (o_short o'))) by (intros; rewrite BM; apply hits_single).
  exact (find_short o_short _ i o c (g_sd_o d G) NE SC).
Qed.
Lemma find_multi_short d i o c a x : good d -> nth_error (d_multis d) i = Some o -> m_short o = Some c ->
  short_tok a [c] x -> find_idx (fun o' => base_matches (m_name o') (m_short o') a) (d_multis d) = Some i.
Proof.
  intros G NE SC T. destruct (short_tok_facts _ _ _ T) as (_ & _ & _ & _ & _ & _ & _ & _ & _ & BM).
  rewrite (find_idx_ext _ (fun o' => short_is c (m_short o'))) by (intros; rewrite BM; apply hits_single).
  exact (find_short m_short _ i o c (g_sd_m d G) NE SC).
Qed.

(* a long token whose name no option carries matches no option *)
Lemma find_long_none {A} (nm : A -> str) (sh : A -> option byte) l a m x : long_tok a m x -> ~ In m (map nm l) ->
  find_idx (fun o => base_matches (nm o) (sh o) a) l = None.
Proof.
  intros T NI. destruct (long_tok_facts _ _ _ T) as (_ & _ & _ & _ & _ & _ & _ & _ & _ & BM).
  rewrite (find_idx_ext _ (fun o => seq_eqb m (nm o))) by (intros; apply BM).
  apply find_name_none. exact NI.
Qed.
(* a short token none of whose letters an option carries matches no option *)
Lemma find_short_none {A} (nm : A -> str) (sh : A -> option byte) l a L x : short_tok a L x ->
  (forall c, In c L -> ~ In (Some c) (map sh l)) ->
  find_idx (fun o => base_matches (nm o) (sh o) a) l = None.
Proof.
  intros T NI. destruct (short_tok_facts _ _ _ T) as (_ & _ & _ & _ & _ & _ & _ & _ & _ & BM).
  apply find_idx_none_intro. intros o Ho. rewrite BM. apply hits_absent. intros c Hc I.
  apply (NI c I). rewrite <- Hc. apply in_map. exact Ho.
Qed.

Lemma item_opt d i f v : good d -> item_ok d (ItOpt i f v) = true -> item_toks d (ItOpt i f v) (render_item d (ItOpt i f v)).
Proof.
  intros G OK. cbn [item_ok render_item] in *. destruct (nth_error (d_opts d) i) as [o|] eqn:NE; [|discriminate OK].
  apply valued_item.
  - apply (g_name d G). unfold all_names. apply in_or_app. left. exact (nth_in_map o_name _ _ _ NE).
  - intros c SC. apply (g_short d G). unfold all_shorts. apply in_or_app. left. rewrite <- SC.
    exact (nth_in_map o_short _ _ _ NE).
  - exact OK.
  - intros a x next T. unfold explain_tok. rewrite (find_opt_long d i o a x G NE T). reflexivity.
  - intros a c x next SC T. unfold explain_tok. rewrite (find_opt_short d i o c a x G NE SC T). reflexivity.
Qed.

Lemma item_multi d i f v : good d -> item_ok d (ItMulti i f v) = true ->
  item_toks d (ItMulti i f v) (render_item d (ItMulti i f v)).
Proof.
  intros G OK. cbn [item_ok render_item] in *. destruct (nth_error (d_multis d) i) as [o|] eqn:NE; [|discriminate OK].
  apply valued_item.
  - apply (g_name d G). unfold all_names. apply in_or_app. right. apply in_or_app. left.
    exact (nth_in_map m_name _ _ _ NE).
  - intros c SC. apply (g_short d G). unfold all_shorts. apply in_or_app. right. apply in_or_app. left.
    rewrite <- SC. exact (nth_in_map m_short _ _ _ NE).
  - exact OK.
  - intros a x next T. unfold explain_tok.
    rewrite (find_long_none o_name o_short (d_opts d) a _ x T).
    + rewrite (find_multi_long d i o a x G NE T). reflexivity.
    + intros I. exact (g_om d G _ I (nth_in_map m_name _ _ _ NE)).
  - intros a c x next SC T. unfold explain_tok.
    rewrite (find_short_none o_name o_short (d_opts d) a _ x T).
    + rewrite (find_multi_short d i o c a x G NE SC T). reflexivity.
    + intros c' [<-|[]] I. apply (g_s_om d G c I). rewrite <- SC. exact (nth_in_map m_short _ _ _ NE).
Qed.

(* ---------- toggles ---------- *)
Definition toggle_has_letter (d : decl) (t : nat) : bool :=
  match nth_error (d_toggles d) t with Some td => has_short (t_short td) | None => false end.

Lemma letter_of_spec d t : good d -> toggle_has_letter d t = true ->
  In (Some (letter_of d t)) (map t_short (d_toggles d)) /\ toggle_by_letter d (letter_of d t) = Some t.
Proof.
  intros G H. unfold toggle_has_letter in H. unfold letter_of.
  destruct (nth_error (d_toggles d) t) as [td|] eqn:NE; [|discriminate H].
  destruct (t_short td) as [c|] eqn:SC; [|discriminate H]. split.
  - rewrite <- SC. exact (nth_in_map t_short _ _ _ NE).
  - exact (find_short t_short _ t td c (g_sd_t d G) NE SC).
Qed.

Lemma bundle_letters d ts : good d -> forallb (toggle_has_letter d) ts = true ->
  (forall c, In c (map (letter_of d) ts) -> In (Some c) (map t_short (d_toggles d)))
  /\ all_some (map (toggle_by_letter d) (map (letter_of d) ts)) = Some ts.
Proof.
  intros G. induction ts as [|t ts IH]; intros H.
  - split; [intros c []| reflexivity].
  - cbn [forallb] in H. apply andb_true_iff in H as [H1 H2]. destruct (IH H2) as [I1 I2].
    destruct (letter_of_spec d t G H1) as [L1 L2]. split.
    + intros c [<-|I]; [exact L1 | exact (I1 c I)].
    + cbn [map all_some]. rewrite L2, I2. reflexivity.
Qed.

Lemma letters_no_eq d L : good d -> (forall c, In c L -> In (Some c) (map t_short (d_toggles d))) -> no_eq L = true.
Proof.
  intros G. induction L as [|c L IH]; intros H; [reflexivity|].
  apply no_eq_cons. split.
  - apply (g_short d G c). unfold all_shorts. apply in_or_app. right. apply in_or_app. right. apply H. left. reflexivity.
  - apply IH. intros c' I. apply H. right. exact I.
Qed.

Lemma item_bundle d ts : good d -> item_ok d (ItBundle ts) = true ->
  item_toks d (ItBundle ts) (render_item d (ItBundle ts)).
Proof.
  intros G OK. cbn [item_ok render_item] in *. apply andb_true_iff in OK as [NZ FA].
  change (forallb (toggle_has_letter d) ts = true) in FA.
  destruct (bundle_letters d ts G FA) as [LI AS].
  set (L := map (letter_of d) ts) in *.
  assert (T : short_tok (dash :: L) L None).
  { split; [cbn [sfx]; rewrite app_nil_r; reflexivity|]. split; [|split; [exact (letters_no_eq d L G LI) | intros C; contradiction]].
    destruct ts as [|t ts]; [discriminate NZ|]. subst L. cbn [map] in *. exists (letter_of d t), (map (letter_of d) ts).
    split; [reflexivity|]. apply (g_short d G). unfold all_shorts. apply in_or_app. right. apply in_or_app. right.
    apply LI. left. reflexivity. }
  left. exists (dash :: L). split; [reflexivity|].
  destruct (short_tok_facts _ _ _ T) as (V & W & D & S & _ & Lt & _ & VO & _).
  split; [exact V|]. split; [exact W|]. split; [exact D|]. intros next. unfold explain_tok.
  rewrite (find_short_none o_name o_short (d_opts d) _ L None T)
    by (intros c I I'; exact (g_s_ot d G c I' (LI c I))).
  rewrite (find_short_none m_name m_short (d_multis d) _ L None T)
    by (intros c I I'; exact (g_s_mt d G c I' (LI c I))).
  rewrite (has_value_no_value _ V), VO, S, Lt, AS. reflexivity.
Qed.

Lemma item_long d t : good d -> item_ok d (ItLong t) = true -> item_toks d (ItLong t) (render_item d (ItLong t)).
Proof.
  intros G OK. cbn [item_ok render_item] in *. destruct (nth_error (d_toggles d) t) as [td|] eqn:NE; [|discriminate OK].
  pose proof (nth_in_map t_name _ _ _ NE) as IT.
  assert (NO : name_ok (t_name td) = true).
  { apply (g_name d G). unfold all_names. apply in_or_app. right. apply in_or_app. right. exact IT. }
  destruct (name_ok_shape _ NO) as (c0 & r0 & En & Hc0 & Hne).
  assert (T : long_tok (dd ++ t_name td) (t_name td) None).
  { split; [cbn [sfx]; rewrite app_nil_r; reflexivity|]. split; [exists c0, r0; split; assumption | exact Hne]. }
  left. exists (dd ++ t_name td). split; [reflexivity|].
  destruct (long_tok_facts _ _ _ T) as (V & W & D & S & M & P & _ & VO & _).
  split; [exact V|]. split; [exact W|]. split; [exact D|]. intros next. unfold explain_tok.
  rewrite (find_long_none o_name o_short (d_opts d) _ _ None T) by (intros I; exact (g_ot d G _ I IT)).
  rewrite (find_long_none m_name m_short (d_multis d) _ _ None T) by (intros I; exact (g_mt d G _ I IT)).
  rewrite (has_value_no_value _ V), VO, S, M, P. cbn [is_some].
  rewrite (find_name t_name _ t td (g_nd_t d G) NE). reflexivity.
Qed.

Lemma item_no d t : good d -> item_ok d (ItNo t) = true -> item_toks d (ItNo t) (render_item d (ItNo t)).
Proof.
  intros G OK. cbn [item_ok render_item] in *. destruct (nth_error (d_toggles d) t) as [td|] eqn:NE; [|discriminate OK].
  pose proof (nth_in_map t_name _ _ _ NE) as IT.
  assert (NO : name_ok (t_name td) = true).
  { apply (g_name d G). unfold all_names. apply in_or_app. right. apply in_or_app. right. exact IT. }
  destruct (name_ok_shape _ NO) as (c0 & r0 & En & Hc0 & Hne).
  pose proof (g_clash d G t td NE OK) as CL. set (m := skipn 2 no_prefix ++ t_name td) in *.
  assert (T : long_tok (no_prefix ++ t_name td) m None).
  { split; [cbn [sfx]; rewrite app_nil_r; reflexivity|]. split.
    - eexists _, _. split; [reflexivity | reflexivity].
    - subst m. unfold no_prefix. cbn [skipn app]. apply no_eq_cons; split; [reflexivity|].
      apply no_eq_cons; split; [reflexivity|]. apply no_eq_cons; split; [exact dash_eqc | exact Hne]. }
  left. exists (no_prefix ++ t_name td). split; [reflexivity|].
  destruct (long_tok_facts _ _ _ T) as (V & W & D & S & M & P & _ & VO & N & _).
  split; [exact V|]. split; [exact W|]. split; [exact D|]. intros next. unfold explain_tok.
  assert (CL3 : ~ In m (map o_name (d_opts d)) /\ ~ In m (map m_name (d_multis d)) /\ ~ In m (map t_name (d_toggles d))).
  { unfold all_names in CL. repeat split; intros I; apply CL; apply in_or_app; [left; exact I | right | right];
      apply in_or_app; [left | right]; exact I. }
  destruct CL3 as (C1 & C2 & C3).
  rewrite (find_long_none o_name o_short (d_opts d) _ _ None T C1).
  rewrite (find_long_none m_name m_short (d_multis d) _ _ None T C2).
  rewrite (has_value_no_value _ V), VO, S, M, P. cbn [is_some].
  rewrite (find_name_none t_name m _ C3).
  assert (HP : has_prefix (no_prefix ++ t_name td) = true).
  { unfold has_prefix. rewrite N. apply (prefixb_app no_prefix (t_name td)). }
  assert (UP : unprefixed (no_prefix ++ t_name td) = t_name td).
  { unfold unprefixed. rewrite N. reflexivity. }
  rewrite HP, UP, (find_name t_name _ t td (g_nd_t d G) NE). reflexivity.
Qed.

Definition is_pos (it : item) : bool := match it with ItPos _ => true | _ => false end.

Lemma item_tokens d it : good d -> item_ok d it = true -> is_pos it = false -> item_toks d it (render_item d it).
Proof.
  intros G OK NP. destruct it as [i f v|i f v|ts|t|t|v].
  - apply item_opt; assumption.
  - apply item_multi; assumption.
  - apply item_bundle; assumption.
  - apply item_long; assumption.
  - apply item_no; assumption.
  - discriminate NP.
Qed.

(* ====================================================================================================== *)
(* 6. explain after render                                                                                *)
(* ====================================================================================================== *)

Definition no_tail (tail : option (list str)) : bool := match tail with Some _ => false | None => true end.
(* the greedy part of wf_items, relative to "a positional has been seen" *)
Definition shape_ok (d : decl) (seen : bool) (items : list item) (tail : option (list str)) : bool :=
  negb (d_greedy d) ||
  (if seen then forallb is_pos items && no_tail tail
   else greedy_shape items && match inline_pos items, tail with _ :: _, Some _ => false | _, _ => true end).

Lemma explainD_tok d go a rest it c :
  go = false -> is_value a = false -> well_formed a = true -> is_double_dash a = false ->
  explain_tok d a (hd_error rest) = Ok (it, c) ->
  explainD d go false (a :: rest) = match explainD d go c rest with Ok (its, t) => Ok (it :: its, t) | Err e => Err e end.
Proof. intros -> V W D E. cbn [explainD orb]. rewrite V, W, D, E. reflexivity. Qed.
Lemma explainD_skip d go n rest : explainD d go true (n :: rest) = explainD d go false rest.
Proof. reflexivity. Qed.

Lemma explainD_render d tail : good d -> forall items seen,
  forallb (item_ok d) items = true -> pos_ok d seen items = true -> shape_ok d seen items tail = true ->
  explainD d (d_greedy d && seen) false (render d items tail) = Ok (items, tail).
Proof.
  intros G. induction items as [|it items IH]; intros seen OK PO SH.
  - unfold render. cbn [map concat app]. destruct tail as [ps|]; [|reflexivity].
    assert (GO : d_greedy d && seen = false).
    { unfold shape_ok in SH. destruct (d_greedy d); [|reflexivity]. destruct seen; [discriminate SH | reflexivity]. }
    rewrite GO. reflexivity.
  - cbn [forallb] in OK. apply andb_true_iff in OK as [OK1 OK2]. rewrite render_cons.
    destruct (is_pos it) eqn:IP.
    + destruct it as [| | | | |v]; try discriminate IP. cbn [render_item app]. cbn [pos_ok] in PO.
      apply andb_true_iff in PO as [P1 P2]. cbn [explainD]. rewrite orb_comm in P1. rewrite P1.
      assert (GO' : d_greedy d && seen || d_greedy d = d_greedy d && true) by (destruct (d_greedy d), seen; reflexivity).
      rewrite GO'. rewrite IH; [reflexivity | exact OK2 | exact P2 |].
      unfold shape_ok in *. destruct (d_greedy d); [|reflexivity]. cbn [negb orb] in *. destruct seen.
      * cbn [forallb is_pos andb] in SH. exact SH.
      * cbn [greedy_shape] in SH. change (inline_pos (ItPos v :: items)) with (v :: inline_pos items) in SH. exact SH.
    + assert (GO : d_greedy d && seen = false).
      { unfold shape_ok in SH. destruct (d_greedy d); [|reflexivity]. destruct seen; [|reflexivity].
        cbn [negb orb forallb] in SH. rewrite IP in SH. discriminate SH. }
      assert (PO' : pos_ok d seen items = true) by (destruct it; try exact PO; discriminate IP).
      assert (SH' : shape_ok d seen items tail = true).
      { unfold shape_ok in *. destruct (d_greedy d); [|reflexivity]. destruct seen; [discriminate GO|].
        cbn [negb orb] in *. destruct it; try exact SH; discriminate IP. }
      pose proof (IH seen OK2 PO' SH') as IH'.
      destruct (item_tokens d it G OK1 IP) as [(a & R & V & W & D & E) | (a & n & R & V & W & D & E)]; rewrite R.
      * cbn [app]. rewrite (explainD_tok d _ a _ it false GO V W D (E _)), IH'. reflexivity.
      * cbn [app]. rewrite (explainD_tok d _ a (n :: render d items tail) it true GO V W D E), explainD_skip, IH'. reflexivity.
Qed.

Theorem explain_render : forall d items tail,
  wf_decl d = true -> consistent d = true -> no_prefix_clash d = true -> wf_items d items tail = true ->
  explain d false false false [] [] (render d items tail) = Ok (items, tail).
Proof.
  intros d items tail W C K WI. pose proof (good_intro d W C K) as G.
  unfold wf_items in WI. apply andb_true_iff in WI as [WI SH]. apply andb_true_iff in WI as [WI _].
  apply andb_true_iff in WI as [WI _]. apply andb_true_iff in WI as [WI _]. apply andb_true_iff in WI as [OK PO].
  rewrite explain_explainD.
  pose proof (explainD_render d tail G items false OK PO SH) as H. rewrite andb_false_r in H. exact H.
Qed.

(* the two theorems together: on the legal spellings of a correctly declared parser, render and explain are
   inverse to each other *)
Corollary explain_render_iff : forall d items tail,
  wf_decl d = true -> consistent d = true -> no_prefix_clash d = true -> wf_items d items tail = true ->
  forall args, explain d false false false [] [] args = Ok (items, tail) <-> render d items tail = args.
Proof.
  intros d items tail W C K WI args. split.
  - apply render_explain.
  - intros <-. apply explain_render; assumption.
Qed.

(* ---------- non-vacuity: the hypotheses of explain_render are satisfiable with every item form ---------- *)
Module Examples.
  Definition s (l : list byte) : str := l.
  Definition o_alpha := {| o_name := s ["a";"l";"p";"h";"a"]%byte; o_short := Some "a"%byte; o_env := None; o_def := None; o_opt := false |}.
  Definition m_inc := {| m_name := s ["i";"n";"c"]%byte; m_short := Some "I"%byte; m_env := None; m_def := None; m_opt := false |}.
  Definition t_verb := {| t_name := s ["v";"e";"r";"b"]%byte; t_short := Some "v"%byte; t_env := None; t_def := 0%Z; t_rev := true |}.
  Definition t_quiet := {| t_name := s ["n";"o";"-";"q"]%byte; t_short := Some "q"%byte; t_env := None; t_def := 0%Z; t_rev := true |}.
  Definition t_color := {| t_name := s ["c";"o";"l";"o";"r"]%byte; t_short := None; t_env := None; t_def := 1%Z; t_rev := true |}.
  Definition dA (g : bool) := {| d_opts := [o_alpha]; d_multis := [m_inc]; d_toggles := [t_verb; t_quiet; t_color];
                                  d_allowed := None; d_greedy := g |}.
  Definition itsA := [ItOpt 0 LongEq (s ["a";"=";"b"]%byte); ItMulti 0 ShortEq []; ItMulti 0 LongSp []; ItBundle [0;0];
                      ItPos (s ["p"]%byte); ItLong 1; ItNo 2; ItMulti 0 ShortSp (s ["=";"x"]%byte); ItBundle [1]].
  Definition tlA := Some [s ["-";"-"]%byte; s ["-";"v"]%byte].
  Example hyps_A : (wf_decl (dA false) && consistent (dA false) && no_prefix_clash (dA false) && wf_items (dA false) itsA tlA) = true.
  Proof. vm_compute. reflexivity. Qed.
  Example roundtrip_A : explain (dA false) false false false [] [] (render (dA false) itsA tlA) = Ok (itsA, tlA).
  Proof. vm_compute. reflexivity. Qed.
  (* greedy: after the first positional everything is positional, even "--" and "-v" *)
  Definition itsG := [ItOpt 0 ShortSp (s ["v"]%byte); ItNo 0; ItPos (s ["p"]%byte); ItPos (s ["-";"-"]%byte); ItPos (s ["-";"v"]%byte)].
  Example hyps_G : (wf_decl (dA true) && consistent (dA true) && no_prefix_clash (dA true) && wf_items (dA true) itsG None) = true.
  Proof. vm_compute. reflexivity. Qed.
  Example roundtrip_G : explain (dA true) false false false [] [] (render (dA true) itsG None) = Ok (itsG, None).
  Proof. vm_compute. reflexivity. Qed.
  (* K1: without no_prefix_clash the statement fails: a reversible toggle `q` next to the toggle `no-q` *)
  Definition t_q := {| t_name := s ["q"]%byte; t_short := None; t_env := None; t_def := 0%Z; t_rev := true |}.
  Definition dK := {| d_opts := []; d_multis := []; d_toggles := [t_quiet; t_q]; d_allowed := None; d_greedy := false |}.
  Example clash_needed :
    (wf_decl dK && consistent dK && wf_items dK [ItNo 1] None) = true /\ no_prefix_clash dK = false /\
    explain dK false false false [] [] (render dK [ItNo 1] None) = Ok ([ItLong 0], None).
  Proof. vm_compute. repeat split. Qed.
End Examples.

Print Assumptions render_explain.
Print Assumptions explain_render.

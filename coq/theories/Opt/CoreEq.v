(* Opt/CoreEq.v — the accessor guards of Opt/ParserModel.v are dead code: every guarded accessor of user_input is
   called under its own guard, so the guarded parser (parse_g) and the guard-free one (Opt/ParserCore.v, parse_c)
   are the same function, and the only way to a parser_error (DevError) is an inconsistent declaration. *)
From Coq Require Import List Arith Bool ZArith Lia.
From Coq Require Import Init.Byte.
From Nitro Require Import Base.Bytes Base.ListX Base.Res Opt.Token Opt.Decl Opt.ParserModel Opt.ParserCore.
Import ListNotations.
Local Open Scope list_scope.

(* ---------- the accessors under their guards ---------- *)

(* a token starting with "--no-" starts with '-' *)
Lemma has_prefix_not_value a : has_prefix a = true -> is_value a = false.
Proof.
  unfold has_prefix, is_value, no_prefix. intros H.
  destruct (name_of a) as [|c n]; [discriminate H|].
  cbn [prefixb] in H. apply andb_true_iff in H as [H _].
  apply beq_true in H. subst c. rewrite beq_refl. reflexivity.
Qed.

Lemma is_value_has_value a : is_value a = true -> has_value a = true.
Proof. intros H. unfold has_value. rewrite H. reflexivity. Qed.

Lemma tok_value_ok a : has_value a = true -> tok_value a = Ok (value_part a).
Proof. intros H. unfold tok_value. rewrite H. reflexivity. Qed.

Lemma name_without_prefix_ok a : has_prefix a = true -> name_without_prefix a = Ok (unprefixed a).
Proof.
  intros P. unfold name_without_prefix, tok_name, unprefixed.
  rewrite P, (has_prefix_not_value a P). reflexivity.
Qed.

Lemma as_short_list_ok a : is_short a = true -> as_short_list a = Ok (letters a).
Proof. intros H. unfold as_short_list. rewrite H. reflexivity. Qed.

Lemma as_named_ok a : is_named a = true -> as_named a = Ok (named_part a).
Proof. intros H. unfold as_named. rewrite H. reflexivity. Qed.

(* the `reverse` test shared by toggle::matches and toggle::update_value *)
Lemma reversal_g_eq t a :
  (if has_prefix a then do n <- name_without_prefix a; Ok (seq_eqb n (t_name t)) else Ok false)
  = Ok (is_reversal t a).
Proof.
  unfold is_reversal. destruct (has_prefix a) eqn:P; [|reflexivity].
  rewrite (name_without_prefix_ok a P). reflexivity.
Qed.

(* ---------- matches / update_value ---------- *)

Lemma base_matches_g_eq : forall name short a, base_matches_g name short a = Ok (base_matches name short a).
Proof.
  intros name short a. unfold base_matches_g, base_matches.
  destruct (negb (is_argument a)); [reflexivity|].
  destruct (has_short short); cbn [andb].
  - destruct (is_short a) eqn:S.
    + rewrite (as_short_list_ok a S). cbn [bind].
      destruct ((1 <? length (letters a)) && has_value a); reflexivity.
    + destruct (is_named a) eqn:N; [|reflexivity].
      rewrite (as_named_ok a N). reflexivity.
  - destruct (is_named a) eqn:N; [|reflexivity].
    rewrite (as_named_ok a N). reflexivity.
Qed.

Lemma toggle_matches_g_eq : forall t a, toggle_matches_g t a = Ok (toggle_matches t a).
Proof.
  intros t a. unfold toggle_matches_g, toggle_matches. rewrite reversal_g_eq. cbn [bind].
  destruct (is_reversal t a); [reflexivity|].
  rewrite base_matches_g_eq. reflexivity.
Qed.

(* update_value of option and multi_option read value(): the call sites (option_value_token_g) hand them a token
   with has_value *)
Lemma opt_update_g_eq : forall s tok, has_value tok = true -> opt_update_g s tok = opt_update s tok.
Proof.
  intros s tok H. unfold opt_update_g, opt_update. rewrite (tok_value_ok tok H).
  destruct (os_val s); reflexivity.
Qed.

Lemma multi_update_g_eq : forall s tok, has_value tok = true -> multi_update_g s tok = multi_update s tok.
Proof. intros s tok H. unfold multi_update_g, multi_update. rewrite (tok_value_ok tok H). reflexivity. Qed.

Lemma toggle_update_g_eq : forall t s a, toggle_update_g t s a = toggle_update t s a.
Proof.
  intros t s a. unfold toggle_update_g, toggle_update. rewrite reversal_g_eq. cbn [bind].
  destruct (has_value a); [reflexivity|].
  destruct (is_reversal t a); [reflexivity|].
  destruct (ts_dirty s && (ts_given s =? 0)%Z); [reflexivity|].
  destruct (is_short a) eqn:S; [|reflexivity].
  rewrite (as_short_list_ok a S). reflexivity.
Qed.

(* ---------- the search loop ---------- *)

Lemma first_match_g_eq : forall {A} (nm : A -> str) (sh : A -> option byte) (l : list A) (a : str) (i : nat),
  first_match_g nm sh l a i
  = Ok (option_map (fun k => k + i) (find_idx (fun o => base_matches (nm o) (sh o) a) l)).
Proof.
  intros A nm sh l a. induction l as [|o r IH]; intros i; cbn [first_match_g find_idx]; [reflexivity|].
  rewrite base_matches_g_eq. cbn [bind].
  destruct (base_matches (nm o) (sh o) a); [reflexivity|].
  rewrite IH. destruct (find_idx (fun o0 => base_matches (nm o0) (sh o0) a) r) as [k|]; cbn [option_map]; [|reflexivity].
  do 2 f_equal. lia.
Qed.

Lemma option_map_add0 (x : option nat) : option_map (fun k => k + 0) x = x.
Proof. destruct x as [k|]; cbn [option_map]; [f_equal; lia | reflexivity]. Qed.

Lemma first_match_g_eq0 {A} (nm : A -> str) (sh : A -> option byte) (l : list A) (a : str) :
  first_match_g nm sh l a 0 = Ok (find_idx (fun o => base_matches (nm o) (sh o) a) l).
Proof. rewrite first_match_g_eq, option_map_add0. reflexivity. Qed.

(* ---------- try_parse_as_option ---------- *)

Lemma option_value_token_g_eq : forall a next, option_value_token_g a next = option_value_token a next.
Proof.
  intros a next. unfold option_value_token_g, option_value_token, bundled.
  destruct (is_short a) eqn:S; cbn [andb]; [|reflexivity].
  rewrite (as_short_list_ok a S). reflexivity.
Qed.

(* the token whose value is read has one: it is the matched token when has_value holds, else the next token when
   it is a value — and a value token has_value *)
Lemma option_value_token_has_value a next tok c :
  option_value_token a next = Ok (tok, c) -> has_value tok = true.
Proof.
  unfold option_value_token. destruct (bundled a); [discriminate|].
  destruct (has_value a) eqn:H.
  - intros [= <- <-]. exact H.
  - destruct next as [n|]; [|discriminate].
    destruct (is_value n) eqn:V; [|discriminate].
    intros [= <- <-]. apply is_value_has_value. exact V.
Qed.

Lemma upd_res_ext {A} (l : list A) i (f g : A -> res A) : (forall x, f x = g x) -> upd_res l i f = upd_res l i g.
Proof. intros H. unfold upd_res. destruct (nth_error l i) as [x|]; [rewrite H|]; reflexivity. Qed.

Lemma try_option_g_eq : forall d st a next, try_option_g d st a next = try_option d st a next.
Proof.
  intros d st a next. unfold try_option_g, try_option. rewrite first_match_g_eq0. cbn [bind].
  destruct (find_idx (fun o => base_matches (o_name o) (o_short o) a) (d_opts d)) as [i|]; [|reflexivity].
  rewrite option_value_token_g_eq.
  destruct (option_value_token a next) as [[tok c]|er] eqn:T; [|reflexivity].
  cbn [bind].
  rewrite (upd_res_ext (p_o st) i (fun s => opt_update_g s tok) (fun s => opt_update s tok)); [reflexivity|].
  intros s. apply opt_update_g_eq. exact (option_value_token_has_value a next tok c T).
Qed.

Lemma try_multi_g_eq : forall d st a next, try_multi_g d st a next = try_multi d st a next.
Proof.
  intros d st a next. unfold try_multi_g, try_multi. rewrite first_match_g_eq0. cbn [bind].
  destruct (find_idx (fun o => base_matches (m_name o) (m_short o) a) (d_multis d)) as [i|]; [|reflexivity].
  rewrite option_value_token_g_eq.
  destruct (option_value_token a next) as [[tok c]|er] eqn:T; [|reflexivity].
  cbn [bind].
  rewrite (upd_res_ext (p_m st) i (fun s => multi_update_g s tok) (fun s => multi_update s tok)); [reflexivity|].
  intros s. apply multi_update_g_eq. exact (option_value_token_has_value a next tok c T).
Qed.

(* ---------- try_parse_as_toggle ---------- *)

Lemma toggles_pass_g_eq : forall ts ss a, toggles_pass_g ts ss a = toggles_pass ts ss a.
Proof.
  intros ts. induction ts as [|t ts IH]; intros ss a; [reflexivity|].
  destruct ss as [|s ss]; [reflexivity|].
  cbn [toggles_pass_g toggles_pass].
  rewrite toggle_matches_g_eq. cbn [bind]. rewrite IH.
  destruct (toggle_matches t a); [|reflexivity].
  rewrite toggle_update_g_eq.
  destruct (toggle_update t s a) as [s'|er]; [|reflexivity]. cbn [bind].
  destruct (is_short a) eqn:S; cbn [andb].
  - destruct (t_short t) as [c|]; cbn [has_short].
    + rewrite (as_short_list_ok a S). cbn [bind].
      destruct (toggles_pass ts ss a) as [[[r n] m]|er]; reflexivity.
    + cbn [bind count_short].
      destruct (toggles_pass ts ss a) as [[[r n] m]|er]; reflexivity.
  - cbn [bind]. destruct (toggles_pass ts ss a) as [[[r n] m]|er]; reflexivity.
Qed.

Lemma try_toggle_g_eq : forall d st a, try_toggle_g d st a = try_toggle d st a.
Proof.
  intros d st a. unfold try_toggle_g, try_toggle. rewrite toggles_pass_g_eq.
  destruct (toggles_pass (d_toggles d) (p_t st) a) as [[[ts' n] m]|er]; [|reflexivity].
  cbn [bind].
  destruct m; cbn [andb]; [|reflexivity].
  destruct (is_short a) eqn:S; cbn [andb]; [|reflexivity].
  rewrite (as_short_list_ok a S). cbn [bind].
  destruct (negb (n =? length (letters a))); reflexivity.
Qed.

(* ---------- the loop and parse ---------- *)

Theorem loop_g_eq : forall d st op pos skip args, loop_g d st op pos skip args = loop d st op pos skip args.
Proof.
  intros d st op pos skip args. revert st op pos skip.
  induction args as [|a rest IH]; intros st op pos skip; [reflexivity|].
  cbn [loop_g loop].
  destruct skip; [apply IH|].
  destruct (op || is_value a).
  { destruct (full d (length pos)); [reflexivity | apply IH]. }
  destruct (negb (well_formed a)); [reflexivity|].
  destruct (is_double_dash a); [apply IH|].
  rewrite try_option_g_eq.
  destruct (try_option d st a (hd_error rest)) as [[[st1 c1]|]|er1]; cbn [bind]; [apply IH | | reflexivity].
  rewrite try_multi_g_eq.
  destruct (try_multi d st a (hd_error rest)) as [[[st2 c2]|]|er2]; cbn [bind]; [apply IH | | reflexivity].
  rewrite try_toggle_g_eq.
  destruct (try_toggle d st a) as [[st3|]|er3]; cbn [bind]; [apply IH | reflexivity | reflexivity].
Qed.

Theorem parse_g_eq : forall tr fa d e st args, parse_g tr fa d e st args = parse_c tr fa d e st args.
Proof. intros tr fa d e st args. unfold parse_g, parse_c. rewrite loop_g_eq. reflexivity. Qed.

(* ---------- no developer error from the core ---------- *)

Definition nodev {A} (r : res A) : Prop := r <> Err DevError.

Lemma nodev_ok {A} (x : A) : nodev (Ok x).
Proof. unfold nodev. discriminate. Qed.
Lemma nodev_user {A} : nodev (@Err A UserError).
Proof. unfold nodev. discriminate. Qed.
Lemma nodev_bind {A B} (r : res A) (f : A -> res B) : nodev r -> (forall x, nodev (f x)) -> nodev (bind r f).
Proof.
  intros Hr Hf. destruct r as [x|er]; cbn [bind]; [apply Hf|].
  unfold nodev in *. congruence.
Qed.

Lemma option_value_token_nodev a next : nodev (option_value_token a next).
Proof.
  unfold option_value_token. destruct (bundled a); [apply nodev_user|].
  destruct (has_value a); [apply nodev_ok|].
  destruct next as [n|]; [|apply nodev_user].
  destruct (is_value n); [apply nodev_ok | apply nodev_user].
Qed.

Lemma upd_res_nodev {A} (l : list A) i (f : A -> res A) : (forall x, nodev (f x)) -> nodev (upd_res l i f).
Proof.
  intros H. unfold upd_res. destruct (nth_error l i) as [x|]; [|apply nodev_ok].
  apply nodev_bind; [apply H | intros y; apply nodev_ok].
Qed.

Lemma opt_update_nodev s a : nodev (opt_update s a).
Proof. unfold opt_update. destruct (os_val s); [apply nodev_user | apply nodev_ok]. Qed.
Lemma multi_update_nodev s a : nodev (multi_update s a).
Proof. apply nodev_ok. Qed.
Lemma toggle_update_nodev t s a : nodev (toggle_update t s a).
Proof.
  unfold toggle_update.
  destruct (has_value a); [apply nodev_user|].
  destruct (is_reversal t a).
  - destruct (negb (t_rev t)); [apply nodev_user|].
    destruct (ts_dirty s && negb (ts_given s =? 0)%Z); [apply nodev_user | apply nodev_ok].
  - destruct (ts_dirty s && (ts_given s =? 0)%Z); [apply nodev_user | apply nodev_ok].
Qed.

Lemma try_option_nodev d st a next : nodev (try_option d st a next).
Proof.
  unfold try_option.
  destruct (find_idx (fun o => base_matches (o_name o) (o_short o) a) (d_opts d)) as [i|]; [|apply nodev_ok].
  apply nodev_bind; [apply option_value_token_nodev|]. intros [tok c].
  apply nodev_bind; [|intros os; apply nodev_ok].
  apply upd_res_nodev. intros s. apply opt_update_nodev.
Qed.

Lemma try_multi_nodev d st a next : nodev (try_multi d st a next).
Proof.
  unfold try_multi.
  destruct (find_idx (fun o => base_matches (m_name o) (m_short o) a) (d_multis d)) as [i|]; [|apply nodev_ok].
  apply nodev_bind; [apply option_value_token_nodev|]. intros [tok c].
  apply nodev_bind; [|intros ms; apply nodev_ok].
  apply upd_res_nodev. intros s. apply multi_update_nodev.
Qed.

Lemma toggles_pass_nodev ts ss a : nodev (toggles_pass ts ss a).
Proof.
  revert ss. induction ts as [|t ts IH]; intros ss; [apply nodev_ok|].
  destruct ss as [|s ss]; [apply nodev_ok|].
  cbn [toggles_pass].
  destruct (toggle_matches t a).
  - apply nodev_bind; [apply toggle_update_nodev|]. intros s'.
    apply nodev_bind; [apply IH|]. intros [[r n] m]. apply nodev_ok.
  - apply nodev_bind; [apply IH|]. intros [[r n] m]. apply nodev_ok.
Qed.

Lemma try_toggle_nodev d st a : nodev (try_toggle d st a).
Proof.
  unfold try_toggle. apply nodev_bind; [apply toggles_pass_nodev|]. intros [[ts' n] m].
  destruct (m && is_short a && negb (n =? length (letters a))); [apply nodev_user|].
  destruct m; apply nodev_ok.
Qed.

Theorem loop_never_dev : forall d st op pos skip args, loop d st op pos skip args <> Err DevError.
Proof.
  intros d st op pos skip args. revert st op pos skip.
  induction args as [|a rest IH]; intros st op pos skip; [apply nodev_ok|].
  change (nodev (loop d st op pos skip (a :: rest))). cbn [loop].
  destruct skip; [apply IH|].
  destruct (op || is_value a).
  { destruct (full d (length pos)); [apply nodev_user | apply IH]. }
  destruct (negb (well_formed a)); [apply nodev_user|].
  destruct (is_double_dash a); [apply IH|].
  apply nodev_bind; [apply try_option_nodev|]. intros [[st1 c1]|]; [apply IH|].
  apply nodev_bind; [apply try_multi_nodev|]. intros [[st2 c2]|]; [apply IH|].
  apply nodev_bind; [apply try_toggle_nodev|]. intros [st3|]; [apply IH | apply nodev_user].
Qed.

(* check() of the three kinds and the for_each over them *)
Lemma check_opt_nodev e o s : nodev (check_opt e o s).
Proof.
  unfold check_opt. destruct (os_val s); [apply nodev_ok|].
  destruct (nonempty (env_get e (o_env o))); [apply nodev_ok|].
  destruct (o_def o); [apply nodev_ok|].
  destruct (o_opt o); [apply nodev_ok | apply nodev_user].
Qed.
Lemma check_multi_nodev e o s : nodev (check_multi e o s).
Proof.
  unfold check_multi. destruct (ms_val s); [|apply nodev_ok].
  destruct (nonempty (env_get e (m_env o))); [apply nodev_ok|].
  destruct (m_def o); [apply nodev_ok|].
  destruct (m_opt o); [apply nodev_ok | apply nodev_user].
Qed.
Lemma check_toggle_nodev tr fa e t s : nodev (check_toggle tr fa e t s).
Proof.
  unfold check_toggle. destruct (ts_dirty s); [apply nodev_ok|].
  destruct (nonempty (env_get e (t_env t))); [|apply nodev_ok].
  destruct (parse_env_word tr fa (env_get e (t_env t))); [apply nodev_ok | apply nodev_user].
Qed.
Lemma map2r_nodev {A B} (f : A -> B -> res B) l m : (forall a b, nodev (f a b)) -> nodev (map2r f l m).
Proof.
  intros H. revert m. induction l as [|a l IH]; intros m; [apply nodev_ok|].
  destruct m as [|b m]; [apply nodev_ok|].
  cbn [map2r]. apply nodev_bind; [apply H|]. intros b'.
  apply nodev_bind; [apply IH|]. intros r. apply nodev_ok.
Qed.

(* with a consistent declaration parse never raises parser_error, whatever the arguments, environment and
   earlier history of the object *)
Theorem no_dev_error : forall tr fa d e st args,
  consistent d = true -> snd (parse_g tr fa d e st args) <> Err DevError.
Proof.
  intros tr fa d e st args C. rewrite parse_g_eq. unfold parse_c. rewrite C. cbn [negb].
  destruct (loop d (prepare st) false [] false args) as [[st1 pos]|er] eqn:L.
  2:{ cbn [snd]. intros [= ->]. exact (loop_never_dev _ _ _ _ _ _ L). }
  destruct (map2r (check_opt e) (d_opts d) (p_o st1)) as [os|er] eqn:Mo.
  2:{ cbn [snd]. intros [= ->]. revert Mo. apply map2r_nodev. intros a b. apply check_opt_nodev. }
  destruct (map2r (check_multi e) (d_multis d) (p_m st1)) as [ms|er] eqn:Mm.
  2:{ cbn [snd]. intros [= ->]. revert Mm. apply map2r_nodev. intros a b. apply check_multi_nodev. }
  destruct (map2r (check_toggle tr fa e) (d_toggles d) (p_t st1)) as [ts|er] eqn:Mt.
  2:{ cbn [snd]. intros [= ->]. revert Mt. apply map2r_nodev. intros a b. apply check_toggle_nodev. }
  cbn [snd]. discriminate.
Qed.

Theorem dev_error_iff_inconsistent : forall tr fa d e st args,
  snd (parse_g tr fa d e st args) = Err DevError <-> consistent d = false.
Proof.
  intros tr fa d e st args. split.
  - intros H. destruct (consistent d) eqn:C; [|reflexivity].
    exfalso. exact (no_dev_error tr fa d e st args C H).
  - intros C. unfold parse_g. rewrite C. reflexivity.
Qed.

Print Assumptions base_matches_g_eq.
Print Assumptions toggle_matches_g_eq.
Print Assumptions try_option_g_eq.
Print Assumptions try_multi_g_eq.
Print Assumptions try_toggle_g_eq.
Print Assumptions loop_g_eq.
Print Assumptions parse_g_eq.
Print Assumptions loop_never_dev.
Print Assumptions no_dev_error.
Print Assumptions dev_error_iff_inconsistent.

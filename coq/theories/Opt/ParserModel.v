(* Opt/ParserModel.v — executable model of nitro::options::parser::parse and of the three option kinds
   (src/options/parser.cpp, option.cpp, multi_option.cpp, toggle.cpp, include/nitro/options/option/base.hpp),
   statement by statement.  Accessors of user_input are used in their guarded form: where the C++ would raise
   parser_error the model returns Err DevError.  No proofs here. *)
From Coq Require Import List Arith Bool ZArith.
From Coq Require Import Init.Byte.
From Nitro Require Import Base.Bytes Base.ListX Base.Res Opt.Token Opt.Decl.
Import ListNotations.
Local Open Scope list_scope.

Definition has_short (s : option byte) : bool := match s with Some _ => true | None => false end.
(* multiset::count(short_name()) over the single-letter strings of as_short_list(); short_name() is "" when unset *)
Definition count_short (s : option byte) (l : str) : nat := match s with Some c => count_letter c l | None => 0 end.

(* base::matches *)
Definition base_matches_g (name : str) (short : option byte) (a : str) : res bool :=
  if negb (is_argument a) then Ok false
  else if has_short short && is_short a then
    do l <- as_short_list a;
    if (1 <? length l) && has_value a then Ok false else Ok (0 <? count_short short l)
  else if is_named a then do n <- as_named a; Ok (seq_eqb n name)
  else Ok false.

(* toggle::matches *)
Definition toggle_matches_g (t : tdecl) (a : str) : res bool :=
  do rev <- (if has_prefix a then do n <- name_without_prefix a; Ok (seq_eqb n (t_name t)) else Ok false);
  if rev then Ok true else base_matches_g (t_name t) (t_short t) a.

(* option::update_value, multi_option::update_value, toggle::update_value *)
Definition opt_update_g (s : ost) (a : str) : res ost :=
  match os_val s with
  | Some _ => Err UserError
  | None => do v <- tok_value a; Ok {| os_val := Some v; os_dirty := true |}
  end.
Definition multi_update_g (s : mst) (a : str) : res mst :=
  do v <- tok_value a; Ok {| ms_val := ms_val s ++ [v]; ms_dirty := true |}.
Definition toggle_update_g (t : tdecl) (s : tst) (a : str) : res tst :=
  if has_value a then Err UserError else
  do rev <- (if has_prefix a then do n <- name_without_prefix a; Ok (seq_eqb n (t_name t)) else Ok false);
  if rev then
    if negb (t_rev t) then Err UserError
    else if ts_dirty s && negb (ts_given s =? 0)%Z then Err UserError
    else Ok {| ts_given := 0; ts_dirty := true |}
  else
    if ts_dirty s && (ts_given s =? 0)%Z then Err UserError
    else
      do inc <- (if is_short a then do l <- as_short_list a; Ok (Z.of_nat (count_short (t_short t) l)) else Ok 1%Z);
      Ok {| ts_given := (ts_given s + inc)%Z; ts_dirty := true |}.

(* the loop `for (auto& option : options) if (option.second->matches(token))` : index of the first match *)
Fixpoint first_match_g {A} (nm : A -> str) (sh : A -> option byte) (l : list A) (a : str) (i : nat) : res (option nat) :=
  match l with
  | [] => Ok None
  | o :: r => do b <- base_matches_g (nm o) (sh o) a; if b then Ok (Some i) else first_match_g nm sh r a (S i)
  end.

(* body of try_parse_as_option once option i matched: returns the token whose value is used and whether the
   following token was consumed *)
Definition option_value_token_g (a : str) (next : option str) : res (str * bool) :=
  do bundled <- (if is_short a then do l <- as_short_list a; Ok (1 <? length l) else Ok false);
  if bundled then Err UserError
  else if has_value a then Ok (a, false)
  else match next with
       | Some n => if is_value n then Ok (n, true) else Err UserError
       | None => Err UserError
       end.

(* apply f to the i-th element of a state list *)
Definition upd_res {A} (l : list A) (i : nat) (f : A -> res A) : res (list A) :=
  match nth_error l i with
  | Some x => do y <- f x; Ok (upd l i (fun _ => y))
  | None => Ok l
  end.

(* None = no option matched (try_parse_as_option returned false) *)
Definition try_option_g (d : decl) (st : pst) (a : str) (next : option str) : res (option (pst * bool)) :=
  do m <- first_match_g o_name o_short (d_opts d) a 0;
  match m with
  | None => Ok None
  | Some i =>
    do (tok, consumed) <- option_value_token_g a next;
    do os <- upd_res (p_o st) i (fun s => opt_update_g s tok);
    Ok (Some ({| p_o := os; p_m := p_m st; p_t := p_t st |}, consumed))
  end.
Definition try_multi_g (d : decl) (st : pst) (a : str) (next : option str) : res (option (pst * bool)) :=
  do m <- first_match_g m_name m_short (d_multis d) a 0;
  match m with
  | None => Ok None
  | Some i =>
    do (tok, consumed) <- option_value_token_g a next;
    do ms <- upd_res (p_m st) i (fun s => multi_update_g s tok);
    Ok (Some ({| p_o := p_o st; p_m := ms; p_t := p_t st |}, consumed))
  end.

(* try_parse_as_toggle: every matching toggle is updated; returns new states, matched letters, any match *)
Fixpoint toggles_pass_g (ts : list tdecl) (ss : list tst) (a : str) : res (list tst * nat * bool) :=
  match ts, ss with
  | t :: ts', s :: ss' =>
    do m <- toggle_matches_g t a;
    if m then
      do s' <- toggle_update_g t s a;
      do n1 <- (if is_short a && has_short (t_short t) then do l <- as_short_list a; Ok (count_short (t_short t) l) else Ok 0);
      do (r, n, _) <- toggles_pass_g ts' ss' a;
      Ok (s' :: r, n1 + n, true)
    else
      do (r, n, m') <- toggles_pass_g ts' ss' a;
      Ok (s :: r, n, m')
  | _, _ => Ok ([], 0, false)
  end.
Definition try_toggle_g (d : decl) (st : pst) (a : str) : res (option pst) :=
  do (ts', n, m) <- toggles_pass_g (d_toggles d) (p_t st) a;
  do bad <- (if m && is_short a then do l <- as_short_list a; Ok (negb (n =? length l)) else Ok false);
  if bad then Err UserError
  else if m then Ok (Some {| p_o := p_o st; p_m := p_m st; p_t := ts' |}) else Ok None.

Definition full (d : decl) (n : nat) : bool := match d_allowed d with Some k => k =? n | None => false end.

(* the for loop of parse(); `skip` = the iterator was advanced over the value token of the previous option *)
Fixpoint loop_g (d : decl) (st : pst) (only_pos : bool) (pos : list str) (skip : bool) (args : list str) {struct args}
  : res (pst * list str) :=
  match args with
  | [] => Ok (st, pos)
  | a :: rest =>
    if skip then loop_g d st only_pos pos false rest
    else if only_pos || is_value a then
      if full d (length pos) then Err UserError
      else loop_g d st (only_pos || d_greedy d) (pos ++ [a]) false rest
    else if negb (well_formed a) then Err UserError
    else if is_double_dash a then loop_g d st true pos false rest
    else
      let next := hd_error rest in
      do r1 <- try_option_g d st a next;
      match r1 with
      | Some (st', consumed) => loop_g d st' only_pos pos consumed rest
      | None =>
        do r2 <- try_multi_g d st a next;
        match r2 with
        | Some (st', consumed) => loop_g d st' only_pos pos consumed rest
        | None =>
          do r3 <- try_toggle_g d st a;
          match r3 with
          | Some st' => loop_g d st' only_pos pos false rest
          | None => Err UserError
          end
        end
      end
  end.

(* check() of the three kinds *)
Definition check_opt (e : env_t) (o : odecl) (s : ost) : res ost :=
  match os_val s with
  | Some _ => Ok s
  | None =>
    let ev := env_get e (o_env o) in
    if nonempty ev then Ok {| os_val := Some ev; os_dirty := true |}
    else match o_def o with
         | Some dv => Ok {| os_val := Some dv; os_dirty := os_dirty s |}
         | None => if o_opt o then Ok s else Err UserError
         end
  end.

(* `while (std::getline(str, element, ';'))` over a stringstream holding s *)
Fixpoint getlines (sep : byte) (s cur : str) (started : bool) : list str :=
  match s with
  | [] => if started then [rev cur] else []
  | c :: r => if beq c sep then rev cur :: getlines sep r [] false else getlines sep r (c :: cur) true
  end.

Definition check_multi (e : env_t) (o : mdecl) (s : mst) : res mst :=
  match ms_val s with
  | _ :: _ => Ok s
  | [] =>
    let ev := env_get e (m_env o) in
    if nonempty ev then Ok {| ms_val := getlines ";"%byte ev [] false; ms_dirty := true |}
    else match m_def o with
         | Some dv => Ok {| ms_val := dv; ms_dirty := ms_dirty s |}
         | None => if m_opt o then Ok s else Err UserError
         end
  end.

(* toggle::parse_env_value over the documented vocabulary (Opt/Vocab.v); None = raises parsing_error *)
Definition parse_env_word (truthy falsy : list str) (w : str) : option bool :=
  if existsb (seq_eqb w) truthy then Some true else if existsb (seq_eqb w) falsy then Some false else None.

Section Vocab.
Variable truthy falsy : list str.

Definition check_toggle (e : env_t) (t : tdecl) (s : tst) : res tst :=
  if ts_dirty s then Ok s else
  let ev := env_get e (t_env t) in
  if nonempty ev then
    match parse_env_word truthy falsy ev with
    | Some b => Ok {| ts_given := if b then 1 else 0; ts_dirty := true |}
    | None => Err UserError
    end
  else Ok {| ts_given := t_def t; ts_dirty := false |}.

(* for_each over two aligned lists, stopping at the first error *)
Fixpoint map2r {A B} (f : A -> B -> res B) (l : list A) (m : list B) : res (list B) :=
  match l, m with
  | a :: l', b :: m' => do b' <- f a b; do r <- map2r f l' m'; Ok (b' :: r)
  | _, _ => Ok []
  end.

(* check_parser_consistency: a short name used twice (over options, multi-options, toggles) *)
Fixpoint dup_short (l : list (option byte)) : bool :=
  match l with
  | [] => false
  | None :: r => dup_short r
  | Some c :: r => existsb (fun x => match x with Some c' => beq c c' | None => false end) r || dup_short r
  end.
Definition all_shorts (d : decl) : list (option byte) :=
  map o_short (d_opts d) ++ map m_short (d_multis d) ++ map t_short (d_toggles d).
Definition consistent (d : decl) : bool := negb (dup_short (all_shorts d)).

(* prepare() of every option object *)
Definition prepare (st : pst) : pst :=
  {| p_o := map (fun _ => fresh_o) (p_o st); p_m := map (fun _ => fresh_m) (p_m st); p_t := map (fun _ => fresh_t) (p_t st) |}.

Definition provided_names {A S} (nm : A -> str) (dirty : S -> bool) (l : list A) (ss : list S) : list str :=
  map fst (filter snd (combine (map nm l) (map dirty ss))).

(* one call of parser::parse on a parser object whose option objects are in state st0 *)
Definition parse_g (d : decl) (e : env_t) (st0 : pst) (args : list str) : pst * res result :=
  if negb (consistent d) then (st0, Err DevError) else
  let st := prepare st0 in
  match loop_g d st false [] false args with
  | Err er => (st, Err er)       (* the state after a failed call is whatever the loop reached; the next call prepares again *)
  | Ok (st1, pos) =>
    match map2r (check_opt e) (d_opts d) (p_o st1) with
    | Err er => (st1, Err er)
    | Ok os =>
      match map2r (check_multi e) (d_multis d) (p_m st1) with
      | Err er => (st1, Err er)
      | Ok ms =>
        match map2r (check_toggle e) (d_toggles d) (p_t st1) with
        | Err er => (st1, Err er)
        | Ok ts =>
          ({| p_o := os; p_m := ms; p_t := ts |},
           Ok {| r_opts := combine (map o_name (d_opts d)) (map os_val os);
                 r_multis := combine (map m_name (d_multis d)) (map ms_val ms);
                 r_toggles := combine (map t_name (d_toggles d)) (map ts_given ts);
                 r_pos := pos;
                 r_provided := provided_names o_name os_dirty (d_opts d) os
                               ++ provided_names m_name ms_dirty (d_multis d) ms
                               ++ provided_names t_name ts_dirty (d_toggles d) ts |})
        end
      end
    end
  end.

(* a sequence of calls on one object *)
Fixpoint run_history (d : decl) (e : env_t) (st : pst) (hist : list (list str)) : pst * list (res result) :=
  match hist with
  | [] => (st, [])
  | args :: h => let '(st', r) := parse_g d e st args in let '(st'', rs) := run_history d e st' h in (st'', r :: rs)
  end.
End Vocab.

(* Opt/Refine4.v — running explained items from the fresh state gives the state "after those items",
   and fails exactly when an item is semantically incompatible with what precedes it *)
From Coq Require Import List Arith Bool ZArith Lia.
From Coq Require Import Init.Byte.
From Nitro Require Import Base.Bytes Base.ListX Base.Res Opt.Token Opt.Decl Opt.ParserModel Opt.ParserCore Opt.ParserSpec Opt.RefineDefs.
Import ListNotations.
Local Open Scope list_scope.

Lemma r4_concat_map_app {A B} (f : A -> list B) l l' : concat (map f (l ++ l')) = concat (map f l) ++ concat (map f l').
Proof. rewrite map_app, concat_app. reflexivity. Qed.
Lemma r4_list_sum_map_app {A} (f : A -> nat) l l' : list_sum (map f (l ++ l')) = list_sum (map f l) + list_sum (map f l').
Proof. rewrite map_app, list_sum_app. reflexivity. Qed.

Lemma r4_opt_values_app i l l' : opt_values i (l ++ l') = opt_values i l ++ opt_values i l'.
Proof. apply r4_concat_map_app. Qed.
Lemma r4_multi_values_app i l l' : multi_values i (l ++ l') = multi_values i l ++ multi_values i l'.
Proof. apply r4_concat_map_app. Qed.
Lemma r4_occ_app j l l' : occurrences j (l ++ l') = occurrences j l + occurrences j l'.
Proof. apply r4_list_sum_map_app. Qed.
Lemma r4_neg_app j l l' : negations j (l ++ l') = negations j l + negations j l'.
Proof. apply r4_list_sum_map_app. Qed.

Lemma r4_upd_map_seq {A} (g g' : nat -> A) y : forall n s i, i < n -> g' (s + i) = y ->
  (forall k, k <> s + i -> g' k = g k) ->
  upd (map g (seq s n)) i (fun _ => y) = map g' (seq s n).
Proof.
  induction n as [|n IH]; intros s i Hi Hy Hk; [lia|].
  cbn [seq map]. destruct i as [|i]; cbn [upd].
  - rewrite Nat.add_0_r in *. rewrite Hy. f_equal. apply map_ext_in. intros k Hin. apply in_seq in Hin.
    symmetry. apply Hk. lia.
  - rewrite Hk by lia. f_equal. apply IH; [lia | rewrite <- Hy; f_equal; lia | intros k Hne; apply Hk; lia].
Qed.

Lemma r4_nth_map_seq {A} (g : nat -> A) n i : i < n -> nth_error (map g (seq 0 n)) i = Some (g i).
Proof. intros H. rewrite nth_error_map, nth_error_nth' with (d := 0) by (rewrite seq_length; lia). rewrite seq_nth by lia. reflexivity. Qed.

Lemma r4_upd_res_state {A} (g g' : nat -> A) (f : A -> res A) n i :
  i < n ->
  (forall k, k <> i -> g' k = g k) ->
  upd_res (map g (seq 0 n)) i f = match f (g i) with Ok y => if true then (if true then Ok (upd (map g (seq 0 n)) i (fun _ => y)) else Err UserError) else Err UserError | Err e => Err e end.
Proof.
  intros Hi _. unfold upd_res. rewrite r4_nth_map_seq by exact Hi. destruct (f (g i)); reflexivity.
Qed.

(* ---------- single items ---------- *)
Lemma hd_error_single_app (l : list str) v : l = [] -> hd_error (l ++ [v]) = Some v.
Proof. intros ->. reflexivity. Qed.

Lemma state_o_other pre it k : opt_values k [it] = [] -> state_o (pre ++ [it]) k = state_o pre k.
Proof. intros H. unfold state_o. rewrite r4_opt_values_app, H, app_nil_r. reflexivity. Qed.
Lemma state_m_other pre it k : multi_values k [it] = [] -> state_m (pre ++ [it]) k = state_m pre k.
Proof. intros H. unfold state_m. rewrite r4_multi_values_app, H, app_nil_r. reflexivity. Qed.
Lemma state_t_other pre it j : occurrences j [it] = 0 -> negations j [it] = 0 -> state_t (pre ++ [it]) j = state_t pre j.
Proof. intros H1 H2. unfold state_t. rewrite r4_occ_app, r4_neg_app, H1, H2, !Nat.add_0_r. reflexivity. Qed.

Lemma apply_opt_state d pre i f v : i < length (d_opts d) ->
  apply_item d (state_of d pre) (ItOpt i f v) =
  if item_sem d pre (ItOpt i f v) then Ok (state_of d (pre ++ [ItOpt i f v])) else Err UserError.
Proof.
  intros Hi. cbn [apply_item item_sem state_of p_o p_m p_t]. unfold upd_res.
  rewrite r4_nth_map_seq by exact Hi. unfold set_opt at 1. cbn [state_o os_val].
  destruct (opt_values i pre) as [|x l] eqn:E; cbn [hd_error nonempty_l negb bind]; [|reflexivity].
  apply f_equal. unfold state_of. f_equal.
  - apply (r4_upd_map_seq (state_o pre) (state_o (pre ++ [ItOpt i f v]))); [exact Hi | |].
    + cbn [Nat.add]. unfold state_o. rewrite r4_opt_values_app, E. unfold opt_values. cbn [map concat]. rewrite Nat.eqb_refl. reflexivity.
    + intros k Hk. apply state_o_other. unfold opt_values. cbn [map concat]. cbn [Nat.add] in Hk.
      destruct (i =? k) eqn:Eik; [apply Nat.eqb_eq in Eik; congruence | reflexivity].
  - symmetry. apply map_ext. intros k. apply state_m_other. reflexivity.
  - symmetry. apply map_ext. intros k. apply state_t_other; reflexivity.
Qed.

Lemma apply_multi_state d pre i f v : i < length (d_multis d) ->
  apply_item d (state_of d pre) (ItMulti i f v) = Ok (state_of d (pre ++ [ItMulti i f v])).
Proof.
  intros Hi. cbn [apply_item state_of p_o p_m p_t]. unfold upd_res.
  rewrite r4_nth_map_seq by exact Hi. unfold add_multi at 1. cbn [bind].
  apply f_equal. unfold state_of. f_equal.
  - symmetry. apply map_ext. intros k. apply state_o_other. reflexivity.
  - apply (r4_upd_map_seq (state_m pre) (state_m (pre ++ [ItMulti i f v]))); [exact Hi | |].
    + cbn [Nat.add]. unfold state_m. rewrite r4_multi_values_app.
      assert (Hv : multi_values i [ItMulti i f v] = [v]) by (unfold multi_values; cbn [map concat]; rewrite Nat.eqb_refl; reflexivity).
      rewrite Hv. cbn [ms_val]. f_equal. destruct (multi_values i pre); reflexivity.
    + intros k Hk. apply state_m_other. unfold multi_values. cbn [map concat]. cbn [Nat.add] in Hk.
      destruct (i =? k) eqn:Eik; [apply Nat.eqb_eq in Eik; congruence | reflexivity].
  - symmetry. apply map_ext. intros k. apply state_t_other; reflexivity.
Qed.

(* ---------- toggle items ---------- *)
Lemma effect_counts it j :
  match item_effect it j with
  | TNone => occurrences j [it] = 0 /\ negations j [it] = 0
  | TInc c => occurrences j [it] = c /\ 0 < c /\ negations j [it] = 0
  | TRev => occurrences j [it] = 0 /\ negations j [it] = 1
  end.
Proof.
  destruct it as [i f v|i f v|ts|t|t|v]; cbn [item_effect]; unfold occurrences, negations; cbn [map]; unfold list_sum; cbn [fold_right]; try (split; reflexivity).
  - fold (count_nat j ts). destruct (Nat.ltb_spec 0 (count_nat j ts)); lia.
  - rewrite (Nat.eqb_sym t j). destruct (j =? t); simpl; lia.
  - rewrite (Nat.eqb_sym t j). destruct (j =? t); simpl; lia.
Qed.

Lemma inc_arith o n c : 0 < c ->
  (if (0 <? o + n) && (Z.eqb (if 0 <? n then 0%Z else Z.of_nat o) 0%Z) then Err UserError
   else Ok {| ts_given := Z.add (if 0 <? n then 0%Z else Z.of_nat o) (Z.of_nat c); ts_dirty := true |}) =
  (if n =? 0 then Ok {| ts_given := if 0 <? n + 0 then 0%Z else Z.of_nat (o + c); ts_dirty := 0 <? o + c + (n + 0) |}
   else Err UserError).
Proof.
  intros Hc. rewrite Nat2Z.inj_add. destruct c as [|c]; [lia|].
  destruct n as [|n]; destruct o as [|o]; simpl; reflexivity.
Qed.

Lemma rev_arith o n :
  (if (0 <? o + n) && negb (Z.eqb (if 0 <? n then 0%Z else Z.of_nat o) 0%Z) then Err UserError
   else Ok {| ts_given := 0%Z; ts_dirty := true |}) =
  (if negb ((0 <? o) && (n =? 0)) then Ok {| ts_given := if 0 <? n + 1 then 0%Z else Z.of_nat (o + 0); ts_dirty := 0 <? o + 0 + (n + 1) |}
   else Err UserError).
Proof.
  destruct n as [|n]; destruct o as [|o]; simpl; reflexivity.
Qed.

Lemma tog_apply_state t pre it j :
  tog_apply t (state_t pre j) (item_effect it j) =
  if tog_okb pre it j t then Ok (state_t (pre ++ [it]) j) else Err UserError.
Proof.
  pose proof (effect_counts it j) as H. unfold tog_okb.
  destruct (item_effect it j) as [|c|]; cbn [tog_apply].
  - destruct H as [H1 H2]. rewrite state_t_other by assumption. reflexivity.
  - destruct H as (H1 & Hc & H2). unfold state_t. cbn [ts_dirty ts_given].
    rewrite r4_occ_app, r4_neg_app, H1, H2. apply inc_arith. exact Hc.
  - destruct H as [H1 H2]. unfold state_t. cbn [ts_dirty ts_given].
    rewrite r4_occ_app, r4_neg_app, H1, H2.
    destruct (t_rev t); cbn [negb andb]; [|reflexivity]. apply rev_arith.
Qed.

Lemma tog_pass_state pre it : forall ts s,
  tog_pass (item_effect it) s ts (map (state_t pre) (seq s (length ts))) =
  if forallb (fun p => tog_okb pre it (fst p) (snd p)) (combine (seq s (length ts)) ts)
  then Ok (map (state_t (pre ++ [it])) (seq s (length ts))) else Err UserError.
Proof.
  induction ts as [|t ts IH]; intros s; [reflexivity|].
  cbn [length seq map tog_pass combine forallb fst snd].
  rewrite tog_apply_state. destruct (tog_okb pre it s t); cbn [bind andb]; [|reflexivity].
  rewrite IH. destruct (forallb _ (combine (seq (S s) (length ts)) ts)); reflexivity.
Qed.

Lemma apply_tog_state d pre it :
  match it with ItBundle _ | ItLong _ | ItNo _ => True | _ => False end ->
  apply_item d (state_of d pre) it = if item_sem d pre it then Ok (state_of d (pre ++ [it])) else Err UserError.
Proof.
  intros Hk.
  assert (E : apply_item d (state_of d pre) it =
              do ts <- tog_pass (item_effect it) 0 (d_toggles d) (p_t (state_of d pre));
              Ok {| p_o := p_o (state_of d pre); p_m := p_m (state_of d pre); p_t := ts |})
    by (destruct it; try contradiction; reflexivity).
  assert (Es : item_sem d pre it = forallb (fun p => tog_okb pre it (fst p) (snd p)) (combine (seq 0 (length (d_toggles d))) (d_toggles d)))
    by (destruct it; try contradiction; reflexivity).
  rewrite E, Es. cbn [state_of p_t p_o p_m]. rewrite tog_pass_state.
  destruct (forallb _ _); cbn [bind]; [|reflexivity].
  apply f_equal. unfold state_of. f_equal.
  - apply map_ext. intros k. symmetry. apply state_o_other. destruct it; try contradiction; reflexivity.
  - apply map_ext. intros k. symmetry. apply state_m_other. destruct it; try contradiction; reflexivity.
Qed.

Lemma apply_pos_state d pre v : apply_item d (state_of d pre) (ItPos v) = Ok (state_of d (pre ++ [ItPos v])).
Proof.
  cbn [apply_item]. apply f_equal. unfold state_of. f_equal; apply map_ext; intros k; symmetry.
  - apply state_o_other. reflexivity.
  - apply state_m_other. reflexivity.
  - apply state_t_other; reflexivity.
Qed.

Theorem apply_item_state d pre it : item_valid d it = true ->
  apply_item d (state_of d pre) it = if item_sem d pre it then Ok (state_of d (pre ++ [it])) else Err UserError.
Proof.
  intros Hv. destruct it as [i f v|i f v|ts|t|t|v].
  - apply apply_opt_state. apply Nat.ltb_lt. exact Hv.
  - cbn [item_sem]. apply apply_multi_state. apply Nat.ltb_lt. exact Hv.
  - apply apply_tog_state. exact I.
  - apply apply_tog_state. exact I.
  - apply apply_tog_state. exact I.
  - apply apply_pos_state.
Qed.

Theorem run_items_state d : forall its pre, forallb (item_valid d) its = true ->
  run_items d (state_of d pre) its = if items_sem d pre its then Ok (state_of d (pre ++ its)) else Err UserError.
Proof.
  induction its as [|it its IH]; intros pre Hv.
  - cbn [run_items items_sem]. rewrite app_nil_r. reflexivity.
  - cbn [forallb] in Hv. apply andb_true_iff in Hv as [Hv1 Hv2].
    cbn [run_items items_sem]. rewrite (apply_item_state d pre it Hv1).
    destruct (item_sem d pre it); cbn [bind andb]; [|reflexivity].
    rewrite (IH (pre ++ [it]) Hv2), <- app_assoc. reflexivity.
Qed.

Lemma init_state_of d : init_st d = state_of d [].
Proof.
  unfold init_st, state_of. f_equal.
  - generalize 0. induction (d_opts d) as [|x l IH]; intros s; [reflexivity|]. cbn [map length seq]. f_equal. apply IH.
  - generalize 0. induction (d_multis d) as [|x l IH]; intros s; [reflexivity|]. cbn [map length seq]. f_equal. apply IH.
  - generalize 0. induction (d_toggles d) as [|x l IH]; intros s; [reflexivity|]. cbn [map length seq]. f_equal. apply IH.
Qed.

(* Opt/History.v — property C14: parsing is repeatable.  The outcome of a parse call on a long-lived parser object
   does not depend on the calls made before it (successful or failing, in any order): it is what a freshly built
   parser gives for the same arguments and environment. *)
From Coq Require Import List Arith Bool ZArith Lia.
From Coq Require Import Init.Byte.
From Nitro Require Import Base.Bytes Base.ListX Base.Res Opt.Token Opt.Decl Opt.ParserModel Opt.ParserCore Opt.CoreEq.
Import ListNotations.
Local Open Scope list_scope.

(* ---------- prepare() resets every option object ---------- *)

Lemma map_const_len {A B C} (c : C) (l : list A) (l' : list B) :
  length l = length l' -> map (fun _ => c) l = map (fun _ => c) l'.
Proof.
  revert l'. induction l as [|x l IH]; intros [|y l'] H; cbn [map length] in *; try discriminate; [reflexivity|].
  f_equal. apply IH. lia.
Qed.

Lemma init_aligned d : aligned d (init_st d).
Proof. unfold aligned, init_st. cbn [p_o p_m p_t]. rewrite !map_length. auto. Qed.

Lemma prepare_aligned : forall d st, aligned d st -> prepare st = init_st d.
Proof.
  intros d st (Ho & Hm & Ht). unfold prepare, init_st.
  f_equal; apply map_const_len; assumption.
Qed.

(* ---------- every reachable object state stays aligned with the declaration ---------- *)

Lemma upd_res_length {A} (l l' : list A) i f : upd_res l i f = Ok l' -> length l' = length l.
Proof.
  unfold upd_res. destruct (nth_error l i) as [x|].
  - destruct (f x) as [y|er]; cbn [bind]; [|discriminate]. intros [= <-]. apply upd_length.
  - intros [= <-]. reflexivity.
Qed.

Lemma toggles_pass_length ts ss a r n m :
  toggles_pass ts ss a = Ok (r, n, m) -> length r = Nat.min (length ts) (length ss).
Proof.
  revert ss r n m. induction ts as [|t ts IH]; intros ss r n m.
  - cbn [toggles_pass]. intros [= <- _ _]. reflexivity.
  - destruct ss as [|s ss]; cbn [toggles_pass]; [intros [= <- _ _]; reflexivity|].
    destruct (toggle_matches t a).
    + destruct (toggle_update t s a) as [s'|er]; cbn [bind]; [|discriminate].
      destruct (toggles_pass ts ss a) as [[[r0 n0] m0]|er] eqn:T; cbn [bind]; [|discriminate].
      intros [= <- _ _]. cbn [length Nat.min]. f_equal. exact (IH ss r0 n0 m0 T).
    + destruct (toggles_pass ts ss a) as [[[r0 n0] m0]|er] eqn:T; cbn [bind]; [|discriminate].
      intros [= <- _ _]. cbn [length Nat.min]. f_equal. exact (IH ss r0 n0 m0 T).
Qed.

Lemma map2r_length {A B} (f : A -> B -> res B) l m r :
  map2r f l m = Ok r -> length r = Nat.min (length l) (length m).
Proof.
  revert m r. induction l as [|a l IH]; intros m r.
  - cbn [map2r]. intros [= <-]. reflexivity.
  - destruct m as [|b m]; cbn [map2r]; [intros [= <-]; reflexivity|].
    destruct (f a b) as [b'|er]; cbn [bind]; [|discriminate].
    destruct (map2r f l m) as [r0|er] eqn:M; cbn [bind]; [|discriminate].
    intros [= <-]. cbn [length Nat.min]. f_equal. exact (IH m r0 M).
Qed.

Lemma try_option_aligned d st a next st' c :
  aligned d st -> try_option d st a next = Ok (Some (st', c)) -> aligned d st'.
Proof.
  intros (Ho & Hm & Ht). unfold try_option.
  destruct (find_idx (fun o => base_matches (o_name o) (o_short o) a) (d_opts d)) as [i|]; [|discriminate].
  destruct (option_value_token a next) as [[tok c0]|er]; cbn [bind]; [|discriminate].
  destruct (upd_res (p_o st) i (fun s => opt_update s tok)) as [os|er] eqn:U; cbn [bind]; [|discriminate].
  intros [= <- _]. unfold aligned. cbn [p_o p_m p_t].
  rewrite (upd_res_length _ _ _ _ U). auto.
Qed.

Lemma try_multi_aligned d st a next st' c :
  aligned d st -> try_multi d st a next = Ok (Some (st', c)) -> aligned d st'.
Proof.
  intros (Ho & Hm & Ht). unfold try_multi.
  destruct (find_idx (fun o => base_matches (m_name o) (m_short o) a) (d_multis d)) as [i|]; [|discriminate].
  destruct (option_value_token a next) as [[tok c0]|er]; cbn [bind]; [|discriminate].
  destruct (upd_res (p_m st) i (fun s => multi_update s tok)) as [ms|er] eqn:U; cbn [bind]; [|discriminate].
  intros [= <- _]. unfold aligned. cbn [p_o p_m p_t].
  rewrite (upd_res_length _ _ _ _ U). auto.
Qed.

Lemma try_toggle_aligned d st a st' :
  aligned d st -> try_toggle d st a = Ok (Some st') -> aligned d st'.
Proof.
  intros (Ho & Hm & Ht). unfold try_toggle.
  destruct (toggles_pass (d_toggles d) (p_t st) a) as [[[ts' n] m]|er] eqn:T; cbn [bind]; [|discriminate].
  destruct (m && is_short a && negb (n =? length (letters a))); [discriminate|].
  destruct m; [|discriminate].
  intros [= <-]. unfold aligned. cbn [p_o p_m p_t].
  rewrite (toggles_pass_length _ _ _ _ _ _ T), Ht, Nat.min_id. auto.
Qed.

Lemma loop_aligned d st op pos skip args st' pos' :
  aligned d st -> loop d st op pos skip args = Ok (st', pos') -> aligned d st'.
Proof.
  revert st op pos skip. induction args as [|a rest IH]; intros st op pos skip A.
  - cbn [loop]. intros [= <- _]. exact A.
  - cbn [loop].
    destruct skip; [apply IH; exact A|].
    destruct (op || is_value a).
    { destruct (full d (length pos)); [discriminate | apply IH; exact A]. }
    destruct (negb (well_formed a)); [discriminate|].
    destruct (is_double_dash a); [apply IH; exact A|].
    destruct (try_option d st a (hd_error rest)) as [[[st1 c1]|]|er1] eqn:T1; cbn [bind]; [| |discriminate].
    { apply IH. exact (try_option_aligned _ _ _ _ _ _ A T1). }
    destruct (try_multi d st a (hd_error rest)) as [[[st2 c2]|]|er2] eqn:T2; cbn [bind]; [| |discriminate].
    { apply IH. exact (try_multi_aligned _ _ _ _ _ _ A T2). }
    destruct (try_toggle d st a) as [[st3|]|er3] eqn:T3; cbn [bind]; [| discriminate | discriminate].
    apply IH. exact (try_toggle_aligned _ _ _ _ A T3).
Qed.

Lemma parse_g_aligned : forall tr fa d e st args,
  aligned d st -> aligned d (fst (parse_g tr fa d e st args)).
Proof.
  intros tr fa d e st args A. rewrite parse_g_eq. unfold parse_c.
  destruct (negb (consistent d)); [exact A|].
  rewrite (prepare_aligned d st A).
  destruct (loop d (init_st d) false [] false args) as [[st1 pos]|er] eqn:L; [|apply init_aligned].
  pose proof (loop_aligned _ _ _ _ _ _ _ _ (init_aligned d) L) as A1.
  destruct (map2r (check_opt e) (d_opts d) (p_o st1)) as [os|er] eqn:Mo; [|exact A1].
  destruct (map2r (check_multi e) (d_multis d) (p_m st1)) as [ms|er] eqn:Mm; [|exact A1].
  destruct (map2r (check_toggle tr fa e) (d_toggles d) (p_t st1)) as [ts|er] eqn:Mt; [|exact A1].
  destruct A1 as (Ho & Hm & Ht). cbn [fst]. unfold aligned. cbn [p_o p_m p_t].
  rewrite (map2r_length _ _ _ _ Mo), (map2r_length _ _ _ _ Mm), (map2r_length _ _ _ _ Mt).
  rewrite Ho, Hm, Ht, !Nat.min_id. auto.
Qed.

(* ---------- C14 ---------- *)

(* one call: whatever state the option objects are in, the outcome is that of a freshly built parser *)
Theorem history_independent : forall tr fa d e st args, aligned d st ->
  snd (parse_g tr fa d e st args) = snd (parse_g tr fa d e (init_st d) args).
Proof.
  intros tr fa d e st args A. unfold parse_g.
  rewrite (prepare_aligned d st A), (prepare_aligned d (init_st d) (init_aligned d)).
  destruct (negb (consistent d)); reflexivity.
Qed.

Lemma run_history_aligned tr fa d e hist : forall st, aligned d st ->
  aligned d (fst (run_history tr fa d e st hist)).
Proof.
  induction hist as [|args h IH]; intros st A; [exact A|].
  cbn [run_history].
  destruct (parse_g tr fa d e st args) as [st' r] eqn:P.
  assert (A' : aligned d st').
  { replace st' with (fst (parse_g tr fa d e st args)) by (rewrite P; reflexivity). apply parse_g_aligned. exact A. }
  specialize (IH st' A').
  destruct (run_history tr fa d e st' h) as [st'' rs]. exact IH.
Qed.

(* the k-th call on a long-lived object gives what a freshly built parser gives, for every history *)
Theorem run_history_fresh : forall tr fa d e hist st, aligned d st ->
  snd (run_history tr fa d e st hist) = map (fun args => snd (parse_g tr fa d e (init_st d) args)) hist.
Proof.
  intros tr fa d e hist. induction hist as [|args h IH]; intros st A; [reflexivity|].
  cbn [run_history map].
  destruct (parse_g tr fa d e st args) as [st' r] eqn:P.
  assert (A' : aligned d st').
  { replace st' with (fst (parse_g tr fa d e st args)) by (rewrite P; reflexivity). apply parse_g_aligned. exact A. }
  specialize (IH st' A').
  destruct (run_history tr fa d e st' h) as [st'' rs]. cbn [snd] in *.
  f_equal; [|exact IH].
  replace r with (snd (parse_g tr fa d e st args)) by (rewrite P; reflexivity).
  apply history_independent. exact A.
Qed.

(* ---------- the environment may change between the calls ---------- *)

Fixpoint run_history_env (tr fa : list str) (d : decl) (st : pst) (hist : list (env_t * list str))
  : pst * list (res result) :=
  match hist with
  | [] => (st, [])
  | (e, args) :: h =>
    let '(st', r) := parse_g tr fa d e st args in
    let '(st'', rs) := run_history_env tr fa d st' h in (st'', r :: rs)
  end.

Lemma run_history_as_env tr fa d e hist : forall st,
  run_history tr fa d e st hist = run_history_env tr fa d st (map (pair e) hist).
Proof.
  induction hist as [|args h IH]; intros st; [reflexivity|].
  cbn [run_history run_history_env map].
  destruct (parse_g tr fa d e st args) as [st' r]. rewrite IH. reflexivity.
Qed.

Theorem run_history_env_fresh : forall tr fa d hist st, aligned d st ->
  snd (run_history_env tr fa d st hist)
  = map (fun ea => snd (parse_g tr fa d (fst ea) (init_st d) (snd ea))) hist.
Proof.
  intros tr fa d hist. induction hist as [|[e args] h IH]; intros st A; [reflexivity|].
  cbn [run_history_env map fst snd].
  destruct (parse_g tr fa d e st args) as [st' r] eqn:P.
  assert (A' : aligned d st').
  { replace st' with (fst (parse_g tr fa d e st args)) by (rewrite P; reflexivity). apply parse_g_aligned. exact A. }
  specialize (IH st' A').
  destruct (run_history_env tr fa d st' h) as [st'' rs]. cbn [snd] in *.
  f_equal; [|exact IH].
  replace r with (snd (parse_g tr fa d e st args)) by (rewrite P; reflexivity).
  apply history_independent. exact A.
Qed.

(* a parser object as the public API builds it starts aligned, hence all of the above apply to it *)
Corollary run_history_from_new : forall tr fa d e hist,
  snd (run_history tr fa d e (init_st d) hist) = map (fun args => snd (parse_g tr fa d e (init_st d) args)) hist.
Proof. intros tr fa d e hist. apply run_history_fresh. apply init_aligned. Qed.

Print Assumptions prepare_aligned.
Print Assumptions parse_g_aligned.
Print Assumptions history_independent.
Print Assumptions run_history_fresh.
Print Assumptions run_history_env_fresh.
Print Assumptions run_history_from_new.

(* Opt/Run.v — the model and the spec instantiated with the documented vocabulary (what gets extracted) *)
From Coq Require Import List ZArith.
From Nitro Require Fmt.FormatModel Fmt.FormatSpec.
From Nitro Require Import Base.Bytes Base.Res Opt.Token Opt.Decl Opt.ParserModel Opt.ParserCore Opt.ParserSpec Opt.Vocab.
Definition parse := parse_g truthy falsy.
Definition history := run_history truthy falsy.
Definition spec := spec_parse truthy falsy.
Definition assign := assignment truthy falsy.
Definition env_word := parse_env_word truthy falsy.

(* typed access option::as<long>() on a value whose text is a plain decimal number: the number whose decimal text was given.
   None = the text is not a plain decimal (what operator>> does then is outside the model; the driver exercises it) *)
Definition as_long (v : str) : option Z := FormatSpec.read_dec v.
Definition dec_text (z : Z) : str := FormatModel.print_dec z.

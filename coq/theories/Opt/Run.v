(* Opt/Run.v — the model and the spec instantiated with the documented vocabulary (what gets extracted) *)
From Coq Require Import List ZArith.
From Nitro Require Import Base.Bytes Base.Res Opt.Token Opt.Decl Opt.ParserModel Opt.ParserCore Opt.ParserSpec Opt.Vocab.
Definition parse := parse_g truthy falsy.
Definition history := run_history truthy falsy.
Definition spec := spec_parse truthy falsy.
Definition assign := assignment truthy falsy.
Definition env_word := parse_env_word truthy falsy.

(* Opt/Corollaries.v — the readable consequences of the refinement theorem used by the property files
   C01, C02, C03, C04, C11, C12, C14. *)
From Coq Require Import List Arith Bool ZArith Lia.
From Coq Require Import Init.Byte.
From Nitro Require Import Base.Bytes Base.ListX Base.Res Opt.Token Opt.Decl Opt.ParserModel Opt.ParserCore Opt.ParserSpec
  Opt.RefineDefs Opt.Refine1 Opt.Refine2 Opt.Refine3 Opt.Refine4 Opt.Refine5 Opt.Lexical Opt.CoreEq Opt.History Opt.Positional.
Import ListNotations.
Local Open Scope list_scope.

Section Cor.
Variable tr fa : list str.

(* ---------- C01 ---------- *)
Theorem accounts_for_every_token d e st args r :
  wf_decl d = true -> no_clash d = true -> aligned d st ->
  snd (parse_g tr fa d e st args) = Ok r ->
  exists items tail, wf_items d items tail = true /\ render d items tail = args /\ assignment tr fa d e items tail = Ok r.
Proof.
  intros W K A H. rewrite (parse_refines tr fa d e st args W K A) in H. unfold spec_parse in H.
  destruct (consistent d); cbn [negb] in H; [|discriminate].
  destruct (explain d false false false [] [] args) as [[items tail]|] eqn:E; [|discriminate].
  destruct (wf_items d items tail) eqn:Wf; [|discriminate].
  exists items, tail. repeat split; [exact Wf | eapply render_explain; eauto | exact H].
Qed.

(* a bundle item stands for declared toggles that carry the letters spelled, nothing else *)
Theorem bundle_is_declared_toggles d items tail ts :
  wf_items d items tail = true -> In (ItBundle ts) items ->
  ts <> [] /\ forall t, In t ts -> exists td c, nth_error (d_toggles d) t = Some td /\ t_short td = Some c.
Proof.
  intros Wf Hin. unfold wf_items in Wf. repeat (apply andb_true_iff in Wf as [Wf ?]).
  rewrite forallb_forall in Wf. specialize (Wf _ Hin). cbn [item_ok] in Wf.
  apply andb_true_iff in Wf as [Hne Hall]. split.
  - destruct ts; [discriminate | discriminate].
  - intros t Ht. rewrite forallb_forall in Hall. specialize (Hall t Ht).
    destruct (nth_error (d_toggles d) t) as [td|]; [|discriminate].
    destruct (t_short td) as [c|] eqn:Es; [|discriminate]. eauto.
Qed.

(* what the result reports for the i-th declared thing *)
Lemma mapi_nth {A B} (F : nat -> A -> B) : forall l s i a, nth_error l i = Some a -> nth_error (mapi F s l) i = Some (F (s + i) a).
Proof.
  induction l as [|x l IH]; intros s i a; [destruct i; discriminate|].
  destruct i as [|i]; cbn [nth_error mapi].
  - intros [= ->]. rewrite Nat.add_0_r. reflexivity.
  - intros H. rewrite (IH (S s) i a H). do 2 f_equal. lia.
Qed.

Theorem assignment_reports d e items tail r :
  assignment tr fa d e items tail = Ok r ->
  (forall i o, nth_error (d_opts d) i = Some o ->
     nth_error (r_opts r) i = Some (o_name o, src_val (opt_source e o (opt_values i items)))
     /\ src_bad (opt_source e o (opt_values i items)) = false) /\
  (forall i o, nth_error (d_multis d) i = Some o ->
     nth_error (r_multis r) i = Some (m_name o, match src_val (multi_source e o (multi_values i items)) with Some l => l | None => [] end)
     /\ src_bad (multi_source e o (multi_values i items)) = false) /\
  (forall j t, nth_error (d_toggles d) j = Some t ->
     nth_error (r_toggles r) j = Some (t_name t, match src_val (toggle_source tr fa e t (occurrences j items) (negations j items)) with Some z => z | None => 0%Z end)
     /\ src_bad (toggle_source tr fa e t (occurrences j items) (negations j items)) = false) /\
  r_pos r = inline_pos items ++ match tail with Some ps => ps | None => [] end.
Proof.
  unfold assignment.
  set (os := mapi (fun i o => (o_name o, opt_source e o (opt_values i items))) 0 (d_opts d)).
  set (ms := mapi (fun i o => (m_name o, multi_source e o (multi_values i items))) 0 (d_multis d)).
  set (ts := mapi (fun i t => (t_name t, toggle_source tr fa e t (occurrences i items) (negations i items))) 0 (d_toggles d)).
  destruct (existsb (fun p => src_bad (snd p)) os) eqn:Bo; [discriminate|].
  destruct (existsb (fun p => src_bad (snd p)) ms) eqn:Bm; [discriminate|].
  destruct (existsb (fun p => src_bad (snd p)) ts) eqn:Bt; [discriminate|].
  cbn [orb]. intros [= <-]. cbn [r_opts r_multis r_toggles r_pos].
  repeat split.
  - rewrite nth_error_map. unfold os. rewrite (mapi_nth _ _ 0 i o H). reflexivity.
  - destruct (src_bad (opt_source e o (opt_values i items))) eqn:Eb; [|reflexivity].
    assert (existsb (fun p => src_bad (snd p)) os = true); [|congruence].
    apply existsb_exists. eexists. split; [eapply nth_error_In; unfold os; apply (mapi_nth _ _ 0 i o H) | exact Eb].
  - rewrite nth_error_map. unfold ms. rewrite (mapi_nth _ _ 0 i o H). reflexivity.
  - destruct (src_bad (multi_source e o (multi_values i items))) eqn:Eb; [|reflexivity].
    assert (existsb (fun p => src_bad (snd p)) ms = true); [|congruence].
    apply existsb_exists. eexists. split; [eapply nth_error_In; unfold ms; apply (mapi_nth _ _ 0 i o H) | exact Eb].
  - rewrite nth_error_map. unfold ts. rewrite (mapi_nth _ _ 0 j t H). reflexivity.
  - destruct (src_bad (toggle_source tr fa e t (occurrences j items) (negations j items))) eqn:Eb; [|reflexivity].
    assert (existsb (fun p => src_bad (snd p)) ts = true); [|congruence].
    apply existsb_exists. eexists. split; [eapply nth_error_In; unfold ts; apply (mapi_nth _ _ 0 j t H) | exact Eb].
Qed.

(* provided = command line or environment *)
Theorem assignment_provided d e items tail r :
  assignment tr fa d e items tail = Ok r ->
  r_provided r =
     map fst (filter (fun p => src_provided (snd p)) (mapi (fun i o => (o_name o, opt_source e o (opt_values i items))) 0 (d_opts d)))
  ++ map fst (filter (fun p => src_provided (snd p)) (mapi (fun i o => (m_name o, multi_source e o (multi_values i items))) 0 (d_multis d)))
  ++ map fst (filter (fun p => src_provided (snd p)) (mapi (fun i t => (t_name t, toggle_source tr fa e t (occurrences i items) (negations i items))) 0 (d_toggles d))).
Proof.
  unfold assignment.
  destruct (existsb _ _ || existsb _ _ || existsb _ _); [discriminate|]. intros [= <-]. reflexivity.
Qed.

(* ---------- C02 ---------- *)
Theorem render_parse_roundtrip d e st items tail :
  wf_decl d = true -> consistent d = true -> no_clash d = true -> aligned d st ->
  wf_items d items tail = true ->
  snd (parse_g tr fa d e st (render d items tail)) = assignment tr fa d e items tail.
Proof.
  intros W C K A Wf. rewrite (parse_refines tr fa d e st _ W K A). unfold spec_parse. rewrite C. cbn [negb].
  rewrite (explain_render d items tail W C (no_clash_weak d K) Wf), Wf. reflexivity.
Qed.

(* ---------- C03: the ranking, clause by clause ---------- *)
Theorem opt_rank e o given :
  opt_source e o given =
  match given with
  | v :: _ => FromCmd v
  | [] => if nonempty (env_get e (o_env o)) then FromEnv (env_get e (o_env o))
          else match o_def o with Some dv => FromDefault dv | None => if o_opt o then Absent else Missing end
  end.
Proof. reflexivity. Qed.

Lemma existsb_mapi {A V} (F : nat -> A -> str * src V) (bad : src V -> bool) : forall l s,
  existsb (fun p => bad (snd p)) (mapi F s l) = true <-> exists i a, nth_error l i = Some a /\ bad (snd (F (s + i) a)) = true.
Proof.
  induction l as [|x l IH]; intros s; cbn [mapi existsb].
  - split; [discriminate | intros (i & a & H & _); destruct i; discriminate].
  - rewrite orb_true_iff, IH. split.
    + intros [H|(i & a & H1 & H2)].
      * exists 0, x. rewrite Nat.add_0_r. auto.
      * exists (S i), a. split; [exact H1|]. rewrite <- H2. do 3 f_equal. lia.
    + intros (i & a & H1 & H2). destruct i as [|i].
      * left. injection H1 as <-. rewrite Nat.add_0_r in H2. exact H2.
      * right. exists i, a. split; [exact H1|]. rewrite <- H2. do 3 f_equal. lia.
Qed.

Theorem assignment_fails_iff d e items tail :
  assignment tr fa d e items tail = Err UserError <->
  (exists i o, nth_error (d_opts d) i = Some o /\ src_bad (opt_source e o (opt_values i items)) = true) \/
  (exists i o, nth_error (d_multis d) i = Some o /\ src_bad (multi_source e o (multi_values i items)) = true) \/
  (exists j t, nth_error (d_toggles d) j = Some t /\ src_bad (toggle_source tr fa e t (occurrences j items) (negations j items)) = true).
Proof.
  unfold assignment.
  rewrite <- (existsb_mapi (fun i o => (o_name o, opt_source e o (opt_values i items))) src_bad (d_opts d) 0).
  rewrite <- (existsb_mapi (fun i o => (m_name o, multi_source e o (multi_values i items))) src_bad (d_multis d) 0).
  rewrite <- (existsb_mapi (fun i t => (t_name t, toggle_source tr fa e t (occurrences i items) (negations i items))) src_bad (d_toggles d) 0).
  destruct (existsb _ (mapi _ 0 (d_opts d))); [split; auto|].
  destruct (existsb _ (mapi _ 0 (d_multis d))); [split; auto|].
  destruct (existsb _ (mapi _ 0 (d_toggles d))); [split; auto|].
  cbn [orb]. split; [discriminate | intros [H|[H|H]]; discriminate].
Qed.

Theorem assignment_err_user d e items tail er : assignment tr fa d e items tail = Err er -> er = UserError.
Proof. unfold assignment. destruct (_ || _ || _); [intros [= <-]; reflexivity | discriminate]. Qed.

(* a required option without any source; an environment word outside the vocabulary *)
Theorem opt_missing_iff e o given :
  src_bad (opt_source e o given) = true <-> given = [] /\ nonempty (env_get e (o_env o)) = false /\ o_def o = None /\ o_opt o = false.
Proof.
  unfold opt_source. destruct given; destruct (nonempty (env_get e (o_env o))); destruct (o_def o); destruct (o_opt o); simpl;
    intuition (try discriminate; try congruence).
Qed.
Theorem multi_missing_iff e o given :
  src_bad (multi_source e o given) = true <-> given = [] /\ nonempty (env_get e (m_env o)) = false /\ m_def o = None /\ m_opt o = false.
Proof.
  unfold multi_source. destruct given; destruct (nonempty (env_get e (m_env o))); destruct (m_def o); destruct (m_opt o); simpl;
    intuition (try discriminate; try congruence).
Qed.
Theorem toggle_badenv_iff e t occ neg :
  src_bad (toggle_source tr fa e t occ neg) = true <->
  occ = 0 /\ neg = 0 /\ nonempty (env_get e (t_env t)) = true /\ parse_env_word tr fa (env_get e (t_env t)) = None.
Proof.
  unfold toggle_source. destruct occ as [|o]; destruct neg as [|n]; simpl; destruct (nonempty (env_get e (t_env t)));
    destruct (parse_env_word tr fa (env_get e (t_env t))) as [[|]|]; simpl; intuition (try discriminate; try congruence; try lia).
Qed.

(* ---------- C11 ---------- *)
Theorem toggle_rank e t occ neg :
  toggle_source tr fa e t occ neg =
  if 0 <? occ then FromCmd (Z.of_nat occ)
  else if 0 <? neg then FromCmd 0%Z
  else if nonempty (env_get e (t_env t))
       then match parse_env_word tr fa (env_get e (t_env t)) with Some true => FromEnv 1%Z | Some false => FromEnv 0%Z | None => BadEnv end
       else FromDefault (t_def t).
Proof. reflexivity. Qed.

Theorem wf_items_polarity d items tail j : wf_items d items tail = true -> j < length (d_toggles d) ->
  ~ (0 < occurrences j items /\ 0 < negations j items).
Proof.
  intros Wf Hj [H1 H2]. unfold wf_items in Wf. repeat (apply andb_true_iff in Wf as [Wf ?]).
  match goal with H : forallb (fun t => negb _) _ = true |- _ => rewrite forallb_forall in H; specialize (H j) end.
  match goal with H : In j _ -> _ |- _ => assert (Hn := H ltac:(apply in_seq; lia)) end.
  apply negb_true_iff in Hn. apply andb_false_iff in Hn as [Hn|Hn]; apply Nat.ltb_ge in Hn; lia.
Qed.

Theorem wf_items_reversal_needs_permission d items tail t : wf_items d items tail = true -> In (ItNo t) items ->
  exists td, nth_error (d_toggles d) t = Some td /\ t_rev td = true.
Proof.
  intros Wf Hin. unfold wf_items in Wf. repeat (apply andb_true_iff in Wf as [Wf ?]).
  rewrite forallb_forall in Wf. specialize (Wf _ Hin). cbn [item_ok] in Wf.
  destruct (nth_error (d_toggles d) t) as [td|]; [eauto | discriminate].
Qed.

Theorem wf_items_option_once d items tail i : wf_items d items tail = true -> i < length (d_opts d) -> length (opt_values i items) <= 1.
Proof.
  intros Wf Hi. unfold wf_items in Wf. repeat (apply andb_true_iff in Wf as [Wf ?]).
  match goal with H : forallb (fun i => length _ <=? 1) _ = true |- _ => rewrite forallb_forall in H; specialize (H i ltac:(apply in_seq; lia)) end.
  apply Nat.leb_le. assumption.
Qed.

Theorem wf_items_limit d items tail k : wf_items d items tail = true -> d_allowed d = Some k -> length (inline_pos items) + n_tail tail <= k.
Proof.
  intros Wf Hk. unfold wf_items in Wf. repeat (apply andb_true_iff in Wf as [Wf ?]).
  match goal with H : match d_allowed d with _ => _ end = true |- _ => rewrite Hk in H; apply Nat.leb_le in H; exact H end.
Qed.

(* the vocabulary is closed *)
Theorem env_word_closed w b : (forall x, In x tr -> In x fa -> False) ->
  parse_env_word tr fa w = Some b <-> In w (if b then tr else fa).
Proof.
  intros Hd. unfold parse_env_word.
  destruct (existsb (seq_eqb w) tr) eqn:Et.
  - apply existsb_exists in Et as (x & Hx & Ex). apply seq_eqb_true in Ex. subst x.
    destruct b; split; auto; [discriminate | intros H; exfalso; eauto].
  - assert (Ht : ~ In w tr) by (apply existsb_seq_eqb_false; exact Et).
    destruct (existsb (seq_eqb w) fa) eqn:Ef.
    + apply existsb_exists in Ef as (x & Hx & Ex). apply seq_eqb_true in Ex. subst x.
      destruct b; split; auto; [discriminate | intros H; contradiction].
    + assert (Hf : ~ In w fa) by (apply existsb_seq_eqb_false; exact Ef).
      destruct b; split; try discriminate; intros H; contradiction.
Qed.

(* ---------- C04 ---------- *)
Definition documented_condition (d : decl) (e : env_t) (args : list str) : bool :=
  match explain d false false false [] [] args with
  | Err _ => true   (* unknown name or letter, missing value, value on a toggle, option letter in a bundle, malformed dash token *)
  | Ok (items, tail) =>
      negb (items_sem d [] items)        (* option twice, both polarities, --no- on an irreversible toggle *)
      || negb (limit_ok d 0 items tail)  (* more positionals than accepted *)
      || negb (is_ok (assignment tr fa d e items tail))   (* required option without source, bad environment word *)
  end.

Theorem error_iff_documented d e st args :
  wf_decl d = true -> consistent d = true -> no_clash d = true -> aligned d st ->
  (snd (parse_g tr fa d e st args) = Err UserError <-> documented_condition d e args = true).
Proof.
  intros W C K A. rewrite (parse_refines tr fa d e st args W K A). unfold spec_parse, documented_condition.
  rewrite C. cbn [negb]. rewrite explain_explain'.
  destruct (explain' d false false false args) as [[items tail]|er] eqn:E.
  - rewrite (wf_items_explained d args items tail E).
    destruct (items_sem d [] items); cbn [andb negb orb]; [|split; reflexivity].
    destruct (limit_ok d 0 items tail); cbn [negb orb]; [|split; reflexivity].
    destruct (assignment tr fa d e items tail) as [r|er] eqn:Ea; cbn [is_ok negb].
    + split; discriminate.
    + rewrite (assignment_err_user _ _ _ _ _ Ea). split; reflexivity.
  - rewrite (explain'_err _ _ _ _ _ _ E). split; reflexivity.
Qed.

Theorem outcome_trichotomy d e st args :
  wf_decl d = true -> no_clash d = true -> aligned d st ->
  (exists r, snd (parse_g tr fa d e st args) = Ok r) \/ snd (parse_g tr fa d e st args) = Err UserError
  \/ (snd (parse_g tr fa d e st args) = Err DevError /\ consistent d = false).
Proof.
  intros W K A. destruct (snd (parse_g tr fa d e st args)) as [r|[|]] eqn:E; eauto.
  right. right. split; [reflexivity|]. apply (dev_error_iff_inconsistent tr fa d e st args). exact E.
Qed.
End Cor.

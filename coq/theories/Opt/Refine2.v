(* Opt/Refine2.v — the whole loop = explain the vector, run the items, check the positional limit *)
From Coq Require Import List Arith Bool ZArith Lia.
From Coq Require Import Init.Byte.
From Nitro Require Import Base.Bytes Base.ListX Base.Res Opt.Token Opt.Decl Opt.ParserModel Opt.ParserCore Opt.ParserSpec Opt.RefineDefs Opt.Refine1.
Import ListNotations.
Local Open Scope list_scope.

Definition rhs (d : decl) (st : pst) (sd go skip : bool) (pos : list str) (args : list str) : res (pst * list str) :=
  match explain' d sd go skip args with
  | Err _ => Err UserError
  | Ok (its, tl) =>
    match run_items d st its with
    | Err _ => Err UserError
    | Ok st' => if limit_ok d (length pos) its tl then Ok (st', pos ++ inline_pos its ++ tail_list tl) else Err UserError
    end
  end.

Lemma loop_unfold_step d st op pos a rest :
  (op || is_value a) = false -> well_formed a = true -> is_double_dash a = false ->
  loop d st op pos false (a :: rest) = do (st', c) <- step d st a (hd_error rest); loop d st' op pos c rest.
Proof.
  intros H1 H2 H3. cbn [loop]. rewrite H1, H2, H3. cbn [negb]. unfold step.
  destruct (try_option d st a (hd_error rest)) as [[[st' c]|]|]; cbn [bind]; try reflexivity.
  destruct (try_multi d st a (hd_error rest)) as [[[st' c]|]|]; cbn [bind]; try reflexivity.
  destruct (try_toggle d st a) as [[st'|]|]; cbn [bind]; reflexivity.
Qed.

Lemma explain'_sd d go : forall args skip its tl, explain' d true go skip args = Ok (its, tl) -> its = [] /\ exists t, tl = Some t.
Proof.
  induction args as [|a rest IH]; intros skip its tl; cbn [explain'].
  - intros [= <- <-]. eauto.
  - destruct skip; [apply IH|].
    destruct (explain' d true go false rest) as [[its' tl']|] eqn:E; cbn [bind]; [|discriminate].
    intros [= <- <-]. destruct (IH _ _ _ E) as [-> _]. eauto.
Qed.

Lemma explain_tok_not_pos d a next it c : explain_tok d a next = Ok (it, c) -> inline_pos [it] = [].
Proof.
  unfold explain_tok, explain_valued.
  repeat match goal with
         | |- context [match ?x with _ => _ end] => destruct x
         | |- context [if ?x then _ else _] => destruct x
         end; intros [= <- <-]; reflexivity.
Qed.

Lemma tog_pass_length eff : forall ts ss j r, tog_pass eff j ts ss = Ok r -> length ts = length ss -> length r = length ss.
Proof.
  induction ts as [|t ts IH]; intros [|s ss] j r; cbn [tog_pass]; try (intros [= <-]; reflexivity); try discriminate.
  destruct (tog_apply t s (eff j)); cbn [bind]; [|discriminate].
  destruct (tog_pass eff (S j) ts ss) eqn:E; cbn [bind]; [|discriminate].
  intros [= <-] [= Hl]. simpl. f_equal. eapply IH; eauto.
Qed.

Lemma apply_item_length d st it st' : apply_item d st it = Ok st' ->
  length (p_t st) = length (d_toggles d) -> length (p_t st') = length (d_toggles d).
Proof.
  destruct it; cbn [apply_item]; intros H Hl.
  - destruct (upd_res (p_o st) i (set_opt v)); cbn [bind] in H; [injection H as <-; exact Hl | discriminate].
  - destruct (upd_res (p_m st) i (add_multi v)); cbn [bind] in H; [injection H as <-; exact Hl | discriminate].
  - destruct (tog_pass _ 0 (d_toggles d) (p_t st)) eqn:E; cbn [bind] in H; [|discriminate]. injection H as <-. simpl.
    rewrite (tog_pass_length _ _ _ _ _ E); auto.
  - destruct (tog_pass _ 0 (d_toggles d) (p_t st)) eqn:E; cbn [bind] in H; [|discriminate]. injection H as <-. simpl.
    rewrite (tog_pass_length _ _ _ _ _ E); auto.
  - destruct (tog_pass _ 0 (d_toggles d) (p_t st)) eqn:E; cbn [bind] in H; [|discriminate]. injection H as <-. simpl.
    rewrite (tog_pass_length _ _ _ _ _ E); auto.
  - injection H as <-. exact Hl.
Qed.

Lemma inline_pos_cons it its : inline_pos (it :: its) = inline_pos [it] ++ inline_pos its.
Proof. unfold inline_pos. cbn [map concat]. rewrite app_nil_r. reflexivity. Qed.

Theorem loop_explain d : tog_hyps d -> forall args st sd go skip pos,
  length (p_t st) = length (d_toggles d) -> pos_inv d pos ->
  same (loop d st (sd || go) pos skip args) (rhs d st sd go skip pos args).
Proof.
  intros TH. induction args as [|a rest IH]; intros st sd go skip pos Hl Hp.
  - unfold rhs. cbn [loop explain' run_items].
    replace (limit_ok d (length pos) [] (if sd then Some [] else None)) with true.
    + simpl. destruct sd; simpl; rewrite app_nil_r; reflexivity.
    + symmetry. unfold limit_ok, pos_inv in *. destruct (d_allowed d) as [k|]; [|reflexivity].
      apply Nat.leb_le. destruct sd; simpl; lia.
  - destruct skip.
    { (* the token was consumed as a value *) unfold rhs. cbn [loop explain']. apply IH; assumption. }
    destruct sd.
    { (* after "--" *)
      unfold rhs. cbn [loop explain' orb].
      destruct (full d (length pos)) eqn:Fu.
      - destruct (explain' d true go false rest) as [[its tl]|]; cbn [bind]; [|exact I].
        destruct (run_items d st its); [|exact I].
        replace (limit_ok d (length pos) its (Some (a :: tail_list tl))) with false; [exact I|].
        symmetry. unfold full, limit_ok in *. destruct (d_allowed d) as [k|]; [|discriminate].
        apply Nat.eqb_eq in Fu. apply Nat.leb_gt. simpl. lia.
      - specialize (IH st true go false (pos ++ [a]) Hl). cbn [orb] in IH.
        assert (Hp' : pos_inv d (pos ++ [a])).
        { unfold pos_inv, full in *. destruct (d_allowed d) as [k|]; [|exact I].
          apply Nat.eqb_neq in Fu. rewrite app_length. simpl. lia. }
        specialize (IH Hp'). unfold rhs in IH.
        destruct (explain' d true go false rest) as [[its tl]|] eqn:E; cbn [bind]; [|exact IH].
        destruct (explain'_sd _ _ _ _ _ _ E) as [-> [t ->]]. cbn [run_items tail_list inline_pos map concat app] in *.
        replace (limit_ok d (length pos) [] (Some (a :: t))) with (limit_ok d (length (pos ++ [a])) [] (Some t)).
        + destruct (limit_ok d (length (pos ++ [a])) [] (Some t)); [|exact IH].
          rewrite <- app_assoc in IH. exact IH.
        + unfold limit_ok. destruct (d_allowed d); [|reflexivity]. rewrite app_length. simpl. f_equal. lia. }
    cbn [orb].
    destruct (go || is_value a) eqn:Gv.
    { (* a positional *)
      unfold rhs. cbn [loop explain']. rewrite Gv.
      destruct (full d (length pos)) eqn:Fu.
      - destruct (explain' d false (go || d_greedy d) false rest) as [[its tl]|]; cbn [bind]; [|exact I].
        cbn [run_items apply_item bind]. destruct (run_items d st its); [|exact I].
        replace (limit_ok d (length pos) (ItPos a :: its) tl) with false; [exact I|].
        symmetry. unfold full, limit_ok in *. destruct (d_allowed d) as [k|]; [|discriminate].
        apply Nat.eqb_eq in Fu. apply Nat.leb_gt. rewrite inline_pos_cons. simpl. lia.
      - specialize (IH st false (go || d_greedy d) false (pos ++ [a]) Hl). cbn [orb] in IH.
        assert (Hp' : pos_inv d (pos ++ [a])).
        { unfold pos_inv, full in *. destruct (d_allowed d) as [k|]; [|exact I].
          apply Nat.eqb_neq in Fu. rewrite app_length. simpl. lia. }
        specialize (IH Hp'). unfold rhs in IH.
        destruct (explain' d false (go || d_greedy d) false rest) as [[its tl]|] eqn:E; cbn [bind]; [|exact IH].
        cbn [run_items apply_item bind].
        destruct (run_items d st its) as [st'|]; [|exact IH].
        replace (limit_ok d (length pos) (ItPos a :: its) tl) with (limit_ok d (length (pos ++ [a])) its tl).
        + destruct (limit_ok d (length (pos ++ [a])) its tl); [|exact IH].
          rewrite inline_pos_cons. simpl. rewrite <- app_assoc in IH. exact IH.
        + unfold limit_ok. destruct (d_allowed d); [|reflexivity]. rewrite app_length, inline_pos_cons. simpl. f_equal. lia. }
    destruct (well_formed a) eqn:Wf.
    2:{ unfold rhs. cbn [loop explain']. rewrite Gv, Wf. simpl. exact I. }
    destruct (is_double_dash a) eqn:Dd.
    { unfold rhs. cbn [loop explain']. rewrite Gv, Wf, Dd. cbn [negb].
      apply (IH st true go false pos Hl Hp). }
    (* an option token *)
    rewrite (loop_unfold_step d st go pos a rest Gv Wf Dd).
    unfold rhs. cbn [explain']. rewrite Gv, Wf, Dd. cbn [negb].
    pose proof (step_refines d st a (hd_error rest) TH Hl) as Hs. unfold step_spec in Hs.
    destruct (explain_tok d a (hd_error rest)) as [[it c]|] eqn:Et; cbn [bind] in *.
    2:{ destruct (step d st a (hd_error rest)); [contradiction | exact I]. }
    destruct (apply_item d st it) as [st1|] eqn:Ea; cbn [bind] in Hs.
    2:{ destruct (step d st a (hd_error rest)); [contradiction|]. cbn [bind].
        destruct (explain' d false go c rest) as [[its tl]|]; cbn [bind]; [|exact I].
        cbn [run_items]. rewrite Ea. exact I. }
    destruct (step d st a (hd_error rest)) as [[st1' c']|]; [|contradiction]. injection Hs as -> ->. cbn [bind].
    pose proof (apply_item_length d st it st1 Ea Hl) as Hl1.
    specialize (IH st1 false go c pos Hl1 Hp). cbn [orb] in IH. unfold rhs in IH.
    destruct (explain' d false go c rest) as [[its tl]|]; cbn [bind]; [|exact IH].
    cbn [run_items]. rewrite Ea. cbn [bind].
    destruct (run_items d st1 its); [|exact IH].
    replace (limit_ok d (length pos) (it :: its) tl) with (limit_ok d (length pos) its tl).
    + rewrite inline_pos_cons, (explain_tok_not_pos _ _ _ _ _ Et). exact IH.
    + unfold limit_ok. rewrite inline_pos_cons, (explain_tok_not_pos _ _ _ _ _ Et). reflexivity.
Qed.

# lib/framework.py — shared machinery of every property check:
#   coq step (translator, make, Print Assumptions audit), driver builds from /repo's working tree,
#   sharded runs with crash/hang recovery, model-vs-implementation diff, oracle, shrinking,
#   known findings, replay files and evidence.
import fcntl, hashlib, json, os, random, re, shutil, subprocess, sys, time
from concurrent.futures import ThreadPoolExecutor

ROOT = os.path.dirname(os.path.dirname(os.path.abspath(__file__)))
REPO = os.environ.get("VERIF_REPO", "/repo")
COQ = os.path.join(ROOT, "coq")
WORK = os.path.join(ROOT, "work")
CACHE = os.path.join(ROOT, ".cache")
NPROC = min(16, os.cpu_count() or 4)

ALLOWED_AXIOMS = set()  # no axiom is expected under any property theorem; names listed here would be tolerated

FORBIDDEN = re.compile(r"\b(Admitted|admit|Axiom|Axioms|Parameter|Parameters|Conjecture|Conjectures|Admit Obligations|"
                       r"Unset Guard Checking|Unset Positivity Checking|Unset Universe Checking|bypass_check|"
                       r"native_compute|type-in-type|impredicative-set)\b")


def log(*a):
    print(*a, file=sys.stderr, flush=True)


def sh(cmd, cwd=None, timeout=None, env=None, inp=None):
    e = dict(os.environ)
    if env:
        e.update(env)
    p = subprocess.run(cmd, cwd=cwd, timeout=timeout, env=e, input=inp, stdout=subprocess.PIPE, stderr=subprocess.STDOUT,
                       shell=isinstance(cmd, str))
    return p.returncode, p.stdout.decode("utf-8", "replace")


class Lock:
    def __init__(self, name):
        os.makedirs(CACHE, exist_ok=True)
        self.path = os.path.join(CACHE, name + ".lock")

    def __enter__(self):
        self.f = open(self.path, "w")
        fcntl.flock(self.f, fcntl.LOCK_EX)
        return self

    def __exit__(self, *a):
        fcntl.flock(self.f, fcntl.LOCK_UN)
        self.f.close()


# ------------------------------------------------------------------ repo fingerprint

def repo_files():
    out = []
    for sub in ("include", "src"):
        for d, _, fs in os.walk(os.path.join(REPO, sub)):
            for f in fs:
                out.append(os.path.join(d, f))
    return sorted(out)


_repo_hash = None


def repo_hash():
    global _repo_hash
    if _repo_hash is None:
        h = hashlib.sha256()
        for f in repo_files():
            h.update(f.encode())
            with open(f, "rb") as fh:
                h.update(fh.read())
        _repo_hash = h.hexdigest()[:16]
    return _repo_hash


# ------------------------------------------------------------------ coq step

def write_if_changed(path, text):
    try:
        if open(path).read() == text:
            return False
    except OSError:
        pass
    os.makedirs(os.path.dirname(path), exist_ok=True)
    with open(path, "w") as f:
        f.write(text)
    return True


def theorem_names(vfile):
    txt = open(vfile).read()
    return re.findall(r"^\s*(?:Theorem|Lemma|Corollary)\s+([A-Za-z0-9_']+)", txt, re.M)


def forbidden_scan():
    """lexical audit of the whole development (comments stripped)"""
    bad = []
    for d, _, fs in os.walk(os.path.join(COQ, "theories")):
        for f in fs:
            if not f.endswith(".v"):
                continue
            p = os.path.join(d, f)
            txt = open(p).read()
            txt = strip_coq_comments(txt)
            for m in FORBIDDEN.finditer(txt):
                bad.append("%s: %s" % (os.path.relpath(p, COQ), m.group(0)))
    return bad


def strip_coq_comments(txt):
    out, depth, i, n = [], 0, 0, len(txt)
    instr = False
    while i < n:
        if not instr and txt.startswith("(*", i):
            depth += 1
            i += 2
            continue
        if not instr and depth and txt.startswith("*)", i):
            depth -= 1
            i += 2
            continue
        if depth == 0:
            if txt[i] == '"':
                instr = not instr
            out.append(txt[i])
        i += 1
    return "".join(out)


def coq_step(prop, vfiles, run_translator=True):
    """Regenerate Gen/*.v from /repo, build the .vo files of this property (full compilation), then
    audit every theorem in them with Print Assumptions.  Returns a dict:
       ok, obligations, discharged, failed (list of names / files), assumptions {thm: text}, log"""
    res = dict(ok=True, obligations=0, discharged=0, failed=[], assumptions={}, log="", gen_notes=[])
    with Lock("coq"):
        if run_translator:
            rc, out = sh([sys.executable, os.path.join(ROOT, "gen", "translate.py")], cwd=ROOT, timeout=600)
            res["log"] += out
            if rc != 0:
                res["gen_notes"].append("translator exit %d" % rc)
        sh(["sh", os.path.join(COQ, "mkproject.sh")], cwd=COQ, timeout=120)
        targets = [os.path.join("theories", v[:-2] + ".vo") for v in vfiles]
        t0 = time.time()
        rc, out = sh(["make", "-k", "-j%d" % NPROC] + targets, cwd=COQ, timeout=3000)
        res["log"] += out
        res["make_s"] = round(time.time() - t0, 1)
        for v in vfiles:
            res["obligations"] += len(theorem_names(os.path.join(COQ, "theories", v)))
        if rc != 0:
            res["ok"] = False
            bad = sorted(set(re.findall(r'File "\./theories/([^"]+)", line \d+[^\n]*\n(?:[^\n]*\n)?Error', out)))
            res["failed"] += bad or ["make"]
        for v, t in zip(vfiles, targets):
            if not os.path.exists(os.path.join(COQ, t)) and v not in res["failed"]:
                res["ok"] = False
                res["failed"].append(v)
        # audit
        if res["ok"]:
            os.makedirs(os.path.join(WORK, prop), exist_ok=True)
            audit = os.path.join(WORK, prop, "Audit_%s.v" % prop)
            lines = []
            allnames = []
            for v in vfiles:
                mod = "Nitro." + v[:-2].replace("/", ".")
                lines.append("Require %s." % mod)
                for nme in theorem_names(os.path.join(COQ, "theories", v)):
                    allnames.append(mod + "." + nme)
            for q in allnames:
                lines.append('Goal True. idtac "@@BEGIN %s". Abort.' % q)
                lines.append("Print Assumptions %s." % q)
                lines.append('Goal True. idtac "@@END". Abort.')
            open(audit, "w").write("\n".join(lines) + "\n")
            rc2, out2 = sh(["coqc", "-Q", os.path.join(COQ, "theories"), "Nitro", audit], cwd=os.path.join(WORK, prop), timeout=900)
            if rc2 != 0:
                res["ok"] = False
                res["failed"].append("audit")
                res["log"] += out2
            for m in re.finditer(r"@@BEGIN (\S+)\n(.*?)@@END", out2, re.S):
                name, body = m.group(1), m.group(2).strip()
                res["assumptions"][name] = body
                if body.startswith("Closed under the global context"):
                    res["discharged"] += 1
                else:
                    axs = re.findall(r"^([A-Za-z0-9_.']+)\s*:", body, re.M)
                    if axs and all(a in ALLOWED_AXIOMS for a in axs):
                        res["discharged"] += 1
                    else:
                        res["ok"] = False
                        res["failed"].append("assumptions of " + name)
        bad = forbidden_scan()
        if bad:
            res["ok"] = False
            res["failed"] += ["forbidden: " + b for b in bad]
    return res


# ------------------------------------------------------------------ building drivers

CXX = os.environ.get("VERIF_CXX", "g++")
CXXFLAGS = ["-std=gnu++17", "-O1", "-g", "-fsanitize=address,undefined", "-fno-sanitize-recover=all",
            "-fno-omit-frame-pointer", "-w"]


def file_hash(paths, extra=""):
    h = hashlib.sha256(extra.encode())
    for p in paths:
        h.update(p.encode())
        with open(p, "rb") as f:
            h.update(f.read())
    return h.hexdigest()[:16]


class BuildError(Exception):
    pass


def build_cpp(name, driver_src, repo_srcs=(), flags=None, extra_srcs=(), libs=(), defines=()):
    """compile harness/<driver_src> + the listed /repo/src files from the CURRENT working tree.
    Cached by content hash of /repo/include, /repo/src, the driver and the flags."""
    flags = list(CXXFLAGS if flags is None else flags)
    drv = os.path.join(ROOT, driver_src)
    extra = [os.path.join(ROOT, e) for e in extra_srcs]
    hdrs = sorted(os.path.join(ROOT, "harness", f) for f in os.listdir(os.path.join(ROOT, "harness")) if f.endswith((".hpp", ".h")))
    key = file_hash([drv] + extra + hdrs, repo_hash() + " ".join(flags) + " ".join(libs) + " ".join(defines) + " ".join(repo_srcs))
    outdir = os.path.join(CACHE, "cpp")
    os.makedirs(outdir, exist_ok=True)
    binp = os.path.join(outdir, "%s-%s" % (name, key))
    with Lock("cpp-" + name):
        if os.path.exists(binp):
            os.utime(binp)
            return binp
        tmp = os.path.join(outdir, "build-%s-%s" % (name, key))
        shutil.rmtree(tmp, ignore_errors=True)
        os.makedirs(tmp)
        srcs = [drv] + extra + [os.path.join(REPO, s) for s in repo_srcs]
        common = [CXX] + flags + ["-I" + os.path.join(REPO, "include"), "-I" + os.path.join(ROOT, "harness")] + ["-D" + d for d in defines]

        def cc(i_src):
            i, src = i_src
            obj = os.path.join(tmp, "o%d.o" % i)
            rc, out = sh(common + ["-c", src, "-o", obj], timeout=900)
            return rc, out, obj

        with ThreadPoolExecutor(NPROC) as ex:
            results = list(ex.map(cc, enumerate(srcs)))
        errs = [out for rc, out, _ in results if rc != 0]
        if errs:
            shutil.rmtree(tmp, ignore_errors=True)
            raise BuildError("\n".join(errs)[:20000])
        rc, out = sh(common + [o for _, _, o in results] + ["-o", binp + ".tmp"] + list(libs), timeout=900)
        shutil.rmtree(tmp, ignore_errors=True)
        if rc != 0:
            raise BuildError(out[:20000])
        os.rename(binp + ".tmp", binp)
        # prune old binaries of the same driver (keep the 3 most recent)
        olds = sorted([f for f in os.listdir(outdir) if f.startswith(name + "-") and not f.endswith(".tmp")],
                      key=lambda f: os.path.getmtime(os.path.join(outdir, f)), reverse=True)
        for f in olds[3:]:
            try:
                os.remove(os.path.join(outdir, f))
            except OSError:
                pass
        return binp


def build_ocaml(name, extracted, glue=("glue_base.ml",), driver=None):
    """cat coq/<extracted>.ml + glue + ocaml/<driver>.ml into one compilation unit"""
    driver = driver or (name + "_driver.ml")
    parts = [os.path.join(COQ, extracted)] + [os.path.join(ROOT, "ocaml", g) for g in glue] + [os.path.join(ROOT, "ocaml", driver)]
    for p in parts:
        if not os.path.exists(p):
            raise BuildError("missing %s (run ./setup.sh)" % p)
    key = file_hash(parts)
    outdir = os.path.join(CACHE, "ocaml")
    os.makedirs(outdir, exist_ok=True)
    binp = os.path.join(outdir, "%s-%s" % (name, key))
    with Lock("ocaml-" + name):
        if os.path.exists(binp):
            return binp
        tmp = os.path.join(outdir, "build-%s-%s" % (name, key))
        shutil.rmtree(tmp, ignore_errors=True)
        os.makedirs(tmp)
        full = os.path.join(tmp, name + "_full.ml")
        with open(full, "w") as f:
            for p in parts:
                f.write("# 1 \"%s\"\n" % p)
                f.write(open(p).read())
                f.write("\n")
        rc, out = sh(["ocamlfind", "ocamlopt", "-w", "-a", "-unsafe", "-inline", "100", full, "-o", binp + ".tmp"], cwd=tmp, timeout=900)
        shutil.rmtree(tmp, ignore_errors=True)
        if rc != 0:
            raise BuildError(out[:20000])
        os.rename(binp + ".tmp", binp)
        olds = sorted([f for f in os.listdir(outdir) if f.startswith(name + "-") and not f.endswith(".tmp")],
                      key=lambda f: os.path.getmtime(os.path.join(outdir, f)), reverse=True)
        for f in olds[3:]:
            try:
                os.remove(os.path.join(outdir, f))
            except OSError:
                pass
        return binp


# ------------------------------------------------------------------ running

SAN_ENV = {"ASAN_OPTIONS": "exitcode=66:detect_leaks=1:abort_on_error=0:allocator_may_return_null=1:symbolize=0",
           "UBSAN_OPTIONS": "print_stacktrace=1:halt_on_error=1:exitcode=67",
           "LSAN_OPTIONS": "exitcode=68"}


def run_lines(binp, lines, args=(), env=None, timeout=3600):
    if isinstance(binp, Router):
        return run_sharded(binp, lines, args, env, shards=1)
    """run a driver on the given case lines; returns the list of output lines (same length).
    A process that dies is restarted on the remaining cases; the case it died on gets CRASH(<code>)
    (or HANG when the watchdog fired)."""
    outs = []
    i = 0
    e = dict(SAN_ENV)
    if env:
        e.update(env)
    notes = []
    deaths = 0
    while i < len(lines):
        if deaths >= 150:
            # a tree on which the driver dies on (almost) every case: enough evidence, do not restart it thousands of times
            outs += ["NOTRUN"] * (len(lines) - i)
            break
        inp = ("\n".join(lines[i:]) + "\n").encode("latin-1")
        ee = dict(os.environ)
        ee.update(e)
        p = subprocess.run([binp] + list(args), input=inp, stdout=subprocess.PIPE, stderr=subprocess.PIPE, env=ee, timeout=timeout)
        got = p.stdout.decode("latin-1").split("\n")
        if got and got[-1] == "":
            got.pop()
        if p.returncode == 0 and len(got) == len(lines) - i:
            outs += got
            break
        # died: complete lines are results; next case is the culprit
        if p.returncode == 3 and got and got[-1] == "HANG":
            outs += got  # HANG is the observation of the case it hung on
            i += len(got)
            deaths += 30   # a hang costs the watchdog time (20 s): allow only a few per shard
            continue
        if p.returncode == 0:
            # fewer lines than cases without dying: protocol error
            outs += got + ["PROTOCOL"] * (len(lines) - i - len(got))
            break
        outs += got
        i += len(got)
        deaths += 1
        if i < len(lines):
            err = p.stderr.decode("latin-1", "replace")
            kind = "CRASH(%d)" % p.returncode
            m = re.search(r"ERROR: (AddressSanitizer|LeakSanitizer|UndefinedBehaviorSanitizer)[: ]+([a-zA-Z\-]+)", err)
            if m:
                kind = "CRASH(%s:%s)" % (m.group(1), m.group(2))
            elif "runtime error:" in err:
                kind = "CRASH(UBSan)"
            elif p.returncode < 0:
                kind = "CRASH(signal %d)" % (-p.returncode)
            notes.append((lines[i], kind, err[-3000:]))
            outs.append(kind)
            i += 1
    return outs, notes


class Router:
    """several implementation binaries behind one run interface"""
    def __init__(self, chk, impls):
        self.chk, self.impls = chk, impls


def run_sharded(binp, lines, args=(), env=None, shards=NPROC):
    if isinstance(binp, Router):
        groups = {}
        for idx, l in enumerate(lines):
            groups.setdefault(binp.chk.route(l), []).append(idx)
        outs = [None] * len(lines)
        notes = []
        for k, idxs in groups.items():
            o, nn = run_sharded(binp.impls[k], [lines[i] for i in idxs], args, env, shards)
            for i, x in zip(idxs, o):
                outs[i] = x
            notes += nn
        return outs, notes
    if len(lines) < 200:
        shards = 1
    n = len(lines)
    chunk = (n + shards - 1) // shards if n else 1
    parts = [lines[k:k + chunk] for k in range(0, n, chunk)]
    with ThreadPoolExecutor(max(1, len(parts))) as ex:
        rs = list(ex.map(lambda part: run_lines(binp, part, args, env), parts))
    outs, notes = [], []
    for o, nn in rs:
        outs += o
        notes += nn
    return outs, notes


# ------------------------------------------------------------------ known findings

def load_known():
    known, fixed = [], []
    p = os.path.join(ROOT, "known_findings.txt")
    if os.path.exists(p):
        for line in open(p):
            line = line.strip()
            if not line or line.startswith("#"):
                continue
            m = re.match(r"known: property=(\S+) id=(\S+) matcher=(\S+) (.*)", line)
            if m:
                known.append(dict(props=m.group(1).split(","), id=m.group(2), matcher=m.group(3), what=m.group(4)))
                continue
            m = re.match(r"fixed: property=(\S+) (\S+) (.*)", line)
            if m:
                fixed.append(dict(props=m.group(1).split(","), commit=m.group(2), what=m.group(3)))
    return known, fixed


# ------------------------------------------------------------------ the generic check

class Check:
    """Subclass per property.  Required attributes / methods:
         prop, vfiles (list of .v relative to theories/), cpp spec, ocaml spec,
         cases(tier, rng) -> iterable of (case_line, category)
       Optional: signature(case, obs), shrink(case), known_match(matcher, case, mobs, iobs),
         normalize(obs) (canonicalisation before diffing), extra_checks(ctx)"""
    prop = None
    title = ""
    vfiles = []
    level = "proof"
    cpp = None      # dict(name, driver_src, repo_srcs, flags?, libs?, defines?)
    cpps = None     # optional: {variant: dict(...)} several implementation binaries; route(case) picks one per case
    ocaml = None    # dict(name, extracted, glue)
    corpus = None   # file under corpus/ with one case per line, run first
    rule = ""
    modelled_note = ""

    def cases(self, tier, rng):
        raise NotImplementedError

    def route(self, case):
        """name of the implementation variant (key of self.cpps) that runs this case"""
        return None

    def signature(self, case, mobs, iobs):
        w = case.split(" ", 1)[0]
        return (w, iobs.split(" ", 1)[0])

    def nontrivial(self, case, mobs, iobs):
        return True

    def shrink(self, case):
        return []

    def normalize(self, case, obs):
        return obs

    def known_match(self, matcher, case, mobs, iobs):
        return False

    def tie_break_cases(self, coqres):
        """candidate inputs to try when a Tie obligation / theorem no longer checks"""
        return []

    def extra(self, ctx):
        """hook for property-specific additional checks; may append to ctx['violations']"""
        return


def seed_from_env():
    try:
        return int(os.environ.get("VERIF_SEED", "1"))
    except ValueError:
        return 1


def write_replay(prop, payload):
    os.makedirs(os.path.join(ROOT, "replays"), exist_ok=True)
    h = hashlib.sha256(json.dumps(payload, sort_keys=True).encode()).hexdigest()[:12]
    p = os.path.join(ROOT, "replays", "%s-%s.json" % (prop, h))
    with open(p, "w") as f:
        json.dump(payload, f, indent=1)
    return p


def write_evidence(chk, tier, seed, coverage, wall, violations, assumptions):
    if os.path.realpath(REPO) != "/repo":
        # a development run against a scratch copy (VERIF_REPO): the committed evidence describes /repo only
        os.makedirs(os.path.join(WORK, chk.prop), exist_ok=True)
        with open(os.path.join(WORK, chk.prop, "evidence-scratch.json"), "w") as f:
            json.dump(dict(property_id=chk.prop, tier=tier, seed=seed, coverage=coverage, wall_s=wall, violations=violations), f, indent=1)
        return
    os.makedirs(os.path.join(ROOT, "evidence"), exist_ok=True)
    ev = dict(property_id=chk.prop, tier=tier, seed=seed, level=chk.level, coverage=coverage,
              assumptions=assumptions, wall_s=round(wall, 1), violations=violations)
    with open(os.path.join(ROOT, "evidence", chk.prop + ".json"), "w") as f:
        json.dump(ev, f, indent=1)


TRUSTED_BASE_COMMON = [
    "Coq 8.16.1 kernel (coqc, full .vo compilation; vm_compute used in finite obligations and Examples; native_compute not used)",
    "axioms: none — every property theorem must print 'Closed under the global context' (checked on this run)",
    "extraction: Require ExtrOcamlBasic only (its Extract Inductive for bool, option, unit, list, prod, sumbool, sumor); no Extract Constant; nat/Z/N/byte stay extracted inductives; OCaml 4.13.1; glue code in /verif/ocaml (byte<->int via Obj.magic on constant constructors, self-tested at start)",
    "correspondence check: Python generators (/verif/props, /verif/gen), C++ drivers (/verif/harness) compiled from /repo's working tree with g++ 12.2 -fsanitize=address,undefined, line diff of canonical observations",
    "translator gen/translate.py (clang JSON AST / lexical) for the closed-world tables in Gen/*.v",
]


def run_check(chk, tier, replay=None):
    t0 = time.time()
    seed = seed_from_env()
    rng = random.Random(seed * 1000003 + sum(map(ord, chk.prop)))
    viol_lines = []      # (line, replay payload)
    known_lines = []
    ctx = dict(violations=viol_lines, known=known_lines, tier=tier, seed=seed)

    # 1. proofs
    coqres = coq_step(chk.prop, chk.vfiles)
    if not coqres["ok"]:
        log("coq step failed:", coqres["failed"])
        log(coqres["log"][-3000:])
    ctx["coq"] = coqres

    # 2. builds
    impl = model = None
    build_err = None
    try:
        if chk.ocaml:
            model = build_ocaml(**chk.ocaml)
    except BuildError as e:
        build_err = ("model driver does not build", str(e))
    impls = {}
    try:
        if chk.cpp:
            impl = build_cpp(**chk.cpp)
            impls[None] = impl
        if chk.cpps:
            with ThreadPoolExecutor(4) as ex:
                futs = {k: ex.submit(build_cpp, **spec) for k, spec in chk.cpps.items()}
                for k, f in futs.items():
                    impls[k] = f.result()
            if impl is None:
                impl = Router(chk, impls)
            else:
                impl = Router(chk, impls)
    except BuildError as e:
        build_err = ("C++ driver does not compile against the current /repo tree", str(e))
    ctx["impl"], ctx["model"], ctx["impls"] = impl, model, impls

    known, fixed = load_known()
    known = [k for k in known if chk.prop in k["props"]]

    evaluations = 0
    sigs = set()
    nontriv = set()
    cats = {}
    obs_kinds = {}
    samples = []
    diffs = []
    notes = []
    if build_err is None and impl and model:
        # 3. cases: corpus first
        cases = []
        if replay is not None:
            cases = [(c, "replay") for c in replay]
        else:
            if chk.corpus:
                cp = os.path.join(ROOT, "corpus", chk.corpus)
                if os.path.exists(cp):
                    for line in open(cp):
                        line = line.rstrip("\n")
                        if line and not line.startswith("#"):
                            cases.append((line, "corpus"))
            for c in chk.tie_break_cases(coqres) if not coqres["ok"] else []:
                cases.append((c, "tie-break"))
            seen = set(c for c, _ in cases)
            for c, cat in chk.cases(tier, rng):
                if c in seen:
                    continue
                seen.add(c)
                cases.append((c, cat))
        lines = [c for c, _ in cases]
        evaluations = len(lines)
        tm = time.time()
        mobs, _ = run_sharded(model, lines, args=("model",), shards=NPROC)
        tmodel = time.time() - tm
        tm = time.time()
        iobs, notes = run_sharded(impl, lines)
        timpl = time.time() - tm
        ctx["t_model"], ctx["t_impl"] = round(tmodel, 1), round(timpl, 1)
        for (c, cat), mo, io in zip(cases, mobs, iobs):
            cats[cat] = cats.get(cat, 0) + 1
            io_n = chk.normalize(c, io)
            mo_n = chk.normalize(c, mo)
            k = io_n.split(" ", 1)[0].split("(", 1)[0]
            obs_kinds[k] = obs_kinds.get(k, 0) + 1
            if chk.nontrivial(c, mo_n, io_n):
                nontriv.add(c)
                sigs.add(chk.signature(c, mo_n, io_n))
            if len(samples) < 3 and cat not in ("corpus",) and chk.nontrivial(c, mo_n, io_n) and (evaluations < 50 or rng.random() < 0.01 or len(lines) - len(samples) < 5):
                samples.append(dict(case=c, model=mo_n[:400], impl=io_n[:400]))
            if mo_n != io_n and io != "NOTRUN":
                diffs.append((c, mo_n, io_n))
        if not samples and cases:
            c = cases[0][0]
            samples.append(dict(case=c, model=mobs[0][:400], impl=iobs[0][:400]))

        # 4a. optionally judge EVERY implementation observation by the property oracle (not only the differing ones):
        #     where model and code agree but the oracle rejects, the case lies outside the theorems' hypotheses
        #     (a known finding) or the code violates the property in a way the model shares
        if getattr(chk, "oracle_all", False) and lines:
            diffset = set(c for c, _, _ in diffs)
            verd_all, _ = run_sharded(model, ["%s\t%s" % (c, chk.normalize(c, io)) for (c, _), io in zip(cases, iobs)],
                                      args=tuple(getattr(chk, "oracle_args", ("oracle",))), shards=NPROC)
            ctx["oracle_all_evaluated"] = len(verd_all)
            for (c, _), mo, io, v in zip(cases, mobs, iobs, verd_all):
                if v != "1" and c not in diffset:
                    diffs.append((c, chk.normalize(c, mo), chk.normalize(c, io)))
        # 4. judge the differences
        if diffs:
            oracle_in = ["%s\t%s" % (c, io) for c, _, io in diffs]
            verdicts, _ = run_sharded(model, oracle_in, args=tuple(getattr(chk, "oracle_args", ("oracle",))), shards=NPROC)
            unexplained_bad, unexplained_ok = [], []
            kf_hit = {}
            for (c, mo, io), v in zip(diffs, verdicts):
                hit = None
                # a known finding excuses only an observation that the MODEL reproduces (model = code, the oracle rejects both):
                # where the code has moved away from the model the difference is new, whatever the declaration looks like
                for k in (known if mo == io else []):
                    if chk.known_match(k["matcher"], c, mo, io):
                        hit = k
                        break
                if hit:
                    kf_hit.setdefault(hit["id"], (hit, c, mo, io))
                    continue
                (unexplained_ok if v == "1" else unexplained_bad).append((c, mo, io))
            for kid, (k, c, mo, io) in kf_hit.items():
                known_lines.append("KNOWN-FINDING: property=%s %s [%s] e.g. case=%s" % (chk.prop, k["what"], kid, c[:200]))
            if unexplained_bad:
                # shrink the first one
                c, mo, io = min(unexplained_bad, key=lambda t: len(t[0]))
                c, mo, io = shrink_case(chk, model, impl, c, mo, io, want_oracle_reject=True)
                payload = dict(property=chk.prop, kind="concrete", case=c, model_obs=mo, impl_obs=io,
                               oracle="rejects the implementation's observation", n_failing=len(unexplained_bad),
                               others=[t[0] for t in unexplained_bad[:10]], seed=seed, tier=tier)
                viol_lines.append(("", payload))
            elif unexplained_ok:
                c, mo, io = min(unexplained_ok, key=lambda t: len(t[0]))
                c, mo, io = shrink_case(chk, model, impl, c, mo, io, want_oracle_reject=False)
                payload = dict(property=chk.prop, kind="correspondence", case=c, model_obs=mo, impl_obs=io,
                               broken="correspondence model(%s) = implementation no longer holds; the property oracle accepts every observation searched (%d differing cases)" % (chk.ocaml["name"], len(unexplained_ok)),
                               theorems=[n for v in chk.vfiles for n in theorem_names(os.path.join(COQ, "theories", v))][:50],
                               seed=seed, tier=tier)
                viol_lines.append((" no-failing-input-found", payload))
        # sanitizer / crash notes not already a diff are diffs by construction (model never says CRASH)
        chk.extra(ctx)

    # thorough tier: the compiled theorems (and everything they depend on) are re-checked by the independent checker coqchk,
    # which also lists every axiom the loaded libraries rely on
    if tier == "thorough" and coqres["ok"] and replay is None and "coqchk" not in ctx.get("coverage_extra", {}):
        mods = ["Nitro." + v[:-2].replace("/", ".") for v in chk.vfiles if not v.startswith("Extract/")]
        tchk = time.time()
        with Lock("coq"):
            rcc, outc = sh(["coqchk", "-silent", "-o", "-Q", "theories", "Nitro"] + mods, cwd=COQ, timeout=3600)
        okc = rcc == 0 and "* Axioms: <none>" in outc
        ctx.setdefault("coverage_extra", {})["coqchk"] = dict(modules=mods, ok=okc, seconds=round(time.time() - tchk, 1),
                                                              summary=" ".join(outc[-600:].split()))
        if not okc:
            viol_lines.append((" no-failing-input-found", dict(property=chk.prop, kind="proof",
                               broken="coqchk rejects the compiled theorems or reports axioms", log=outc[-4000:])))

    if build_err is not None:
        payload = dict(property=chk.prop, kind="build", broken=build_err[0], output=build_err[1][-6000:],
                       note="the tie between model and code cannot be established on this tree")
        viol_lines.append((" no-failing-input-found", payload))
    if not coqres["ok"] and not any(s == "" for s, _ in viol_lines):
        payload = dict(property=chk.prop, kind="proof", broken=coqres["failed"], log=coqres["log"][-4000:],
                       note="a theorem or Tie obligation of this property no longer checks against the regenerated Gen/*.v; no concrete failing input was found by the correspondence run")
        viol_lines.append((" no-failing-input-found", payload))

    wall = time.time() - t0
    coverage = dict(
        obligations=coqres["obligations"], discharged=coqres["discharged"],
        checker_cmd="cd /verif/coq && make -k -j16 " + " ".join("theories/" + v[:-2] + ".vo" for v in chk.vfiles) +
                    " && coqc -Q theories Nitro work/%s/Audit_%s.v  (Print Assumptions of every theorem)" % (chk.prop, chk.prop),
        trusted_base=TRUSTED_BASE_COMMON + ([chk.modelled_note] if chk.modelled_note else []),
        theorems=sorted(coqres["assumptions"].keys()),
        print_assumptions=coqres["assumptions"],
        evaluations=evaluations, distinct_nontrivial=len(nontriv), distinct_signatures=len(sigs),
        rule=chk.rule, samples=samples, input_distribution=cats, observation_kinds=obs_kinds,
        correspondence_differences=len(diffs), oracle_evaluated_on_all_cases=ctx.get("oracle_all_evaluated", 0), crash_notes=[dict(case=n[0][:200], kind=n[1]) for n in notes[:5]],
        repo_tree_hash=repo_hash(), make_s=coqres.get("make_s"), model_s=ctx.get("t_model"), impl_s=ctx.get("t_impl"),
        exhaustive=False,
    )
    coverage.update(ctx.get("coverage_extra", {}))
    if replay is None:
        write_evidence(chk, tier, seed, coverage, wall, len(viol_lines),
                       ["see coverage.trusted_base", chk.modelled_note])
    for line in known_lines:
        print(line)
    rc = 0
    for suffix, payload in viol_lines:
        path = write_replay(chk.prop, payload)
        print("VIOLATION property=%s replay=%s%s" % (chk.prop, path, suffix))
        rc = 1
    if rc == 0:
        print("OK property=%s tier=%s theorems=%d/%d cases=%d nontrivial=%d wall=%.1fs" %
              (chk.prop, tier, coqres["discharged"], coqres["obligations"], evaluations, len(nontriv), wall))
    return rc


def shrink_case(chk, model, impl, c, mo, io, want_oracle_reject, budget=300):
    """greedy delta debugging over chk.shrink(case) candidates"""
    improved = True
    steps = 0
    while improved and steps < budget:
        improved = False
        cands = list(chk.shrink(c))[:64]
        if not cands:
            break
        steps += len(cands)
        mos, _ = run_lines(model, cands, args=("model",))
        ios, _ = run_lines(impl, cands)
        ver = None
        if want_oracle_reject:
            ver, _ = run_lines(model, ["%s\t%s" % (cc, chk.normalize(cc, i2)) for cc, i2 in zip(cands, ios)], args=tuple(getattr(chk, "oracle_args", ("oracle",))))
        for k, cc in enumerate(cands):
            m2, i2 = chk.normalize(cc, mos[k]), chk.normalize(cc, ios[k])
            if m2.split(" ")[0] in ("BADCASE", "NOTRUN") or i2.split(" ")[0] in ("BADCASE", "NOTRUN"):
                continue      # a candidate that is not a well-formed case of this harness
            if m2 != i2 and (not want_oracle_reject or ver[k] == "0") and len(cc) < len(c):
                c, mo, io = cc, m2, i2
                improved = True
                break
    return c, mo, io


def main(registry):
    import argparse
    ap = argparse.ArgumentParser()
    ap.add_argument("prop")
    ap.add_argument("--tier", default=os.environ.get("VERIF_TIER", "quick"), choices=["quick", "thorough"])
    ap.add_argument("--replay")
    a = ap.parse_args()
    if a.prop not in registry:
        print("unknown property", a.prop)
        return 2
    chk = registry[a.prop]()
    replay = None
    if a.replay:
        payload = json.load(open(a.replay))
        if "case" in payload:
            replay = [payload["case"]]
        else:
            print("replay file names a broken theorem/correspondence/build, not an input:")
            print(json.dumps({k: payload[k] for k in payload if k in ("kind", "broken", "note")}, indent=1))
            replay = None
    return run_check(chk, a.tier, replay)

// harness/dl_driver.cpp — implementation side of C19's dlopen part: nitro::dl::dl, nitro::dl::symbol, nitro::dl::exception.
// Linked with -Wl,--wrap=dlopen,--wrap=dlsym,--wrap=dlclose: every loader call made by the nitro headers goes through
// the wrappers below, which hand out one TOKEN per successful dlopen (so two opens of the same file are two handles
// that can be counted separately), count dlclose per token and dlclose(NULL), and forward to the real loader.
// VDL_DIR (a -D define) is the directory holding libvdl_a.so and libvdl_b.so.
#include "common.hpp"
#include <nitro/dl/dl.hpp>

#include <dlfcn.h>
#include <memory>
#include <optional>
#include <sanitizer/lsan_interface.h>

#ifndef VDL_DIR
#error "VDL_DIR must be defined"
#endif

using vh::split_on;

extern "C"
{
    void* __real_dlopen(const char*, int);
    void* __real_dlsym(void*, const char*);
    int __real_dlclose(void*);
    // symbol 3 lives in the program itself (for dl(nitro::dl::self)); exported through -rdynamic
    __attribute__((visibility("default"), used)) int vdl_self(int x) { return x + 900; }
    // symbol 1 also exists in the program (a DIFFERENT function): a look-up through a library handle must find the library's
    __attribute__((visibility("default"), used)) int vdl_g(int x) { return x + 7000; }
}

namespace
{
struct Tok
{
    void* real;
    int lib;
    int closes;
};
std::vector<Tok*> toks;
int null_closes, use_after_close, double_closes, null_dlsyms;

std::string path_of(int f)
{
    if (f == 0) return std::string(VDL_DIR) + "/libvdl_a.so";
    if (f == 1) return std::string(VDL_DIR) + "/libvdl_b.so";
    return std::string(VDL_DIR) + "/libvdl_missing" + std::to_string(f) + ".so";
}
int lib_of(const char* p)
{
    if (p == nullptr) return 2;
    if (path_of(0) == p) return 0;
    if (path_of(1) == p) return 1;
    return 9;
}
int tok_id(const void* p)
{
    for (std::size_t i = 0; i < toks.size(); i++) if (toks[i] == p) return static_cast<int>(i);
    return -1;
}
} // namespace

extern "C"
{
    void* __wrap_dlopen(const char* path, int flags)
    {
        void* r = __real_dlopen(path, flags);
        if (r == nullptr) return nullptr;
        Tok* t = new Tok{ r, lib_of(path), 0 };
        toks.push_back(t);
        return t;
    }
    void* __wrap_dlsym(void* h, const char* name)
    {
        int id = tok_id(h);
        if (h == nullptr) null_dlsyms++; // nitro never has a reason to search the global scope
        if (id < 0) return __real_dlsym(h, name); // RTLD_DEFAULT and friends
        if (toks[id]->closes > 0) { use_after_close++; return nullptr; }
        return __real_dlsym(toks[id]->real, name);
    }
    int __wrap_dlclose(void* h)
    {
        if (h == nullptr) { null_closes++; return -1; }
        int id = tok_id(h);
        if (id < 0) return __real_dlclose(h);
        toks[id]->closes++;
        if (toks[id]->closes > 1) { double_closes++; return -1; }
        return __real_dlclose(toks[id]->real);
    }
}

namespace
{
using Sym = nitro::dl::symbol<int(int)>;
struct Slot
{
    std::optional<nitro::dl::dl> lib;
    std::optional<Sym> sym;
    std::optional<std::shared_ptr<void>> raw;
    // for a symbol: the handle (token) its shared_ptr keeps alive according to the value semantics the property demands:
    // read through get() of the library object at load time, copied by copy/assignment, -1 once the symbol was moved from
    int h = -1;
    int sid = -1; // which symbol name the symbol object was loaded for (4 = the NULL-valued one: never called)
    bool empty() const { return !lib && !sym && !raw; }
    int kind() const { return lib ? 1 : sym ? 2 : raw ? 3 : 0; }
    void clear() { lib.reset(); sym.reset(); raw.reset(); h = -1; sid = -1; }
};

std::string join(const std::vector<std::string>& l)
{
    if (l.empty()) return ".";
    std::string r;
    for (std::size_t i = 0; i < l.size(); i++) { if (i) r += ","; r += l[i]; }
    return r;
}
std::string id_str(const void* p)
{
    if (p == nullptr) return "~"; // null shared_ptr: the object was moved from
    int id = tok_id(p);
    return id < 0 ? "?" : std::to_string(id);
}
std::string state_obs(const std::vector<Slot>& sl)
{
    std::vector<std::string> hsv, sv;
    for (auto* t : toks) hsv.push_back(std::to_string(t->lib) + ":" + std::to_string(t->closes));
    for (auto& s : sl)
    {
        if (s.lib) sv.push_back("L" + id_str(s.lib->get().get()));
        else if (s.sym) sv.push_back("S" + (s.h < 0 ? std::string("~") : std::to_string(s.h)));
        else if (s.raw) sv.push_back("R" + id_str(s.raw->get()));
        else sv.push_back("-");
    }
    std::string nc = "nc=" + std::to_string(null_closes);
    if (use_after_close) nc += "/dlsym-after-dlclose" + std::to_string(use_after_close);
    if (null_dlsyms) nc += "/dlsym-of-NULL" + std::to_string(null_dlsyms);
    return join(hsv) + "|" + join(sv) + "|" + nc;
}
std::string sym_name(int s)
{
    switch (s)
    {
    case 0: return "vdl_f";
    case 1: return "vdl_g";
    case 2: return "vdl_only_a";
    case 3: return "vdl_self";
    case 4: return "vdl_null"; // defined in library a with the value NULL (-Wl,--defsym,vdl_null=0)
    default: return "vdl_missing" + std::to_string(s);
    }
}
std::string take_dlerror()
{
    const char* e = dlerror();
    return e ? std::string(e) : std::string();
}

// every dl exception the case catches is COPIED out of its handler and kept; its diagnostic is read at once (unless the
// operation is a "quiet" one) and/or later, after further loader operations
struct Caught
{
    nitro::dl::exception e;
    std::string expected; // what the loader said about this very failure (asked directly before the operation)
    std::string name;     // the file / symbol name what() must mention
    bool read;
    std::string last;
};
std::vector<Caught> caught;

// "DWS": diagnostic is the loader's text of this failure / what() names the file or symbol / same text as at the previous read
std::string read_caught(Caught& c)
{
    const std::string d = c.e.dlerror();
    const bool D = !c.expected.empty() && d == c.expected;
    const bool W = std::string(c.e.what()).find(c.name) != std::string::npos;
    const bool S = !c.read || d == c.last;
    c.read = true;
    c.last = d;
    return std::string(D ? "1" : "0") + (W ? "1" : "0") + (S ? "1" : "0");
}
std::string on_caught(const nitro::dl::exception& e, const std::string& expected, const std::string& name, bool quiet)
{
    caught.push_back(Caught{ e, expected, name, false, std::string() });
    if (quiet) return "raise:-";
    const std::string bits = read_caught(caught.back());
    return std::string("raise:") + (bits == "111" ? "1" : "0");
}

std::string run(int n, const std::string& opsw)
{
    for (auto* t : toks) delete t;
    toks.clear();
    null_closes = use_after_close = double_closes = null_dlsyms = 0;
    caught.clear();
    dlerror();
    std::string out;
    {
        std::vector<Slot> sl(n);
        auto valid = [&](std::size_t i) { return i < sl.size(); };
        std::vector<std::string> ops;
        if (opsw != ".") ops = split_on(opsw, ',');
        for (auto& op : ops)
        {
            auto f = split_on(op, '.');
            auto arg = [&](std::size_t k) { return static_cast<std::size_t>(std::stoul(f.at(k))); };
            std::string r = "skip";
            if (f[0] == "op" || f[0] == "oq")
            {
                const bool quiet = f[0] == "oq";
                std::size_t i = arg(1);
                int file = static_cast<int>(arg(2));
                if (valid(i) && sl[i].empty())
                {
                    // what the loader says about this file, asked directly (not through the counted wrappers)
                    std::string expected;
                    if (file != 2)
                    {
                        void* probe = __real_dlopen(path_of(file).c_str(), RTLD_NOW);
                        if (probe) __real_dlclose(probe); else expected = take_dlerror();
                    }
                    dlerror();
                    try
                    {
                        if (file == 2) sl[i].lib.emplace(nitro::dl::self); else sl[i].lib.emplace(path_of(file));
                        r = "ok";
                    }
                    catch (const nitro::dl::exception& e)
                    {
                        r = on_caught(e, expected, file == 2 ? std::string("main program") : path_of(file), quiet);
                    }
                }
            }
            else if (f[0] == "sc" || f[0] == "sq" || f[0] == "tc" || f[0] == "tq")
            {
                // tc/tq: the same on a TEMPORARY:  nitro::dl::dl(path).load<T>(name)
                const bool temporary = f[0][0] == 't';
                // open + load with the dl object INSIDE the try block: a failed look-up unwinds through its destructor
                // (dlclose) before the handler runs; on success the symbol outlives the scoped library object
                const bool quiet = f[0][1] == 'q';
                std::size_t i = arg(1), t = arg(2);
                int file = static_cast<int>(arg(3)), sy = static_cast<int>(arg(4));
                if (valid(i) && valid(t) && i != t && sl[i].empty() && sl[t].empty())
                {
                    std::string expected, name;
                    void* probe = file == 2 ? __real_dlopen(nullptr, RTLD_NOW) : __real_dlopen(path_of(file).c_str(), RTLD_NOW);
                    if (!probe) { expected = take_dlerror(); name = path_of(file); }
                    else
                    {
                        dlerror();
                        (void)__real_dlsym(probe, sym_name(sy).c_str());
                        expected = take_dlerror();
                        name = sym_name(sy);
                        __real_dlclose(probe);
                    }
                    dlerror();
                    try
                    {
                        if (temporary)
                        {
                            const int h = static_cast<int>(toks.size()); // the handle this open is about to create
                            if (file == 2) sl[i].sym.emplace(nitro::dl::dl(nitro::dl::self).load<int(int)>(sym_name(sy)));
                            else sl[i].sym.emplace(nitro::dl::dl(path_of(file)).load<int(int)>(sym_name(sy)));
                            sl[i].h = h;
                            sl[i].sid = sy;
                        }
                        else
                        {
                            nitro::dl::dl lib = file == 2 ? nitro::dl::dl(nitro::dl::self) : nitro::dl::dl(path_of(file));
                            int h = tok_id(lib.get().get());
                            sl[i].sym.emplace(lib.load<int(int)>(sym_name(sy)));
                            sl[i].h = h;
                            sl[i].sid = sy;
                        }
                        r = "ok";
                    }
                    catch (const nitro::dl::exception& e)
                    {
                        r = on_caught(e, expected, name, quiet);
                    }
                }
            }
            else if (f[0] == "rx")
            {
                std::size_t k = arg(1);
                if (k < caught.size()) r = "diag:" + read_caught(caught[k]);
            }
            else if (f[0] == "lt")
            {
                // load on a temporary COPY of the library object:  nitro::dl::dl(lib).load<T>(name)   (t: scratch slot of the model)
                std::size_t i = arg(1), j = arg(2), t = arg(3);
                int sy = static_cast<int>(arg(4));
                if (valid(i) && valid(j) && valid(t) && i != t && sl[i].empty() && sl[t].empty() && sl[j].lib && sl[j].lib->get() != nullptr)
                {
                    int h = tok_id(sl[j].lib->get().get());
                    std::string expected;
                    if (h >= 0 && toks[h]->closes == 0)
                    {
                        dlerror();
                        (void)__real_dlsym(toks[h]->real, sym_name(sy).c_str());
                        expected = take_dlerror();
                    }
                    try
                    {
                        sl[i].sym.emplace(nitro::dl::dl(*sl[j].lib).load<int(int)>(sym_name(sy)));
                        sl[i].h = h;
                        sl[i].sid = sy;
                        r = "ok";
                    }
                    catch (const nitro::dl::exception& e)
                    {
                        r = on_caught(e, expected, sym_name(sy), false);
                    }
                }
            }
            else if (f[0] == "ld" || f[0] == "lq" || f[0] == "lm" || f[0] == "lg")
            {
                // ld/lq: load on a named lvalue;  lm: on std::move(named) — the library object must stay an owner;
                // lg: the public symbol constructor on the handle handed out by get():  symbol<T>(lib.get(), name)
                const bool quiet = f[0] == "lq";
                const bool xvalue = f[0] == "lm";
                const bool viaget = f[0] == "lg";
                std::size_t i = arg(1), j = arg(2);
                int s = static_cast<int>(arg(3));
                if (valid(i) && valid(j) && sl[i].empty() && sl[j].lib && sl[j].lib->get() != nullptr)
                {
                    int h = tok_id(sl[j].lib->get().get());
                    std::string expected;
                    if (h >= 0 && toks[h]->closes == 0)
                    {
                        dlerror();
                        (void)__real_dlsym(toks[h]->real, sym_name(s).c_str());
                        expected = take_dlerror();
                    }
                    try
                    {
                        if (viaget) sl[i].sym.emplace(Sym(sl[j].lib->get(), sym_name(s)));
                        else if (xvalue) sl[i].sym.emplace(std::move(*sl[j].lib).load<int(int)>(sym_name(s)));
                        else sl[i].sym.emplace(sl[j].lib->load<int(int)>(sym_name(s)));
                        sl[i].h = h;
                        sl[i].sid = s;
                        r = "ok";
                    }
                    catch (const nitro::dl::exception& e)
                    {
                        r = on_caught(e, expected, sym_name(s), quiet);
                    }
                }
            }
            else if (f[0] == "gt")
            {
                std::size_t i = arg(1), j = arg(2);
                if (valid(i) && valid(j) && sl[i].empty() && sl[j].lib) { sl[i].raw.emplace(sl[j].lib->get()); r = "ok"; }
            }
            else if (f[0] == "cp")
            {
                std::size_t i = arg(1), j = arg(2);
                if (valid(i) && valid(j) && sl[i].empty() && !sl[j].empty())
                {
                    if (sl[j].lib) sl[i].lib.emplace(*sl[j].lib);
                    else if (sl[j].sym) { sl[i].sym.emplace(*sl[j].sym); sl[i].h = sl[j].h; sl[i].sid = sl[j].sid; }
                    else sl[i].raw.emplace(*sl[j].raw);
                    r = "ok";
                }
            }
            else if (f[0] == "mv")
            {
                // move construction; the source object stays in its slot, moved from
                std::size_t i = arg(1), j = arg(2);
                if (valid(i) && valid(j) && sl[i].empty() && !sl[j].empty())
                {
                    if (sl[j].lib) sl[i].lib.emplace(std::move(*sl[j].lib));
                    else if (sl[j].sym) { sl[i].sym.emplace(std::move(*sl[j].sym)); sl[i].h = sl[j].h; sl[i].sid = sl[j].sid; sl[j].h = -1; }
                    else sl[i].raw.emplace(std::move(*sl[j].raw));
                    r = "ok";
                }
            }
            else if (f[0] == "as" || f[0] == "ma" || f[0] == "sw")
            {
                // assignment / swap between two EXISTING objects of the same kind (i == j: on itself)
                std::size_t i = arg(1), j = arg(2);
                if (valid(i) && valid(j) && !sl[i].empty() && sl[i].kind() == sl[j].kind())
                {
                    Slot& a = sl[i];
                    Slot& b = sl[j];
                    if (f[0] == "as")
                    {
                        if (a.lib) *a.lib = *b.lib;
                        else if (a.sym) { *a.sym = *b.sym; a.h = b.h; a.sid = b.sid; }
                        else *a.raw = *b.raw;
                    }
                    else if (f[0] == "ma")
                    {
                        if (a.lib) *a.lib = std::move(*b.lib);
                        else if (a.sym) { *a.sym = std::move(*b.sym); if (i != j) { a.h = b.h; a.sid = b.sid; b.h = -1; } }
                        else *a.raw = std::move(*b.raw);
                    }
                    else
                    {
                        using std::swap;
                        if (a.lib) swap(*a.lib, *b.lib);
                        else if (a.sym) { swap(*a.sym, *b.sym); std::swap(a.h, b.h); std::swap(a.sid, b.sid); }
                        else swap(*a.raw, *b.raw);
                    }
                    r = "ok";
                }
            }
            else if (f[0] == "dr")
            {
                std::size_t i = arg(1);
                if (valid(i) && !sl[i].empty()) { sl[i].clear(); r = "ok"; }
            }
            else if (f[0] == "cl")
            {
                std::size_t i = arg(1);
                int x = static_cast<int>(arg(2));
                if (valid(i) && sl[i].sym && sl[i].h >= 0) // a moved-from symbol is never called
                {
                    int h = sl[i].h;
                    // never jump into an unmapped library: that the handle was closed under a live symbol is the finding
                    if (toks[h]->closes > 0) r = "unmapped";
                    else if (sl[i].sid == 4) r = "nullsym"; // defined with the value NULL: exists, owns the library, is not called
                    else r = "call:" + std::to_string((*sl[i].sym)(x));
                }
            }
            else if (f[0] == "st")
            {
                // unrelated code fails a look-up and does not read dlerror(): an error is left pending
                (void)__real_dlsym(RTLD_DEFAULT, "vdl_no_such_symbol_stale");
                r = "ok";
            }
            else return "BADCASE";
            out += r + "|" + state_obs(sl) + ";";
        }
        for (auto& s : sl) s.clear();
        out += "fin|" + state_obs(sl);
    }
    caught.clear();
    if (double_closes) out += ";DOUBLE-CLOSE";
    return out;
}

std::string run_case(const std::vector<std::string>& w)
{
    if (w.size() >= 3 && w[0] == "d")
    {
        std::string o = "D " + run(std::stoi(w[1]), w[2]);
        if (w.size() == 4 && w[3] == "lsan" && __lsan_do_recoverable_leak_check()) o += ";LEAK";
        return o;
    }
    return "BADCASE";
}
} // namespace
int main(int argc, char** argv) { return vh::driver_main(argc, argv, run_case); }

// harness/fmt_driver.cpp — implementation side of the format cluster (C08): nitro::format (operator%, args(...),
// str(), conversion to std::string, operator<<) and nitro::except::raise / exception::what().
//   fmt <format-hex> <op>*      op  = p:<arg> | a:<arg>,<arg>,... | a:.
//   exc <arg>+                  arg = s<hex> | s- | i<decimal> | d<decimal>
#include "common.hpp"
#include <nitro/except/raise.hpp>
#include <nitro/format/format.hpp>

#include <cerrno>
#include <utility>

namespace
{
// an argument of one of the three exercised types; streaming a Val streams the underlying value with
// the standard operator<< (used where the number of arguments of a variadic call is chosen at run time)
struct Val
{
    char kind = 's';
    std::string s;
    long l = 0;
    double d = 0;
};
std::ostream& operator<<(std::ostream& o, const Val& v)
{
    switch (v.kind)
    {
    case 's': return o << v.s;
    case 'i': return o << v.l;
    default: return o << v.d;
    }
}
bool parse_arg(const std::string& w, Val& v)
{
    if (w.empty()) return false;
    v.kind = w[0];
    if (w[0] == 's') { v.s = vh::unhex(w.substr(1)); return true; }
    if (w[0] == 'i' || w[0] == 'd')
    {
        char* end = nullptr;
        errno = 0;
        long x = std::strtol(w.c_str() + 1, &end, 10);
        if (errno || end == w.c_str() + 1 || *end) return false;
        v.l = x;
        v.d = static_cast<double>(x);
        return true;
    }
    return false;
}
bool all_strings(const std::vector<Val>& v)
{
    for (auto& x : v) if (x.kind != 's') return false;
    return true;
}

using F = nitro::detail::formatter<char>;
constexpr std::size_t MAXN = 8;

template <std::size_t... I>
void call_args_val(F& f, const std::vector<Val>& v, std::index_sequence<I...>) { f.args(v[I]...); }
template <std::size_t... I>
void call_args_str(F& f, const std::vector<Val>& v, std::index_sequence<I...>) { f.args(v[I].s...); }
template <std::size_t N>
bool dispatch_args(F& f, const std::vector<Val>& v)
{
    if (v.size() == N)
    {
        if (all_strings(v)) call_args_str(f, v, std::make_index_sequence<N>{});
        else call_args_val(f, v, std::make_index_sequence<N>{});
        return true;
    }
    if constexpr (N > 0) return dispatch_args<N - 1>(f, v);
    else return false;
}

template <std::size_t... I>
[[noreturn]] void raise_val(const std::vector<Val>& v, std::index_sequence<I...>) { nitro::except::raise(v[I]...); }
template <std::size_t... I>
[[noreturn]] void raise_str(const std::vector<Val>& v, std::index_sequence<I...>) { nitro::raise(v[I].s...); }
template <std::size_t... I>
std::string construct_val(const std::vector<Val>& v, std::index_sequence<I...>) { return nitro::except::exception(v[I]...).what(); }
template <std::size_t N>
std::string dispatch_exc(const std::vector<Val>& v)
{
    if (v.size() == N)
    {
        std::string thrown, constructed;
        try
        {
            if (all_strings(v)) raise_str(v, std::make_index_sequence<N>{});
            else raise_val(v, std::make_index_sequence<N>{});
        }
        catch (const nitro::except::exception& e) { thrown = e.what(); }
        constructed = construct_val(v, std::make_index_sequence<N>{});
        if (thrown != constructed) return "W-DIFFER " + vh::hex(thrown) + " " + vh::hex(constructed);
        return "W " + vh::hex(thrown);
    }
    if constexpr (N > 1) return dispatch_exc<N - 1>(v);
    else return "BADCASE";
}

template <typename Fn>
std::string observe(Fn&& fn)
{
    try { return "S " + vh::hex(fn()); }
    catch (const nitro::except::exception&) { return "RAISE"; }
}
} // namespace

struct Op
{
    char kind; // 'p' or 'a'
    std::vector<Val> vals;
};
bool no_nul(const std::string& s) { return s.find('\0') == std::string::npos; }
// the chain of calls of one case; with cstr = true string arguments of % are passed as const char*
bool apply_ops(F& f, const std::vector<Op>& ops, bool cstr)
{
    for (auto& o : ops)
    {
        if (o.kind == 'p')
        {
            const Val& v = o.vals[0];
            switch (v.kind)
            {
            case 's':
                if (cstr && no_nul(v.s)) f % v.s.c_str();
                else f % v.s;
                break;
            case 'i': f % v.l; break;
            default: f % v.d; break;
            }
        }
        else if (!dispatch_args<MAXN>(f, o.vals))
            return false;
    }
    return true;
}

static std::string run_case(const std::vector<std::string>& w)
{
    if (w.size() >= 2 && w[0] == "fmt")
    {
        std::vector<Op> ops;
        for (std::size_t k = 2; k < w.size(); k++)
        {
            const std::string& o = w[k];
            if (o.size() < 3 || o[1] != ':' || (o[0] != 'p' && o[0] != 'a')) return "BADCASE";
            Op op{ o[0], {} };
            if (o.substr(2) != ".")
                for (auto& e : vh::split_on(o.substr(2), ','))
                {
                    Val v;
                    if (!parse_arg(e, v)) return "BADCASE";
                    op.vals.push_back(v);
                }
            if (op.kind == 'p' && op.vals.size() != 1) return "BADCASE";
            ops.push_back(op);
        }
        const std::string fmt = vh::unhex(w[1]);
        F f = nitro::format(fmt);
        if (!apply_ops(f, ops, false)) return "BADCASE";
        const F& cf = f;
        std::string a = observe([&] { return cf.str(); });
        std::string b = observe([&] { std::string s = cf; return s; });
        std::string c = observe([&] { std::ostringstream os; os << cf; return os.str(); });
        std::string d = a;
        if (no_nul(fmt))
        {
            // the const Char* overload of nitro::format, const char* arguments, used as a temporary chain end
            F g = nitro::format(fmt.c_str());
            if (!apply_ops(g, ops, true)) return "BADCASE";
            d = observe([&] { return g.str(); });
        }
        if (a != b || a != c || a != d) return "ROUTES-DIFFER str=" + a + " conv=" + b + " os=" + c + " cstr=" + d;
        return a;
    }
    if (w.size() >= 2 && w[0] == "exc")
    {
        std::vector<Val> vs;
        for (std::size_t k = 1; k < w.size(); k++)
        {
            Val v;
            if (!parse_arg(w[k], v)) return "BADCASE";
            vs.push_back(v);
        }
        return dispatch_exc<MAXN>(vs);
    }
    return "BADCASE";
}
int main(int argc, char** argv) { return vh::driver_main(argc, argv, run_case); }

// harness/fmt_driver.cpp — implementation side of the format cluster (C08): nitro::format (operator%, args(...),
// str(), conversion to std::string, operator<<) and nitro::except::raise / exception::what().
//   fmt <format-hex> <op>*      op  = p:<arg> | a:<arg>,<arg>,... | a:. | q:.
//   lit <format-hex> <op>*      through the "..."_nf literal          excf <format-hex> <op>*   raise("pre:", formatter, "!")
//   os <width> <fill-hex> <l|r|i> <format-hex> <op>*         operator<< into a stream with pending width/fill/adjustment
//   rel <scenario> <format-hex> <other-format-hex> <op>* / <op>*     copy / move / relocation of the formatter object between the two groups
//   seq <format-hex> <op>* / <format-hex> <op>* / ...        several formatters, one after the other
//   exc <arg>+
//   arg = s<hex> | s- | n<hex> | r<hex> | l<hex> | c<hex byte> | i<dec> | d<dec> | b0 b1 | f<dec> | h<dec> | x<dec> | w<dec> | t0 t1 | m<manipulator>
//       | v<k><hex>  k = t p k e v a o : a type with an operator<< and (optionally) a DIFFERENT conversion to a string type   (see ocaml/fmt_driver.ml)
#include "common.hpp"
#include "fmt_dual.hpp" // revision 1 — the build cache is keyed by the .cpp files and common.hpp: bump this number when editing fmt_dual.hpp
#include <nitro/except/raise.hpp>
#include <nitro/format/format.hpp>

#include <cerrno>
#include <cstring>
#include <filesystem>
#include <iomanip>
#include <string_view>
#include <map>
#include <utility>

using namespace fmtv; // Val, the streamable-and-convertible argument types, derived_error, the real-type packs
namespace
{
// user-defined types whose operator<< changes the formatting state of the stream and does not restore it
struct Hexer { unsigned long v; };
struct Fixer { double v; };
struct Padder { long v; };
struct BoolAlpher { bool v; };
std::ostream& operator<<(std::ostream& o, const Hexer& x) { return o << std::hex << x.v; }
std::ostream& operator<<(std::ostream& o, const Fixer& x) { return o << std::fixed << std::setprecision(2) << x.v; }
std::ostream& operator<<(std::ostream& o, const Padder& x) { return o << std::setfill('*') << std::left << std::setw(6) << x.v; }
std::ostream& operator<<(std::ostream& o, const BoolAlpher& x) { return o << std::boolalpha << x.v; }

// an argument of one of the exercised kinds; with_value(v, fn) calls fn with the value in its real C++ type
// (std::string, long, double, bool, the user types above, a manipulator); streaming a Val streams that value
// with its own operator<< (used where the number of arguments of a variadic call is chosen at run time)
// the caller's std::string variables of the current case (kind 'n'): one variable per distinct text, alive for the
// whole case, passed as NON-CONST lvalues; after the case every variable must still hold its text
std::map<std::string, std::string> g_vars;

// (struct Val: fmt_dual.hpp)
template <typename Fn>
void with_value(const Val& v, Fn&& fn)
{
    switch (v.kind)
    {
    case 'v': with_dual(v, std::forward<Fn>(fn)); break;
    case 's': fn(v.s); break;                 // const std::string&
    case 'n': fn(*v.var); break;              // std::string& (non-const lvalue, the caller's variable)
    case 'r': fn(std::string(v.s)); break;    // std::string&& (temporary)
    case 'l': fn(v.s.c_str()); break;         // const char*
    case 'c': fn(v.s[0]); break;              // char
    case 'i': fn(v.l); break;
    case 'd': fn(v.d); break;
    case 'b': fn(v.l != 0); break;
    case 'f': fn(v.d); break;
    case 'h': fn(Hexer{ static_cast<unsigned long>(v.l) }); break;
    case 'x': fn(Fixer{ v.d }); break;
    case 'w': fn(Padder{ v.l }); break;
    case 't': fn(BoolAlpher{ v.l != 0 }); break;
    default: // 'm'
        if (v.s == "hex") fn(std::hex);
        else if (v.s == "boolalpha") fn(std::boolalpha);
        else if (v.s == "showbase") fn(std::showbase);
        else if (v.s == "showpos") fn(std::showpos);
        else if (v.s == "uppercase") fn(std::uppercase);
        else if (v.s == "fixed") fn(std::fixed);
        else if (v.s == "left") fn(std::left);
        else if (v.s == "setprecision") fn(std::setprecision(static_cast<int>(v.l)));
        else if (v.s == "setw") fn(std::setw(static_cast<int>(v.l)));
        else fn(std::setfill(static_cast<char>(v.l)));
        break;
    }
}
} // namespace
std::ostream& fmtv::operator<<(std::ostream& o, const Val& v)
{
    with_value(v, [&](auto&& x) { o << std::forward<decltype(x)>(x); });
    return o;
}
namespace
{
bool parse_long(const std::string& w, long& out)
{
    char* end = nullptr;
    errno = 0;
    long x = std::strtol(w.c_str(), &end, 10);
    if (w.empty() || errno || end == w.c_str() || *end) return false;
    out = x;
    return true;
}
bool parse_arg0(const std::string& w, Val& v)
{
    if (w.empty()) return false;
    v.kind = w[0];
    const std::string r = w.substr(1);
    switch (w[0])
    {
    case 's': case 'r': v.s = vh::unhex(r); return true;
    case 'n':
        v.s = vh::unhex(r);
        v.var = &g_vars.emplace(v.s, v.s).first->second;
        return true;
    case 'l': v.s = vh::unhex(r); return v.s.find('\0') == std::string::npos;
    case 'v':
        if (r.size() < 2 || std::strchr("tpkevao", r[0]) == nullptr) return false;
        v.sub = r[0];
        v.s = vh::unhex(r.substr(1));
        return v.s.find('\0') == std::string::npos && (v.sub != 'a' || v.s.size() <= 15);
    case 'c': v.s = vh::unhex(r); return v.s.size() == 1;
    case 'i': case 'd': case 'h': case 'x': case 'w':
        if (!parse_long(r, v.l)) return false;
        v.d = static_cast<double>(v.l);
        return true;
    case 'f':
        if (!parse_long(r, v.l)) return false;
        v.d = static_cast<double>(v.l) + 0.5;
        return true;
    case 'b': case 't':
        if (r != "0" && r != "1") return false;
        v.l = r == "1";
        return true;
    case 'm':
        for (const char* n : { "hex", "boolalpha", "showbase", "showpos", "uppercase", "fixed", "left" })
            if (r == n) { v.s = n; return true; }
        for (const char* n : { "setprecision", "setw" })
            if (r.compare(0, std::strlen(n), n) == 0 && r.size() > std::strlen(n))
            {
                v.s = n;
                return parse_long(r.substr(std::strlen(n)), v.l) && v.l >= 0;
            }
        if (r.compare(0, 7, "setfill") == 0 && r.size() == 9)
        {
            v.s = "setfill";
            v.l = static_cast<unsigned char>(vh::unhex(r.substr(7))[0]);
            return true;
        }
        return false;
    default: return false;
    }
}
bool stateless(const Val& v) { return v.kind == 'v' || v.kind == 's' || v.kind == 'n' || v.kind == 'r' || v.kind == 'l' || v.kind == 'c' || v.kind == 'i' || v.kind == 'd' || v.kind == 'b' || v.kind == 'f'; }
// loc cases (global locale with digit grouping): only the state-neutral kinds are in scope there
bool g_loc_mode = false;
bool parse_arg(const std::string& w, Val& v) { return parse_arg0(w, v) && (!g_loc_mode || stateless(v)); }
bool all_kind(const std::vector<Val>& v, char k)
{
    for (auto& x : v) if (x.kind != k) return false;
    return true;
}
bool all_strings(const std::vector<Val>& v) { return all_kind(v, 's'); }

using F = nitro::detail::formatter<char>;
constexpr std::size_t MAXN = 8;


template <std::size_t... I>
void call_args_val(F& f, const std::vector<Val>& v, std::index_sequence<I...>) { f.args(v[I]...); }
template <std::size_t... I>
void call_args_str(F& f, const std::vector<Val>& v, std::index_sequence<I...>) { f.args(v[I].s...); }
// args(...) with the caller's variables as non-const lvalues / with temporaries
template <std::size_t... I>
void call_args_var(F& f, const std::vector<Val>& v, std::index_sequence<I...>) { f.args(*v[I].var...); }
template <std::size_t... I>
void call_args_tmp(F& f, const std::vector<Val>& v, std::index_sequence<I...>) { f.args(std::string(v[I].s)...); }
template <std::size_t N>
bool dispatch_args(F& f, const std::vector<Val>& v)
{
    if (v.size() == N)
    {
        if (all_strings(v)) call_args_str(f, v, std::make_index_sequence<N>{});
        else if (N > 0 && N <= 3 && has_dual(v) && args_real_pack(f, v)) {}
        else if (N > 0 && all_kind(v, 'n')) call_args_var(f, v, std::make_index_sequence<N>{});
        else if (N > 0 && all_kind(v, 'r')) call_args_tmp(f, v, std::make_index_sequence<N>{});
        else call_args_val(f, v, std::make_index_sequence<N>{});
        return true;
    }
    if constexpr (N > 0) return dispatch_args<N - 1>(f, v);
    else return false;
}

template <std::size_t... I>
[[noreturn]] void raise_val(const std::vector<Val>& v, std::index_sequence<I...>) { nitro::except::raise(v[I]...); }
template <std::size_t... I>
[[noreturn]] void raise_str(const std::vector<Val>& v, std::index_sequence<I...>) { nitro::raise(v[I].s...); }
template <std::size_t... I>
std::string construct_val(const std::vector<Val>& v, std::index_sequence<I...>) { return nitro::except::exception(v[I]...).what(); }
template <std::size_t... I>
[[noreturn]] void raise_var(const std::vector<Val>& v, std::index_sequence<I...>) { nitro::raise(*v[I].var...); }
template <std::size_t... I>
[[noreturn]] void raise_tmp(const std::vector<Val>& v, std::index_sequence<I...>) { nitro::raise(std::string(v[I].s)...); }
template <std::size_t... I>
[[noreturn]] void raise_derived(const std::vector<Val>& v, std::index_sequence<I...>) { nitro::raise<derived_error>(v[I]...); }
template <std::size_t N>
void raise_any(const std::vector<Val>& v)
{
    if (all_strings(v)) raise_str(v, std::make_index_sequence<N>{});
    else if (all_kind(v, 'n')) raise_var(v, std::make_index_sequence<N>{});
    else if (all_kind(v, 'r')) raise_tmp(v, std::make_index_sequence<N>{});
    else raise_val(v, std::make_index_sequence<N>{});
}
template <std::size_t N>
std::string dispatch_exc(const std::vector<Val>& v)
{
    if (v.size() == N)
    {
        // thrown by raise(...) and caught as the library type; the same caught through the std::exception base; a copy of the
        // caught exception; raised again from inside the handler; raise<derived_error>(...); constructed directly
        std::string thrown, base, copied, nested, after_nested, derived, constructed;
        try { raise_any<N>(v); }
        catch (const nitro::except::exception& e)
        {
            thrown = e.what();
            nitro::except::exception c(e);
            copied = c.what();
            try { raise_any<N>(v); }
            catch (const std::runtime_error& inner) { nested = inner.what(); }
            after_nested = e.what();
        }
        try { raise_any<N>(v); }
        catch (const std::exception& e) { base = e.what(); }
        try { raise_derived(v, std::make_index_sequence<N>{}); }
        catch (const derived_error& e) { derived = e.what(); }
        constructed = construct_val(v, std::make_index_sequence<N>{});
        for (const std::string* o : { &base, &copied, &nested, &after_nested, &derived, &constructed })
            if (*o != thrown)
                return "W-DIFFER raise=" + vh::hex(thrown) + " base=" + vh::hex(base) + " copy=" + vh::hex(copied) + " nested=" + vh::hex(nested)
                       + " after=" + vh::hex(after_nested) + " derived=" + vh::hex(derived) + " constructed=" + vh::hex(constructed);
        return "W " + vh::hex(thrown);
    }
    if constexpr (N > 1) return dispatch_exc<N - 1>(v);
    else return "BADCASE";
}

template <typename Fn>
std::string observe(Fn&& fn)
{
    try { return "S " + vh::hex(fn()); }
    catch (const nitro::except::exception&) { return "RAISE"; }
}
} // namespace

struct Op
{
    char kind; // 'p', 'a' or 'q' (query the text, ignore it)
    std::vector<Val> vals;
};
bool no_nul(const std::string& s) { return s.find('\0') == std::string::npos; }
// the chain of calls of one case; with cstr = true string arguments of % are passed as const char*
bool apply_ops(F& f, const std::vector<Op>& ops, bool cstr)
{
    for (auto& o : ops)
    {
        if (o.kind == 'q')
        {
            // ask for the text now, by one of the three routes, and ignore the answer or the exception
            static unsigned turn = 0;
            try
            {
                switch (turn++ % 3)
                {
                case 0: (void)f.str(); break;
                case 1: { std::string s = f; (void)s; break; }
                default: { std::ostringstream os; os << f; break; }
                }
            }
            catch (const nitro::except::exception&) {}
        }
        else if (o.kind == 'p')
        {
            const Val& v = o.vals[0];
            if (v.kind == 's' && cstr && no_nul(v.s)) f % v.s.c_str();
            else with_value(v, [&](auto&& x) { f % std::forward<decltype(x)>(x); });
        }
        else if (!dispatch_args<MAXN>(f, o.vals))
            return false;
    }
    return true;
}

bool parse_ops(const std::vector<std::string>& w, std::size_t from, std::size_t to, std::vector<Op>& ops)
{
    for (std::size_t k = from; k < to; k++)
    {
        const std::string& o = w[k];
        if (o.size() < 3 || o[1] != ':' || (o[0] != 'p' && o[0] != 'a' && o[0] != 'q')) return false;
        if (o[0] == 'q' && o != "q:.") return false;
        Op op{ o[0], {} };
        if (o.substr(2) != ".")
            for (auto& e : vh::split_on(o.substr(2), ','))
            {
                Val v;
                if (!parse_arg(e, v)) return false;
                op.vals.push_back(v);
            }
        if (op.kind == 'p' && op.vals.size() != 1) return false;
        ops.push_back(op);
    }
    return true;
}

// Every case line must be judged on its own (shrinking and replay run single lines).  Should a tree keep
// formatting state somewhere between uses of the formatter on one thread, this chain — a no-op on a tree that
// renders every argument on a fresh stream — puts that state back to the defaults through the public interface,
// so that what a case observes is caused by the case itself.  State carried from one formatter to the next is
// looked for INSIDE a case (sticky argument followed by a sensitive one; "seq" cases).
void settle()
{
    F r = nitro::format("");
    r % std::dec % std::noboolalpha % std::noshowbase % std::noshowpos % std::nouppercase % std::defaultfloat % std::right
        % std::setprecision(6) % std::setfill(' ') % std::setw(0);
}

// ---- the whole chain as ONE expression ----
// f.args(a) % b ... : every call is applied to what the previous call RETURNED (the header declares self& for
// operator%, args(x, ...) and args()), recursively, so that whatever a call returns stays alive until the end of
// the chain exactly as in a single expression statement.  out.same: every intermediate result is the object the
// chain started on (only checked when `named` is given); out.value: str() of the value of the whole chain.
struct ChainOut
{
    std::string value;
    bool same = true;
    bool bad = false;
};
template <std::size_t... I, typename Fm, typename K>
void args_str_k(Fm&& f, const std::vector<Val>& v, K& k, std::index_sequence<I...>) { k(std::forward<Fm>(f).args(v[I].s...)); }
template <std::size_t... I, typename Fm, typename K>
void args_var_k(Fm&& f, const std::vector<Val>& v, K& k, std::index_sequence<I...>) { k(std::forward<Fm>(f).args(*v[I].var...)); }
template <std::size_t... I, typename Fm, typename K>
void args_tmp_k(Fm&& f, const std::vector<Val>& v, K& k, std::index_sequence<I...>) { k(std::forward<Fm>(f).args(std::string(v[I].s)...)); }
template <std::size_t... I, typename Fm, typename K>
void args_val_k(Fm&& f, const std::vector<Val>& v, K& k, std::index_sequence<I...>) { k(std::forward<Fm>(f).args(v[I]...)); }
template <std::size_t N, typename Fm, typename K>
bool dispatch_args_k(Fm&& f, const std::vector<Val>& v, K& k)
{
    if (v.size() == N)
    {
        if (all_strings(v)) args_str_k(std::forward<Fm>(f), v, k, std::make_index_sequence<N>{});
        else if (N > 0 && all_kind(v, 'n')) args_var_k(std::forward<Fm>(f), v, k, std::make_index_sequence<N>{});
        else if (N > 0 && all_kind(v, 'r')) args_tmp_k(std::forward<Fm>(f), v, k, std::make_index_sequence<N>{});
        else args_val_k(std::forward<Fm>(f), v, k, std::make_index_sequence<N>{});
        return true;
    }
    if constexpr (N > 0) return dispatch_args_k<N - 1>(std::forward<Fm>(f), v, k);
    else return false;
}
template <typename Fm>
void chain(Fm&& cur, const std::vector<Op>& ops, std::size_t idx, const F* named, bool cstr, ChainOut& out)
{
    if (named && &cur != named) out.same = false;
    if (idx == ops.size())
    {
        out.value = observe([&] { return cur.str(); });
        return;
    }
    const Op& o = ops[idx];
    auto next = [&](auto&& r) { chain(std::forward<decltype(r)>(r), ops, idx + 1, named, cstr, out); };
    if (o.kind == 'q')
    {
        try { (void)cur.str(); }
        catch (const nitro::except::exception&) {}
        next(cur);
    }
    else if (o.kind == 'p')
    {
        const Val& v = o.vals[0];
        if (v.kind == 's' && cstr && no_nul(v.s)) next(std::forward<Fm>(cur) % v.s.c_str());
        else with_value(v, [&](auto&& x) { next(std::forward<Fm>(cur) % std::forward<decltype(x)>(x)); });
    }
    else if (!dispatch_args_k<MAXN>(std::forward<Fm>(cur), o.vals, next))
        out.bad = true;
}

// ---- relocation of the formatter OBJECT (rel cases) ----
std::string short_obs(const F& f)
{
    std::string r = observe([&] { return f.str(); });
    return r == "RAISE" ? std::string("R") : r.substr(2);
}
// returned by value from a function that chooses between two locals (no copy elision possible: the result is
// move-constructed, both locals are destroyed)
F pick(bool first, const std::string& a, const std::string& b, const std::vector<Op>& pre, bool& ok)
{
    F x = nitro::format(a);
    F y = nitro::format(b);
    ok = apply_ops(x, pre, false);
    y % std::string("old");
    if (first) return x;
    return y;
}
// scn: which relocation; fmt with the arguments `pre` is the source, `post` goes to the target afterwards.
// Observation "M <target> <source or _>".
std::string run_rel(const std::string& scn, const std::string& fmt, const std::string& other, const std::vector<Op>& pre,
                    const std::vector<Op>& post)
{
    std::string src = "_";
    auto finish = [&](F& g) -> std::string {
        if (!apply_ops(g, post, false)) return "BADCASE";
        return "M " + short_obs(g) + " " + src;
    };
    if (scn == "mc" || scn == "mcr")
    {
        F f = nitro::format(fmt);
        if (!apply_ops(f, pre, false)) return "BADCASE";
        F g(std::move(f));
        if (scn == "mcr") { f = nitro::format(other); f % std::string("old"); } // the moved-from source is reused
        return finish(g);
    }
    if (scn == "mcd" || scn == "ccd")
    {
        F* pf = new F(nitro::format(fmt));
        if (!apply_ops(*pf, pre, false)) { delete pf; return "BADCASE"; }
        F g = scn == "mcd" ? F(std::move(*pf)) : F(*pf);
        delete pf; // the source is gone before the target is used
        return finish(g);
    }
    if (scn == "ma")
    {
        F f = nitro::format(fmt);
        if (!apply_ops(f, pre, false)) return "BADCASE";
        F g = nitro::format(other);
        g % std::string("old");
        g = std::move(f);
        f = nitro::format(other);
        return finish(g);
    }
    if (scn == "mad" || scn == "cad")
    {
        F* pf = new F(nitro::format(fmt));
        if (!apply_ops(*pf, pre, false)) { delete pf; return "BADCASE"; }
        F g = nitro::format(other);
        g % std::string("old");
        if (scn == "mad") g = std::move(*pf);
        else g = *pf;
        delete pf;
        return finish(g);
    }
    if (scn == "cc" || scn == "ca")
    {
        F f = nitro::format(fmt);
        if (!apply_ops(f, pre, false)) return "BADCASE";
        F g = scn == "cc" ? F(f) : nitro::format(other);
        if (scn == "ca") { g % std::string("old"); g = f; }
        if (!apply_ops(g, post, false)) return "BADCASE";
        src = short_obs(f); // the source keeps its own value, arguments given to the copy do not reach it
        return "M " + short_obs(g) + " " + src;
    }
    if (scn == "vec")
    {
        std::vector<F> v;
        v.push_back(nitro::format(fmt)); // a temporary moved into the vector
        if (!apply_ops(v.back(), pre, false)) return "BADCASE";
        for (int i = 0; i < 9; i++) v.push_back(nitro::format(other)); // growth: the elements are relocated
        v.erase(v.begin() + 1);
        return finish(v.front());
    }
    if (scn == "ret")
    {
        bool ok = true;
        F g = pick(true, fmt, other, pre, ok);
        if (!ok) return "BADCASE";
        return finish(g);
    }
    if (scn == "sw")
    {
        F f = nitro::format(fmt);
        if (!apply_ops(f, pre, false)) return "BADCASE";
        F g = nitro::format(other);
        g % std::string("old");
        std::swap(f, g); // move construction and two move assignments
        if (!apply_ops(g, post, false)) return "BADCASE";
        src = short_obs(f);
        return "M " + short_obs(g) + " " + src;
    }
    return "BADCASE";
}

// ---- the program's global locale (loc cases) ----
// a locale that differs from the classic one only in how numbers are punctuated
struct grouping_punct : std::numpunct<char>
{
    char do_thousands_sep() const override { return ','; }
    char do_decimal_point() const override { return ';'; }
    std::string do_grouping() const override { return "\3"; }
};
struct global_locale_guard
{
    std::locale old;
    global_locale_guard() : old(std::locale::global(std::locale(std::locale::classic(), new grouping_punct))) {}
    ~global_locale_guard() { std::locale::global(old); }
};

static std::string run_case_inner(const std::vector<std::string>& w);
static std::string run_case(const std::vector<std::string>& w0)
{
    g_vars.clear();
    std::string out;
    if (!w0.empty() && w0[0] == "loc")
    {
        // every stream the library creates from here on carries the grouping locale; restored when the case ends
        const std::vector<std::string> w(w0.begin() + 1, w0.end());
        global_locale_guard guard;
        g_loc_mode = true;
        try { out = run_case_inner(w); }
        catch (...) { g_loc_mode = false; throw; }
        g_loc_mode = false;
    }
    else
        out = run_case_inner(w0);
    // arguments are values: formatting must not modify the caller's variables
    for (auto& kv : g_vars)
        if (kv.first != kv.second) out += " CALLER-VARIABLE-MODIFIED(" + vh::hex(kv.first) + "->" + vh::hex(kv.second) + ")";
    g_vars.clear();
    return out;
}
static std::string run_case_inner(const std::vector<std::string>& w)
{
    settle();
    if (w.size() >= 2 && w[0] == "fmt")
    {
        std::vector<Op> ops;
        if (!parse_ops(w, 2, w.size(), ops)) return "BADCASE";
        const std::string fmt = vh::unhex(w[1]);
        F f = nitro::format(fmt);
        if (!apply_ops(f, ops, false)) return "BADCASE";
        const F& cf = f;
        std::string a = observe([&] { return cf.str(); });
        std::string b = observe([&] { std::string s = cf; return s; });
        // operator<< into a stream that already has content, followed by a sentinel: the WHOLE content is compared;
        // after a raise nothing of the formatter may be in the stream
        std::string c;
        {
            std::ostringstream os;
            os << "pre:";
            bool raised = false;
            try { os << cf; }
            catch (const nitro::except::exception&) { raised = true; }
            os << "!";
            const std::string all = os.str();
            if (raised) c = all == "pre:!" ? "RAISE" : "RAISE-AFTER-OUTPUT(" + vh::hex(all) + ")";
            else if (all.size() >= 5 && all.compare(0, 4, "pre:") == 0 && all.back() == '!') c = "S " + vh::hex(all.substr(4, all.size() - 5));
            else c = "STREAM(" + vh::hex(all) + ")";
        }
        std::string d = a;
        if (no_nul(fmt))
        {
            // the const Char* overload of nitro::format, const char* arguments: the chain on a TEMPORARY, observed
            // through the value of the chain expression
            settle();
            ChainOut t;
            chain(nitro::format(fmt.c_str()), ops, 0, nullptr, true, t);
            if (t.bad) return "BADCASE";
            d = t.value;
        }
        // the chain as one expression statement on a NAMED formatter, which is read afterwards through its name;
        // every call of the chain must have returned that very object
        std::string e, ev;
        {
            settle();
            F h(fmt); // the constructor itself, not nitro::format
            ChainOut n;
            chain(h, ops, 0, &h, false, n);
            if (n.bad) return "BADCASE";
            e = observe([&] { return h.str(); });
            ev = n.same ? n.value : "NOT-THE-SAME-OBJECT " + n.value;
        }
        if (a != e || a != ev) return "CHAIN-DIFFER statements=" + a + " named=" + e + " value=" + ev;
        // the value category of the formatter at the point of observation: std::move(named) (copies of f, so that f stays
        // intact), and — when the case supplies no argument at all — a temporary read directly, without any chain
        {
            F m1 = f, m2 = f, m3 = f;
            std::string r1 = observe([&] { return std::move(m1).str(); });
            std::string r2 = observe([&] { std::string s = std::move(m2); return s; });
            std::string r3 = observe([&] { std::ostringstream os; os << std::move(m3); return os.str(); });
            std::string t1 = a, t2 = a;
            bool none = true;
            for (auto& o : ops) if (!o.vals.empty()) none = false;
            if (none)
            {
                t1 = observe([&] { return nitro::format(fmt).str(); });
                t2 = observe([&] { std::string s = nitro::format(fmt); return s; });
            }
            if (a != r1 || a != r2 || a != r3 || a != t1 || a != t2)
                return "RVALUE-DIFFER lvalue=" + a + " moved.str=" + r1 + " moved.conv=" + r2 + " moved.os=" + r3 + " temp.str=" + t1 + " temp.conv=" + t2;
        }
        if (a != b || a != c || a != d) return "ROUTES-DIFFER str=" + a + " conv=" + b + " os=" + c + " cstr=" + d;
        return a;
    }
    if (w.size() >= 2 && w[0] == "lit")
    {
        // the user-defined literal "..."_nf: a fixed table (a literal is compile-time text); the case names the entry by its text
#define NF(x) { std::string(x), x##_nf }
        static const std::vector<std::pair<std::string, F>> table = {
            NF(""), NF("{}"), NF("a"), NF("a{}b"), NF("{}{}"), NF("{{}}"), NF("}{"), NF("id={} n={}"), NF("0123456789abcdef{}"),
            NF("{} and {} and {}"), NF("%s {} $& \\{\\}"), NF("line\n{}\ttab"), NF("\xe4{}\xff")
        };
#undef NF
        const std::string fmt = vh::unhex(w[1]);
        std::vector<Op> ops;
        if (!parse_ops(w, 2, w.size(), ops)) return "BADCASE";
        for (auto& e : table)
            if (e.first == fmt)
            {
                F f = e.second;
                if (!apply_ops(f, ops, false)) return "BADCASE";
                return observe([&] { return f.str(); });
            }
        return "BADCASE";
    }
    if (w.size() >= 2 && w[0] == "excf")
    {
        // a formatter as an argument of an exception: raise("pre:", f, "!")
        std::vector<Op> ops;
        if (!parse_ops(w, 2, w.size(), ops)) return "BADCASE";
        F f = nitro::format(vh::unhex(w[1]));
        if (!apply_ops(f, ops, false)) return "BADCASE";
        std::string what, what_moved;
        try { nitro::raise("pre:", f, "!"); }
        catch (const nitro::except::exception& e) { what = e.what(); }
        {
            F m = f;
            try { nitro::raise("pre:", std::move(m), "!"); } // the formatter as an rvalue argument
            catch (const nitro::except::exception& e) { what_moved = e.what(); }
        }
        const bool arity = !(what.size() >= 5 && what.compare(0, 4, "pre:") == 0 && what.back() == '!');
        const bool arity_moved = !(what_moved.size() >= 5 && what_moved.compare(0, 4, "pre:") == 0 && what_moved.back() == '!');
        if (arity != arity_moved || (!arity && what != what_moved)) return "W-RVALUE-DIFFER " + vh::hex(what) + " " + vh::hex(what_moved);
        if (what.size() >= 5 && what.compare(0, 4, "pre:") == 0 && what.back() == '!') return "W " + vh::hex(what);
        return "W-ARITY";
    }
    if (w.size() >= 5 && w[0] == "os")
    {
        long width = 0;
        if (!parse_long(w[1], width) || width < 0 || w[2].size() != 2 || (w[3] != "l" && w[3] != "r" && w[3] != "i")) return "BADCASE";
        std::vector<Op> ops;
        if (!parse_ops(w, 5, w.size(), ops)) return "BADCASE";
        F f = nitro::format(vh::unhex(w[4]));
        if (!apply_ops(f, ops, false)) return "BADCASE";
        const F& cf = f;
        std::ostringstream os;
        os << "pre:";
        // the caller's pending formatting state
        os << std::setfill(vh::unhex(w[2])[0]) << (w[3] == "l" ? std::left : w[3] == "r" ? std::right : std::internal)
           << std::setw(static_cast<int>(width));
        bool raised = false;
        try { os << cf; }
        catch (const nitro::except::exception&) { raised = true; }
        os << std::string("!");
        return "O " + vh::hex(os.str()) + (raised ? " R" : " K");
    }
    if (w.size() >= 5 && w[0] == "rel")
    {
        std::size_t sep = 4;
        while (sep < w.size() && w[sep] != "/") sep++;
        if (sep == w.size()) return "BADCASE";
        for (std::size_t k = sep + 1; k < w.size(); k++) if (w[k] == "/") return "BADCASE";
        std::vector<Op> pre, post;
        if (!parse_ops(w, 4, sep, pre) || !parse_ops(w, sep + 1, w.size(), post)) return "BADCASE";
        return run_rel(w[1], vh::unhex(w[2]), vh::unhex(w[3]), pre, post);
    }
    if (w.size() >= 2 && w[0] == "seq")
    {
        // several formatters one after the other on this thread; "/" separates them
        std::string out = "Q";
        std::size_t k = 1;
        while (k <= w.size())
        {
            std::size_t e = k;
            while (e < w.size() && w[e] != "/") e++;
            if (e == k) return "BADCASE";
            std::vector<Op> ops;
            if (!parse_ops(w, k + 1, e, ops)) return "BADCASE";
            F f = nitro::format(vh::unhex(w[k]));
            if (!apply_ops(f, ops, false)) return "BADCASE";
            std::string r = observe([&] { return f.str(); });
            out += " " + (r == "RAISE" ? std::string("R") : r.substr(2));
            k = e + 1;
        }
        return out;
    }
    if (w.size() >= 2 && w[0] == "exc")
    {
        std::vector<Val> vs;
        for (std::size_t k = 1; k < w.size(); k++)
        {
            Val v;
            if (!parse_arg(w[k], v)) return "BADCASE";
            // one stream serves all arguments of a message: only arguments that leave its state alone are in scope
            if (!stateless(v)) return "BADCASE";
            vs.push_back(v);
        }
        if (has_dual(vs))
        {
            std::string out;
            if (exc_real_pack(vs, out)) return out;
        }
        return dispatch_exc<MAXN>(vs);
    }
    return "BADCASE";
}
int main(int argc, char** argv) { return vh::driver_main(argc, argv, run_case); }

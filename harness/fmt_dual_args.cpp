// harness/fmt_dual_args.cpp — C08: formatter::args(...) with up to three arguments in their real C++ types (see fmt_dual.hpp)
#include "fmt_dual.hpp"

namespace fmtv
{
bool args_real_pack(nitro::detail::formatter<char>& f, const std::vector<Val>& v)
{
    auto k = [&](auto&&... a) { f.args(VFWD(a)...); };
    return with_real_pack12(v, k) || with_real_pack3(v, k);
}
} // namespace fmtv

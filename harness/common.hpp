// harness/common.hpp — shared by all C++ drivers: wire format, per-case watchdog, main loop.
// A driver defines   std::string run_case(const std::vector<std::string>& w);
// and calls          return driver_main(argc, argv, run_case);
#pragma once
#include <csignal>
#include <cstdio>
#include <cstdlib>
#include <cstring>
#include <exception>
#include <functional>
#include <iostream>
#include <sstream>
#include <string>
#include <typeinfo>
#include <unistd.h>
#include <vector>

namespace vh
{
inline int hexval(char c)
{
    if (c >= '0' && c <= '9') return c - '0';
    if (c >= 'a' && c <= 'f') return c - 'a' + 10;
    if (c >= 'A' && c <= 'F') return c - 'A' + 10;
    std::fprintf(stderr, "bad hex\n");
    std::_Exit(9);
}
// "-" is the empty string
inline std::string unhex(const std::string& h)
{
    if (h == "-") return {};
    std::string r;
    r.reserve(h.size() / 2);
    for (std::size_t i = 0; i + 1 < h.size(); i += 2) r.push_back(static_cast<char>(hexval(h[i]) * 16 + hexval(h[i + 1])));
    return r;
}
inline std::string hex(const std::string& s)
{
    if (s.empty()) return "-";
    static const char* d = "0123456789abcdef";
    std::string r;
    r.reserve(s.size() * 2);
    for (unsigned char c : s) { r.push_back(d[c >> 4]); r.push_back(d[c & 15]); }
    return r;
}
inline std::vector<std::string> split_on(const std::string& s, char sep)
{
    std::vector<std::string> r;
    std::string cur;
    for (char c : s) { if (c == sep) { r.push_back(cur); cur.clear(); } else cur.push_back(c); }
    r.push_back(cur);
    return r;
}
// "." is the empty list
inline std::vector<std::string> unwire_strs(const std::string& w)
{
    std::vector<std::string> r;
    if (w == ".") return r;
    for (auto& e : split_on(w, ',')) r.push_back(unhex(e));
    return r;
}
inline std::string wire_strs(const std::vector<std::string>& l)
{
    if (l.empty()) return ".";
    std::string r;
    for (std::size_t i = 0; i < l.size(); i++) { if (i) r += ","; r += hex(l[i]); }
    return r;
}
inline std::vector<std::string> words(const std::string& line)
{
    std::vector<std::string> r;
    std::istringstream is(line);
    std::string w;
    while (is >> w) r.push_back(w);
    return r;
}
inline void on_alarm(int)
{
    const char m[] = "HANG\n";
    ssize_t ignored = write(1, m, sizeof(m) - 1);
    (void)ignored;
    std::_Exit(3);
}
inline int driver_main(int argc, char** argv, const std::function<std::string(const std::vector<std::string>&)>& run_case)
{
    int secs = 20;
    if (const char* e = std::getenv("VERIF_CASE_TIMEOUT")) secs = std::atoi(e);
    std::signal(SIGALRM, on_alarm);
    std::string line;
    (void)argc; (void)argv;
    while (std::getline(std::cin, line))
    {
        alarm(secs);
        std::string out;
        try { out = run_case(words(line)); }
        catch (const std::exception& e) { out = std::string("OTHER(") + typeid(e).name() + ")"; }
        catch (...) { out = "OTHER(unknown)"; }
        alarm(0);
        out.push_back('\n');
        // one write per case: after a crash the number of complete lines tells which case died
        std::size_t off = 0;
        while (off < out.size()) { ssize_t n = write(1, out.data() + off, out.size() - off); if (n <= 0) std::_Exit(8); off += n; }
    }
    return 0;
}
} // namespace vh

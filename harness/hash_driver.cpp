// harness/hash_driver.cpp — implementation side of C16: nitro::lang::hash, tuple_operators<T>, unordered_set/map.
//
// Value wire format (one word, no blanks); the TYPE word of the case selects the static C++ type and the value must
// have that type's shape:
//   leaf      <k><payload>[#<16 hex digits>]   k: c signed char, h short, i int, u unsigned, l long long, b bool, a char, k unsigned char,
//                                              g unsigned short, n long, m unsigned long long, o wchar_t, q char16_t, j char32_t (decimal);
//                                              f float, d double, e long double (strtod text); s std::string, w std::wstring,
//                                              x std::u16string, y std::u32string (hex of the ASCII characters, '-' = empty).
//                                              The part after '#' (the std::hash word the model was given) is ignored here:
//                                              the driver computes std::hash itself and reports it under LH.
//   tuple     T(v,v,...)     pair  P(v,v)     variant  V<k>(v)     unique_ptr/shared_ptr  U(v)     tuple_operators type  O(v,...)
//   OWNERSHIP FORM of a pointer: a letter between U and ( says how the pointer came to refer to its pointee
//             U(v) make_unique / make_shared | Uc(v) a copy of another shared_ptr (unique_ptr: move-constructed from another)
//             | Un(v) adopted from new | Ua(v) NON-OWNING alias: shared_ptr<T>(shared_ptr<void>(), &object) — non-null, use_count() == 0
//             (unique_ptr: release() + reset()) | Uo(v) owning alias shared_ptr<T>(owner, owner.get()) | Uu(v) shared_ptr made from a
//             unique_ptr | Uk(v) moved from another pointer.  Never null.  hash and == must not depend on the form.
//   Z         a variant that is valueless_by_exception() (only for variants with the alternative K, whose constructor can throw)
// Cases:
//   leaf l;l;...            -> LH h,h,...                       std::hash of each leaf (used to instantiate the model's h)
//   p TYPE x y              -> H hx hy EQ e OPS <,<=,>,>=,==,!= LH ...   hash words, ==, the six operators, leaf hashes of x then y
//   t TYPE x y z            -> TR (x<y)(y<z)(x<z) (x<=y)(y<=z)(x<=z)
//   set TYPE v;v;... v;v;...-> S size found-bits                 unordered_set: insert the first list, find every value of the second
//   map TYPE v;v;... v;v;...-> M size idx,idx,...                unordered_map<TYPE,int>: emplace(v_i, i), then find
//   a SQ x                  -> A eq hx hy                        a copy of a shared_ptr compares equal and hashes equal
//   al TYPE x FORMS         -> AL eq hx hy S f size M f size LH ...   (shared_ptr-only types) y = a TWIN of x: the same structure, equal leaves,
//        every (outermost) shared_ptr of y refers to the SAME object as the one of x, in the ownership form FORMS[k mod length] for the k-th
//        pointer (c copy, a non-owning alias, o owning alias, k moved from a copy): x == y in C++.  eq: x == y; hash words; S: a set holding x
//        finds y, its size after y was inserted too; M: the same for a map
//   h TYPE CODE a b v;v;... -> HH hz hy EQ e OPS ...... F f1 f2 size LH ...   (TYPE = P or Q) an object with a HISTORY:
//        built from a, brought to the value b IN PLACE, then compared with a freshly built b (y).  CODE = 4 letters:
//        1 first use of x   n none | d nitro::lang::hash(x) | s x inserted into and looked up in an unordered_set
//        2 which object     o x itself | b a copy of x made BEFORE the first use | a a copy of x made AFTER it
//        3 how it becomes b m member-wise assignment | t assignment through the reference tuple as_tuple() returns
//                           | w whole-object copy assignment from a fresh b | v move assignment from a fresh b
//        4 observed object  - the object itself | c a copy constructed from it | k an object move-constructed from it
//        hz hy  hash words of the observed object z and of the fresh y;  e, OPS: z == y and the six operators (z, y);
//        f1: a set holding the fillers v;v;... and a fresh b finds z;  f2: a set holding the fillers and z finds y;
//        size: size of that second set after y has been inserted too (z and y are equal: it must not grow)
#include "common.hpp"
#include <nitro/lang/hash.hpp>
#include <nitro/lang/tuple_operators.hpp>
#include <nitro/lang/unordered.hpp>

#include <cstdint>
#include <memory>
#include <stdexcept>
#include <tuple>
#include <utility>
#include <variant>

namespace nl = nitro::lang;

// ------------------------------------------------------------------ the user types
struct P : nl::tuple_operators<P>
{
    int i; std::string s; double d;
    P(int i, std::string s, double d) : i(i), s(std::move(s)), d(d) {}
    auto as_tuple() { return std::tie(i, s, d); }
};
struct Q : nl::tuple_operators<Q>
{
    short h; P p;
    Q(short h, P p) : h(h), p(std::move(p)) {}
    auto as_tuple() { return std::tie(h, p); }
};
struct R : nl::tuple_operators<R>
{
    std::pair<int, std::string> pr; std::variant<int, std::string> v; std::tuple<int, int> t;
    R(std::pair<int, std::string> pr, std::variant<int, std::string> v, std::tuple<int, int> t) : pr(std::move(pr)), v(std::move(v)), t(t) {}
    auto as_tuple() { return std::tie(pr, v, t); }
};
struct E : nl::tuple_operators<E>
{
    auto as_tuple() { return std::tie(); }
};
struct M : nl::tuple_operators<M>   // the remaining std_hashable leaf types: character types, wide integers, long double, wide strings
{
    char a; unsigned short g; unsigned long long m; long double e; char32_t j; std::wstring w; std::u16string x; std::u32string y;
    M(char a, unsigned short g, unsigned long long m, long double e, char32_t j, std::wstring w, std::u16string x, std::u32string y)
    : a(a), g(g), m(m), e(e), j(j), w(std::move(w)), x(std::move(x)), y(std::move(y)) {}
    auto as_tuple() { return std::tie(a, g, m, e, j, w, x, y); }
};
using M2 = std::tuple<unsigned char, long, wchar_t, char16_t>;
struct N : nl::tuple_operators<N>   // integers of several widths, bool, float
{
    signed char c; unsigned u; long long l; bool b; float f;
    N(signed char c, unsigned u, long long l, bool b, float f) : c(c), u(u), l(l), b(b), f(f) {}
    auto as_tuple() { return std::tie(c, u, l, b, f); }
};

// an alternative whose construction can fail after the variant has destroyed its old value: not trivially copyable,
// constructor may throw -> libstdc++ leaves the variant valueless_by_exception()
struct K : nl::tuple_operators<K>
{
    int k;
    struct boom {};
    explicit K(int k) : k(k) {}
    K(int k, boom) : k(k) { throw std::runtime_error("K: construction failed"); }
    K(const K& o) : nl::hashable(), nl::tuple_operators<K>(), k(o.k) {}
    K& operator=(const K& o) { k = o.k; return *this; }
    auto as_tuple() { return std::tie(k); }
};
using VT = std::variant<int, std::string, K>;
struct OV : nl::tuple_operators<OV>
{
    VT v; int i;
    OV(VT v, int i) : v(std::move(v)), i(i) {}
    auto as_tuple() { return std::tie(v, i); }
};

struct OS : nl::tuple_operators<OS>   // a mix-in type with a shared_ptr member (its == and < compare the pointers, its hash the pointee)
{
    std::shared_ptr<int> p; int i;
    OS(std::shared_ptr<int> p, int i) : p(std::move(p)), i(i) {}
    auto as_tuple() { return std::tie(p, i); }
};

// ------------------------------------------------------------------ parsing a value of a given type
struct Cur
{
    const std::string& s;
    std::size_t i = 0;
    bool ok = true;
    std::vector<std::uint64_t> lh;   // std::hash of the leaves, in order
    explicit Cur(const std::string& s) : s(s) {}
    bool eat(char c) { if (ok && i < s.size() && s[i] == c) { i++; return true; } ok = false; return false; }
    bool eat(const char* t) { for (; *t; t++) if (!eat(*t)) return false; return true; }
    std::string leaf(char kind)
    {
        if (!eat(kind)) return "0";
        std::size_t j = i;
        while (j < s.size() && s[j] != ',' && s[j] != ')' && s[j] != ';') j++;
        std::string tok = s.substr(i, j - i);
        i = j;
        auto h = tok.find('#');
        if (h != std::string::npos) tok.resize(h);
        if (tok.empty()) ok = false;
        return tok;
    }
};

template <typename T> struct Parse;

template <typename T, char K> struct ParseInt
{
    static T get(Cur& c)
    {
        std::string t = c.leaf(K);
        char* end = nullptr;
        long long v = std::strtoll(t.c_str(), &end, 10);
        if (!end || *end) c.ok = false;
        T r = static_cast<T>(v);
        if (static_cast<long long>(r) != v) c.ok = false;
        c.lh.push_back(std::hash<T>()(r));
        return r;
    }
};
template <> struct Parse<signed char> : ParseInt<signed char, 'c'> {};
template <> struct Parse<short> : ParseInt<short, 'h'> {};
template <> struct Parse<int> : ParseInt<int, 'i'> {};
template <> struct Parse<unsigned> : ParseInt<unsigned, 'u'> {};
template <> struct Parse<long long> : ParseInt<long long, 'l'> {};
template <> struct Parse<bool> : ParseInt<bool, 'b'> {};
template <> struct Parse<char> : ParseInt<char, 'a'> {};
template <> struct Parse<unsigned char> : ParseInt<unsigned char, 'k'> {};
template <> struct Parse<unsigned short> : ParseInt<unsigned short, 'g'> {};
template <> struct Parse<long> : ParseInt<long, 'n'> {};
template <> struct Parse<unsigned long long> : ParseInt<unsigned long long, 'm'> {};
template <> struct Parse<wchar_t> : ParseInt<wchar_t, 'o'> {};
template <> struct Parse<char16_t> : ParseInt<char16_t, 'q'> {};
template <> struct Parse<char32_t> : ParseInt<char32_t, 'j'> {};
template <typename T, char K> struct ParseFloat
{
    static T get(Cur& c)
    {
        std::string t = c.leaf(K);
        char* end = nullptr;
        double v = std::strtod(t.c_str(), &end);
        if (!end || *end) c.ok = false;
        T r = static_cast<T>(v);
        c.lh.push_back(std::hash<T>()(r));
        return r;
    }
};
template <> struct Parse<float> : ParseFloat<float, 'f'> {};
template <> struct Parse<double> : ParseFloat<double, 'd'> {};
template <> struct Parse<long double> : ParseFloat<long double, 'e'> {};
template <typename S, char K> struct ParseWide
{
    static S get(Cur& c)
    {
        std::string narrow = vh::unhex(c.leaf(K));
        S r;
        for (unsigned char ch : narrow) r.push_back(static_cast<typename S::value_type>(ch));
        c.lh.push_back(std::hash<S>()(r));
        return r;
    }
};
template <> struct Parse<std::wstring> : ParseWide<std::wstring, 'w'> {};
template <> struct Parse<std::u16string> : ParseWide<std::u16string, 'x'> {};
template <> struct Parse<std::u32string> : ParseWide<std::u32string, 'y'> {};
template <> struct Parse<std::string>
{
    static std::string get(Cur& c)
    {
        std::string r = vh::unhex(c.leaf('s'));
        c.lh.push_back(std::hash<std::string>()(r));
        return r;
    }
};
template <typename T> T parse_elem(Cur& c, bool& first)
{
    if (!first) c.eat(',');
    first = false;
    return Parse<T>::get(c);
}
template <typename... Ts> struct Parse<std::tuple<Ts...>>
{
    static std::tuple<Ts...> get(Cur& c)
    {
        c.eat("T(");
        bool first = true;
        (void)first;
        std::tuple<Ts...> r{ parse_elem<Ts>(c, first)... };   // braced list: evaluated left to right
        c.eat(')');
        return r;
    }
};
template <typename A, typename B> struct Parse<std::pair<A, B>>
{
    static std::pair<A, B> get(Cur& c)
    {
        c.eat("P(");
        A a = Parse<A>::get(c);
        c.eat(',');
        B b = Parse<B>::get(c);
        c.eat(')');
        return std::pair<A, B>(std::move(a), std::move(b));
    }
};
template <typename V, std::size_t I> struct ParseAlt
{
    static V get(Cur& c, std::size_t k)
    {
        if constexpr (I < std::variant_size<V>::value)
        {
            if (k == I) return V(std::in_place_index<I>, Parse<std::variant_alternative_t<I, V>>::get(c));
            return ParseAlt<V, I + 1>::get(c, k);
        }
        else
        {
            c.ok = false;
            return V(std::in_place_index<0>, Parse<std::variant_alternative_t<0, V>>::get(c));
        }
    }
};
template <> struct Parse<K>
{
    static K get(Cur& c) { c.eat("O("); int k = Parse<int>::get(c); c.eat(')'); return K(k); }
};
template <typename V> bool make_valueless(V&) { return false; }
inline bool make_valueless(VT& v)
{
    try { v.template emplace<2>(0, K::boom{}); }
    catch (const std::runtime_error&) {}
    return v.valueless_by_exception();
}
template <typename... Ts> struct Parse<std::variant<Ts...>>
{
    static std::variant<Ts...> get(Cur& c)
    {
        if (c.ok && c.i < c.s.size() && c.s[c.i] == 'Z')
        {
            c.i++;
            std::variant<Ts...> r;
            if (!make_valueless(r)) c.ok = false;
            return r;
        }
        c.eat('V');
        std::size_t k = 0;
        bool digits = false;
        while (c.i < c.s.size() && c.s[c.i] >= '0' && c.s[c.i] <= '9') { k = k * 10 + (c.s[c.i] - '0'); c.i++; digits = true; }
        if (!digits) c.ok = false;
        c.eat('(');
        auto r = ParseAlt<std::variant<Ts...>, 0>::get(c, k);
        c.eat(')');
        return r;
    }
};
// owners of the objects that non-owning pointers (form a) and copies (form c) refer to; emptied at the start of every case
static std::vector<std::shared_ptr<void>> g_keep;
static char ptr_form(Cur& c)
{
    c.eat('U');
    char f = 0;
    if (c.ok && c.i < c.s.size() && c.s[c.i] != '(') { f = c.s[c.i]; c.i++; }
    c.eat('(');
    return f;
}
template <typename T> struct Parse<std::unique_ptr<T>>
{
    static std::unique_ptr<T> get(Cur& c)
    {
        char f = ptr_form(c);
        std::unique_ptr<T> r;
        switch (f)
        {
        case 0: r = std::make_unique<T>(Parse<T>::get(c)); break;
        case 'n': r = std::unique_ptr<T>(new T(Parse<T>::get(c))); break;
        case 'a': { auto t = std::make_unique<T>(Parse<T>::get(c)); r.reset(t.release()); break; }
        case 'c': case 'k': { auto t = std::make_unique<T>(Parse<T>::get(c)); std::unique_ptr<T> u(std::move(t)); r = std::move(u); break; }
        case 'o': case 'u': { std::unique_ptr<T> t(new T(Parse<T>::get(c))); r.swap(t); break; }
        default: c.ok = false; r = std::make_unique<T>(Parse<T>::get(c)); break;
        }
        c.eat(')');
        return r;
    }
};
template <typename T> struct Parse<std::shared_ptr<T>>
{
    static std::shared_ptr<T> get(Cur& c)
    {
        char f = ptr_form(c);
        std::shared_ptr<T> r;
        switch (f)
        {
        case 0: r = std::make_shared<T>(Parse<T>::get(c)); break;
        case 'c': { auto t = std::make_shared<T>(Parse<T>::get(c)); g_keep.push_back(t); r = t; break; }
        case 'n': r = std::shared_ptr<T>(new T(Parse<T>::get(c))); break;
        case 'a': { auto t = std::make_shared<T>(Parse<T>::get(c)); g_keep.push_back(t); r = std::shared_ptr<T>(std::shared_ptr<void>(), t.get()); break; }
        case 'o': { auto t = std::make_shared<T>(Parse<T>::get(c)); r = std::shared_ptr<T>(t, t.get()); break; }
        case 'u': r = std::shared_ptr<T>(std::make_unique<T>(Parse<T>::get(c))); break;
        case 'k': { auto t = std::make_shared<T>(Parse<T>::get(c)); r = std::move(t); break; }
        default: c.ok = false; r = std::make_shared<T>(Parse<T>::get(c)); break;
        }
        c.eat(')');
        return r;
    }
};
template <> struct Parse<P>
{
    static P get(Cur& c)
    {
        c.eat("O(");
        int i = Parse<int>::get(c); c.eat(',');
        std::string s = Parse<std::string>::get(c); c.eat(',');
        double d = Parse<double>::get(c);
        c.eat(')');
        return P(i, s, d);
    }
};
template <> struct Parse<Q>
{
    static Q get(Cur& c)
    {
        c.eat("O(");
        short h = Parse<short>::get(c); c.eat(',');
        P p = Parse<P>::get(c);
        c.eat(')');
        return Q(h, p);
    }
};
template <> struct Parse<R>
{
    static R get(Cur& c)
    {
        c.eat("O(");
        auto pr = Parse<std::pair<int, std::string>>::get(c); c.eat(',');
        auto v = Parse<std::variant<int, std::string>>::get(c); c.eat(',');
        auto t = Parse<std::tuple<int, int>>::get(c);
        c.eat(')');
        return R(pr, v, t);
    }
};
template <> struct Parse<OV>
{
    static OV get(Cur& c)
    {
        c.eat("O(");
        auto v = Parse<VT>::get(c); c.eat(',');
        int i = Parse<int>::get(c);
        c.eat(')');
        return OV(std::move(v), i);
    }
};
template <> struct Parse<M>
{
    static M get(Cur& c)
    {
        c.eat("O(");
        auto a = Parse<char>::get(c); c.eat(',');
        auto g = Parse<unsigned short>::get(c); c.eat(',');
        auto m = Parse<unsigned long long>::get(c); c.eat(',');
        auto e = Parse<long double>::get(c); c.eat(',');
        auto j = Parse<char32_t>::get(c); c.eat(',');
        auto w = Parse<std::wstring>::get(c); c.eat(',');
        auto x = Parse<std::u16string>::get(c); c.eat(',');
        auto y = Parse<std::u32string>::get(c);
        c.eat(')');
        return M(a, g, m, e, j, w, x, y);
    }
};
template <> struct Parse<OS>
{
    static OS get(Cur& c)
    {
        c.eat("O(");
        auto p = Parse<std::shared_ptr<int>>::get(c); c.eat(',');
        int i = Parse<int>::get(c);
        c.eat(')');
        return OS(std::move(p), i);
    }
};
template <> struct Parse<E>
{
    static E get(Cur& c) { c.eat("O()"); return E(); }
};
template <> struct Parse<N>
{
    static N get(Cur& c)
    {
        c.eat("O(");
        auto a = Parse<signed char>::get(c); c.eat(',');
        auto u = Parse<unsigned>::get(c); c.eat(',');
        auto l = Parse<long long>::get(c); c.eat(',');
        auto b = Parse<bool>::get(c); c.eat(',');
        auto f = Parse<float>::get(c);
        c.eat(')');
        return N(a, u, l, b, f);
    }
};

// does a value of this type contain a smart pointer (== and < are then address comparisons)?
template <typename T> struct has_ptr : std::false_type {};
template <typename T> struct has_ptr<std::unique_ptr<T>> : std::true_type {};
template <typename T> struct has_ptr<std::shared_ptr<T>> : std::true_type {};
template <typename... Ts> struct has_ptr<std::tuple<Ts...>> : std::integral_constant<bool, (has_ptr<Ts>::value || ...)> {};
template <typename A, typename B> struct has_ptr<std::pair<A, B>> : std::integral_constant<bool, has_ptr<A>::value || has_ptr<B>::value> {};
template <> struct has_ptr<OS> : std::true_type {};

// a TWIN of a value: equal leaves, every outermost shared_ptr refers to the same object in another ownership form
struct Forms { const std::string& f; std::size_t k = 0; char next() { return f.empty() ? 'c' : f[k++ % f.size()]; } };
template <typename T> struct Twin { static T make(const T& x, Forms&) { return x; } };
template <typename T> struct Twin<std::shared_ptr<T>>
{
    static std::shared_ptr<T> make(const std::shared_ptr<T>& x, Forms& f)
    {
        switch (f.next())
        {
        case 'a': return std::shared_ptr<T>(std::shared_ptr<void>(), x.get());   // non-null, owns nothing
        case 'o': return std::shared_ptr<T>(x, x.get());
        case 'k': { std::shared_ptr<T> t = x; std::shared_ptr<T> u(std::move(t)); return u; }
        default: return x;
        }
    }
};
template <typename... Ts> struct Twin<std::tuple<Ts...>>
{
    template <std::size_t... I> static std::tuple<Ts...> make_i(const std::tuple<Ts...>& x, Forms& f, std::index_sequence<I...>)
    {
        (void)x; (void)f;
        return std::tuple<Ts...>{ Twin<Ts>::make(std::get<I>(x), f)... };   // braced list: left to right
    }
    static std::tuple<Ts...> make(const std::tuple<Ts...>& x, Forms& f) { return make_i(x, f, std::index_sequence_for<Ts...>{}); }
};
template <typename A, typename B> struct Twin<std::pair<A, B>>
{
    static std::pair<A, B> make(const std::pair<A, B>& x, Forms& f)
    {
        A a = Twin<A>::make(x.first, f);
        B b = Twin<B>::make(x.second, f);
        return std::pair<A, B>(std::move(a), std::move(b));
    }
};
template <> struct Twin<OS> { static OS make(const OS& x, Forms& f) { return OS(Twin<std::shared_ptr<int>>::make(x.p, f), x.i); } };

static std::string hex16(std::uint64_t v)
{
    char b[17];
    std::snprintf(b, sizeof b, "%016llx", static_cast<unsigned long long>(v));
    return b;
}
static std::string lh_str(const std::vector<std::uint64_t>& a, const std::vector<std::uint64_t>& b)
{
    std::string r;
    for (auto* v : { &a, &b })
        for (auto h : *v) { if (!r.empty()) r += ","; r += hex16(h); }
    return r.empty() ? "." : r;
}
template <typename T> std::unique_ptr<T> parse_all(const std::string& w, std::vector<std::uint64_t>& lh)
{
    Cur c(w);
    auto out = std::make_unique<T>(Parse<T>::get(c));
    lh = c.lh;
    if (!(c.ok && c.i == w.size())) out.reset();
    return out;
}
// values separated by ';' ("." = none)
template <typename T> bool parse_list(const std::string& w, std::vector<T>& out)
{
    if (w == ".") return true;
    Cur c(w);
    while (true)
    {
        out.push_back(Parse<T>::get(c));
        if (!c.ok) return false;
        if (c.i == w.size()) return true;
        if (!c.eat(';')) return false;
    }
}

template <typename T> std::string run_typed(const std::vector<std::string>& w)
{
    static_assert(std::is_same<decltype(nl::hash(std::declval<const T&>())), std::size_t>::value, "hash returns std::size_t");
    if (w[0] == "p" && w.size() == 4)
    {
        std::vector<std::uint64_t> lx, ly;
        auto x = parse_all<T>(w[2], lx);
        auto y = parse_all<T>(w[3], ly);
        if (!x || !y) return "BADCASE";
        std::string r = "H " + hex16(nl::hash(*x)) + " " + hex16(nl::hash(*y));
        // the functor used by the containers must give the same word
        if (nl::hash_wrapper<T>()(*x) != nl::hash(*x)) r += " WRAPPER-DIFFERS";
        if constexpr (has_ptr<T>::value) r += " EQ - OPS ------";
        else
        {
            const T& a = *x; const T& b = *y;
            r += std::string(" EQ ") + (a == b ? "1" : "0") + " OPS ";
            r += (a < b ? '1' : '0'); r += (a <= b ? '1' : '0'); r += (a > b ? '1' : '0');
            r += (a >= b ? '1' : '0'); r += (a == b ? '1' : '0'); r += (a != b ? '1' : '0');
            // the same through other forms of the operands: non-const lvalue against const lvalue, temporaries
            T na(a);
            auto six = [](auto&& p, auto&& q) {
                std::string o;
                o += (p < q ? '1' : '0'); o += (p <= q ? '1' : '0'); o += (p > q ? '1' : '0');
                o += (p >= q ? '1' : '0'); o += (p == q ? '1' : '0'); o += (p != q ? '1' : '0');
                return o;
            };
            std::string ref = six(a, b);
            if (six(na, b) != ref || six(T(a), T(b)) != ref || six(b, na) != six(b, a)) r += " FORMS-DIFFER";
            if (nl::hash(T(a)) != nl::hash(a) || nl::hash(na) != nl::hash(a)) r += " FORMS-DIFFER";
        }
        if constexpr (std::is_base_of<nl::hashable, T>::value)
        {
            if (x->hash() != nl::hash(*x)) r += " MEMBER-HASH-DIFFERS";   // t.hash() and hash(t) are one function
        }
        return r + " LH " + lh_str(lx, ly);
    }
    if constexpr (!has_ptr<T>::value)
    {
        if (w[0] == "t" && w.size() == 5)
        {
            std::vector<T> v;
            for (int k = 2; k < 5; k++) if (!parse_list<T>(w[k], v) || v.size() != static_cast<std::size_t>(k - 1)) return "BADCASE";
            const T &x = v[0], &y = v[1], &z = v[2];
            std::string r = "TR ";
            r += (x < y ? '1' : '0'); r += (y < z ? '1' : '0'); r += (x < z ? '1' : '0'); r += ' ';
            r += (x <= y ? '1' : '0'); r += (y <= z ? '1' : '0'); r += (x <= z ? '1' : '0');
            return r;
        }
        if ((w[0] == "set" || w[0] == "map") && w.size() == 4)
        {
            std::vector<T> ins, probes;
            if (!parse_list<T>(w[2], ins) || !parse_list<T>(w[3], probes)) return "BADCASE";
            if (w[0] == "set")
            {
                nl::unordered_set<T> s;
                for (auto& v : ins) s.insert(v);
                std::string bits;
                for (auto& v : probes) bits += (s.find(v) != s.end() ? '1' : '0');
                // the same look-ups after a rehash, through count(), and after erasing one key
                s.rehash(4 * s.bucket_count() + 7);
                std::string bits2, bits3;
                for (auto& v : probes) { bits2 += (s.find(v) != s.end() ? '1' : '0'); bits3 += (s.count(v) == 1 ? '1' : '0'); }
                if (bits2 != bits || bits3 != bits) bits += "!REHASH";
                if (!ins.empty())
                {
                    nl::unordered_set<T> s2(s);
                    std::size_t before = s2.size();
                    if (s2.erase(ins[0]) != 1 || s2.size() + 1 != before || s2.find(ins[0]) != s2.end()) bits += "!ERASE";
                    for (auto& v : ins) if (!(v == ins[0]) && s2.find(v) == s2.end()) bits += "!ERASE-LOST";
                }
                bool all_iter = true;   // iterating the container meets every inserted key again
                for (auto& v : ins) { bool f = false; for (auto& k : s) if (k == v) f = true; all_iter = all_iter && f; }
                return "S " + std::to_string(s.size()) + " " + (bits.empty() ? "." : bits) + (all_iter ? "" : " ITER-MISSES");
            }
            nl::unordered_map<T, int> m;
            int idx = 0;
            for (auto& v : ins) m.emplace(v, idx++);
            std::string r;
            for (auto& v : probes)
            {
                auto it = m.find(v);
                if (!r.empty()) r += ",";
                r += (it == m.end() ? std::string("-") : std::to_string(it->second));
            }
            return "M " + std::to_string(m.size()) + " " + (r.empty() ? "." : r);
        }
    }
    return "BADCASE";
}

// ------------------------------------------------------------------ equal pointers in different ownership forms
template <typename T> std::string run_alias(const std::vector<std::string>& w)
{
    if (w.size() != 4) return "BADCASE";
    for (char ch : w[3]) if (ch != 'c' && ch != 'a' && ch != 'o' && ch != 'k') return "BADCASE";
    std::vector<std::uint64_t> lx;
    auto x = parse_all<T>(w[2], lx);
    if (!x) return "BADCASE";
    Forms f{ w[3] };
    T y = Twin<T>::make(*x, f);
    std::string r = std::string("AL ") + (*x == y ? "1" : "0") + " " + hex16(nl::hash(*x)) + " " + hex16(nl::hash(y));
    if (nl::hash_wrapper<T>()(y) != nl::hash(y)) r += " WRAPPER-DIFFERS";
    nl::unordered_set<T> s;
    s.insert(*x);
    bool f1 = s.find(y) != s.end() && s.count(y) == 1;
    s.insert(y);
    r += std::string(" S ") + (f1 ? "1" : "0") + " " + std::to_string(s.size());
    nl::unordered_map<T, int> m;
    m.emplace(*x, 7);
    auto it = m.find(y);
    bool f2 = it != m.end() && it->second == 7;
    m.emplace(y, 8);
    r += std::string(" M ") + (f2 ? "1" : "0") + " " + std::to_string(m.size());
    return r + " LH " + lh_str(lx, {});
}

// ------------------------------------------------------------------ objects with a history (P and Q)
template <typename T> struct Mut;
template <> struct Mut<P>
{
    static void members(P& x, const P& b) { x.i = b.i; x.s = b.s; x.d = b.d; }
    static void tie(P& x, const P& b) { nl::as_tuple(x) = std::make_tuple(b.i, b.s, b.d); }   // the free function, non-const overload
};
template <> struct Mut<Q>
{
    static void members(Q& x, const Q& b) { x.h = b.h; x.p.i = b.p.i; x.p.s = b.p.s; x.p.d = b.p.d; }
    static void tie(Q& x, const Q& b) { std::get<0>(x.as_tuple()) = b.h; Mut<P>::tie(std::get<1>(x.as_tuple()), b.p); }
};
template <typename T> std::string run_history(const std::vector<std::string>& w)
{
    if (w.size() != 6 || w[2].size() != 4) return "BADCASE";
    const char first = w[2][0], which = w[2][1], how = w[2][2], post = w[2][3];
    std::vector<std::uint64_t> la, lb, ignore;
    auto x = parse_all<T>(w[3], la);
    auto bsrc = parse_all<T>(w[4], lb);    // source of the new member values; never hashed
    auto y = parse_all<T>(w[4], ignore);   // the fresh object to compare with
    auto y2 = parse_all<T>(w[4], ignore);  // another fresh one, stored in the first set
    std::vector<T> fill1, fill2;
    if (!x || !bsrc || !y || !y2 || !parse_list<T>(w[5], fill1) || !parse_list<T>(w[5], fill2)) return "BADCASE";
    std::unique_ptr<T> before;
    if (which == 'b') before = std::make_unique<T>(*x);
    nl::unordered_set<T> s0;
    switch (first)
    {
    case 'n': break;
    case 'd': (void)nl::hash(*x); break;
    case 's': s0.insert(*x); if (s0.find(*x) == s0.end()) return "HH FIRST-LOOKUP-MISSES"; break;
    default: return "BADCASE";
    }
    std::unique_ptr<T> after;
    if (which == 'a') after = std::make_unique<T>(*x);
    T* target = which == 'o' ? x.get() : which == 'b' ? before.get() : which == 'a' ? after.get() : nullptr;
    if (!target) return "BADCASE";
    switch (how)
    {
    case 'm': Mut<T>::members(*target, *bsrc); break;
    case 't': Mut<T>::tie(*target, *bsrc); break;
    case 'w': *target = *bsrc; break;
    case 'v': *target = std::move(*bsrc); break;
    default: return "BADCASE";
    }
    std::unique_ptr<T> moved;
    T* z = target;
    if (post == 'c') { moved = std::make_unique<T>(*target); z = moved.get(); }
    else if (post == 'k') { moved = std::make_unique<T>(std::move(*target)); z = moved.get(); }
    else if (post != '-') return "BADCASE";
    std::string r = "HH " + hex16(nl::hash(*z)) + " " + hex16(nl::hash(*y));
    {
        const T& a = *z; const T& b = *y;
        r += std::string(" EQ ") + (a == b ? "1" : "0") + " OPS ";
        r += (a < b ? '1' : '0'); r += (a <= b ? '1' : '0'); r += (a > b ? '1' : '0');
        r += (a >= b ? '1' : '0'); r += (a == b ? '1' : '0'); r += (a != b ? '1' : '0');
    }
    nl::unordered_set<T> s1, s2;
    for (auto& v : fill1) s1.insert(v);
    s1.insert(*y2);
    bool f1 = s1.find(*z) != s1.end();
    for (auto& v : fill2) s2.insert(v);
    s2.insert(*z);
    bool f2 = s2.find(*y) != s2.end();
    s2.insert(*y);
    r += std::string(" F ") + (f1 ? "1" : "0") + " " + (f2 ? "1" : "0") + " " + std::to_string(s2.size());
    return r + " LH " + lh_str(la, lb);
}

using T3 = std::tuple<int, std::string, double>;
using T0 = std::tuple<>;
using T1 = std::tuple<std::string>;
using TI2 = std::tuple<int, int>;
using TI3 = std::tuple<int, int, int>;
using TN = std::tuple<short, std::tuple<int, std::string>, P>;
using PR = std::pair<int, std::string>;
using PI2 = std::pair<int, int>;
using PRN = std::pair<P, std::pair<int, int>>;
using V3 = std::variant<int, std::string, P>;
using UP = std::unique_ptr<P>;
using SQ = std::shared_ptr<Q>;
using TU = std::tuple<std::unique_ptr<int>, std::shared_ptr<std::string>>;
using PV = std::pair<std::unique_ptr<V3>, int>;
using SI = std::shared_ptr<int>;
using SS = std::shared_ptr<std::string>;
using TS = std::tuple<std::shared_ptr<int>, std::string, std::shared_ptr<std::string>>;
using PS = std::pair<std::shared_ptr<std::string>, int>;
using TV = std::tuple<int, VT>;
using PVT = std::pair<VT, int>;
using UV = std::unique_ptr<VT>;

static std::string run_case(const std::vector<std::string>& w)
{
    g_keep.clear();
    if (w.size() == 4 && w[0] == "al")
    {
        const std::string& t = w[1];
        if (t == "SI") return run_alias<SI>(w);
        if (t == "SS") return run_alias<SS>(w);
        if (t == "SQ") return run_alias<std::shared_ptr<Q>>(w);
        if (t == "TS") return run_alias<TS>(w);
        if (t == "PS") return run_alias<PS>(w);
        if (t == "OS") return run_alias<OS>(w);
        return "BADCASE";
    }
    if (w.size() == 2 && w[0] == "leaf")
    {
        // every leaf is parsed by its own kind letter
        std::vector<std::uint64_t> all;
        for (auto& tok : vh::split_on(w[1], ';'))
        {
            Cur c(tok);
            if (tok.empty()) return "BADCASE";
            switch (tok[0])
            {
            case 'c': Parse<signed char>::get(c); break;
            case 'h': Parse<short>::get(c); break;
            case 'i': Parse<int>::get(c); break;
            case 'u': Parse<unsigned>::get(c); break;
            case 'l': Parse<long long>::get(c); break;
            case 'b': Parse<bool>::get(c); break;
            case 'f': Parse<float>::get(c); break;
            case 'd': Parse<double>::get(c); break;
            case 's': Parse<std::string>::get(c); break;
            case 'a': Parse<char>::get(c); break;
            case 'k': Parse<unsigned char>::get(c); break;
            case 'g': Parse<unsigned short>::get(c); break;
            case 'n': Parse<long>::get(c); break;
            case 'm': Parse<unsigned long long>::get(c); break;
            case 'o': Parse<wchar_t>::get(c); break;
            case 'q': Parse<char16_t>::get(c); break;
            case 'j': Parse<char32_t>::get(c); break;
            case 'e': Parse<long double>::get(c); break;
            case 'w': Parse<std::wstring>::get(c); break;
            case 'x': Parse<std::u16string>::get(c); break;
            case 'y': Parse<std::u32string>::get(c); break;
            default: return "BADCASE";
            }
            if (!c.ok || c.i != tok.size() || c.lh.size() != 1) return "BADCASE";
            all.push_back(c.lh[0]);
        }
        return "LH " + lh_str(all, {});
    }
    if (w.size() == 3 && w[0] == "a" && w[1] == "SQ")
    {
        std::vector<std::uint64_t> lx;
        auto x = parse_all<SQ>(w[2], lx);
        if (!x) return "BADCASE";
        SQ y = *x;
        return std::string("A ") + (*x == y ? "1" : "0") + " " + hex16(nl::hash(*x)) + " " + hex16(nl::hash(y));
    }
    if (w.size() < 3) return "BADCASE";
    const std::string& t = w[1];
    if (w[0] == "h") return t == "P" ? run_history<P>(w) : t == "Q" ? run_history<Q>(w) : std::string("BADCASE");
#define TY(name, type) if (t == name) return run_typed<type>(w);
    TY("S", std::string) TY("P", P) TY("Q", Q) TY("R", R) TY("E", E) TY("N", N)
    TY("T3", T3) TY("T0", T0) TY("T1", T1) TY("TI2", TI2) TY("TI3", TI3) TY("TN", TN)
    TY("PR", PR) TY("PI2", PI2) TY("PRN", PRN) TY("V3", V3)
    TY("UP", UP) TY("SQ", SQ) TY("TU", TU) TY("PV", PV)
    TY("M", M) TY("M2", M2) TY("VT", VT) TY("TV", TV) TY("PVT", PVT) TY("OV", OV) TY("UV", UV)
    TY("SI", SI) TY("SS", SS) TY("TS", TS) TY("PS", PS) TY("OS", OS)
#undef TY
    return "BADCASE";
}
int main(int argc, char** argv) { return vh::driver_main(argc, argv, run_case); }

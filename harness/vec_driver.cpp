// harness/vec_driver.cpp — implementation side of the fixed_vector cluster (C06, C07).
// An operation-sequence interpreter over a pool of three nitro::lang::fixed_vector<E> objects, acting through the
// public API only.  Case line:  <variant> <op> <op> ...   (same format as ocaml/vec_driver.ml)
//   variant C: copyable element, noexcept moves     M: move-only element, noexcept moves
//           T: copyable element whose k-th assignment throws on demand (op suffix !k)     U: move-only, throwing
//           P: plain std::int64_t (trivially copyable; no instance counting)
//           S: std::string with 20-character values      Q: std::unique_ptr<int> (move-only)
// Op suffix ~f selects the overload / value category / argument form the driver uses for eb, em, emb, in, im, pb.
// Every element type counts its instances (live set keyed by address): constructing over a live object, destroying
// or using a dead one sets a trap flag; elements still alive after the whole pool was destroyed are a leak.
// A moved-from element shows as 'm', a value-initialised one (never written, or T() asked for by emplace_back()) as '0'.
// After EVERY step the full observable state of the objects the step may have written is printed: capacity, size,
// elements via operator[], at() for 0..capacity+1 (and std::get<I>), begin..end, rbegin..rend (and
// nitro::lang::reverse), data(), front/back; const and non-const overloads must agree ('?' otherwise).
// Objects the step must not touch are compared with their last printed state (ALIAS<i> on a difference).
#include "common.hpp"
#include <nitro/lang/fixed_vector.hpp>
#include <nitro/lang/reverse.hpp>

#include <algorithm>
#include <array>
#include <cstdint>
#include <iterator>
#include <list>
#include <memory>
#include <optional>
#include <set>
#include <type_traits>

namespace
{
struct Track
{
    static std::set<const void*>& live() { static std::set<const void*> s; return s; }
    static bool& trap() { static bool t = false; return t; }
    static long& countdown() { static long c = -1; return c; } // >= 0: that many assignments still succeed, then one throws
    static long& ccount() { static long c = -1; return c; }    // the same for constructions from arguments / copy constructions
    static bool& cpending() { static bool b = false; return b; } // arm ccount at the moment the container is entered
};
struct ElemThrow {};

inline void reg(const void* p) { if (!Track::live().insert(p).second) Track::trap() = true; }
inline void unreg(const void* p) { if (!Track::live().erase(p)) Track::trap() = true; }
inline void alive(const void* p) { if (!Track::live().count(p)) Track::trap() = true; }
template <bool Throwing>
inline void tick() noexcept(!Throwing)
{
    if constexpr (Throwing)
    {
        long& c = Track::countdown();
        if (c == 0) { c = -1; throw ElemThrow(); }
        if (c > 0) --c;
    }
}

// a constructor from the emplace arguments (or a copy constructor) that throws on demand: BEFORE the object exists, so a
// thrown construction never enters the live set.  The counting types C and M keep NOEXCEPT move operations (so that
// is_nothrow_move_constructible is true for them) while their other constructors may throw; T and U may throw anywhere.
inline void tickc()
{
    long& c = Track::ccount();
    if (c == 0) { c = -1; throw ElemThrow(); }
    if (c > 0) --c;
}
// the throwing decision is taken BEFORE the assignment changes anything
#define ELEM_COMMON(NAME, THROWING)                                                                                    \
    int v;                                                                                                             \
    NAME() noexcept : v(0) { reg(this); }                                                                              \
    explicit NAME(int x) : v(x) { tickc(); reg(this); }                                                                \
    NAME(int a, int b) : v(a + b) { tickc(); reg(this); }                                                              \
    NAME(NAME&& o) noexcept(!THROWING) : v(o.v) { alive(&o); o.v = -1; reg(this); }                                    \
    NAME& operator=(NAME&& o) noexcept(!THROWING)                                                                      \
    {                                                                                                                  \
        alive(this); alive(&o); tick<THROWING>();                                                                      \
        int x = o.v; if (&o != this) o.v = -1; v = x;                                                                  \
        return *this;                                                                                                  \
    }                                                                                                                  \
    ~NAME() { unreg(this); }

#define ELEM_COPY(NAME, THROWING)                                                                                      \
    NAME(const NAME& o) : v(o.v) { alive(&o); tickc(); reg(this); }                                                    \
    NAME& operator=(const NAME& o) noexcept(!THROWING)                                                                 \
    {                                                                                                                  \
        alive(this); alive(&o); tick<THROWING>();                                                                      \
        v = o.v;                                                                                                       \
        return *this;                                                                                                  \
    }

struct ElemC { ELEM_COMMON(ElemC, false) ELEM_COPY(ElemC, false) };
struct ElemT { ELEM_COMMON(ElemT, true) ELEM_COPY(ElemT, true) };
struct ElemM { ELEM_COMMON(ElemM, false) ElemM(const ElemM&) = delete; ElemM& operator=(const ElemM&) = delete; };
struct ElemU { ELEM_COMMON(ElemU, true) ElemU(const ElemU&) = delete; ElemU& operator=(const ElemU&) = delete; };

template <typename E> struct traits;
template <> struct traits<ElemC> { static constexpr bool copy = true, thr = false; };
template <> struct traits<ElemT> { static constexpr bool copy = true, thr = true; };
template <> struct traits<ElemM> { static constexpr bool copy = false, thr = false; };
template <> struct traits<ElemU> { static constexpr bool copy = false, thr = true; };
// variant P: a plain, trivially copyable element (no instance counting possible; a move leaves the value in place, which
// no fault-free history can observe: moved-from slots are never inside the live range)
using Plain = std::int64_t;
template <> struct traits<Plain> { static constexpr bool copy = true, thr = false; };
static_assert(std::is_trivially_copyable<Plain>::value, "variant P must be trivially copyable");

// variants S and Q: real library element types that own heap memory (values longer than any small-string buffer)
using Str = std::string;
using UPtr = std::unique_ptr<int>;
template <> struct traits<Str> { static constexpr bool copy = true, thr = false; };
template <> struct traits<UPtr> { static constexpr bool copy = false, thr = false; };
constexpr std::size_t STRLEN = 20;

template <typename E> long val(const E& e) { alive(&e); return e.v; }
inline long val(const Plain& e) { return static_cast<long>(e); }
inline long val(const Str& e)
{
    if (e.empty()) return 0; // T() (and the usual moved-from state)
    if (e.size() != STRLEN || e[0] < '0' || e[0] > '9') return -2;
    for (char c : e) if (c != e[0]) return -2;
    return e[0] - '0';
}
inline long val(const UPtr& e) { return e ? *e : 0; }
// an element of value x, built outside the container
template <typename E> E mk(int x) { return E(x); }
template <> inline Str mk<Str>(int x) { return x == 0 ? Str() : Str(STRLEN, static_cast<char>('0' + x)); }
template <> inline UPtr mk<UPtr>(int x) { return x == 0 ? UPtr() : std::make_unique<int>(x); }
template <typename E>
char ch(const E& e)
{
    long v = val(e);
    if (v >= 0 && v <= 9) return static_cast<char>('0' + v); // 0 = value-initialised (T()), 1..9 caller values
    if (v == -1) return 'm';
    return '?';
}

// a single-pass source: copies of the iterator share one read position (like std::istream_iterator), so a second
// traversal of [first, last) sees nothing
template <typename E>
struct SinglePass
{
    using iterator_category = std::input_iterator_tag;
    using value_type = E;
    using difference_type = std::ptrdiff_t;
    using pointer = const E*;
    using reference = const E&;
    const std::vector<E>* src = nullptr;
    std::shared_ptr<std::size_t> pos;
    bool is_end = true;
    bool done() const { return is_end || *pos >= src->size(); }
    reference operator*() const { return (*src)[*pos]; }
    SinglePass& operator++() { ++*pos; return *this; }
    void operator++(int) { ++*pos; }
    bool operator==(const SinglePass& o) const { return done() == o.done(); }
    bool operator!=(const SinglePass& o) const { return !(*this == o); }
};
inline std::string dash(const std::string& s) { return s.empty() ? "-" : s; }

constexpr std::size_t NPOOL = 3;
constexpr std::size_t MAXIT = 1100; // no container in these cases is that large: an iteration that long is broken

struct Op
{
    std::string name;
    std::vector<long> a; // numeric arguments (object indices, capacity, position, value)
    std::vector<int> xs; // list argument
    long plan = -1;
    bool cthrow = false; // suffix !c: the element constructor invoked with the emplace arguments throws
    long form = 0; // suffix ~f: which overload / value category / argument form the driver uses (same operation for the model)
};

bool parse_op(const std::string& w0, Op& op)
{
    std::string w = w0;
    auto bang = w.find('!');
    if (bang != std::string::npos)
    {
        if (w.substr(bang + 1) == "c") op.cthrow = true;
        else
        {
            if (w.size() == bang + 1 || w.find_first_not_of("0123456789", bang + 1) != std::string::npos) return false;
            op.plan = std::atol(w.c_str() + bang + 1);
        }
        w = w.substr(0, bang);
    }
    auto tilde = w.find('~');
    if (tilde != std::string::npos)
    {
        op.form = std::atol(w.c_str() + tilde + 1);
        if (op.form < 0 || op.form > 9) return false;
        w = w.substr(0, tilde);
    }
    auto f = vh::split_on(w, ',');
    op.name = f[0];
    static const char* with_list[] = { "nf", "nfl", "nfa", "nfi", "nl", "la", "ir", "irs", "il", "pr", "prs", "irb" };
    bool has_list = false;
    for (auto n : with_list) if (op.name == n) has_list = true;
    std::size_t nnum = f.size() - 1 - (has_list ? 1 : 0);
    for (std::size_t i = 1; i <= nnum; i++)
    {
        if (f[i].empty() || f[i].find_first_not_of("0123456789") != std::string::npos) return false;
        long v = std::atol(f[i].c_str());
        if (v > 1000) return false;
        op.a.push_back(v);
    }
    if (has_list)
    {
        if (f.size() < 2) return false;
        const std::string& l = f.back();
        if (l != "_")
            for (char c : l) { if (c < '1' || c > '9') return false; op.xs.push_back(c - '0'); }
    }
    auto arity = [&](const char* n, std::size_t k, bool l) { return op.name == n && op.a.size() == k && has_list == l; };
    return arity("n", 2, false) || arity("nf", 2, true) || arity("nfl", 2, true) || arity("nfa", 2, true) || arity("nfi", 2, true) ||
           arity("nfv", 3, false) || arity("irs", 2, true) || arity("prs", 1, true) || arity("nl", 1, true) || arity("cp", 2, false) || arity("mv", 2, false) ||
           arity("as", 2, false) || arity("ma", 2, false) || arity("la", 1, true) || arity("at", 2, false) || arity("get", 2, false) ||
           arity("em", 3, false) || arity("eb", 2, false) || arity("in", 2, false) || arity("im", 2, false) || arity("pb", 2, false) ||
           arity("ir", 2, true) || arity("il", 2, true) || arity("pr", 1, true) || arity("po", 1, false) || arity("er", 2, false) ||
           arity("de", 1, false) || arity("ea", 3, false) || arity("ba", 2, false) || arity("ia", 2, false) ||
           arity("pa", 2, false) || arity("sr", 4, false) || arity("ps", 3, false) || arity("ebd", 1, false) ||
           arity("sw", 2, false) || arity("emd", 2, false) || arity("erb", 2, false) || arity("emb", 3, false) || arity("irb", 2, true);
}

// call f with an initializer_list of the given (run-time) contents
template <typename E, typename F>
void with_il(const std::vector<int>& x, F&& f)
{
    switch (x.size())
    {
    case 0: { std::initializer_list<E> il{}; f(il); break; }
    case 1: { std::initializer_list<E> il{ mk<E>(x[0]) }; f(il); break; }
    case 2: { std::initializer_list<E> il{ mk<E>(x[0]), mk<E>(x[1]) }; f(il); break; }
    case 3: { std::initializer_list<E> il{ mk<E>(x[0]), mk<E>(x[1]), mk<E>(x[2]) }; f(il); break; }
    case 4: { std::initializer_list<E> il{ mk<E>(x[0]), mk<E>(x[1]), mk<E>(x[2]), mk<E>(x[3]) }; f(il); break; }
    default: { std::initializer_list<E> il{ mk<E>(x[0]), mk<E>(x[1]), mk<E>(x[2]), mk<E>(x[3]), mk<E>(x[4]) }; f(il); break; }
    }
}

template <typename E>
struct Interp
{
    using FV = nitro::lang::fixed_vector<E>;
    static constexpr bool COPY = traits<E>::copy;
    static constexpr bool THR = traits<E>::thr;
    static constexpr bool CFAULT = std::is_same<E, ElemC>::value || std::is_same<E, ElemM>::value || std::is_same<E, ElemT>::value ||
                                   std::is_same<E, ElemU>::value;
    std::array<std::optional<FV>, NPOOL> pool;
    std::array<bool, NPOOL> mf{};
    std::array<std::string, NPOOL> shadow;

    template <std::size_t I>
    static char get_ch(FV& v)
    {
        try { return ch(std::get<I>(v)); }
        catch (const nitro::except::exception&) { return 'R'; }
    }
    template <std::size_t I>
    static const E* get_addr_i(FV& v) { return &std::get<I>(v); }
    static const E* get_addr(FV& v, std::size_t k)
    {
        switch (k)
        {
        case 0: return get_addr_i<0>(v);
        case 1: return get_addr_i<1>(v);
        case 2: return get_addr_i<2>(v);
        case 3: return get_addr_i<3>(v);
        case 4: return get_addr_i<4>(v);
        default: return get_addr_i<5>(v);
        }
    }
    static char get_dyn(FV& v, std::size_t k)
    {
        switch (k)
        {
        case 0: return get_ch<0>(v);
        case 1: return get_ch<1>(v);
        case 2: return get_ch<2>(v);
        case 3: return get_ch<3>(v);
        case 4: return get_ch<4>(v);
        default: return get_ch<5>(v);
        }
    }
    template <typename It>
    static std::string walk(It b, It e)
    {
        std::string r;
        std::size_t n = 0;
        for (; b != e; ++b) { if (++n > MAXIT) return "?long"; r.push_back(ch(*b)); }
        return r;
    }
    template <typename R>
    static std::string walk_range(R&& r) { return walk(r.begin(), r.end()); }

    static std::string render(FV& v)
    {
        const FV& cv = v;
        std::size_t c = v.capacity(), s = v.size();
        std::string out = "c" + std::to_string(c) + ",s" + std::to_string(s) + ",";
        if (cv.capacity() != c || cv.size() != s || v.empty() != (s == 0)) return out + "?accessors";
        if (s > c) return out + "OVER"; // reading size elements would leave the storage
        std::string e, a, d, fb;
        for (std::size_t k = 0; k < s; k++)
        {
            char x = ch(v[k]);
            e.push_back(x == ch(cv[k]) ? x : '?');
            char y = ch(v.data()[k]);
            d.push_back(y == ch(cv.data()[k]) ? y : '?');
        }
        if (v.data() != v.begin() || cv.data() != cv.begin()) d = "?data";
        // every accessor must hand out a reference to the element in the container's own storage (not a copy, not a neighbour)
        {
            bool refs = true;
            for (std::size_t k = 0; k < s; k++)
            {
                refs = refs && &v[k] == v.data() + k && &cv[k] == cv.data() + k && &v.at(k) == &v[k] && &cv.at(k) == &cv[k];
                if (k <= 5) refs = refs && get_addr(v, k) == &v[k];
            }
            if (s > 0)
                refs = refs && &v.front() == v.data() && &cv.front() == cv.data() && &v.back() == v.data() + (s - 1) &&
                       &cv.back() == cv.data() + (s - 1);
            refs = refs && v.end() == v.data() + s && cv.end() == cv.data() + s && v.cend() == cv.data() + s &&
                   v.rbegin().base() == v.end() && v.rend().base() == v.begin() && cv.crbegin().base() == cv.end() &&
                   cv.crend().base() == cv.begin() && cv.rbegin().base() == cv.end() && cv.rend().base() == cv.begin();
            if (!refs) d = "?refs";
        }
        // at() for every index 0..capacity+1; the const overload and std::get<I> are compared with it on the live
        // range and at the first index that must be refused (every further refused index costs a throw each)
        for (std::size_t k = 0; k <= c + 1; k++)
        {
            char x, y, z;
            try { x = ch(v.at(k)); } catch (const nitro::except::exception&) { x = 'R'; }
            y = z = x;
            if (k <= s)
            {
                try { y = ch(cv.at(k)); } catch (const nitro::except::exception&) { y = 'R'; }
                if (k <= 5) z = get_dyn(v, k);
            }
            a.push_back((x == y && x == z) ? x : '?');
        }
        // the iterator pairs must span exactly size elements before anything is dereferenced (a range that does not
        // is reported as such instead of being walked out of the storage)
        auto dist = static_cast<std::ptrdiff_t>(s);
        std::string f, r;
        if (std::distance(v.begin(), v.end()) != dist || std::distance(cv.begin(), cv.end()) != dist ||
            std::distance(v.cbegin(), v.cend()) != dist)
            f = "?fwd-range";
        else
        {
            f = walk(v.begin(), v.end());
            if (f != walk(cv.begin(), cv.end()) || f != walk(v.cbegin(), v.cend())) f = "?fwd";
            else
            {
                // other ways of walking the same range: range-for, post-increment, indexing an iterator, std algorithms
                std::string g, h, q;
                for (auto& x : v) g.push_back(ch(x));
                for (const auto& x : cv) h.push_back(ch(x));
                for (auto it = v.begin(); it != v.end(); it++) q.push_back(ch(*it));
                bool okk = g == f && h == f && q == f;
                for (std::size_t k = 0; k < s; k++) okk = okk && ch(v.begin()[k]) == f[k] && ch(*(cv.end() - (s - k))) == f[k];
                okk = okk && static_cast<std::size_t>(std::count_if(cv.begin(), cv.end(), [](const E&) { return true; })) == s;
                if (s > 0)
                    okk = okk && std::find_if(v.begin(), v.end(), [&](const E& x) { return ch(x) == f[s - 1]; }) <= v.end() - 1;
                if (!okk) f = "?iter";
            }
        }
        if (std::distance(v.rbegin(), v.rend()) != dist || std::distance(cv.rbegin(), cv.rend()) != dist ||
            std::distance(v.crbegin(), v.crend()) != dist)
            r = "?rev-range";
        else
        {
            r = walk(v.rbegin(), v.rend());
            {
                std::string q;
                for (auto it = v.crbegin(); it != v.crend(); it++) q.push_back(ch(*it));
                if (q != r) r = "?rev";
            }
            if (r != walk(cv.rbegin(), cv.rend()) || r != walk(v.crbegin(), v.crend())) r = "?rev";
            else if (r != walk_range(nitro::lang::reverse(v)) || r != walk_range(nitro::lang::reverse(cv))) r = "?reverse";
            if constexpr (COPY)
            {
                if (r[0] != '?' && r != walk_range(nitro::lang::reverse(FV(cv)))) r = "?reverse-rvalue";
            }
        }
        if (s > 0)
        {
            char x = ch(v.front()), y = ch(v.back());
            fb.push_back(x == ch(cv.front()) ? x : '?');
            fb.push_back(y == ch(cv.back()) ? y : '?');
        }
        return out + dash(e) + "," + dash(a) + "," + dash(f) + "," + dash(r) + "," + dash(d) + "," + dash(fb);
    }
    // a moved-from object is compared through its validity only: size <= capacity and the live range is readable
    static std::string render_mf(FV& v)
    {
        std::size_t c = v.capacity(), s = v.size();
        if (s > c) return "MF!";
        try
        {
            for (std::size_t k = 0; k < s; k++) (void)ch(v.at(k));
            std::size_t n = 0;
            for (auto it = v.begin(); it != v.end(); ++it) { if (++n > MAXIT) return "MF!"; (void)ch(*it); }
            if (n != s) return "MF!";
        }
        catch (const nitro::except::exception&) { return "MF!"; }
        return "MF";
    }
    std::string state(std::size_t i)
    {
        if (!pool[i]) return "X";
        return mf[i] ? render_mf(*pool[i]) : render(*pool[i]);
    }
    // cheap snapshot (no refused access) used to notice that an operation changed an object it must not touch
    std::string snapshot(std::size_t i)
    {
        if (!pool[i]) return "X";
        FV& v = *pool[i];
        std::size_t c = v.capacity(), s = v.size();
        std::string r = "c" + std::to_string(c) + "s" + std::to_string(s) + ":";
        if (mf[i] || s > c) return r;
        for (std::size_t k = 0; k < s; k++) r.push_back(ch(v[k]));
        return r;
    }

    static std::vector<std::size_t> writes(const Op& op)
    {
        if (op.name == "mv" || op.name == "ma" || op.name == "sw") return { (std::size_t)op.a[0], (std::size_t)op.a[1] };
        return { (std::size_t)op.a[0] };
    }
    static std::vector<std::size_t> uses(const Op& op)
    {
        const std::string& n = op.name;
        if (n == "n" || n == "nf" || n == "nfl" || n == "nfa" || n == "nfi" || n == "nl" || n == "la" || n == "de") return {};
        if (n == "cp" || n == "mv" || n == "as" || n == "ma") return { (std::size_t)op.a[1] };
        if (n == "nfv") return { (std::size_t)op.a[2] };
        if (n == "sw") return { (std::size_t)op.a[0], (std::size_t)op.a[1] };
        return { (std::size_t)op.a[0] };
    }
    static bool needs_copy(const Op& op)
    {
        static const char* l[] = { "nfl", "nfa", "nfi", "nfv", "irs", "prs", "nf", "nl", "cp", "as", "la", "in", "pb", "ir", "il", "pr", "ea", "ba", "ia", "pa", "sr", "ps", "irb" };
        for (auto n : l) if (op.name == n) return true;
        return false;
    }
    bool refused(const Op& op)
    {
        if ((needs_copy(op) && !COPY) || (op.plan >= 0 && !THR)) return true;
        if (op.cthrow)
        {
            // only where the container itself constructs the element from the arguments, for the instance-counting types
            if (!CFAULT || !(op.name == "eb" || op.name == "em")) return true;
            if (!(op.form == 0 || op.form == 1 || op.form == 5 || (op.form == 4 && COPY))) return true;
        }
        for (auto i : writes(op)) if (i >= NPOOL) return true;
        for (auto i : uses(op)) if (i >= NPOOL) return true;
        if ((op.name == "nl" || op.name == "la" || op.name == "il" || op.name == "nfi") && op.xs.size() > 5) return true;
        if (op.name == "nfa" && op.xs.size() > 6) return true;
        if (op.name == "get" && op.a[1] > 5) return true;
        if (op.name == "sw" && op.plan >= 0) return true; // std::swap is three operations: no single fault plan
        if ((op.name == "erb" || op.name == "emb" || op.name == "irb") && (op.a[1] < 1 || op.a[1] > 4)) return true;
        return false;
    }
    // begin() + pos is only a valid pointer for pos <= capacity (checked after the moved-from rule)
    bool bad_position(const Op& op)
    {
        if (op.name == "em" || op.name == "ir" || op.name == "il" || op.name == "er" || op.name == "ea" || op.name == "sr" || op.name == "emd" || op.name == "irs")
        {
            std::size_t i = op.a[0];
            if (pool[i] && (std::size_t)op.a[1] > pool[i]->capacity()) return true;
        }
        return false;
    }

    template <std::size_t N, typename Arm>
    void from_array_n(std::size_t i, std::size_t c, const std::vector<int>& x, Arm& arm)
    {
        std::array<E, N> src{};
        for (std::size_t k = 0; k < N; k++) src[k] = mk<E>(x[k]);
        arm();
        pool[i].emplace(c, src);
    }
    template <typename Arm>
    void from_array(std::size_t i, std::size_t c, const std::vector<int>& x, Arm& arm)
    {
        switch (x.size())
        {
        case 0: from_array_n<0>(i, c, x, arm); break;
        case 1: from_array_n<1>(i, c, x, arm); break;
        case 2: from_array_n<2>(i, c, x, arm); break;
        case 3: from_array_n<3>(i, c, x, arm); break;
        case 4: from_array_n<4>(i, c, x, arm); break;
        case 5: from_array_n<5>(i, c, x, arm); break;
        default: from_array_n<6>(i, c, x, arm); break;
        }
    }

    // emplace_back(args...) / emplace(pos, args...) with the argument forms the element type offers:
    //   0 native constructor argument(s) as rvalues      1 the same as named lvalues      2 a temporary element (T&&)
    //   3 std::move(named element)      4 a const element (copy; copyable types, else as 0)      5 several arguments
    template <typename... A>
    static std::size_t emplace_any(FV& v, typename FV::pointer pos, bool back, A&&... a)
    {
        if (Track::cpending()) { Track::cpending() = false; Track::ccount() = 0; } // all arguments exist: arm now
        if (back) return v.emplace_back(std::forward<A>(a)...);
        v.emplace(pos, std::forward<A>(a)...);
        return v.size() - 1;
    }
    static std::size_t emplace_form(FV& v, typename FV::pointer pos, bool back, int x, long form)
    {
        if (form == 2) return emplace_any(v, pos, back, mk<E>(x));
        if (form == 3) { E e = mk<E>(x); return emplace_any(v, pos, back, std::move(e)); }
        if constexpr (COPY)
        {
            if (form == 4) { const E e = mk<E>(x); return emplace_any(v, pos, back, e); }
        }
        if constexpr (std::is_same<E, Str>::value)
        {
            if (x == 0) return emplace_any(v, pos, back);
            char c = static_cast<char>('0' + x);
            std::size_t n = STRLEN;
            Str s(STRLEN, c);
            if (form == 1) return emplace_any(v, pos, back, n, c);
            if (form == 5) { const char* p = s.c_str(); return emplace_any(v, pos, back, p, n); }
            return emplace_any(v, pos, back, STRLEN, static_cast<char>('0' + x));
        }
        else if constexpr (std::is_same<E, UPtr>::value)
        {
            if (x == 0) return emplace_any(v, pos, back);
            return emplace_any(v, pos, back, mk<E>(x)); // (a raw owning pointer argument would leak when the call is refused)
        }
        else
        {
            int y = x;
            if (form == 1) return emplace_any(v, pos, back, y);
            if constexpr (!std::is_same<E, Plain>::value)
            {
                if (form == 5) return emplace_any(v, pos, back, x - x / 2, x / 2);
            }
            return emplace_any(v, pos, back, static_cast<int>(x));
        }
    }

    // executes the operation; returns the outcome token
    std::string exec(const Op& op)
    {
        const std::string& n = op.name;
        std::size_t i = op.a[0];
        auto arm = [&] { if (THR) Track::countdown() = op.plan; Track::cpending() = op.cthrow; };
        struct Disarm { ~Disarm() { Track::countdown() = -1; Track::ccount() = -1; Track::cpending() = false; } } disarm;
        std::string ok = "D";
        // --- operations that do not need an existing pool[i]
        if (n == "n") { pool[i].reset(); arm(); pool[i].emplace(static_cast<std::size_t>(op.a[1])); return ok; }
        if (n == "de") { pool[i].reset(); return ok; }
        if constexpr (COPY)
        {
            if (n == "nf")
            {
                std::vector<E> src;
                for (int x : op.xs) src.push_back(mk<E>(x));
                pool[i].reset(); arm(); pool[i].emplace(static_cast<std::size_t>(op.a[1]), src); return ok;
            }
            // the same public constructor fixed_vector(capacity, iterable) with other kinds of iterable
            if (n == "nfl")
            {
                std::list<E> src;
                for (int x : op.xs) src.push_back(mk<E>(x));
                pool[i].reset(); arm(); pool[i].emplace(static_cast<std::size_t>(op.a[1]), src); return ok;
            }
            if (n == "nfa") { pool[i].reset(); from_array(i, static_cast<std::size_t>(op.a[1]), op.xs, arm); return ok; }
            if (n == "nfi")
            {
                pool[i].reset();
                with_il<E>(op.xs, [&](std::initializer_list<E>& il) { arm(); pool[i].emplace(static_cast<std::size_t>(op.a[1]), il); });
                return ok;
            }
            if (n == "nfv")
            {
                std::size_t j = op.a[2];
                if (i == j || !pool[j]) return "S";
                pool[i].reset(); arm(); pool[i].emplace(static_cast<std::size_t>(op.a[1]), static_cast<const FV&>(*pool[j])); return ok;
            }
            if (n == "nl")
            {
                pool[i].reset();
                with_il<E>(op.xs, [&](std::initializer_list<E>& il) { arm(); pool[i].emplace(il); });
                return ok;
            }
            if (n == "cp")
            {
                std::size_t j = op.a[1];
                if (i == j || !pool[j]) return "S";
                pool[i].reset(); arm(); pool[i].emplace(static_cast<const FV&>(*pool[j])); return ok;
            }
        }
        if (n == "mv")
        {
            std::size_t j = op.a[1];
            if (i == j || !pool[j]) return "S";
            pool[i].reset(); arm(); pool[i].emplace(std::move(*pool[j])); return ok;
        }
        if (n == "as" || n == "ma")
        {
            std::size_t j = op.a[1];
            if (!pool[j]) return "S";
        }
        // ma,i,i is v = std::move(v): executed; afterwards v is compared like any other moved-from object
        if (!pool[i]) return "S";
        FV& v = *pool[i];
        if constexpr (COPY)
        {
            // auto&&: an operator= that returns by value still compiles here and is reported (D!ret) instead of breaking the build
            if (n == "as") { arm(); auto&& r = (v = static_cast<const FV&>(*pool[op.a[1]])); return &r == &v ? ok : "D!ret"; }
            if (n == "la")
            {
                with_il<E>(op.xs, [&](std::initializer_list<E>& il) { arm(); auto&& r = (v = il); if (&r != &v) ok = "D!ret"; });
                return ok;
            }
            // value categories of the argument: named lvalue, const lvalue, temporary (there is no push_back(T&&))
            if (n == "in")
            {
                E x = mk<E>(static_cast<int>(op.a[1]));
                const E& cx = x;
                arm();
                auto r = (op.form % 2 == 0) ? v.insert(x) : v.insert(cx);
                return r + 1 == v.size() ? ok : "D!ret";
            }
            if (n == "pb")
            {
                E x = mk<E>(static_cast<int>(op.a[1]));
                const E& cx = x;
                arm();
                auto r = (op.form % 3 == 0) ? v.push_back(x) : (op.form % 3 == 1) ? v.push_back(cx) : v.push_back(mk<E>(static_cast<int>(op.a[1])));
                return r + 1 == v.size() ? ok : "D!ret";
            }
            if (n == "ir" || n == "pr")
            {
                std::vector<E> src;
                for (int x : op.xs) src.push_back(mk<E>(x));
                arm();
                if (n == "ir") v.insert(v.begin() + op.a[1], src.begin(), src.end());
                else v.push_back(src.begin(), src.end());
                return ok;
            }
            if (n == "irs" || n == "prs")
            {
                std::vector<E> src;
                for (int x : op.xs) src.push_back(mk<E>(x));
                SinglePass<E> first, last;
                first.src = &src; first.pos = std::make_shared<std::size_t>(0); first.is_end = false;
                arm();
                if (n == "irs") v.insert(v.begin() + op.a[1], first, last);
                else v.push_back(first, last);
                return ok;
            }
            // arguments that alias the container itself (only live elements / live sub-ranges may be named)
            if (n == "ea" || n == "ba" || n == "ia" || n == "pa")
            {
                std::size_t k = (n == "ea") ? op.a[2] : op.a[1];
                if (k >= v.size()) return "S";
                arm();
                if (n == "ea") { v.emplace(v.begin() + op.a[1], v[k]); return ok; }
                if (n == "ba") { auto r = v.emplace_back(v[k]); return r + 1 == v.size() ? ok : "D!ret"; }
                if (n == "ia") { auto r = v.insert(static_cast<const E&>(v[k])); return r + 1 == v.size() ? ok : "D!ret"; }
                auto r = v.push_back(v[k]);
                return r + 1 == v.size() ? ok : "D!ret";
            }
            if (n == "sr" || n == "ps")
            {
                std::size_t a = (n == "sr") ? op.a[2] : op.a[1], b = (n == "sr") ? op.a[3] : op.a[2];
                if (!(a <= b && b <= v.size())) return "S";
                arm();
                if (n == "sr") v.insert(v.begin() + op.a[1], v.begin() + a, v.begin() + b);
                else v.push_back(v.begin() + a, v.begin() + b);
                return ok;
            }
            if (n == "il")
            {
                with_il<E>(op.xs, [&](std::initializer_list<E>& il) { arm(); v.insert(v.begin() + op.a[1], il); });
                return ok;
            }
        }
        // no arguments: the new element is T()
        if (n == "ebd") { arm(); auto r = v.emplace_back(); return r + 1 == v.size() ? ok : "D!ret"; }
        if (n == "emd") { arm(); v.emplace(v.begin() + op.a[1]); return ok; }
        // positions before begin() (= end() - d on an empty vector); never formed from a null data pointer
        if (n == "erb" || n == "emb" || n == "irb")
        {
            if (v.data() == nullptr) return "E(null-storage)";
            auto pos = v.begin() - op.a[1];
            arm();
            if (n == "erb") { v.erase(pos); return ok; }
            if (n == "emb") { emplace_form(v, pos, false, static_cast<int>(op.a[2]), op.form); return ok; }
            if constexpr (COPY)
            {
                std::vector<E> src;
                for (int x : op.xs) src.push_back(mk<E>(x));
                v.insert(pos, src.begin(), src.end());
                return ok;
            }
        }
        if (n == "ma") { arm(); auto&& r = (v = std::move(*pool[op.a[1]])); return &r == &v ? ok : "D!ret"; }
        if (n == "at") { (void)ch(v.at(op.a[1])); (void)ch(static_cast<const FV&>(v).at(op.a[1])); return ok; }
        if (n == "get") { return get_dyn(v, op.a[1]) == 'R' ? "R" : ok; }
        if (n == "em") { arm(); emplace_form(v, v.begin() + op.a[1], false, static_cast<int>(op.a[2]), op.form); return ok; }
        if (n == "eb") { arm(); auto r = emplace_form(v, nullptr, true, static_cast<int>(op.a[1]), op.form); return r + 1 == v.size() ? ok : "D!ret"; }
        if (n == "im")
        {
            E x = mk<E>(static_cast<int>(op.a[1]));
            arm();
            auto r = (op.form % 2 == 0) ? v.insert(mk<E>(static_cast<int>(op.a[1]))) : v.insert(std::move(x));
            return r + 1 == v.size() ? ok : "D!ret";
        }
        // std::swap: move construction of a temporary and two move assignments
        if (n == "sw")
        {
            std::size_t j = op.a[1];
            if (i == j || !pool[j]) return "S";
            using std::swap;
            swap(v, *pool[j]);
            return ok;
        }
        if (n == "po") { v.pop_back(); return ok; }
        if (n == "er") { arm(); v.erase(v.begin() + op.a[1]); return ok; }
        return "BADOP";
    }

    std::string run(const std::vector<std::string>& w)
    {
        std::string out;
        for (std::size_t k = 1; k < w.size(); k++)
        {
            if (k > 1) out.push_back(' ');
            Op op;
            if (!parse_op(w[k], op)) return "BADCASE";
            if (refused(op)) { out += "NA"; continue; }
            bool usemf = false;
            for (auto i : uses(op)) if (mf[i]) usemf = true;
            if (usemf) { out += "K"; continue; }
            if (bad_position(op)) { out += "NA"; continue; }
            std::string oc;
            try { oc = exec(op); }
            catch (const nitro::except::exception&) { oc = "R"; }
            catch (const ElemThrow&) { oc = "F"; }
            catch (const std::exception& e) { oc = std::string("E(") + typeid(e).name() + ")"; }
            Track::countdown() = -1; Track::ccount() = -1; Track::cpending() = false;
            const std::string& n = op.name;
            std::size_t i = op.a[0];
            if ((n == "mv" || n == "ma") && oc[0] == 'D') { mf[i] = false; mf[op.a[1]] = true; }
            else if ((n == "n" || n == "nf" || n == "nfl" || n == "nfa" || n == "nfi" || n == "nfv" || n == "nl" || n == "cp" || n == "de") && oc != "S") mf[i] = false;
            else if ((n == "as" || n == "la") && oc[0] == 'D') mf[i] = false;
            out += oc;
            auto ws = writes(op);
            if (ws.size() == 2 && ws[0] > ws[1]) std::swap(ws[0], ws[1]);
            if (ws.size() == 2 && ws[0] == ws[1]) ws.pop_back();
            if (oc != "S")
                for (auto j : ws) { out += ":" + std::to_string(j) + "=" + state(j); shadow[j] = snapshot(j); }
            // objects the operation must not have touched
            for (std::size_t j = 0; j < NPOOL; j++)
            {
                bool written = false;
                for (auto x : ws) if (x == j) written = true;
                if (written && oc != "S") continue;
                std::string now = snapshot(j);
                if (shadow[j].empty()) shadow[j] = "X";
                if (now != shadow[j]) { out += ":ALIAS" + std::to_string(j); shadow[j] = now; }
            }
        }
        for (auto& p : pool) p.reset();
        if (!Track::live().empty()) { out += " LEAK(" + std::to_string(Track::live().size()) + ")"; Track::live().clear(); }
        if (Track::trap()) { out += " TRAP"; Track::trap() = false; }
        return out.empty() ? "-" : out;
    }
};

std::string run_case(const std::vector<std::string>& w)
{
    if (w.empty()) return "BADCASE";
    Track::countdown() = -1;
    std::string r;
    try
    {
        if (w[0] == "C") { Interp<ElemC> in; r = in.run(w); }
        else if (w[0] == "M") { Interp<ElemM> in; r = in.run(w); }
        else if (w[0] == "T") { Interp<ElemT> in; r = in.run(w); }
        else if (w[0] == "U") { Interp<ElemU> in; r = in.run(w); }
        else if (w[0] == "P") { Interp<Plain> in; r = in.run(w); }
        else if (w[0] == "S") { Interp<Str> in; r = in.run(w); }
        else if (w[0] == "Q") { Interp<UPtr> in; r = in.run(w); }
        else return "BADCASE";
    }
    catch (...)
    {
        Track::live().clear(); Track::trap() = false; Track::countdown() = -1;
        throw;
    }
    return r;
}
} // namespace

// On a broken tree thousands of cases may end in a sanitizer report, each followed by a restart of this driver by the
// runner; symbolising every report (an external symbolizer process per crash) would dominate the run time.  The crash
// kind on the first report line is what the check uses; replaying a case by hand with ASAN_OPTIONS=symbolize=1 gives
// the full stack.
extern "C" const char* __asan_default_options() { return "symbolize=0:fast_unwind_on_fatal=1"; }
extern "C" const char* __ubsan_default_options() { return "symbolize=0"; }

int main(int argc, char** argv) { return vh::driver_main(argc, argv, run_case); }

// harness/own_driver.cpp — implementation side of the ownership cluster:
//   C18: nitro::lang::quaint_ptr ("q" cases) and nitro::lang::optional ("o" cases)
//   C19: nitro::env::get ("e" cases)          (nitro::dl is in dl_driver.cpp)
// Everything goes through the public API; what is observed is what instrumented payload types record
// (per-type constructor/destructor counters, which object a destructor of which type ran on) plus
// get()/operator bool/as<T>() of the pointers and operator bool/operator* of the optionals.
#include "common.hpp"
#include <nitro/env/get.hpp>
#include <nitro/lang/optional.hpp>
#include <nitro/lang/quaint_ptr.hpp>

#include <cstring>
#include <stdexcept>
#include <map>
#include <memory>
#include <optional>
#include <set>
#include <sanitizer/lsan_interface.h>

using vh::hex;
using vh::split_on;
using vh::unhex;

static std::string join(const std::vector<std::string>& l, const char* sep, const char* empty = ".")
{
    if (l.empty()) return empty;
    std::string r;
    for (std::size_t i = 0; i < l.size(); i++) { if (i) r += sep; r += l[i]; }
    return r;
}
static std::vector<std::string> fields(const std::string& s)
{
    if (s == ".") return {};
    return split_on(s, ',');
}
// Leaks: the bytes the allocator has handed out are compared before and after every case (cheap); only when they grew
// is LeakSanitizer asked (about 5 ms), and only if it confirms is ";LEAK" appended — so a leak is an observation of the
// case that caused it, not an exit status nobody reads, and one-time library allocations raise no alarm.
// (gcc ships no sanitizer/allocator_interface.h; the two functions are part of libasan)
extern "C" std::size_t __sanitizer_get_current_allocated_bytes(void);
extern "C" std::size_t __sanitizer_get_allocated_size(const volatile void* p);
static std::size_t heap_now() { return __sanitizer_get_current_allocated_bytes(); }

// ===================================================================== quaint_ptr
namespace q
{
struct Rec
{
    int type;
    bool alive;
    std::vector<int> destroyed_by;
};
static std::vector<Rec> objs;
static std::map<const void*, int> by_addr; // the most recent object constructed at an address (alive or not)
static int ctor_n[3], dtor_n[3], dtor_unknown;

static void on_ctor(const void* p, int t)
{
    objs.push_back({ t, true, {} });
    by_addr[p] = static_cast<int>(objs.size()) - 1;
    ctor_n[t]++;
}
// called by the destructor of static type t, whatever object it was run on
static void on_dtor(const void* p, int t)
{
    dtor_n[t]++;
    auto it = by_addr.find(p);
    if (it == by_addr.end()) { dtor_unknown++; return; }
    Rec& r = objs[it->second];
    r.destroyed_by.push_back(t); // a second entry is the double-destroy trap
    r.alive = false;
}
// re-entrant payloads ("a child unregisters itself from its parent"): a payload created with mode != 0 reaches back, from its
// destructor, to the quaint_ptr that owns it — any pool pointer that still points at it, and its home slot if that is empty —
// and calls reset() on it (mode 1), assigns nullptr to it (2), or both (3).  Only while the driver performs an operation in
// which unique_ptr empties / re-seats the pointer BEFORE it runs the deleter (reset, = nullptr, move assignment: `armed`);
// never while the owner itself is being destroyed.  On such an owner the calls are no-ops, the object dies once.
// (Moving from the owner / move-assigning onto it would replace the std::function deleter while it runs: not done.)
static std::vector<std::optional<nitro::lang::quaint_ptr>>* g_pool = nullptr;
static bool armed = false;
static void reenter(const void* self, int& mode, std::size_t home)
{
    if (!mode || !armed || !g_pool) return;
    const int m = mode;
    mode = 0; // once
    for (std::size_t i = 0; i < g_pool->size(); i++)
    {
        auto& s = (*g_pool)[i];
        if (!s.has_value()) continue;
        const void* g = s->get();
        if (g == self || (i == home && g == nullptr))
        {
            if (m & 1) s->reset();
            if (m & 2) *s = nullptr;
        }
    }
}
template <int T, std::size_t PAD>
struct Payload
{
    int id;
    int mode = 0;
    std::size_t home = 0;
    unsigned char pad[PAD];
    // fail: the constructor throws before the object exists (nothing registered, no destructor may ever run on it)
    explicit Payload(int i, bool fail = false, int md = 0, std::size_t hm = 0) : id(i), mode(md), home(hm)
    {
        if (fail) throw std::runtime_error("payload constructor fails");
        std::memset(pad, 0x40 + T, PAD);
        on_ctor(this, T);
    }
    Payload(const Payload&) = delete;
    Payload& operator=(const Payload&) = delete;
    ~Payload()
    {
        reenter(this, mode, home);
        on_dtor(this, T);
    }
};
using A = Payload<0, 4>;
using B = Payload<1, 48>;
// C is built from several arguments of different kinds (an int, a move-only unique_ptr, an lvalue string, an rvalue string):
// make_quaint must forward them all
struct C : Payload<2, 300>
{
    bool args_ok;
    C(int i, std::unique_ptr<int> mo, const std::string& lv, std::string&& rv, bool fail = false, int md = 0, std::size_t hm = 0)
    : Payload<2, 300>(i, fail, md, hm), args_ok(mo && *mo == i + 1 && lv == "lvalue-argument" && rv == "rvalue-argument-longer-than-sso")
    {
    }
};
static const char TN[] = "ABC";

using QP = nitro::lang::quaint_ptr;

static std::string ptr_obs(const QP& p)
{
    const bool b = static_cast<bool>(p);
    const void* g = p.get();
    if (b != (g != nullptr)) return "?";
    if (!b) return "N";
    auto it = by_addr.find(g);
    if (it == by_addr.end()) return "U";                  // points to nothing the payload types ever constructed
    const Rec& r = objs[it->second];
    if (!r.alive) return "X";                             // dangling
    int seen = -1;
    switch (r.type) { case 0: seen = p.as<A>().id; break; case 1: seen = p.as<B>().id; break; default: seen = p.as<C>().args_ok ? p.as<C>().id : -2; }
    return std::to_string(it->second) + (seen == it->second ? "" : "!");
}

static std::string state_obs(const std::vector<std::optional<QP>>& pool, const std::vector<QP>& vec)
{
    std::vector<std::string> o, p, v;
    for (auto& r : objs)
    {
        std::string s(1, TN[r.type]);
        s += r.alive ? "a" : "d";
        if (!r.destroyed_by.empty()) { s += ":"; for (int t : r.destroyed_by) s += TN[t]; }
        o.push_back(s);
    }
    for (auto& s : pool) p.push_back(s ? ptr_obs(*s) : "G");
    for (auto& e : vec) v.push_back(ptr_obs(e));
    std::string c = "c=" + std::to_string(ctor_n[0]) + "/" + std::to_string(ctor_n[1]) + "/" + std::to_string(ctor_n[2]);
    std::string d = "d=" + std::to_string(dtor_n[0]) + "/" + std::to_string(dtor_n[1]) + "/" + std::to_string(dtor_n[2]);
    if (dtor_unknown) d += "/unknown" + std::to_string(dtor_unknown);
    return join(o, ",") + "|" + join(p, ",") + "|" + join(v, ",") + "|" + c + "|" + d;
}

static QP make(int t, bool fail = false, int md = 0, std::size_t hm = 0)
{
    int id = static_cast<int>(objs.size());
    switch (t)
    {
    case 0: return nitro::lang::make_quaint<A>(id, fail, md, hm);
    case 1: return nitro::lang::make_quaint<B>(id, fail, md, hm);
    default:
    {
        const std::string lv = "lvalue-argument";
        return nitro::lang::make_quaint<C>(id, std::make_unique<int>(id + 1), lv, std::string("rvalue-argument-longer-than-sso"), fail, md, hm);
    }
    }
}
static_assert(!std::is_copy_constructible<QP>::value && !std::is_copy_assignable<QP>::value, "quaint_ptr must not be copyable");
static_assert(std::is_move_constructible<QP>::value && std::is_move_assignable<QP>::value && std::is_default_constructible<QP>::value,
              "quaint_ptr must be movable and default constructible");

static void cleanup()
{
    std::vector<Rec>().swap(objs);
    by_addr.clear();
    std::memset(ctor_n, 0, sizeof ctor_n);
    std::memset(dtor_n, 0, sizeof dtor_n);
    dtor_unknown = 0;
}
static std::string run(int n, const std::string& opsw)
{
    cleanup();
    std::string out;
    {
        std::vector<std::optional<QP>> pool(n);
        std::vector<QP> vec;
        struct Pub { Pub(std::vector<std::optional<QP>>* p) { g_pool = p; armed = false; } ~Pub() { g_pool = nullptr; armed = false; } } pub(&pool);
        struct Arm { Arm() { armed = true; } ~Arm() { armed = false; } };
        auto live = [&](std::size_t i) { return i < pool.size() && pool[i].has_value(); };
        for (auto& op : fields(opsw))
        {
            auto f = split_on(op, '.');
            auto arg = [&](std::size_t k) { return static_cast<std::size_t>(std::stoul(f.at(k))); };
            bool ok = false;
            if (f[0] == "mk" || f[0] == "mr")
            {
                // mr.i.t.m: the payload is re-entrant with mode m and home slot i
                std::size_t i = arg(1);
                int t = static_cast<int>(arg(2));
                const int md = f[0] == "mr" ? static_cast<int>(arg(3)) : 0;
                if (md < 0 || md > 3) return "BADCASE";
                if (i < pool.size() && t >= 0 && t < 3)
                {
                    ok = true;
                    if (pool[i]) { QP nw = make(t, false, md, i); Arm a; *pool[i] = std::move(nw); } else pool[i].emplace(make(t, false, md, i));
                }
            }
            else if (f[0] == "mc")
            {
                std::size_t i = arg(1), j = arg(2);
                if (i < pool.size() && !pool[i] && live(j)) { ok = true; pool[i].emplace(std::move(*pool[j])); }
            }
            else if (f[0] == "ma")
            {
                std::size_t i = arg(1), j = arg(2);
                if (live(i) && live(j)) { ok = true; QP& src = *pool[j]; Arm a; *pool[i] = std::move(src); }
            }
            else if (f[0] == "rs") { std::size_t i = arg(1); if (live(i)) { ok = true; Arm a; pool[i]->reset(); } }
            else if (f[0] == "dr") { std::size_t i = arg(1); if (live(i)) { ok = true; pool[i].reset(); } }
            else if (f[0] == "vp") { std::size_t i = arg(1); if (live(i)) { ok = true; vec.push_back(std::move(*pool[i])); } }
            else if (f[0] == "vg") { ok = true; vec.reserve(vec.capacity() + 1); }
            else if (f[0] == "vc") { ok = true; vec.clear(); }
            else if (f[0] == "vt")
            {
                std::size_t i = arg(1), k = arg(2);
                if (live(i) && k < vec.size()) { ok = true; Arm a; *pool[i] = std::move(vec[k]); }
            }
            else if (f[0] == "an") { std::size_t i = arg(1); if (live(i)) { ok = true; Arm a; *pool[i] = nullptr; } }
            else if (f[0] == "vn") { std::size_t k = arg(1); if (k < vec.size()) { ok = true; vec[k] = nullptr; } }
            else if (f[0] == "sw")
            {
                std::size_t i = arg(1), j = arg(2);
                if (live(i) && live(j)) { ok = true; using std::swap; swap(*pool[i], *pool[j]); }
            }
            else if (f[0] == "dc") { std::size_t i = arg(1); if (i < pool.size() && !pool[i]) { ok = true; pool[i].emplace(); } }
            else if (f[0] == "vo") { if (!vec.empty()) { ok = true; vec.pop_back(); } }
            else if (f[0] == "mx" || f[0] == "vx")
            {
                // make_quaint<T>(...) with a throwing T constructor, as the source of an assignment / emplace / push_back
                const bool intovec = f[0] == "vx";
                std::size_t i = intovec ? 0 : arg(1);
                int t = static_cast<int>(arg(intovec ? 1 : 2));
                if (i < pool.size() && t >= 0 && t < 3)
                {
                    try
                    {
                        if (intovec) vec.push_back(make(t, true));
                        else if (pool[i]) *pool[i] = make(t, true);
                        else pool[i].emplace(make(t, true));
                        out += "nothrow|" + state_obs(pool, vec) + ";";
                    }
                    catch (const std::runtime_error&) { out += "throw|" + state_obs(pool, vec) + ";"; }
                    continue;
                }
            }
            else if (f[0] == "ve") { std::size_t k = arg(1); if (k < vec.size()) { ok = true; vec.erase(vec.begin() + static_cast<std::ptrdiff_t>(k)); } }
            else return "BADCASE";
            out += (ok ? "ok|" : "skip|") + state_obs(pool, vec) + ";";
        }
        // end of the history: every owner goes away
        for (auto& s : pool) s.reset();
        vec.clear();
        vec.shrink_to_fit();
        out += "fin|" + state_obs(pool, vec);
    }
    return out;
}
} // namespace q

// ===================================================================== optional
namespace o
{
struct Cnt
{
    std::string v;
    static int live;
    explicit Cnt(const std::string& s) : v(s) { live++; }
    Cnt(const Cnt& x) : v(x.v) { live++; }
    Cnt(Cnt&& x) : v(std::move(x.v)) { live++; }
    Cnt& operator=(const Cnt&) = default;
    Cnt& operator=(Cnt&&) = default;
    ~Cnt() { live--; }
};
int Cnt::live = 0;

// a class constructible from ANYTHING (unconstrained explicit template constructor, like std::any): whatever it is built
// from that is not a string or another Any is recorded as such, so a "copy" that really converted the optional shows
struct Any
{
    std::string v;
    Any(const Any&) = default;
    Any(Any&&) = default;
    Any& operator=(const Any&) = default;
    Any& operator=(Any&&) = default;
    template <class U>
    explicit Any(U&& u)
    {
        using D = std::decay_t<U>;
        if constexpr (std::is_same<D, Any>::value) v = u.v;
        else if constexpr (std::is_same<D, std::string>::value) v = u;
        else if constexpr (std::is_constructible<bool, U&&>::value) v = std::string("<converted:") + (static_cast<bool>(u) ? "1" : "0") + ">";
        else v = "<converted>";
    }
};
// a class implicitly convertible from bool
struct FromBool
{
    bool b;
    FromBool(bool x) : b(x) {}
};

// the wire value (a byte string) <-> T.  bool / FromBool: one byte 00 or 01; int: decimal text
static std::string val(const std::string& s) { return s; }
static std::string val(const Cnt& c) { return c.v; }
static std::string val(const Any& a) { return a.v; }
static std::string val(bool b) { return std::string(1, b ? '\x01' : '\x00'); }
static std::string val(const FromBool& f) { return std::string(1, f.b ? '\x01' : '\x00'); }
static std::string val(int i) { return std::to_string(i); }
static std::string mk(const std::string& s, const std::string*) { return s; }
static Cnt mk(const std::string& s, const Cnt*) { return Cnt(s); }
static Any mk(const std::string& s, const Any*) { return Any(s); }
static bool mk(const std::string& s, const bool*) { return !s.empty() && s[0] != 0; }
static FromBool mk(const std::string& s, const FromBool*) { return FromBool(!s.empty() && s[0] != 0); }
static int mk(const std::string& s, const int*) { return std::stoi(s); }
template <typename T> static std::string live_obs(const T*) { return "-"; }
static std::string live_obs(const Cnt*) { return std::to_string(Cnt::live); }

template <typename T>
static std::string state_obs(const std::vector<std::unique_ptr<nitro::lang::optional<T>>>& sl)
{
    std::vector<std::string> v;
    std::set<const void*> addrs;
    std::size_t engaged = 0;
    for (auto& s : sl)
    {
        if (*s)
        {
            const T& r = **s;
            v.push_back("V" + hex(val(r)));
            addrs.insert(&r);
            engaged++;
        }
        else v.push_back("E");
    }
    return join(v, ",") + "|" + (addrs.size() == engaged ? "1" : "0") + "|" + live_obs(static_cast<const T*>(nullptr));
}

template <typename T>
static std::string run(int n, const std::string& opsw)
{
    using O = nitro::lang::optional<T>;
    const T* tag = nullptr;
    std::string out;
    {
        std::vector<std::unique_ptr<O>> sl;
        for (int i = 0; i < n; i++) sl.push_back(std::make_unique<O>());
        for (auto& op : fields(opsw))
        {
            auto f = split_on(op, '.');
            auto arg = [&](std::size_t k) { return static_cast<std::size_t>(std::stoul(f.at(k))); };
            std::size_t i = arg(1);
            std::string r = "-";
            if (i >= sl.size()) return "BADCASE";
            // the source is offered as const lvalue / NON-CONST lvalue / rvalue: three overload-resolution paths each
            if (f[0] == "va") { const T x = mk(unhex(f.at(2)), tag); *sl[i] = x; }                 // operator=(const T&)
            else if (f[0] == "vn") { T x = mk(unhex(f.at(2)), tag); *sl[i] = x; }                  // non-const lvalue T
            else if (f[0] == "vm") { *sl[i] = mk(unhex(f.at(2)), tag); }                           // operator=(T&&)
            else if (f[0] == "vc") { const T x = mk(unhex(f.at(2)), tag); auto nw = std::make_unique<O>(x); sl[i] = std::move(nw); }
            else if (f[0] == "vq") { T x = mk(unhex(f.at(2)), tag); auto nw = std::make_unique<O>(x); sl[i] = std::move(nw); }
            else if (f[0] == "vr") { auto nw = std::make_unique<O>(mk(unhex(f.at(2)), tag)); sl[i] = std::move(nw); }
            else if (f[0] == "as") { std::size_t j = arg(2); if (j >= sl.size()) return "BADCASE"; const O& src = *sl[j]; *sl[i] = src; }
            else if (f[0] == "an") { std::size_t j = arg(2); if (j >= sl.size()) return "BADCASE"; O& src = *sl[j]; *sl[i] = src; }
            else if (f[0] == "ar")
            {
                std::size_t j = arg(2);
                if (j >= sl.size()) return "BADCASE";
                O tmp(static_cast<const O&>(*sl[j])); // an independent optional with the same content ...
                *sl[i] = std::move(tmp);              // ... offered as an rvalue
            }
            else if (f[0] == "cc") { std::size_t j = arg(2); if (j >= sl.size()) return "BADCASE"; const O& src = *sl[j]; auto nw = std::make_unique<O>(src); sl[i] = std::move(nw); }
            else if (f[0] == "cn") { std::size_t j = arg(2); if (j >= sl.size()) return "BADCASE"; O& src = *sl[j]; auto nw = std::make_unique<O>(src); sl[i] = std::move(nw); }
            else if (f[0] == "cr")
            {
                std::size_t j = arg(2);
                if (j >= sl.size()) return "BADCASE";
                O tmp(static_cast<const O&>(*sl[j]));
                auto nw = std::make_unique<O>(std::move(tmp));
                sl[i] = std::move(nw);
            }
            else if (f[0] == "ae") { *sl[i] = O(); }
            else if (f[0] == "dc") { auto nw = std::make_unique<O>(); sl[i] = std::move(nw); }
            else if (f[0] == "rd" || f[0] == "rc" || f[0] == "rm" || f[0] == "rp" || f[0] == "rt")
            {
                // the read accessors (operator* and explicit operator bool; the class has no others) on the object as
                //   rd: non-const lvalue   rc: const lvalue   rm: std::move(named)   rp: prvalue returned by a function
                //   rt: member of a temporary.
                // The value is only LOOKED AT through the returned reference (no T is constructed from it), inside the full
                // expression, so a legitimate "move out of temporaries" overload would change nothing here.
                struct Holder { O o; };
                auto by_value = [](const O& o) -> O { return o; };
                O& named = *sl[i];
                const O& cnamed = *sl[i];
                bool b = false;
                try
                {
                    if (f[0] == "rd") { b = static_cast<bool>(named); r = "v:" + hex(val(*named)); }
                    else if (f[0] == "rc") { b = static_cast<bool>(cnamed); r = "v:" + hex(val(*cnamed)); }
                    else if (f[0] == "rm") { b = static_cast<bool>(std::move(named)); r = "v:" + hex(val(*std::move(named))); }
                    else if (f[0] == "rp") { b = static_cast<bool>(by_value(cnamed)); r = "v:" + hex(val(*by_value(cnamed))); }
                    else { b = static_cast<bool>(Holder{ O(cnamed) }.o); r = "v:" + hex(val(*Holder{ O(cnamed) }.o)); }
                }
                catch (const nitro::except::exception&) { r = "raise"; }
                if (b != (r != "raise")) r += "!bool";
            }
            else return "BADCASE";
            out += r + "|" + state_obs<T>(sl) + ";";
        }
        for (auto& s : sl) s = std::make_unique<O>(); // every optional of the pool is destroyed (replaced by a fresh empty one)
        out += "fin|" + state_obs<T>(sl);
    }
    return out;
}
} // namespace o

// ===================================================================== env
namespace e
{
// an op is a plain operation  s.N.V | u.N | g.N.D | d.N | n.N  (a get is observed at once) or a result-holding group
// h<form>.<sub>.<sub>...  (fields of a sub-operation separated by ':'): the results of ALL gets of the group are looked at
// only after every sub-operation was made.  The results are held exactly as a caller may hold them:
//   r: `const std::string& x = get(...)`   a: `auto&& x = get(...)`   m: alternately
//   c: as the arguments of ONE call expression  see(get(..), get(..)[, get(..)])  with const std::string& parameters
// With `std::string get(...)` each binding extends the life of its own temporary to the end of the enclosing block, so all
// of this is well defined; a result is a value: it keeps the text it had when get returned.
struct Sub { char k; std::string name, arg; };
static bool parse_sub(const std::vector<std::string>& f, Sub& s)
{
    if (f.size() < 2 || f[0].size() != 1) return false;
    s.k = f[0][0];
    s.name = unhex(f[1]);
    if ((s.k == 's' || s.k == 'g') && f.size() == 3) { s.arg = unhex(f[2]); return true; }
    return (s.k == 'u' || s.k == 'd' || s.k == 'n') && f.size() == 2;
}
struct Held
{
    const std::vector<Sub>& subs;
    char form;
    std::vector<const std::string*> held; // nullptr: that get raised
    std::vector<std::string>& res;
    bool bad = false;
    void finish() { for (auto p : held) res.push_back(p ? "v" + hex(*p) : "raise"); }
    // one stack frame per sub-operation: the reference bound here stays alive while the rest of the group runs
    void go(std::size_t i)
    {
        if (i == subs.size()) { finish(); return; }
        const Sub& s = subs[i];
        const bool fwd = form == 'a' || (form == 'm' && held.size() % 2 == 1);
        switch (s.k)
        {
        case 's': if (setenv(s.name.c_str(), s.arg.c_str(), 1) != 0) { bad = true; return; } go(i + 1); return;
        case 'u': if (unsetenv(s.name.c_str()) != 0) { bad = true; return; } go(i + 1); return;
        case 'g':
            if (fwd) { auto&& x = nitro::env::get(s.name, s.arg); held.push_back(&x); go(i + 1); }
            else { const std::string& x = nitro::env::get(s.name, s.arg); held.push_back(&x); go(i + 1); }
            return;
        case 'd':
            if (fwd) { auto&& x = nitro::env::get(s.name); held.push_back(&x); go(i + 1); }
            else { const std::string& x = nitro::env::get(s.name); held.push_back(&x); go(i + 1); }
            return;
        case 'n':
        {
            bool got = false;
            try
            {
                if (fwd) { auto&& x = nitro::env::get(s.name, nitro::env::no_default); got = true; held.push_back(&x); go(i + 1); }
                else { const std::string& x = nitro::env::get(s.name, nitro::env::no_default); got = true; held.push_back(&x); go(i + 1); }
            }
            catch (const nitro::except::exception&)
            {
                if (got) throw; // not ours: nothing after the get may raise
                held.push_back(nullptr);
                go(i + 1);
            }
            return;
        }
        default: bad = true; return;
        }
    }
};
// hands through whatever get returns, value or reference, unchanged (all three overloads have the same return type)
static decltype(auto) get_of(const Sub& s)
{
    if (s.k == 'g') return nitro::env::get(s.name, s.arg);
    if (s.k == 'd') return nitro::env::get(s.name);
    return nitro::env::get(s.name, nitro::env::no_default);
}
static void see(std::vector<std::string>& res, const std::string& a, const std::string& b)
{
    res.push_back("v" + hex(a));
    res.push_back("v" + hex(b));
}
static void see(std::vector<std::string>& res, const std::string& a, const std::string& b, const std::string& c)
{
    res.push_back("v" + hex(a));
    res.push_back("v" + hex(b));
    res.push_back("v" + hex(c));
}
static std::string run(const std::string& opsw)
{
    std::vector<std::string> res;
    std::set<std::string> touched;
    struct Clean { std::set<std::string>& t; ~Clean() { for (auto& n : t) unsetenv(n.c_str()); } } clean{touched};
    for (auto& op : fields(opsw))
    {
        auto f = split_on(op, '.');
        if (f.at(0).size() == 2 && f[0][0] == 'h')
        {
            std::vector<Sub> subs;
            for (std::size_t i = 1; i < f.size(); i++)
            {
                Sub s;
                if (!parse_sub(split_on(f[i], ':'), s)) return "BADCASE";
                touched.insert(s.name);
                subs.push_back(s);
            }
            const char form = f[0][1];
            if (form == 'c')
            {
                for (auto& s : subs) if (s.k != 'g' && s.k != 'd' && s.k != 'n') return "BADCASE";
                try
                {
                    if (subs.size() == 2) see(res, get_of(subs[0]), get_of(subs[1]));
                    else if (subs.size() == 3) see(res, get_of(subs[0]), get_of(subs[1]), get_of(subs[2]));
                    else return "BADCASE";
                }
                catch (const nitro::except::exception&) { res.push_back("raise"); }
            }
            else if (form == 'r' || form == 'a' || form == 'm')
            {
                if (subs.empty()) return "BADCASE";
                Held h{subs, form, {}, res};
                h.go(0);
                if (h.bad) return "BADCASE";
            }
            else return "BADCASE";
            continue;
        }
        std::string name = unhex(f.at(1));
        touched.insert(name);
        if (f[0] == "s") { if (setenv(name.c_str(), unhex(f.at(2)).c_str(), 1) != 0) return "BADCASE-setenv"; }
        else if (f[0] == "u") { if (unsetenv(name.c_str()) != 0) return "BADCASE-unsetenv"; }
        else if (f[0] == "g") res.push_back("v" + hex(nitro::env::get(name, unhex(f.at(2)))));
        else if (f[0] == "d") res.push_back("v" + hex(nitro::env::get(name)));
        else if (f[0] == "n")
        {
            try { res.push_back("v" + hex(nitro::env::get(name, nitro::env::no_default))); }
            catch (const nitro::except::exception&) { res.push_back("raise"); }
        }
        else return "BADCASE";
    }
    return join(res, ",");
}
} // namespace e

static std::string run_inner(const std::vector<std::string>& w0)
{
    std::vector<std::string> w = w0;
    if (!w.empty() && w.back() == "lsan") w.pop_back(); // tolerated, no longer needed
    // every observation line starts with a one-letter kind word and a blank
    if (w.size() == 3 && w[0] == "q") return "Q " + q::run(std::stoi(w[1]), w[2]);
    if (w.size() == 4 && w[0] == "o" && w[1] == "s") return "O " + o::run<std::string>(std::stoi(w[2]), w[3]);
    if (w.size() == 4 && w[0] == "o" && w[1] == "c") return "O " + o::run<o::Cnt>(std::stoi(w[2]), w[3]);
    if (w.size() == 4 && w[0] == "o" && w[1] == "b") return "O " + o::run<bool>(std::stoi(w[2]), w[3]);
    if (w.size() == 4 && w[0] == "o" && w[1] == "i") return "O " + o::run<int>(std::stoi(w[2]), w[3]);
    if (w.size() == 4 && w[0] == "o" && w[1] == "a") return "O " + o::run<o::Any>(std::stoi(w[2]), w[3]);
    if (w.size() == 4 && w[0] == "o" && w[1] == "f") return "O " + o::run<o::FromBool>(std::stoi(w[2]), w[3]);
    if (w.size() == 2 && w[0] == "e") return "E " + e::run(w[1]);
    return "BADCASE";
}
static std::string run_case(const std::vector<std::string>& w)
{
    q::cleanup();
    const bool measured = !w.empty() && (w[0] == "q" || w[0] == "o"); // setenv keeps memory by design
    const std::size_t before = heap_now();
    std::string out = run_inner(w);
    q::cleanup();
    const std::size_t after = heap_now();
    const std::size_t own = out.capacity() > 15 ? __sanitizer_get_allocated_size(out.data()) : 0;
    if (measured && after > before + own && __lsan_do_recoverable_leak_check()) out += ";LEAK";
    return out;
}
int main(int argc, char** argv) { return vh::driver_main(argc, argv, run_case); }

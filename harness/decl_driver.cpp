// harness/decl_driver.cpp — implementation side of the declaration-API cluster (C13).
// Interprets an operation sequence on a real nitro::options::parser that lives on the heap, so that "move the parser"
// really creates a new object and destroys the old one (ASan then sees any access through a stale back reference).
// Returned object addresses are mapped to first-seen small ids; see ocaml/decl_driver.ml for the case format.
#include "common.hpp"
#include <nitro/options/parser.hpp>

#include <algorithm>
#include <map>
#include <memory>

namespace no = nitro::options;

// A broken tree can make thousands of cases die in ASan; symbolizing every report costs ~0.25 s each and turns a
// failing quick run into ten minutes.  The report's first line (error kind) is all the runner needs; run the
// driver by hand with ASAN_OPTIONS=symbolize=1 to get the stacks of a replayed case.
extern "C" const char* __asan_default_options() { return "symbolize=0"; }

namespace
{
// the declaration call; returns the object (base pointer plus the typed pointer of its kind)
struct declared
{
    no::option* o = nullptr;
    no::multi_option* m = nullptr;
    no::toggle* t = nullptr;
    no::base* b() const
    {
        return o ? static_cast<no::base*>(o) : m ? static_cast<no::base*>(m) : static_cast<no::base*>(t);
    }
};

struct objinfo
{
    no::base* b;
    char kind;
    std::string name;
    std::string group; // key of the group it was declared in
};
struct ctx
{
    std::unique_ptr<no::parser> p;
    std::map<const void*, int> ids, gids;
    std::vector<objinfo> objs; // index = id - 1
    // references the "program" keeps: every group& and option& a call handed out, by name
    std::map<std::string, no::group*> held_groups;
    std::map<std::string, declared> held_objs;
    unsigned ndefaults = 0;
    int id_of(no::base* b, char kind, const std::string& name, const std::string& group)
    {
        auto it = ids.find(static_cast<const void*>(b));
        if (it != ids.end()) return it->second;
        int k = static_cast<int>(ids.size()) + 1;
        ids.emplace(static_cast<const void*>(b), k);
        objs.push_back({ b, kind, name, group });
        return k;
    }
    int gid_of(const no::group* g)
    {
        auto it = gids.find(g);
        if (it != gids.end()) return it->second;
        int k = static_cast<int>(gids.size()) + 1;
        gids.emplace(g, k);
        return k;
    }
};

std::string other(const std::exception& e)
{
    return std::string("OTHER(") + typeid(e).name() + ")";
}

// Every string argument is handed to the library as a heap object that dies right after the call: an
// implementation that kept a reference (or a view) to an argument instead of a copy is then a heap-use-after-free.
using hstr = std::unique_ptr<const std::string>;
hstr heap(const std::string& s) { return std::make_unique<const std::string>(s); }

char lower(char k) { return static_cast<char>(k | 0x20); }
std::string gkey(const std::string& g) { return (g == "*" || g == "@") ? std::string("__default") : vh::unhex(g); }
std::string okey(const std::string& g, char k, const std::string& n) { return gkey(g) + std::string(1, '\0') + lower(k) + n; }

// <group>.option(n) / multi_option(n) / toggle(n); an upper-case kind letter passes a description as well
template <typename G>
declared declare_in(G& grp, char k, const std::string& n)
{
    declared d;
    hstr a = heap(n), desc = heap("a description, with {} and %s");
    bool with_desc = k < 'a';
    switch (lower(k))
    {
    case 'o': d.o = with_desc ? &grp.option(*a, *desc) : &grp.option(*a); break;
    case 'm': d.m = with_desc ? &grp.multi_option(*a, *desc) : &grp.multi_option(*a); break;
    default: d.t = with_desc ? &grp.toggle(*a, *desc) : &grp.toggle(*a); break;
    }
    return d;
}

declared declare(ctx& c, const std::string& g, char k, const std::string& n)
{
    if (g == "*") return declare_in(*c.p, k, n);       // parser.option(n)
    if (g == "@") return declare_in(c.p->group(), k, n); // parser.group().option(n)
    hstr gn = heap(vh::unhex(g));
    no::group& grp = c.p->group(*gn);
    c.held_groups[*gn] = &grp;
    return declare_in(grp, k, n);
}

template <typename Opt>
bool apply_setter(Opt* o, const std::string& f, const std::string& arg)
{
    Opt* r = nullptr;
    hstr a = heap(arg);
    if (f == "s") r = &o->short_name(*a);
    else if (f == "e") r = &o->env(*a);
    else if (f == "m") r = &o->metavar(*a);
    return r == o;
}

// declarations a move target owns before it is assigned over / swapped: none of them may survive
void populate(no::parser& q)
{
    q.option("a").short_name("x");
    q.group("g1").toggle("b").short_name("a");
    q.group("A2").multi_option("no-a");
}

void move_parser(ctx& c, const std::string& how)
{
    if (how == "MC")
    {
        auto q = std::make_unique<no::parser>(std::move(*c.p));
        c.p = std::move(q); // destroys the moved-from parser
    }
    else if (how == "MA")
    {
        auto q = std::make_unique<no::parser>("other", "", "other arguments");
        *q = std::move(*c.p);
        c.p = std::move(q);
    }
    else if (how == "MB")
    {
        auto q = std::make_unique<no::parser>(); // every constructor argument defaulted
        populate(*q);
        *q = std::move(*c.p);
        c.p = std::move(q);
    }
    else if (how == "MW")
    {
        auto q = std::make_unique<no::parser>("swapped");
        populate(*q);
        std::swap(*c.p, *q);
        c.p = std::move(q);
    }
    else if (how == "MV")
    {
        std::vector<no::parser> v;
        v.push_back(std::move(*c.p));
        c.p.reset();
        v.emplace_back("filler");
        v.emplace_back("filler", "about"); // the vector has grown twice: the parser was relocated by its move constructor
        c.p = std::make_unique<no::parser>(std::move(v.front()));
    }
    else
    {
        no::parser tmp(std::move(*c.p)); // heap -> stack
        c.p.reset();
        c.p = std::make_unique<no::parser>(std::move(tmp)); // stack -> heap, tmp dies at the end of the block
    }
}

// "OK" / "USER" / "DEV" / OTHER(..) of one parse call; both public overloads
std::string parse_kind(ctx& c, const std::vector<std::string>& args, bool vec = false)
{
    try
    {
        if (vec)
        {
            std::vector<no::user_input> in;
            for (auto& a : args) in.emplace_back(a);
            c.p->parse(in);
        }
        else
        {
            std::vector<const char*> argv;
            argv.push_back("app");
            for (auto& a : args) argv.push_back(a.c_str());
            c.p->parse(static_cast<int>(argv.size()), argv.data());
        }
        return "OK";
    }
    catch (const no::parser_error&) { return "DEV"; }
    catch (const no::parsing_error&) { return "USER"; }
    catch (const std::exception& e) { return other(e); }
}

// which objects a probe vector reached: those whose has_non_default() is set afterwards
std::string probe(ctx& c, const std::vector<std::string>& args, bool vec)
{
    std::string k = parse_kind(c, args, vec);
    if (k != "OK" && k != "USER") return k;
    std::string r;
    for (std::size_t i = 0; i < c.objs.size(); i++)
        if (static_cast<const no::base*>(c.objs[i].b)->has_non_default())
        {
            if (!r.empty()) r += "+";
            r += std::to_string(i + 1);
        }
    return r.empty() ? "." : r;
}

std::vector<std::string> dedup(const std::vector<std::string>& l)
{
    std::vector<std::string> r;
    for (auto& x : l) if (std::find(r.begin(), r.end(), x) == r.end()) r.push_back(x);
    return r;
}

// the setter part of an operation on the object d (id already assigned): "OK<id>" / "DEVS<id>" / ...
std::string set_on(ctx& c, const declared& d, int id, const std::string& f, const std::string& arg)
{
    try
    {
        bool same = true;
        if (f == "d")
        {
            // repeated defaults differ in value (and overload): has_default() is all the property is about
            unsigned v = c.ndefaults++ % 4;
            static const char* vals[] = { "d", "", "two words", "a default value that is longer than any small-string buffer" };
            hstr a = heap(vals[v]);
            if (d.o) same = &d.o->default_value(*a) == d.o;
            else if (d.m)
            {
                auto l = std::make_unique<std::vector<std::string>>();
                for (unsigned i = 0; i < v; i++) l->push_back(vals[i]);
                same = &d.m->default_value(*l) == d.m;
            }
            else same = (v == 0 ? &d.t->default_value(true) : v == 1 ? &d.t->default_value(2) : &d.t->default_value(false)) == d.t;
        }
        else if (f == "o")
        {
            if (d.o) same = &d.o->optional() == d.o;
            else if (d.m) same = &d.m->optional() == d.m;
            else return "BADCASE";
        }
        else if (f == "r")
        {
            if (!d.t) return "BADCASE";
            same = &d.t->allow_reverse() == d.t;
        }
        else if (d.o) same = apply_setter(d.o, f, arg);
        else if (d.m) same = apply_setter(d.m, f, arg);
        else same = apply_setter(d.t, f, arg);
        if (!same) return "OTHER(setter-returned-another-object)";
        return "OK" + std::to_string(id);
    }
    catch (const no::parser_error&) { return "DEVS" + std::to_string(id); }
    catch (const no::parsing_error&) { return "USER"; }
    catch (const std::exception& e) { return other(e); }
}

// read-only paths: what the groups list through their const getters is exactly what the calls returned
std::string const_paths(const ctx& c)
{
    for (auto& h : c.held_groups)
    {
        const no::group& g = *h.second;
        std::map<std::string, const void*> want[3], got[3];
        for (auto& o : c.objs)
            if (o.group == h.first) want[o.kind == 'o' ? 0 : o.kind == 'm' ? 1 : 2][o.name] = o.b;
        for (auto& e : g.get_options()) got[0][e.first] = static_cast<const no::base*>(&e.second);
        for (auto& e : g.get_multi_options()) got[1][e.first] = static_cast<const no::base*>(&e.second);
        for (auto& e : g.get_toggles()) got[2][e.first] = static_cast<const no::base*>(&e.second);
        for (int i = 0; i < 3; i++) if (want[i] != got[i]) return " CONST-MISMATCH(group-maps)";
        if (g.empty() != (got[0].empty() && got[1].empty() && got[2].empty())) return " CONST-MISMATCH(empty)";
        if (h.first != "__default" && g.name() != h.first) return " CONST-MISMATCH(group-name)";
    }
    for (auto& o : c.objs) if (static_cast<const no::base*>(o.b)->name() != o.name) return " CONST-MISMATCH(name)";
    return "";
}

std::string run_case(const std::vector<std::string>& w)
{
    ctx c;
    // every constructor form, default arguments included
    switch (w.size() % 4)
    {
    case 0: c.p = std::make_unique<no::parser>(); break;
    case 1: c.p = std::make_unique<no::parser>("app"); break;
    case 2: c.p = std::make_unique<no::parser>(*heap("app"), *heap("about this program")); break;
    default: c.p = std::make_unique<no::parser>(*heap("app"), *heap(""), *heap("the arguments")); break;
    }
    std::vector<std::string> names, letters;
    for (auto& word : w)
    {
        auto f = vh::split_on(word, ':');
        bool setter = f[0] == "S" || f[0] == "HS" || f[0] == "HD";
        if ((f[0] == "D" || setter) && f.size() >= 4) names.push_back(f[3]);
        if (setter && f.size() == 6 && f[4] == "s" && f[5].size() == 2) letters.push_back(f[5]);
        // environment variables named by the case must not be set: parse() would read them
        if (setter && f.size() == 6 && f[4] == "e" && f[5] != "-") unsetenv(vh::unhex(f[5]).c_str());
    }
    names = dedup(names);
    letters = dedup(letters);
    c.held_groups["__default"] = &c.p->group(); // the reference to the default group is taken before anything else

    std::string out;
    for (auto& word : w)
    {
        auto f = vh::split_on(word, ':');
        std::string r;
        if (f[0] == "G" && (f.size() == 2 || f.size() == 3))
        {
            try
            {
                hstr gn = heap(vh::unhex(f[1]));
                no::group* g = f.size() == 3 ? &c.p->group(*gn, *heap(vh::unhex(f[2]))) : &c.p->group(*gn);
                c.held_groups[*gn] = g;
                r = "G" + std::to_string(c.gid_of(g));
            }
            catch (const no::parser_error&) { r = "DEV"; }
            catch (const no::parsing_error&) { r = "USER"; }
            catch (const std::exception& e) { r = other(e); }
        }
        else if ((f[0] == "D" && f.size() == 4) || (f[0] == "S" && f.size() >= 5))
        {
            char k = f[2][0];
            std::string n = vh::unhex(f[3]);
            declared d;
            bool ok = false;
            try { d = declare(c, f[1], k, n); ok = true; }
            catch (const no::parser_error&) { r = "DEV"; }
            catch (const no::parsing_error&) { r = "USER"; }
            catch (const std::exception& e) { r = other(e); }
            if (ok)
            {
                int id = c.id_of(d.b(), lower(k), n, gkey(f[1]));
                c.held_objs[okey(f[1], k, n)] = d;
                r = "OK" + std::to_string(id);
                if (f[0] == "S") r = set_on(c, d, id, f[4], f.size() == 6 ? vh::unhex(f[5]) : std::string());
            }
        }
        else if (f[0] == "HD" && f.size() >= 4)
        {
            // declaration (and optional setter) through a group& handed out earlier; parser::group() is not called
            char k = f[2][0];
            std::string n = vh::unhex(f[3]);
            auto h = c.held_groups.find(gkey(f[1]));
            if (h == c.held_groups.end())
                r = "NOH";
            else
            {
                declared d;
                bool ok = false;
                try { d = declare_in(*h->second, k, n); ok = true; }
                catch (const no::parser_error&) { r = "DEV"; }
                catch (const no::parsing_error&) { r = "USER"; }
                catch (const std::exception& e) { r = other(e); }
                if (ok)
                {
                    int id = c.id_of(d.b(), lower(k), n, gkey(f[1]));
                    c.held_objs[okey(f[1], k, n)] = d;
                    r = "OK" + std::to_string(id);
                    if (f.size() >= 5) r = set_on(c, d, id, f[4], f.size() == 6 ? vh::unhex(f[5]) : std::string());
                }
            }
        }
        else if (f[0] == "HS" && f.size() >= 5)
        {
            // setter through an option&/multi_option&/toggle& handed out earlier
            auto h = c.held_objs.find(okey(f[1], f[2][0], vh::unhex(f[3])));
            if (h == c.held_objs.end())
                r = "NOH";
            else
                r = set_on(c, h->second, c.id_of(h->second.b(), lower(f[2][0]), vh::unhex(f[3]), gkey(f[1])), f[4],
                           f.size() == 6 ? vh::unhex(f[5]) : std::string());
        }
        else if (f[0] == "MC" || f[0] == "MA" || f[0] == "MS" || f[0] == "MV" || f[0] == "MW" || f[0] == "MB")
        {
            move_parser(c, f[0]);
            r = "MOVED";
        }
        else if (f[0] == "P")
        {
            r = "P=" + parse_kind(c, {}, out.size() % 2 == 1);
        }
        else
            return "BADCASE";
        if (r == "BADCASE") return r;
        out += r + " ";
    }

    std::string fin = parse_kind(c, {}), fin2 = parse_kind(c, {}, true);
    out += "; F=" + (fin == fin2 ? fin : "OVERLOADS-DIFFER(" + fin + "," + fin2 + ")");
    if (fin == "DEV")
        out += " ; NOPROBE";
    else
    {
        out += " ;";
        c.p->accept_positionals();
        for (auto& hn : names)
        {
            std::string n = vh::unhex(hn);
            bool k1 = false; // known finding K1: --no-<t> also addresses the toggle <t>
            for (auto& o : c.objs) if (o.kind == 't' && "no-" + o.name == n) k1 = true;
            out += " N:" + hn + "=" + (k1 ? std::string("K1") : probe(c, { "--" + n, "v" }, false));
        }
        for (auto& hc : letters) out += " L:" + hc + "=" + probe(c, { "-" + vh::unhex(hc), "v" }, true);
    }

    // display order: the option blocks of usage() start with two blanks and a dash
    {
        std::stringstream s;
        c.p->usage(s);
        std::vector<std::string> ord;
        std::string line;
        while (std::getline(s, line))
        {
            if (line.rfind("  -", 0) != 0) continue;
            auto a = line.find("--");
            if (a == std::string::npos) continue;
            a += 2;
            if (line.compare(a, 5, "[no-]") == 0) a += 5; // a reversible toggle
            auto e = line.find(' ', a);
            ord.push_back(line.substr(a, e == std::string::npos ? std::string::npos : e - a));
        }
        out += " ; ORD " + vh::wire_strs(ord);
    }
    out += " ; T";
    for (std::size_t i = 0; i < c.objs.size(); i++)
    {
        auto& o = c.objs[i];
        const no::base* b = o.b; // getters through the const path
        std::string def = "-", opt = "-";
        if (o.kind == 'o') def = static_cast<const no::option*>(b)->has_default() ? "1" : "0";
        if (o.kind == 'm') def = static_cast<const no::multi_option*>(b)->has_default() ? "1" : "0";
        if (o.kind != 't') opt = b->is_optional() ? "1" : "0";
        out += " " + std::to_string(i + 1) + "=" + vh::hex(b->short_name()) + "/" + vh::hex(b->env()) + "/" +
               vh::hex(b->metavar()) + "/" + def + "/" + opt;
    }
    out += const_paths(c);
    return out;
}
} // namespace
int main(int argc, char** argv) { return vh::driver_main(argc, argv, run_case); }

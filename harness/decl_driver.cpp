// harness/decl_driver.cpp — implementation side of the declaration-API cluster (C13).
// Interprets an operation sequence on a real nitro::options::parser that lives on the heap, so that "move the parser"
// really creates a new object and destroys the old one (ASan then sees any access through a stale back reference).
// Returned object addresses are mapped to first-seen small ids; see ocaml/decl_driver.ml for the case format.
#include "common.hpp"
#include <nitro/options/parser.hpp>

#include <algorithm>
#include <map>
#include <memory>

namespace no = nitro::options;

// A broken tree can make thousands of cases die in ASan; symbolizing every report costs ~0.25 s each and turns a
// failing quick run into ten minutes.  The report's first line (error kind) is all the runner needs; run the
// driver by hand with ASAN_OPTIONS=symbolize=1 to get the stacks of a replayed case.
extern "C" const char* __asan_default_options() { return "symbolize=0"; }

namespace
{
// the declaration call; returns the object (base pointer plus the typed pointer of its kind)
struct declared
{
    no::option* o = nullptr;
    no::multi_option* m = nullptr;
    no::toggle* t = nullptr;
    no::base* b() const
    {
        return o ? static_cast<no::base*>(o) : m ? static_cast<no::base*>(m) : static_cast<no::base*>(t);
    }
};

struct objinfo
{
    no::base* b;
    char kind;
    std::string name;
};
struct ctx
{
    std::unique_ptr<no::parser> p;
    std::map<const void*, int> ids, gids;
    std::vector<objinfo> objs; // index = id - 1
    // references the "program" keeps: every group& and option& a call handed out, by name
    std::map<std::string, no::group*> held_groups;
    std::map<std::string, declared> held_objs;
    int id_of(no::base* b, char kind, const std::string& name)
    {
        auto it = ids.find(static_cast<const void*>(b));
        if (it != ids.end()) return it->second;
        int k = static_cast<int>(ids.size()) + 1;
        ids.emplace(static_cast<const void*>(b), k);
        objs.push_back({ b, kind, name });
        return k;
    }
    int gid_of(const no::group* g)
    {
        auto it = gids.find(g);
        if (it != gids.end()) return it->second;
        int k = static_cast<int>(gids.size()) + 1;
        gids.emplace(g, k);
        return k;
    }
};

std::string other(const std::exception& e)
{
    return std::string("OTHER(") + typeid(e).name() + ")";
}

declared declare(ctx& c, const std::string& g, char k, const std::string& n)
{
    declared d;
    if (g == "*")
    {
        if (k == 'o') d.o = &c.p->option(n);
        else if (k == 'm') d.m = &c.p->multi_option(n);
        else d.t = &c.p->toggle(n);
    }
    else
    {
        no::group& grp = c.p->group(vh::unhex(g));
        c.held_groups[vh::unhex(g)] = &grp;
        if (k == 'o') d.o = &grp.option(n);
        else if (k == 'm') d.m = &grp.multi_option(n);
        else d.t = &grp.toggle(n);
    }
    return d;
}

template <typename Opt>
bool apply_setter(Opt* o, const std::string& f, const std::string& arg)
{
    Opt* r = nullptr;
    if (f == "s") r = &o->short_name(arg);
    else if (f == "e") r = &o->env(arg);
    else if (f == "m") r = &o->metavar(arg);
    return r == o;
}

void move_parser(ctx& c, const std::string& how)
{
    if (how == "MC")
    {
        auto q = std::make_unique<no::parser>(std::move(*c.p));
        c.p = std::move(q); // destroys the moved-from parser
    }
    else if (how == "MA")
    {
        auto q = std::make_unique<no::parser>("other", "", "other arguments");
        *q = std::move(*c.p);
        c.p = std::move(q);
    }
    else
    {
        no::parser tmp(std::move(*c.p)); // heap -> stack
        c.p.reset();
        c.p = std::make_unique<no::parser>(std::move(tmp)); // stack -> heap, tmp dies at the end of the block
    }
}

// "OK" / "USER" / "DEV" / OTHER(..) of one parse call
std::string parse_kind(ctx& c, const std::vector<std::string>& args)
{
    std::vector<const char*> argv;
    argv.push_back("app");
    for (auto& a : args) argv.push_back(a.c_str());
    try
    {
        c.p->parse(static_cast<int>(argv.size()), argv.data());
        return "OK";
    }
    catch (const no::parser_error&) { return "DEV"; }
    catch (const no::parsing_error&) { return "USER"; }
    catch (const std::exception& e) { return other(e); }
}

// which objects a probe vector reached: those whose has_non_default() is set afterwards
std::string probe(ctx& c, const std::vector<std::string>& args)
{
    std::string k = parse_kind(c, args);
    if (k != "OK" && k != "USER") return k;
    std::string r;
    for (std::size_t i = 0; i < c.objs.size(); i++)
        if (c.objs[i].b->has_non_default())
        {
            if (!r.empty()) r += "+";
            r += std::to_string(i + 1);
        }
    return r.empty() ? "." : r;
}

std::vector<std::string> dedup(const std::vector<std::string>& l)
{
    std::vector<std::string> r;
    for (auto& x : l) if (std::find(r.begin(), r.end(), x) == r.end()) r.push_back(x);
    return r;
}

std::string gkey(const std::string& g) { return g == "*" ? std::string("__default") : vh::unhex(g); }
std::string okey(const std::string& g, char k, const std::string& n) { return gkey(g) + std::string(1, '\0') + k + n; }

// the setter part of an operation on the object d (id already assigned): "OK<id>" / "DEVS<id>" / ...
std::string set_on(const declared& d, int id, const std::string& f, const std::string& arg)
{
    try
    {
        bool same = true;
        if (f == "d")
        {
            if (d.o) same = &d.o->default_value("d") == d.o;
            else if (d.m) same = &d.m->default_value({ "d" }) == d.m;
            else same = &d.t->default_value(true) == d.t;
        }
        else if (d.o) same = apply_setter(d.o, f, arg);
        else if (d.m) same = apply_setter(d.m, f, arg);
        else same = apply_setter(d.t, f, arg);
        if (!same) return "OTHER(setter-returned-another-object)";
        return "OK" + std::to_string(id);
    }
    catch (const no::parser_error&) { return "DEVS" + std::to_string(id); }
    catch (const no::parsing_error&) { return "USER"; }
    catch (const std::exception& e) { return other(e); }
}

std::string run_case(const std::vector<std::string>& w)
{
    ctx c;
    c.p = std::make_unique<no::parser>("app");
    std::vector<std::string> names, letters;
    for (auto& word : w)
    {
        auto f = vh::split_on(word, ':');
        bool setter = f[0] == "S" || f[0] == "HS" || f[0] == "HD";
        if ((f[0] == "D" || setter) && f.size() >= 4) names.push_back(f[3]);
        if (setter && f.size() == 6 && f[4] == "s" && f[5].size() == 2) letters.push_back(f[5]);
        // environment variables named by the case must not be set: parse() would read them
        if (setter && f.size() == 6 && f[4] == "e" && f[5] != "-") unsetenv(vh::unhex(f[5]).c_str());
    }
    names = dedup(names);
    letters = dedup(letters);
    c.held_groups["__default"] = &c.p->group(); // the reference to the default group is taken before anything else

    std::string out;
    for (auto& word : w)
    {
        auto f = vh::split_on(word, ':');
        std::string r;
        if (f[0] == "G" && f.size() == 2)
        {
            try
            {
                no::group* g = &c.p->group(vh::unhex(f[1]));
                c.held_groups[vh::unhex(f[1])] = g;
                r = "G" + std::to_string(c.gid_of(g));
            }
            catch (const no::parser_error&) { r = "DEV"; }
            catch (const no::parsing_error&) { r = "USER"; }
            catch (const std::exception& e) { r = other(e); }
        }
        else if ((f[0] == "D" && f.size() == 4) || (f[0] == "S" && f.size() >= 5))
        {
            char k = f[2][0];
            std::string n = vh::unhex(f[3]);
            declared d;
            bool ok = false;
            try { d = declare(c, f[1], k, n); ok = true; }
            catch (const no::parser_error&) { r = "DEV"; }
            catch (const no::parsing_error&) { r = "USER"; }
            catch (const std::exception& e) { r = other(e); }
            if (ok)
            {
                int id = c.id_of(d.b(), k, n);
                c.held_objs[okey(f[1], k, n)] = d;
                r = "OK" + std::to_string(id);
                if (f[0] == "S") r = set_on(d, id, f[4], f.size() == 6 ? vh::unhex(f[5]) : std::string());
            }
        }
        else if (f[0] == "HD" && f.size() >= 4)
        {
            // declaration (and optional setter) through a group& handed out earlier; parser::group() is not called
            char k = f[2][0];
            std::string n = vh::unhex(f[3]);
            auto h = c.held_groups.find(gkey(f[1]));
            if (h == c.held_groups.end())
                r = "NOH";
            else
            {
                declared d;
                bool ok = false;
                try
                {
                    if (k == 'o') d.o = &h->second->option(n);
                    else if (k == 'm') d.m = &h->second->multi_option(n);
                    else d.t = &h->second->toggle(n);
                    ok = true;
                }
                catch (const no::parser_error&) { r = "DEV"; }
                catch (const no::parsing_error&) { r = "USER"; }
                catch (const std::exception& e) { r = other(e); }
                if (ok)
                {
                    int id = c.id_of(d.b(), k, n);
                    c.held_objs[okey(f[1], k, n)] = d;
                    r = "OK" + std::to_string(id);
                    if (f.size() >= 5) r = set_on(d, id, f[4], f.size() == 6 ? vh::unhex(f[5]) : std::string());
                }
            }
        }
        else if (f[0] == "HS" && f.size() >= 5)
        {
            // setter through an option&/multi_option&/toggle& handed out earlier
            auto h = c.held_objs.find(okey(f[1], f[2][0], vh::unhex(f[3])));
            if (h == c.held_objs.end())
                r = "NOH";
            else
                r = set_on(h->second, c.id_of(h->second.b(), f[2][0], vh::unhex(f[3])), f[4],
                           f.size() == 6 ? vh::unhex(f[5]) : std::string());
        }
        else if (f[0] == "MC" || f[0] == "MA" || f[0] == "MS")
        {
            move_parser(c, f[0]);
            r = "MOVED";
        }
        else if (f[0] == "P")
        {
            r = "P=" + parse_kind(c, {});
        }
        else
            return "BADCASE";
        out += r + " ";
    }

    std::string fin = parse_kind(c, {});
    out += "; F=" + fin;
    if (fin == "DEV")
        out += " ; NOPROBE";
    else
    {
        out += " ;";
        c.p->accept_positionals();
        for (auto& hn : names)
        {
            std::string n = vh::unhex(hn);
            bool k1 = false; // known finding K1: --no-<t> also addresses the toggle <t>
            for (auto& o : c.objs) if (o.kind == 't' && "no-" + o.name == n) k1 = true;
            out += " N:" + hn + "=" + (k1 ? std::string("K1") : probe(c, { "--" + n, "v" }));
        }
        for (auto& hc : letters) out += " L:" + hc + "=" + probe(c, { "-" + vh::unhex(hc), "v" });
    }

    // display order: the option blocks of usage() start with two blanks and a dash
    {
        std::stringstream s;
        c.p->usage(s);
        std::vector<std::string> ord;
        std::string line;
        while (std::getline(s, line))
        {
            if (line.rfind("  -", 0) != 0) continue;
            auto a = line.find("--");
            if (a == std::string::npos) continue;
            auto e = line.find(' ', a);
            ord.push_back(line.substr(a + 2, e == std::string::npos ? std::string::npos : e - a - 2));
        }
        out += " ; ORD " + vh::wire_strs(ord);
    }
    out += " ; T";
    for (std::size_t i = 0; i < c.objs.size(); i++)
    {
        auto& o = c.objs[i];
        std::string def = "-";
        if (o.kind == 'o') def = static_cast<no::option*>(o.b)->has_default() ? "1" : "0";
        if (o.kind == 'm') def = static_cast<no::multi_option*>(o.b)->has_default() ? "1" : "0";
        out += " " + std::to_string(i + 1) + "=" + vh::hex(o.b->short_name()) + "/" + vh::hex(o.b->env()) + "/" +
               vh::hex(o.b->metavar()) + "/" + def;
    }
    return out;
}
} // namespace
int main(int argc, char** argv) { return vh::driver_main(argc, argv, run_case); }

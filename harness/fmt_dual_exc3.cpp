// harness/fmt_dual_exc3.cpp — C08: the message of an exception made from THREE arguments in their real C++ types
// (one of any real kind at any position, two fillers; see fmt_dual.hpp), by every route, against the ostringstream rendering.
#include "fmt_dual.hpp"

namespace fmtv
{
bool exc_real_pack3(const std::vector<Val>& v, std::string& out)
{
    return with_real_pack3(v, [&](auto&&... a) { out = exc_real(VFWD(a)...); });
}
} // namespace fmtv

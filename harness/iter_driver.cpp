// harness/iter_driver.cpp — implementation side of C20: nitro::lang::enumerate and nitro::lang::reverse in range-for loops.
//
// case:  <adaptor> <kind> <mode> <elems>
//   adaptor  en = enumerate, rv = reverse
//   kind     vec std::vector<int>, arr std::array<int,N>, list std::list<int>, map std::map<int,int> (keys 0..n-1),
//            carr int[N] (N >= 1), il std::initializer_list<int>, fv nitro::lang::fixed_vector<int>
//   mode     l lvalue (the body writes through what it is given), c const lvalue, r temporary inside the for statement,
//            m std::move of a local
//   elems    comma separated ints, "." = none
// observation:  V <visits> A <alias bits | -> C <container afterwards | ->
//   visits   enumerate: index:value,...   reverse: value,...   ("." = none)
//   alias    per visit: does the visited object have the address of the container element it should be (lvalue, const)
//   C        contents after the loop whose body assigned  f(index, value) = 3*value + index + 1  (enumerate)
//            resp. f(value) = 3*value + 7 (reverse)  through the adaptor (mode l only)
// case:  re <scenario> <kind> <mode> <elems>     — the SAME adaptor object / container used more than once
//   kind vec | list | map | fv;  mode l: adaptor over an lvalue container, r: adaptor object owning a temporary
//   en2 / rv2     auto e = enumerate(c); for (x : e) ..; for (x : e) ..;             -> V2 <visits 1> <visits 2>
//   enen / enrv   for (x : enumerate(c)) for (y : enumerate(c) resp. reverse(c)) ..  -> NN i:v=<inner visits>|i:v=<inner visits>...
//   enmod / rvmod adaptor created, THEN every element replaced in place by g(v) = 2*v + 1, then iterated (mode l)
//                                                                                    -> V <visits> A - C <contents>
//   enbe / rvbe   (e.begin() != e.end()) before a loop over e, after it, and with begin()/end() stored in variables
//                 first; number of visits of the loop                                -> BE <3 bits> <count>
// The temporaries of mode r are created inside the range-for statement itself, so that a dangling adaptor is an
// AddressSanitizer report (observation CRASH(...)).
#include "common.hpp"
#include <nitro/lang/enumerate.hpp>
#include <nitro/lang/fixed_vector.hpp>
#include <nitro/lang/reverse.hpp>

#include <algorithm>
#include <array>
#include <functional>
#include <initializer_list>
#include <list>
#include <map>
#include <vector>

namespace nl = nitro::lang;
using Elems = std::vector<int>;

static int fe(std::size_t i, int v) { return 3 * v + static_cast<int>(i) + 1; }
static int fr(int v) { return 3 * v + 7; }

// the int an element stands for, and the int lvalue a write goes to
static int val(const int& v) { return v; }
static int val(const std::pair<const int, int>& p) { return p.second; }
static int val(const std::reference_wrapper<int>& r) { return r.get(); }
static int val(const std::reference_wrapper<const int>& r) { return r.get(); }
static int& slot(int& v) { return v; }
static int& slot(std::pair<const int, int>& p) { return p.second; }
static int& slot(const std::reference_wrapper<int>& r) { return r.get(); }
static const void* addr(const int& v) { return &v; }
static const void* addr(const std::pair<const int, int>& p) { return &p; }
static const void* addr(const std::reference_wrapper<int>& r) { return &r.get(); }
static const void* addr(const std::reference_wrapper<const int>& r) { return &r.get(); }

struct Obs
{
    std::string vis, alias, cont = "-";
    std::size_t count = 0;
    bool runaway = false;
    void visit_e(std::size_t i, int v) { if (!vis.empty()) vis += ","; vis += std::to_string(i) + ":" + std::to_string(v); }
    void visit_r(int v) { if (!vis.empty()) vis += ","; vis += std::to_string(v); }
    std::string str(bool with_alias) const
    {
        if (runaway) return "RUNAWAY";
        return "V " + (vis.empty() ? std::string(".") : vis) + " A " + (with_alias ? (alias.empty() ? std::string(".") : alias) : std::string("-")) + " C " + cont;
    }
};
template <class C> std::vector<const void*> addresses(const C& c)
{
    std::vector<const void*> a;
    for (auto& e : c) a.push_back(addr(e));
    return a;
}
template <class C> std::string contents(const C& c)
{
    std::string r;
    for (auto& e : c) { if (!r.empty()) r += ","; r += std::to_string(val(e)); }
    return r.empty() ? "." : r;
}

// ---- lvalue / const lvalue ranges ----
template <class C> std::string en_lvalue(C& c, bool write)
{
    auto a = addresses(c);
    Obs o;
    for (auto x : nl::enumerate(c))
    {
        if (o.count > a.size() + 2) { o.runaway = true; break; }
        auto&& ref = x.value();
        o.visit_e(x.index(), val(ref));
        o.alias += (o.count < a.size() && addr(ref) == a[o.count]) ? '1' : '0';
        if constexpr (!std::is_const<std::remove_reference_t<decltype(ref)>>::value && !std::is_const<C>::value)
        {
            if (write) slot(ref) = fe(x.index(), val(ref));
        }
        o.count++;
    }
    if (write) o.cont = contents(c);
    return o.str(true);
}
template <class C> std::string rv_lvalue(C& c, bool write)
{
    auto a = addresses(c);
    Obs o;
    for (auto& x : nl::reverse(c))
    {
        if (o.count > a.size() + 2) { o.runaway = true; break; }
        o.visit_r(val(x));
        o.alias += (o.count < a.size() && addr(x) == a[a.size() - 1 - o.count]) ? '1' : '0';
        if constexpr (!std::is_const<C>::value && !std::is_const<std::remove_all_extents_t<C>>::value)
        {
            if (write) slot(x) = fr(val(x));
        }
        o.count++;
    }
    if (write) o.cont = contents(c);
    return o.str(true);
}
// ---- temporaries: the range expression is evaluated inside the for statement ----
template <class Mk> std::string en_rvalue(Mk mk, std::size_t n)
{
    Obs o;
    for (auto x : nl::enumerate(mk()))
    {
        if (o.count > n + 2) { o.runaway = true; break; }
        o.visit_e(x.index(), val(x.value()));
        o.count++;
    }
    return o.str(false);
}
template <class Mk> std::string rv_rvalue(Mk mk, std::size_t n)
{
    Obs o;
    for (auto& x : nl::reverse(mk()))
    {
        if (o.count > n + 2) { o.runaway = true; break; }
        o.visit_r(val(x));
        o.count++;
    }
    return o.str(false);
}
template <class C> std::string en_moved(C c, std::size_t n)
{
    Obs o;
    for (auto x : nl::enumerate(std::move(c)))
    {
        if (o.count > n + 2) { o.runaway = true; break; }
        o.visit_e(x.index(), val(x.value()));
        o.count++;
    }
    return o.str(false);
}
template <class C> std::string rv_moved(C c, std::size_t n)
{
    Obs o;
    for (auto& x : nl::reverse(std::move(c)))
    {
        if (o.count > n + 2) { o.runaway = true; break; }
        o.visit_r(val(x));
        o.count++;
    }
    return o.str(false);
}

// ---- one container kind in every mode ----
template <class Mk> std::string run_container(bool en, char mode, Mk mk, std::size_t n)
{
    using C = decltype(mk());
    switch (mode)
    {
    case 'l': { C c = mk(); return en ? en_lvalue(c, true) : rv_lvalue(c, true); }
    case 'c': { const C c = mk(); return en ? en_lvalue(c, false) : rv_lvalue(c, false); }
    case 'r': return en ? en_rvalue(mk, n) : rv_rvalue(mk, n);
    case 'm': return en ? en_moved(mk(), n) : rv_moved(mk(), n);
    }
    return "BADCASE";
}

// ---- the same adaptor object / container used more than once ----
static int gm(int v) { return 2 * v + 1; }
template <class Ad> std::string visits_en(Ad& e, std::size_t n)
{
    Obs o;
    for (auto x : e)
    {
        if (o.count > n + 2) return "RUNAWAY";
        o.visit_e(x.index(), val(x.value()));
        o.count++;
    }
    return o.vis.empty() ? "." : o.vis;
}
template <class Ad> std::string visits_rv(Ad& r, std::size_t n)
{
    Obs o;
    for (auto& x : r)
    {
        if (o.count > n + 2) return "RUNAWAY";
        o.visit_r(val(x));
        o.count++;
    }
    return o.vis.empty() ? "." : o.vis;
}
template <class Ad, class Vis> std::string scenario_on(const std::string& sc, Ad& e, std::size_t n, Vis vis)
{
    if (sc == "en2" || sc == "rv2")
    {
        std::string a = vis(e, n);
        std::string b = vis(e, n);
        return "V2 " + a + " " + b;
    }
    if (sc == "enbe" || sc == "rvbe")
    {
        bool b1 = e.begin() != e.end();
        std::string v = vis(e, n);
        bool b2 = e.begin() != e.end();
        auto bb = e.begin();
        auto ee = e.end();
        bool b3 = bb != ee;
        std::size_t cnt = v == "." ? 0 : 1 + std::count(v.begin(), v.end(), ',');
        return std::string("BE ") + (b1 ? '1' : '0') + (b2 ? '1' : '0') + (b3 ? '1' : '0') + " " + (v == "RUNAWAY" ? v : std::to_string(cnt));
    }
    return "BADCASE";
}
template <class Mk> std::string run_reuse(const std::string& sc, char mode, Mk mk, std::size_t n)
{
    using C = decltype(mk());
    auto ven = [](auto& e, std::size_t k) { return visits_en(e, k); };
    auto vrv = [](auto& e, std::size_t k) { return visits_rv(e, k); };
    if (sc == "en2" || sc == "enbe")
    {
        if (mode == 'l') { C c = mk(); auto e = nl::enumerate(c); return scenario_on(sc, e, n, ven); }
        if (mode == 'r') { auto e = nl::enumerate(mk()); return scenario_on(sc, e, n, ven); }
    }
    if (sc == "rv2" || sc == "rvbe")
    {
        if (mode == 'l') { C c = mk(); auto r = nl::reverse(c); return scenario_on(sc, r, n, vrv); }
        if (mode == 'r') { auto r = nl::reverse(mk()); return scenario_on(sc, r, n, vrv); }
    }
    if ((sc == "enen" || sc == "enrv") && mode == 'l')
    {
        C c = mk();
        std::string out;
        std::size_t outer = 0;
        for (auto x : nl::enumerate(c))
        {
            if (outer++ > n + 2) return "RUNAWAY";
            Obs in;
            if (sc == "enen")
            {
                for (auto y : nl::enumerate(c)) { if (in.count > n + 2) return "RUNAWAY"; in.visit_e(y.index(), val(y.value())); in.count++; }
            }
            else
            {
                for (auto& y : nl::reverse(c)) { if (in.count > n + 2) return "RUNAWAY"; in.visit_r(val(y)); in.count++; }
            }
            if (!out.empty()) out += "|";
            out += std::to_string(x.index()) + ":" + std::to_string(val(x.value())) + "=" + (in.vis.empty() ? std::string(".") : in.vis);
        }
        return "NN " + (out.empty() ? std::string(".") : out);
    }
    if ((sc == "enmod" || sc == "rvmod") && mode == 'l')
    {
        C c = mk();
        if (sc == "enmod")
        {
            auto e = nl::enumerate(c);
            for (auto& el : c) slot(el) = gm(val(el));
            std::string v = visits_en(e, n);
            return "V " + v + " A - C " + contents(c);
        }
        auto r = nl::reverse(c);
        for (auto& el : c) slot(el) = gm(val(el));
        std::string v = visits_rv(r, n);
        return "V " + v + " A - C " + contents(c);
    }
    return "BADCASE";
}

constexpr std::size_t MAXN = 6;

template <std::size_t N> std::string run_arr(bool en, char mode, const Elems& e)
{
    auto mk = [&e] { std::array<int, N> a{}; for (std::size_t i = 0; i < N; i++) a[i] = e[i]; return a; };
    return run_container(en, mode, mk, N);
}
template <std::size_t N> std::string run_carr(bool en, char mode, const Elems& e)
{
    if constexpr (N == 0) return "BADCASE";
    else
    {
        if (mode == 'l')
        {
            int c[N];
            for (std::size_t i = 0; i < N; i++) c[i] = e[i];
            return en ? en_lvalue(c, true) : rv_lvalue(c, true);
        }
        if (mode == 'c')
        {
            int c0[N];
            for (std::size_t i = 0; i < N; i++) c0[i] = e[i];
            const int(&c)[N] = c0;
            return en ? en_lvalue(c, false) : rv_lvalue(c, false);
        }
        return "BADCASE";
    }
}
// initializer lists need their elements spelled out
template <std::size_t N> struct IL;
#define ILDEF(N, ...)                                                                                                  \
    template <> struct IL<N>                                                                                           \
    {                                                                                                                  \
        static std::string run(bool en, char mode, const Elems& e)                                                     \
        {                                                                                                              \
            if (mode == 'r')                                                                                           \
            {                                                                                                          \
                Obs o;                                                                                                 \
                if (en) { for (auto x : nl::enumerate({ __VA_ARGS__ })) { if (o.count > N + 2) { o.runaway = true; break; } o.visit_e(x.index(), val(x.value())); o.count++; } } \
                else { for (auto& x : nl::reverse({ __VA_ARGS__ })) { if (o.count > N + 2) { o.runaway = true; break; } o.visit_r(val(x)); o.count++; } } \
                return o.str(false);                                                                                   \
            }                                                                                                          \
            std::initializer_list<int> il = { __VA_ARGS__ };                                                           \
            if (mode == 'm') return en ? en_moved(il, N) : rv_moved(il, N);                                            \
            if (mode == 'l' && en) return en_lvalue(il, false);                                                        \
            if (mode == 'c' && en) { const std::initializer_list<int> cil = il; return en_lvalue(cil, false); }        \
            return "BADCASE";                                                                                          \
        }                                                                                                              \
    };
ILDEF(1, e[0])
ILDEF(2, e[0], e[1])
ILDEF(3, e[0], e[1], e[2])
ILDEF(4, e[0], e[1], e[2], e[3])
ILDEF(5, e[0], e[1], e[2], e[3], e[4])
ILDEF(6, e[0], e[1], e[2], e[3], e[4], e[5])
#undef ILDEF
template <> struct IL<0>
{
    static std::string run(bool en, char mode, const Elems&)
    {
        std::initializer_list<int> il = {};
        if (mode == 'm') return en ? en_moved(il, 0) : rv_moved(il, 0);
        if (mode == 'l' && en) return en_lvalue(il, false);
        if (mode == 'c' && en) { const std::initializer_list<int> cil = il; return en_lvalue(cil, false); }
        return "BADCASE";   // enumerate({}) cannot deduce the element type
    }
};

template <template <std::size_t> class F, std::size_t N = 0> struct BySize
{
    static std::string run(std::size_t n, bool en, char mode, const Elems& e)
    {
        if constexpr (N > MAXN) return "BADCASE";
        else
        {
            if (n == N) return F<N>::run(en, mode, e);
            return BySize<F, N + 1>::run(n, en, mode, e);
        }
    }
};
template <std::size_t N> struct ArrF { static std::string run(bool en, char mode, const Elems& e) { return run_arr<N>(en, mode, e); } };
template <std::size_t N> struct CArrF { static std::string run(bool en, char mode, const Elems& e) { return run_carr<N>(en, mode, e); } };

static std::string run_case(const std::vector<std::string>& w)
{
    if (w.size() == 5 && w[0] == "re" && w[3].size() == 1)
    {
        Elems e;
        if (w[4] != ".")
            for (auto& t : vh::split_on(w[4], ',')) e.push_back(std::atoi(t.c_str()));
        const std::string& k = w[2];
        char mode = w[3][0];
        std::size_t n = e.size();
        if (k == "vec") return run_reuse(w[1], mode, [&e] { return std::vector<int>(e.begin(), e.end()); }, n);
        if (k == "list") return run_reuse(w[1], mode, [&e] { return std::list<int>(e.begin(), e.end()); }, n);
        if (k == "map")
            return run_reuse(w[1], mode, [&e] { std::map<int, int> m; for (std::size_t i = 0; i < e.size(); i++) m.emplace(static_cast<int>(i), e[i]); return m; }, n);
        if (k == "fv")
            return run_reuse(w[1], mode, [&e] { nl::fixed_vector<int> v(e.size() + 2); for (int x : e) v.push_back(x); return v; }, n);
        return "BADCASE";
    }
    if (w.size() != 4 || (w[0] != "en" && w[0] != "rv") || w[2].size() != 1) return "BADCASE";
    bool en = w[0] == "en";
    char mode = w[2][0];
    Elems e;
    if (w[3] != ".")
        for (auto& t : vh::split_on(w[3], ',')) e.push_back(std::atoi(t.c_str()));
    const std::string& k = w[1];
    std::size_t n = e.size();
    if (k == "vec") return run_container(en, mode, [&e] { return std::vector<int>(e.begin(), e.end()); }, n);
    if (k == "list") return run_container(en, mode, [&e] { return std::list<int>(e.begin(), e.end()); }, n);
    if (k == "map")
        return run_container(en, mode, [&e] { std::map<int, int> m; for (std::size_t i = 0; i < e.size(); i++) m.emplace(static_cast<int>(i), e[i]); return m; }, n);
    if (k == "fv")
        return run_container(en, mode, [&e] { nl::fixed_vector<int> v(e.size() + 2); for (int x : e) v.push_back(x); return v; }, n);
    if (k == "arr") return BySize<ArrF>::run(n, en, mode, e);
    if (k == "carr") return BySize<CArrF>::run(n, en, mode, e);
    if (k == "il") return BySize<IL>::run(n, en, mode, e);
    return "BADCASE";
}
int main(int argc, char** argv) { return vh::driver_main(argc, argv, run_case); }
